// Shared helpers: deterministic PRNG, hex, byte generators.
pub struct Rng(pub u64);
impl Rng {
    pub fn new(seed: u64) -> Self { Rng(seed.wrapping_mul(0x9E3779B97F4A7C15) ^ 0xD1B54A32D192ED03) }
    pub fn next(&mut self) -> u64 {
        // splitmix64
        self.0 = self.0.wrapping_add(0x9E3779B97F4A7C15);
        let mut z = self.0;
        z = (z ^ (z >> 30)).wrapping_mul(0xBF58476D1CE4E5B9);
        z = (z ^ (z >> 27)).wrapping_mul(0x94D049BB133111EB);
        z ^ (z >> 31)
    }
    pub fn below(&mut self, n: u64) -> u64 { if n == 0 { 0 } else { self.next() % n } }
    pub fn chance(&mut self, num: u64, den: u64) -> bool { self.below(den) < num }
    pub fn pick<'a, T>(&mut self, v: &'a [T]) -> &'a T { &v[self.below(v.len() as u64) as usize] }
    pub fn bytes(&mut self, n: usize) -> Vec<u8> { (0..n).map(|_| self.next() as u8).collect() }
    /// lengths concentrated around 32-byte boundaries
    pub fn len_boundary(&mut self) -> usize {
        match self.below(10) {
            0 => 0,
            1 => 1,
            2 => *self.pick(&[31usize, 32, 33]),
            3 => *self.pick(&[63usize, 64, 65]),
            4 => *self.pick(&[95usize, 96, 97, 127, 128, 129, 255, 256, 257, 511, 512, 513, 1024, 1025]),
            5 => self.below(40) as usize,
            6 => 32 * (self.below(8) as usize),
            7 => 32 * (self.below(8) as usize) + 1,
            8 => self.below(300) as usize,
            _ => self.below(700) as usize,
        }
    }
    pub fn some_bytes(&mut self) -> Vec<u8> {
        let n = self.len_boundary();
        match self.below(6) {
            0 => vec![0u8; n],
            1 => vec![0xffu8; n],
            _ => self.bytes(n),
        }
    }
}

pub fn hx(b: &[u8]) -> String { hex::encode(b) }
pub fn unhx(s: &str) -> Vec<u8> { hex::decode(s).expect("hex") }
