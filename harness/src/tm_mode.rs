// C09 / C10: a stand-alone token manager whose "service" is a user account, driven by
// every class of caller; the asynchronous ESDT issuance is scheduled by the harness.
use crate::util::*;
use crate::vm::*;
use multiversx_sc_scenario::multiversx_chain_vm::tx_mock::{async_callback_tx_input, AsyncCallTxData, TxResult};
use multiversx_sc_scenario::multiversx_chain_vm::types::VMAddress;
use num_bigint::BigUint;
use serde_json::{json, Value};

pub const ISSUE_COST: u64 = 50_000_000_000_000_000;
pub const EPOCH_TIME: u64 = 21600;

fn bn(n: u64) -> BigUint { BigUint::from(n) }

fn opt_addr_nested(a: &Option<VMAddress>) -> Vec<u8> { match a { None => vec![0], Some(x) => { let mut v = vec![1]; v.extend_from_slice(x.as_bytes()); v } } }
fn opt_token_nested(t: &Option<Vec<u8>>) -> Vec<u8> { match t { None => vec![0], Some(x) => { let mut v = vec![1]; v.extend(nested_buf(x)); v } } }

pub fn run(seed: u64, ntraces: usize) {
    let mut r = Rng::new(seed ^ 0x7a3);
    for t in 0..ntraces {
        let mut w = World::new();
        let owner = user_addr(1);
        let s = user_addr(9); let op = user_addr(10); let m = user_addr(11); let f = user_addr(12); let x = user_addr(13);
        let users = [s.clone(), op.clone(), m.clone(), f.clone(), x.clone()];
        w.add_user(&owner, 1_000_000);
        let tok = b"TOK-123456".to_vec();
        for u in &users { w.add_user(u, 1_000_000_000_000_000_000); w.add_esdt(u, &tok, 1_000_000); w.add_esdt(u, b"OTHER-abcdef", 1_000_000); }
        let tmaddr = sc_addr(0x20);
        let ty = *r.pick(&[0u64, 0, 0, 1, 2, 2, 3, 4]);
        let token: Option<Vec<u8>> = match ty { 0 => None, 2 | 3 => Some(if r.chance(1, 4) { b"EGLD".to_vec() } else { tok.clone() }), _ => Some(tok.clone()) };
        let operator: Option<VMAddress> = if r.chance(3, 4) || t % 3 != 0 { Some(op.clone()) } else { None };
        let tid = r.bytes(32);
        // every fifth trace runs across the 2^32-second mark (epochs are computed from the full 64-bit block time)
        let mut now = if t % 5 == 4 { (1u64 << 32) - 3 - r.below(12) } else { 100_000 + r.below(50_000) }; w.set_time(now);
        let mut params = opt_addr_nested(&operator); params.extend(opt_token_nested(&token));
        let st = w.deploy(&owner, &tmaddr, b"tm", vec![s.to_vec(), if ty == 0 { vec![] } else { vec![ty as u8] }, tid.clone(), params]);
        let init = json!({"self": hx(tmaddr.as_bytes()), "service": hx(s.as_bytes()), "type": ty, "tid": hx(&tid),
            "operator": operator.as_ref().map(|a| hx(a.as_bytes())), "token": token.as_ref().map(|t| hx(t)), "now": now,
            "tracked": users.iter().map(|u| hx(u.as_bytes())).chain(std::iter::once(hx(tmaddr.as_bytes()))).collect::<Vec<_>>(),
            "funds": users.iter().map(|u| json!([hx(u.as_bytes()), "1000000000000000000", [[hx(&tok), "1000000"], [hx(b"OTHER-abcdef"), "1000000"]]])).collect::<Vec<_>>(),
            "res": st.json});
        // the manager holds the ESDT local mint / burn roles of its token (granted by the token owner on a real chain)
        if let Some(tk) = &token { if tk != &b"EGLD".to_vec() {
            let acc = w.r.blockchain_mock.state.accounts.get_mut(&tmaddr).unwrap();
            acc.esdt.set_roles(tk.clone(), vec![b"ESDTRoleLocalMint".to_vec(), b"ESDTRoleLocalBurn".to_vec()]);
            // ... and, unasked, the roles of a foreign token (anybody can grant them): the manager must refuse that token by itself
            acc.esdt.set_roles(b"OTHER-abcdef".to_vec(), vec![b"ESDTRoleLocalMint".to_vec(), b"ESDTRoleLocalBurn".to_vec()]); } }
        let mut steps: Vec<Value> = vec![];
        let mut pending: Vec<AsyncCallTxData> = vec![];
        let mut limit: u64 = 0;
        let mut prev_limit: u64 = 0;
        let mut cur_token: Option<Vec<u8>> = token.clone();
        let flow_focus = r.chance(1, 2);
        let nops = 10 + r.below(14) as usize;
        // directed prefix (every third trace): flow one way under a high limit, lower the limit, then a larger transfer the other way
        let mut forced: Vec<(u64, u64)> = vec![];     // (op kind, amount / limit)
        if t % 3 == 0 && cur_token.is_some() { forced = if t % 6 == 0 { vec![(2, 40), (1, 40), (2, 8), (0, 40), (0, 8), (0, 1)] } else { vec![(1, 50), (2, 40), (0, 40), (2, 8), (1, 40), (1, 8)] };
                                               // the limit is lowered to ZERO in an epoch that already has flow in both directions: nothing is rejected for flow reasons any more
                                               forced.extend(vec![(2, 0), (1, 10), (0, 10), (1, 5000), (0, 60), (2, 40)]); }
        // ... then (same traces): limit 10, 10 in, and a takeToken whose payment carries the token TWICE (10 and 5, each within the limit, 15 together): a multi-transfer is no valid payment, refused
        if t % 3 == 0 && cur_token.is_some() { forced.extend(vec![(2, 10), (0, 10), (18, 10), (1, 10)]); }
        // directed role schedule (every third trace): propose, accept, hand back, replay the accept; (kind, 10*caller + target) over users [s, op, m, f, x]
        if t % 3 == 1 && operator.is_some() { forced = vec![(7, 14), (6, 12), (8, 41), (6, 21),      // a STALE proposal: the proposer hands the role on before the proposed account accepts (refused), then gets it back
                                                           (7, 14), (8, 41), (6, 41), (8, 41), (7, 13), (7, 14), (8, 31), (8, 41), (8, 41),
                                                           // a proposal of one role is not an offer of the other: operatorship proposed, mintership 'accepted' (refused), and the reverse
                                                           (7, 34), (11, 43), (8, 43), (10, 23), (8, 32), (11, 32)]; }
        // directed: the operator takes the flow-limiter role away from the service, which then tries to move the limit (kinds 3/4/5: 10*caller + target)
        if t % 3 == 2 && operator.is_some() && cur_token.is_some() { forced = vec![(2, 30), (4, 10), (2, 1000), (0, 500), (0, 30), (3, 13), (2, 1000), (5, 13), (2, 7)]; }
        // amounts and limits around 2^63 (every fourth trace): a limit of 2^63, a transfer above it (refused), one of exactly the limit, then no limit and 2^63 again
        if t % 4 == 1 && cur_token.is_some() { forced.extend(vec![(2, 1u64 << 63), (0, (1u64 << 63) + 1), (0, 1u64 << 63), (2, 0), (0, 1u64 << 63), (0, (1u64 << 63) - 1)]); }
        // directed (native managers): issuance, then the minter calls deployInterchainToken again naming someone else; or a failed issuance retried by the minter
        if ty == 0 { let extra: Vec<(u64, u64)> = if t % 2 == 0 { vec![(14, 2), (14, 44), (16, 1), (12, 24), (14, 24), (16, 1), (12, 43), (9, 23), (14, 34)] } else { vec![(14, 2), (14, 44), (16, 0), (14, 24), (16, 1), (12, 24), (14, 3)] }; forced.extend(extra); }
        // an account holding BOTH roles (the minter after the operator hands operatorship to it) proposes one of them: only that one can be accepted
        // ... first: it proposes operatorship AND THEN mintership to the same account while the first proposal is pending -- the second proposal replaces the first
        // (operatorship can no longer be accepted, mintership can, once); the account hands mintership back and the schedule goes on
        if ty == 0 && operator.is_some() { forced.extend(vec![(6, 12), (7, 24), (10, 24), (8, 42), (11, 42), (11, 42), (9, 42), (8, 42), (7, 24), (11, 42), (8, 42), (10, 23), (8, 32), (11, 32)]); }
        for _ in 0..(nops + forced.len()) {
            now += if !forced.is_empty() { 1 } else { match r.below(8) { 0 => EPOCH_TIME, 1 => EPOCH_TIME - (now % EPOCH_TIME), 2 => (EPOCH_TIME - (now % EPOCH_TIME)).saturating_sub(1), _ => r.below(500) } };
            w.set_time(now);
            let anyone = r.pick(&users).clone();
            let fo = if forced.is_empty() { None } else { Some(forced.remove(0)) };
            let k = if let Some((fk, _)) = fo { fk } else if flow_focus { *r.pick(&[0u64, 0, 0, 1, 1, 1, 2, 2, 15]) } else if ty == 0 && r.chance(1, 2) { *r.pick(&[12u64, 13, 14, 14, 16, 16, 0, 1, 9, 10, 11]) } else { r.below(18) };
            let twice = k == 18; let k = if k == 18 { 1 } else { k };
            let pl = prev_limit;
            let amt = |r: &mut Rng, limit: u64| -> u64 { if limit > 0 { match r.below(9) { 0 => limit, 1 => limit + 1, 2 => limit.saturating_sub(1).max(1), 3 => 1, 4 => pl.max(1), 5 => pl.saturating_sub(limit).max(1), 6 => 2 * limit, _ => 1 + r.below(limit + 2) } } else { match r.below(4) { 0 => 0, _ => 1 + r.below(50) } } };
            let mut opj; let step;
            match k {
                0 => { // giveToken
                    let caller = if fo.is_some() || r.chance(5, 6) { s.clone() } else { anyone.clone() };
                    let dest = if fo.is_some() { users[3].clone() } else { match r.below(6) { 0 => tmaddr.clone(), _ => r.pick(&users).clone() } };
                    let a = if let Some((_, fa)) = fo { fa } else { amt(&mut r, limit).max(1) };
                    step = w.tx(&caller, &tmaddr, "giveToken", vec![dest.to_vec(), big(a)], &bn(0), &[]);
                    opj = json!({"op": "give", "caller": hx(caller.as_bytes()), "dest": hx(dest.as_bytes()), "amount": a.to_string()});
                }
                1 => { // takeToken with right / wrong token
                    let caller = if fo.is_some() || r.chance(5, 6) { s.clone() } else { anyone.clone() };
                    let right = cur_token.clone().unwrap_or(tok.clone());
                    // a zero-value ESDT transfer from an account that never held the token is rejected by the debug VM itself
                    let a = if let Some((_, fa)) = fo { fa } else if right == tok { amt(&mut r, limit) } else { amt(&mut r, limit).max(1) };
                    let (egld, esdt): (u64, Vec<(Vec<u8>, u64, BigUint)>) = match if twice { 9 } else if fo.is_some() { 7 } else { r.below(8) } {
                        9 if right != b"EGLD".to_vec() => (0, vec![(right.clone(), 0, bn(a)), (right.clone(), 0, bn(a / 2))]),
                        0 => (0, vec![(b"OTHER-abcdef".to_vec(), 0, bn(a))]),
                        1 => (a, vec![]),
                        2 => (0, vec![(right.clone(), 0, bn(a)), (b"OTHER-abcdef".to_vec(), 0, bn(1))]),
                        _ => if right == b"EGLD".to_vec() { (a, vec![]) } else { (0, vec![(right.clone(), 0, bn(a))]) },
                    };
                    step = w.tx(&caller, &tmaddr, "takeToken", vec![], &bn(egld), &esdt);
                    opj = json!({"op": "take", "caller": hx(caller.as_bytes()), "egld": egld.to_string(),
                        "esdt": esdt.iter().map(|(t, n, v)| json!([hx(t), n, v.to_string()])).collect::<Vec<_>>()});
                }
                2 => { // setFlowLimit
                    let caller = if fo.is_some() { s.clone() } else { match r.below(4) { 0 => anyone.clone(), 1 => op.clone(), _ => s.clone() } };
                    let l = if let Some((_, fl)) = fo { fl } else { match r.below(6) { 0 => 0, 1 => limit / 2, 2 => (limit / 5).max(1), _ => 5 + r.below(40) } };
                    step = w.tx(&caller, &tmaddr, "setFlowLimit", vec![big(l)], &bn(0), &[]);
                    if step.res.result_status == 0 { prev_limit = limit; limit = l; }
                    opj = json!({"op": "setLimit", "caller": hx(caller.as_bytes()), "limit": l.to_string()});
                }
                3 | 4 | 5 => {
                    let (caller, a) = if let Some((_, ca)) = fo { (users[(ca / 10) as usize].clone(), users[(ca % 10) as usize].clone()) } else { (match r.below(8) { 0 => owner.clone(), 1 | 2 => anyone.clone(), _ => op.clone() }, r.pick(&users).clone()) };      // the deployer (owner) holds no role
                    let b = if fo.is_some() { users[0].clone() } else { r.pick(&users).clone() };
                    let (name, ep, args) = match k { 3 => ("addFL", "addFlowLimiter", vec![a.to_vec()]), 4 => ("removeFL", "removeFlowLimiter", vec![a.to_vec()]),
                                                      _ => ("transferFL", "transferFlowLimiter", vec![a.to_vec(), b.to_vec()]) };
                    step = w.tx(&caller, &tmaddr, ep, args, &bn(0), &[]);
                    opj = json!({"op": name, "caller": hx(caller.as_bytes()), "a": hx(a.as_bytes()), "b": hx(b.as_bytes())});
                }
                6 | 7 | 8 | 9 | 10 | 11 => {
                    let (caller, a) = if let Some((_, ca)) = fo { (users[(ca / 10) as usize].clone(), users[(ca % 10) as usize].clone()) } else { (if r.chance(1, 8) { owner.clone() } else { anyone.clone() }, r.pick(&users).clone()) };
                    let (name, ep) = match k { 6 => ("transferOp", "transferOperatorship"), 7 => ("proposeOp", "proposeOperatorship"), 8 => ("acceptOp", "acceptOperatorship"),
                                               9 => ("transferMint", "transferMintership"), 10 => ("proposeMint", "proposeMintership"), _ => ("acceptMint", "acceptMintership") };
                    step = w.tx(&caller, &tmaddr, ep, vec![a.to_vec()], &bn(0), &[]);
                    opj = json!({"op": name, "caller": hx(caller.as_bytes()), "a": hx(a.as_bytes())});
                }
                12 => {
                    let (caller, a) = if let Some((_, ca)) = fo { (users[(ca / 10) as usize].clone(), users[(ca % 10) as usize].clone()) } else { (if r.chance(1, 2) { m.clone() } else { anyone.clone() }, r.pick(&users).clone()) };
                    let v = 1 + r.below(100);
                    step = w.tx(&caller, &tmaddr, "mint", vec![a.to_vec(), big(v)], &bn(0), &[]);
                    opj = json!({"op": "mint", "caller": hx(caller.as_bytes()), "a": hx(a.as_bytes()), "amount": v.to_string()});
                }
                13 => {
                    let caller = if r.chance(1, 2) { m.clone() } else { anyone.clone() };
                    let v = 1 + r.below(100);
                    let right = cur_token.clone().unwrap_or(tok.clone());
                    let esdt = vec![(if r.chance(4, 5) { right } else { b"OTHER-abcdef".to_vec() }, 0u64, bn(v))];
                    step = w.tx(&caller, &tmaddr, "burn", vec![], &bn(0), &esdt);
                    opj = json!({"op": "burn", "caller": hx(caller.as_bytes()), "egld": "0", "esdt": esdt.iter().map(|(t, n, v)| json!([hx(t), n, v.to_string()])).collect::<Vec<_>>()});
                }
                14 => { // deployInterchainToken by service / minter / stranger
                    let caller = if let Some((_, ca)) = fo { users[(ca / 10) as usize].clone() } else { match r.below(4) { 0 => anyone.clone(), 1 => m.clone(), _ => s.clone() } };
                    let minter: Option<VMAddress> = if let Some((_, ca)) = fo { Some(users[(ca % 10) as usize].clone()) } else { match r.below(3) { 0 => None, 1 => Some(m.clone()), _ => Some(r.pick(&users).clone()) } };
                    let name = if fo.is_none() && r.chance(1, 8) { vec![] } else { b"Name".to_vec() };
                    let symbol = if fo.is_none() && r.chance(1, 8) { vec![] } else { b"SYM".to_vec() };
                    let egld = if fo.is_some() || r.chance(3, 4) { ISSUE_COST } else { 0 };
                    let marg = match &minter { None => vec![], Some(a) => { let mut v = vec![1u8]; v.extend_from_slice(a.as_bytes()); v } };
                    step = w.tx(&caller, &tmaddr, "deployInterchainToken", vec![marg, name.clone(), symbol.clone(), vec![18]], &bn(egld), &[]);
                    if step.res.result_status == 0 { if let Some(ac) = step.res.pending_calls.async_call.clone() { pending.push(ac); } }
                    opj = json!({"op": "deployToken", "caller": hx(caller.as_bytes()), "minter": minter.as_ref().map(|a| hx(a.as_bytes())), "name": hx(&name), "symbol": hx(&symbol), "egld": egld.to_string(), "esdt": []});
                }
                17 => { // an upgrade by the owner carrying OTHER constructor arguments (another service, type, token id, operator, token): what deployment recorded stays
                    let ns = if r.chance(1, 4) { s.clone() } else { anyone.clone() };
                    let nty = r.below(6); let ntid = r.bytes(32);
                    let nop: Option<VMAddress> = match r.below(3) { 0 => None, 1 => Some(x.clone()), _ => Some(op.clone()) };
                    let ntok: Option<Vec<u8>> = match r.below(4) { 0 => None, 1 => Some(b"EGLD".to_vec()), 2 => Some(b"OTHER-abcdef".to_vec()), _ => Some(tok.clone()) };
                    let mut np = opt_addr_nested(&nop); np.extend(opt_token_nested(&ntok));
                    step = w.tx(&owner, &tmaddr, "upgrade", vec![ns.to_vec(), if nty == 0 { vec![] } else { vec![nty as u8] }, ntid.clone(), np], &bn(0), &[]);
                    if step.res.result_status == 0 && cur_token.is_none() { if let Some(tk) = &ntok { cur_token = Some(tk.clone()); } }
                    opj = json!({"op": "upgrade", "caller": hx(owner.as_bytes()), "service": hx(ns.as_bytes()), "type": nty, "tid": hx(&ntid),
                                 "operator": nop.as_ref().map(|a| hx(a.as_bytes())), "token": ntok.as_ref().map(|t| hx(t))});
                }
                15 => { // view-like no-op: time passes only
                    step = w.tx(&x, &tmaddr, "getFlowLimit", vec![], &bn(0), &[]);
                    opj = json!({"op": "getFlowLimit", "caller": hx(x.as_bytes())});
                }
                _ => { // deliver a pending issuance callback
                    if pending.is_empty() {
                        step = w.tx(&x, &tmaddr, "getFlowLimit", vec![], &bn(0), &[]);
                        opj = json!({"op": "getFlowLimit", "caller": hx(x.as_bytes())});
                    } else {
                        let i = r.below(pending.len() as u64) as usize; let ac = pending.remove(i);
                        let tm_egld = w.r.blockchain_mock.state.accounts.get(&tmaddr).unwrap().egld_balance.clone();
                        let mut ok = if let Some((_, fv)) = fo { fv == 1 } else { r.chance(2, 3) };
                        if tm_egld < bn(ISSUE_COST) { ok = false; }
                        let newtok = format!("SYM-{:06x}", r.below(0xffffff)).into_bytes();
                        let forged = if ok {
                            TxResult { result_status: 0, result_values: vec![newtok.clone()], ..TxResult::empty() }
                        } else { TxResult { result_status: 4, result_message: "issue failed".to_string(), ..TxResult::empty() } };
                        let mut cb = async_callback_tx_input(&ac, &forged, &w.r.blockchain_mock.vm.builtin_functions);
                        // a failed issuance RETURNS the issue cost with the error callback (it left the manager with the call): the callback carries that EGLD
                        let returned = !ok && tm_egld >= bn(ISSUE_COST);
                        if returned { cb.egld_value = bn(ISSUE_COST); }
                        let tma = tmaddr.clone(); let nt = newtok.clone(); let sys = cb.from.clone();
                        step = w.run_input_after(move |r| {
                            if ok || returned { let acc = r.blockchain_mock.state.accounts.get_mut(&tma).unwrap(); acc.egld_balance -= bn(ISSUE_COST);
                                if ok { acc.esdt.set_roles(nt.clone(), vec![b"ESDTRoleLocalMint".to_vec(), b"ESDTRoleLocalBurn".to_vec()]); } }
                            if returned { crate::vm::credit_or_create(r, &sys, &bn(ISSUE_COST)); } }, cb);
                        if ok && step.res.result_status == 0 { cur_token = Some(newtok.clone()); }
                        opj = json!({"op": "issueCallback", "result": if ok { Some(hx(&newtok)) } else { None }});
                    }
                }
            }
            opj["now"] = json!(now);
            steps.push(json!({"op": opj, "res": step.json}));
        }
        println!("{}", json!({"trace": t, "init": init, "steps": steps}));
    }
}
