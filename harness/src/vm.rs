// Thin wrapper around the Rust debug VM: the harness owns the scheduler (pending
// asynchronous calls are returned, never run implicitly) and observes every step as
// (status, return data, logs, storage diff, balance diff).
use crate::util::*;
use multiversx_sc::contract_base::CallableContractBuilder;
use multiversx_sc_scenario::debug_executor::ContractContainer;
use multiversx_sc_scenario::multiversx_chain_vm::{
    tx_execution::execute_current_tx_context_input,
    tx_mock::{TxFunctionName, TxInput, TxResult, TxTokenTransfer},
    types::{VMAddress, VMCodeMetadata, H256},
    world_mock::AccountData,
};
use multiversx_sc_scenario::scenario::run_vm::ScenarioVMRunner;
use multiversx_sc_scenario::DebugApi;
use num_bigint::BigUint;
use serde_json::{json, Value};
use std::collections::BTreeMap;

pub const GAS: u64 = 1_000_000_000;

pub fn user_addr(b: u8) -> VMAddress { VMAddress::new([b; 32]) }
pub fn sc_addr(b: u8) -> VMAddress {
    let mut a = [b; 32];
    for x in a.iter_mut().take(8) { *x = 0; }
    a[8] = 5; a[9] = 0;
    VMAddress::new(a)
}

pub fn esdt_system_sc() -> VMAddress {
    let mut a = [0u8; 32];
    a[9] = 1; a[29] = 2; a[30] = 0xff; a[31] = 0xff;
    VMAddress::new(a)
}

pub fn big(n: u64) -> Vec<u8> { n.to_be_bytes().iter().cloned().skip_while(|x| *x == 0).collect() }
pub fn bigu(n: &BigUint) -> Vec<u8> { if n == &BigUint::from(0u32) { vec![] } else { n.to_bytes_be() } }
pub fn nested_buf(b: &[u8]) -> Vec<u8> { let mut v = (b.len() as u32).to_be_bytes().to_vec(); v.extend_from_slice(b); v }

type Snapshot = BTreeMap<Vec<u8>, (BTreeMap<Vec<u8>, Vec<u8>>, BTreeMap<Vec<u8>, BigUint>)>;

pub struct World {
    pub r: ScenarioVMRunner,
    pub tracked: Vec<VMAddress>,
    tx_counter: u64,
}

pub struct Step {
    pub res: TxResult,
    pub json: Value,
}

/// credit an account the harness does not otherwise keep (the ESDT system contract), creating it if needed
pub fn credit_or_create(rr: &mut ScenarioVMRunner, a: &VMAddress, amount: &BigUint) {
    if let Some(acc) = rr.blockchain_mock.state.accounts.get_mut(a) { acc.egld_balance += amount; return; }
    rr.blockchain_mock.state.validate_and_add_account(AccountData {
        address: a.clone(), nonce: 0, egld_balance: amount.clone(), esdt: Default::default(),
        username: vec![], storage: Default::default(), contract_path: None,
        code_metadata: VMCodeMetadata::empty(), contract_owner: None, developer_rewards: BigUint::from(0u32) });
}

impl World {
    pub fn new() -> Self {
        let mut w = World { r: ScenarioVMRunner::new(), tracked: vec![], tx_counter: 0 };
        w.reg(b"gateway", gateway::ContractBuilder);
        w.reg(b"gas", gas_service::ContractBuilder);
        w.reg(b"governance", governance::ContractBuilder);
        w.reg(b"tm", token_manager::ContractBuilder);
        w.reg(b"its", interchain_token_service::ContractBuilder);
        // the ESDT system contract account (callbacks of forged asynchronous results come "from" it)
        let sys = esdt_system_sc();
        w.r.blockchain_mock.state.accounts.insert(sys.clone(), AccountData {
            address: sys, nonce: 0, egld_balance: BigUint::from(0u32), esdt: Default::default(),
            username: vec![], storage: Default::default(), contract_path: None,
            code_metadata: VMCodeMetadata::empty(), contract_owner: None, developer_rewards: BigUint::from(0u32) });
        w
    }
    fn reg<B: CallableContractBuilder>(&mut self, code: &[u8], b: B) {
        let obj = b.new_contract_obj::<DebugApi>();
        self.r.contract_map_ref.lock().register_contract(code.to_vec(), ContractContainer::new(obj, None, true));
    }
    pub fn track(&mut self, a: &VMAddress) { if !self.tracked.contains(a) { self.tracked.push(a.clone()); } }
    pub fn add_user(&mut self, a: &VMAddress, egld: u64) {
        self.r.blockchain_mock.state.validate_and_add_account(AccountData {
            address: a.clone(), nonce: 0, egld_balance: BigUint::from(egld), esdt: Default::default(),
            username: vec![], storage: Default::default(), contract_path: None,
            code_metadata: VMCodeMetadata::empty(), contract_owner: None, developer_rewards: BigUint::from(0u32) });
        self.track(a);
    }
    /// an account at a CONTRACT address that holds funds and sends transactions (a multisig, a wrapper): payable code, never called by the harness
    pub fn add_contract_user(&mut self, a: &VMAddress, egld: u64) {
        self.r.blockchain_mock.state.accounts.insert(a.clone(), AccountData {
            address: a.clone(), nonce: 0, egld_balance: BigUint::from(egld), esdt: Default::default(),
            username: vec![], storage: Default::default(), contract_path: Some(b"gas".to_vec()),
            code_metadata: VMCodeMetadata::all(), contract_owner: None, developer_rewards: BigUint::from(0u32) });
        self.track(a);
    }
    pub fn add_esdt(&mut self, a: &VMAddress, token: &[u8], amount: u64) {
        self.r.blockchain_mock.state.accounts.get_mut(a).unwrap().esdt
            .increase_balance(token.to_vec(), 0, &BigUint::from(amount), Default::default());
    }
    pub fn add_sft(&mut self, a: &VMAddress, token: &[u8], nonce: u64, amount: u64) {
        self.r.blockchain_mock.state.accounts.get_mut(a).unwrap().esdt
            .increase_balance(token.to_vec(), nonce, &BigUint::from(amount), Default::default());
    }
    /// a new block at time t: the block before it carries the time that was current until now (the contracts only ever read the current block's)
    pub fn set_time(&mut self, t: u64) {
        let st = &mut self.r.blockchain_mock.state; let cur = st.current_block_info.block_timestamp;
        if t != cur { st.previous_block_info.block_timestamp = cur; }
        st.current_block_info.block_timestamp = t; }
    pub fn time(&self) -> u64 { self.r.blockchain_mock.state.current_block_info.block_timestamp }

    fn snapshot(&self) -> Snapshot {
        let mut s = Snapshot::new();
        for a in &self.tracked {
            if let Some(acc) = self.r.blockchain_mock.state.accounts.get(a) {
                let st: BTreeMap<Vec<u8>, Vec<u8>> = acc.storage.iter().filter(|(_, v)| !v.is_empty()).map(|(k, v)| (k.clone(), v.clone())).collect();
                let mut bal: BTreeMap<Vec<u8>, BigUint> = BTreeMap::new();
                bal.insert(b"EGLD".to_vec(), acc.egld_balance.clone());
                for (tok, data) in acc.esdt.iter() {
                    bal.insert(tok.clone(), data.instances.get_by_nonce_or_default(0).balance.clone());
                    // NFT / SFT / meta-ESDT instances: identifier # nonce (8 bytes big endian)
                    for (nonce, inst) in data.instances.get_instances().iter() { if *nonce != 0 {
                        let mut k = tok.clone(); k.push(b'#'); k.extend_from_slice(&nonce.to_be_bytes()); bal.insert(k, inst.balance.clone()); } }
                }
                s.insert(a.as_bytes().to_vec(), (st, bal));
            }
        }
        s
    }

    fn diff(before: &Snapshot, after: &Snapshot) -> (Vec<Value>, Vec<Value>) {
        let mut sd = vec![]; let mut bd = vec![];
        let empty = (BTreeMap::new(), BTreeMap::new());
        let zero = BigUint::from(0u32);
        for (a, (st2, bal2)) in after {
            let (st1, bal1) = before.get(a).unwrap_or(&empty);
            for (k, v) in st2 { if st1.get(k) != Some(v) { sd.push(json!([hx(a), hx(k), hx(v)])); } }
            for k in st1.keys() { if !st2.contains_key(k) { sd.push(json!([hx(a), hx(k), ""])); } }
            for (t, v) in bal2 { if bal1.get(t).unwrap_or(&zero) != v { bd.push(json!([hx(a), hx(t), v.to_string()])); } }
            for (t, v) in bal1 { if !bal2.contains_key(t) && v != &zero { bd.push(json!([hx(a), hx(t), "0"])); } }
        }
        (sd, bd)
    }

    fn finish(&self, before: Snapshot, res: TxResult) -> Step {
        let after = self.snapshot();
        let (sd, bd) = Self::diff(&before, &after);
        let logs: Vec<Value> = res.result_logs.iter().map(|l| json!({
            "a": hx(l.address.as_bytes()), "ep": String::from_utf8_lossy(l.endpoint.as_str().as_bytes()).to_string(),
            "t": l.topics.iter().map(|t| hx(t)).collect::<Vec<_>>(),
            "d": l.data.iter().map(|t| hx(t)).collect::<Vec<_>>() })).collect();
        let json = json!({"ok": res.result_status == 0, "status": res.result_status, "msg": res.result_message,
            "rets": res.result_values.iter().map(|v| hx(v)).collect::<Vec<_>>(), "logs": logs, "sd": sd, "bd": bd,
            "npend": res.pending_calls.promises.len() + if res.pending_calls.async_call.is_some() { 1 } else { 0 }});
        Step { res, json }
    }

    fn next_hash(&mut self) -> H256 {
        self.tx_counter += 1;
        let mut h = [0u8; 32];
        h[24..].copy_from_slice(&self.tx_counter.to_be_bytes());
        H256::from(h)
    }

    pub fn deploy(&mut self, from: &VMAddress, new_addr: &VMAddress, code: &[u8], args: Vec<Vec<u8>>) -> Step {
        self.track(new_addr);
        let before = self.snapshot();
        let nonce = self.r.blockchain_mock.state.accounts.get(from).unwrap().nonce;
        self.r.blockchain_mock.state.put_new_address(from.clone(), nonce, new_addr.clone());
        let tx_hash = self.next_hash();
        let input = TxInput { from: from.clone(), to: VMAddress::zero(), func_name: TxFunctionName::INIT, args, gas_limit: GAS, tx_hash, ..Default::default() };
        let (_a, res) = self.r.blockchain_mock.vm.sc_create(input, code, VMCodeMetadata::all(), &mut self.r.blockchain_mock.state, execute_current_tx_context_input);
        self.finish(before, res)
    }

    pub fn tx(&mut self, from: &VMAddress, to: &VMAddress, func: &str, args: Vec<Vec<u8>>, egld: &BigUint, esdts: &[(Vec<u8>, u64, BigUint)]) -> Step {
        let before = self.snapshot();
        let tx_hash = self.next_hash();
        let input = TxInput { from: from.clone(), to: to.clone(), func_name: func.into(), args, egld_value: egld.clone(),
            esdt_values: esdts.iter().map(|(t, n, v)| TxTokenTransfer { token_identifier: t.clone(), nonce: *n, value: v.clone() }).collect(),
            gas_limit: GAS, tx_hash, ..Default::default() };
        self.r.blockchain_mock.state.increase_account_nonce(from);
        let res = self.r.blockchain_mock.vm.execute_sc_call_lambda(input, &mut self.r.blockchain_mock.state, execute_current_tx_context_input);
        self.finish(before, res)
    }

    /// run an already built TxInput (async destination calls and callbacks)
    pub fn run_input(&mut self, input: TxInput) -> Step {
        let before = self.snapshot();
        let res = self.r.blockchain_mock.vm.execute_sc_call_lambda(input, &mut self.r.blockchain_mock.state, execute_current_tx_context_input);
        self.finish(before, res)
    }

    /// like run_input, but `pre` (harness-side effects of a forged asynchronous delivery, e.g. the
    /// issue cost consumed by the system contract) is applied inside the observed step
    pub fn run_input_after<F: FnOnce(&mut ScenarioVMRunner)>(&mut self, pre: F, input: TxInput) -> Step {
        let before = self.snapshot();
        pre(&mut self.r);
        let res = self.r.blockchain_mock.vm.execute_sc_call_lambda(input, &mut self.r.blockchain_mock.state, execute_current_tx_context_input);
        self.finish(before, res)
    }

    /// a step performed by the harness itself (the effect of a forged destination call)
    pub fn manual_step<F: FnOnce(&mut ScenarioVMRunner)>(&mut self, f: F) -> Step {
        let before = self.snapshot();
        f(&mut self.r);
        self.finish(before, TxResult::empty())
    }

    pub fn call0(&mut self, from: &VMAddress, to: &VMAddress, func: &str, args: Vec<Vec<u8>>) -> Step {
        self.tx(from, to, func, args, &BigUint::from(0u32), &[])
    }
}
