// C11 / C12 / C16: gateway + governance; commands authenticated through real gateway approvals;
// the dispatched call and its callback are scheduled by the harness (outcome of the external
// target chosen by the harness), with other transactions placed in both windows.
use crate::gateway_mode::{build_proof, keccak, Msg, Pool, SSet, SigTab, SignerE};
use crate::util::*;
use crate::vm::*;
use multiversx_sc_scenario::multiversx_chain_vm::tx_mock::{async_promise_callback_tx_input, Promise, TxResult};
use multiversx_sc_scenario::multiversx_chain_vm::types::VMAddress;
use num_bigint::BigUint;
use serde_json::{json, Value};

fn bn(n: u64) -> BigUint { BigUint::from(n) }

#[derive(Clone)]
struct Prop { target: VMAddress, call_data: Vec<u8>, value: u64 }

fn call_data(ep: &[u8], args: &[Vec<u8>], min_gas: u64) -> Vec<u8> {
    let mut v = nested_buf(ep);
    v.extend_from_slice(&(args.len() as u32).to_be_bytes());
    for a in args { v.extend(nested_buf(a)); }
    v.extend_from_slice(&min_gas.to_be_bytes());
    v
}

fn exec_payload(cmd: u8, p: &Prop, eta: u64) -> Vec<u8> {
    let mut v = vec![cmd];
    v.extend_from_slice(p.target.as_bytes());
    v.extend(nested_buf(&p.call_data));
    v.extend(nested_buf(&big(p.value)));
    v.extend_from_slice(&eta.to_be_bytes());
    v
}

struct Pending { id: u64, promise: Promise, result: Option<TxResult>, prop: usize, operator: bool, caller: VMAddress, pay: Value, key: Value }

pub fn run(seed: u64, ntraces: usize) {
    let mut r = Rng::new(seed ^ 0x60f);
    for t in 0..ntraces {
        let mut w = World::new();
        let owner = user_addr(1); let gop = user_addr(2); let relayer = user_addr(3);
        let u1 = user_addr(4); let u2 = user_addr(5); let target = user_addr(6);
        let users = vec![owner.clone(), gop.clone(), relayer.clone(), u1.clone(), u2.clone(), target.clone()];
        let tok = b"TOK-123456".to_vec(); let tok2 = b"OTH-654321".to_vec();
        let sft = b"SFT-abcdef".to_vec(); let sftk = |n: u64| { let mut k = sft.clone(); k.push(b'#'); k.extend_from_slice(&n.to_be_bytes()); k };
        for u in &users { w.add_user(u, 12_000_000_000_000_000_000); w.add_esdt(u, &tok, 1_000_000); w.add_esdt(u, &tok2, 1_000_000); w.add_sft(u, &sft, 5, 1000); w.add_sft(u, &sft, 6, 1000); }
        let gw = sc_addr(0x10); let gov = sc_addr(0x11);
        let pool = Pool::new(); let mut tab = SigTab(vec![]);
        let set = SSet { signers: vec![SignerE { pk: pool.pk(0), key: Some(0), weight: bn(1) }], threshold: bn(1), nonce: vec![7u8; 32] };
        let domain = vec![5u8; 32];
        let mut now: u64 = 10_000 + r.below(1000); w.set_time(now);
        let gwnow = now;
        w.deploy(&owner, &gw, b"gateway", vec![big(2), domain.clone(), big(0), owner.to_vec(), set.encode(0)]);
        let gchain = b"axelarnet".to_vec(); let gaddr = b"axelar1governance".to_vec();
        let min_delay = *r.pick(&[0u64, 50, 3600]);
        let st = w.deploy(&owner, &gov, b"governance", vec![gw.to_vec(), gchain.clone(), gaddr.clone(), big(min_delay), gop.to_vec()]);
        // the governance contract owns some EGLD for proposals with a native value
        let gov_funds: u64 = if t % 8 == 4 { 0 } else { 500 };      // a contract without own funds: credits can exceed what it holds
        w.r.blockchain_mock.state.accounts.get_mut(&gov).unwrap().egld_balance += bn(gov_funds);
        let mut funds: Vec<Value> = users.iter().map(|u| json!([hx(u.as_bytes()), "12000000000000000000", [[hx(&tok), "1000000"], [hx(&tok2), "1000000"], [hx(&sftk(5)), "1000"], [hx(&sftk(6)), "1000"]]])).collect();
        funds.push(json!([hx(gov.as_bytes()), gov_funds.to_string(), []]));
        let init = json!({"gov": hx(gov.as_bytes()), "gw": hx(gw.as_bytes()), "owner": hx(owner.as_bytes()), "gwnow": gwnow, "retention": 2, "domain": hx(&domain),
            "gwdelay": 0, "gwop": hx(owner.as_bytes()), "signers": [hx(&set.encode(0))], "chain": hx(&gchain), "gaddr": hx(&gaddr), "min_delay": min_delay,
            "operator": hx(gop.as_bytes()), "tracked": users.iter().map(|u| hx(u.as_bytes())).chain([hx(gov.as_bytes()), hx(gw.as_bytes())]).collect::<Vec<_>>(),
            "funds": funds, "res": st.json});
        let props: Vec<Prop> = vec![
            Prop { target: target.clone(), call_data: call_data(b"doIt", &[vec![1, 2, 3]], 0), value: 0 },
            Prop { target: target.clone(), call_data: call_data(b"doIt", &[], 1000), value: 10 },
            Prop { target: u2.clone(), call_data: call_data(b"other", &[vec![9]], 0), value: 400 },
            Prop { target: target.clone(), call_data: call_data(b"big", &[], 0), value: 100_000 },         // more than the contract holds
            Prop { target: target.clone(), call_data: vec![0, 0, 0, 9, 1], value: 0 },                     // undecodable call data
            Prop { target: target.clone(), call_data: call_data(b"gas", &[], 999_000_000), value: 0 },     // min gas above what is available
            Prop { target: target.clone(), call_data: call_data(b"pay", &[], 0), value: 5 },
            Prop { target: target.clone(), call_data: call_data(b"doIt", &[vec![1, 2, 3]], 0), value: 1u64 << 63 },      // proposal 0 with a value of 2^63: another proposal
            Prop { target: target.clone(), call_data: call_data(b"configure", &[vec![], vec![1, 244], vec![]], 0), value: 0 },      // empty arguments are arguments: the call is dispatched with all three
        ];
        let mut steps: Vec<Value> = vec![];
        let mut pending: Vec<Pending> = vec![];
        let mut credited: Vec<(VMAddress, Vec<u8>, u64)> = vec![];     // (dispatcher, token, nonce) of failed dispatches: likely outstanding credits
        let mut next_id: u64 = 0;
        let mut msg_counter = 0u64;
        let mut batches: Vec<(Vec<u8>, Vec<u8>, Vec<u8>, Value)> = vec![];       // (message id, raw batch, proof, message json) of every approval sent to the gateway
        let mut sent_cmds: Vec<(Vec<u8>, Vec<u8>, Vec<u8>, Vec<u8>)> = vec![];   // (chain, id, src, payload) of executed commands, for replays
        let mut etas: Vec<Option<u64>> = vec![None; props.len()];
        let mut approved: Vec<bool> = vec![false; props.len()];
        let mut cur_op = gop.clone();
        let nops = 14 + r.below(18) as usize;
        let mut queue: Vec<(&'static str, usize, u8, u64)> = vec![];   // forced follow-ups: (kind, prop, cmd, eta)
        // directed schedules (every 8th trace): cancel while the dispatch is in flight, then the call fails
        if t % 8 == 0 { queue = vec![("cmd", 0, 0, 0), ("jump", 0, 0, 0), ("exec", 0, 0, 0), ("cmd", 0, 1, 0), ("deliver_fail", 0, 0, 0), ("callback", 0, 0, 0), ("exec", 0, 0, 0)]; }
        if t % 8 == 1 { queue = vec![("cmd", 1, 2, 0), ("exec", 1, 1, 0), ("cmd", 1, 3, 0), ("deliver_fail", 0, 0, 0), ("callback", 0, 0, 0), ("exec", 1, 1, 0)]; }
        // ... then (same traces): ONE proposal scheduled AND approved for the operator; a user dispatches it on the time-lock path with 11 TOK attached, the operator on the operator path with
        // 7 EGLD attached, BOTH are in flight at once, both calls fail: each dispatcher is credited with its own payment (callbacks in either order), then withdrawals
        if t % 8 == 1 { queue.extend(vec![("cmd", 6, 0, 0), ("cmd", 6, 2, 0), ("jump", 6, 0, 0), ("exec", 6, 2, 2), ("exec", 6, 1, 1), ("deliver_fail", 0, 0, 0), ("deliver_fail", 0, 0, 0),
                                          ("callback", 0, 0, 0), ("callback", 0, 0, 0), ("refund", 0, 0, 0), ("refund", 0, 0, 0)]); }
        // the operator role moves while an operator dispatch with a payment attached is in flight, then the call fails: the credit belongs to the dispatcher
        if t % 8 == 2 { queue = vec![("cmd", 1, 2, 0), ("exec", 1, 1, 2), ("xfer_op", 0, 0, 0), ("deliver_fail", 0, 0, 0), ("callback", 0, 0, 0), ("refund", 0, 0, 0), ("refund", 0, 0, 0)]; }
        // a credit of 7 EGLD, then a successful dispatch pays 5 of the contract's 7 away: the withdrawal of the credit cannot be honoured in full and must fail, keeping the credit
        if t % 8 == 4 { queue = vec![("cmd", 0, 0, 0), ("jump", 0, 0, 0), ("exec", 0, 0, 1), ("deliver_fail", 0, 0, 0), ("callback", 0, 0, 0),
                                     ("cmd", 6, 0, 0), ("jump", 6, 0, 0), ("exec", 6, 0, 5), ("deliver_ok", 0, 0, 0), ("callback", 0, 0, 0), ("refund", 0, 0, 0), ("refund", 0, 0, 0)]; }
        // the SAME dispatcher fails twice with EGLD attached before withdrawing: the credits add up (7 + 7), then one withdrawal takes all
        if t % 8 == 6 { queue = vec![("cmd", 0, 0, 0), ("jump", 0, 0, 0), ("exec", 0, 2, 1), ("deliver_fail", 0, 0, 0), ("callback", 0, 0, 0),
                                     ("exec", 0, 2, 1), ("deliver_fail", 0, 0, 0), ("callback", 0, 0, 0), ("exec", 0, 2, 5), ("deliver_fail", 0, 0, 0), ("callback", 0, 0, 0), ("refund", 0, 0, 0), ("refund", 0, 0, 0),
                                     // ... and twice with 5e18 EGLD: the credit passes 2^63 and is withdrawn in full
                                     ("exec", 0, 2, 10), ("deliver_fail", 0, 0, 0), ("callback", 0, 0, 0), ("exec", 0, 2, 10), ("deliver_fail", 0, 0, 0), ("callback", 0, 0, 0), ("refund", 0, 0, 0)]; }
        // (before the credited account withdraws, ANOTHER account calls withdrawRefundToken naming the credited account as a second argument: the endpoint takes one argument, refused)
        if t % 8 == 3 { queue = vec![("cmd", 0, 0, 0), ("jump", 0, 0, 0), ("exec", 0, 0, 7), ("xfer_op", 0, 0, 0), ("deliver_fail", 0, 0, 0), ("callback", 0, 0, 0), ("refund_other", 0, 0, 0), ("refund", 0, 0, 0)]; }
        // a proposal with EMPTY arguments dispatched on both paths: the target receives the scheduled call, argument for argument
        if t % 8 == 5 { queue = vec![("cmd", 8, 0, 0), ("jump", 8, 0, 0), ("exec", 8, 0, 0), ("deliver_ok", 0, 0, 0), ("callback", 0, 0, 0),
                                     ("cmd", 8, 2, 0), ("exec", 8, 1, 0), ("deliver_ok", 0, 0, 0), ("callback", 0, 0, 0),
                                     // proposal 0 approved / scheduled; dispatching it with a value of 2^63 is another proposal: refused on both paths
                                     ("cmd", 0, 2, 0), ("exec", 7, 1, 0), ("exec", 0, 1, 0), ("cmd", 0, 0, 0), ("jump", 0, 0, 0), ("exec", 7, 0, 0), ("exec", 0, 0, 0)]; }
        // an executed command, then somebody calls the gateway's validateMessage for it directly, the public batch is submitted again and the command replayed: refused
        if t % 8 == 7 { queue = vec![("cmd", 1, 2, 0), ("exec", 1, 1, 0), ("deliver_ok", 0, 0, 0), ("callback", 0, 0, 0), ("stray", 0, 0, 0), ("exec", 1, 1, 0)]; }
        // ... then (same traces): proposal 0 is dispatched; WHILE IT IS IN FLIGHT the governance chain schedules it again with a far eta (refused: execution in progress, the approval stays),
        // the call fails and the callback restores the old eta, the proposal is dispatched again; and on the operator path: approved, dispatched, approved again in flight, the call fails, dispatched again
        if t % 8 == 7 { queue.extend(vec![("cmd", 0, 0, 0), ("jump", 0, 0, 0), ("exec", 0, 0, 0), ("cmd", 0, 0, 4_000_000_000), ("deliver_fail", 0, 0, 0), ("callback", 0, 0, 0), ("exec", 0, 0, 0),
                                          ("cmd", 2, 2, 0), ("exec", 2, 1, 0), ("cmd", 2, 2, 0), ("deliver_fail", 0, 0, 0), ("callback", 0, 0, 0), ("exec", 2, 1, 0)]); }
        for _ in 0..nops.max(queue.len() + 2) {
            // time: sometimes jump to (just before / exactly) a scheduled eta
            let known: Vec<u64> = etas.iter().filter_map(|e| *e).filter(|e| *e >= now && *e < (1u64 << 40)).collect();      // never jump to a parked proposal's eta (2^63, u64::MAX)
            now = match r.below(4) { 0 if !known.is_empty() => (*r.pick(&known)).max(now), 1 if !known.is_empty() => (*r.pick(&known)).saturating_sub(1).max(now), 2 => now, _ => now + r.below(60) };
            w.set_time(now);
            let anyone = r.pick(&users).clone();
            let forced = if queue.is_empty() { None } else { Some(queue.remove(0)) };
            if let Some(("jump", pi, _, _)) = forced { if let Some(e) = etas[pi] { if e < (1u64 << 40) { now = now.max(e); w.set_time(now); } } }
            let has_undelivered = pending.iter().any(|p| p.result.is_none());
            let has_delivered = pending.iter().any(|p| p.result.is_some());
            let k = match forced { Some(("cmd", _, _, _)) => 100, Some(("stray", _, _, _)) => 100, Some(("exec", _, 0, _)) => 6, Some(("exec", _, 2, _)) => 6, Some(("exec", _, _, _)) => 9,
                        Some(("deliver_fail", _, _, _)) => 12, Some(("deliver_ok", _, _, _)) => 12, Some(("callback", _, _, _)) => 15, Some(("jump", _, _, _)) => 19, Some(("refund", _, _, _)) => 17, Some(("refund_other", _, _, _)) => 17, Some(("xfer_op", _, _, _)) => 18, _ => 0 };
            let k = if forced.is_some() { k }
                    else if has_delivered && r.chance(1, 3) { 15 }
                    else if has_undelivered && r.chance(1, 3) { 12 }
                    else if !credited.is_empty() && r.chance(1, 5) { 17 }
                    else { *r.pick(&[0u64, 1, 2, 3, 4, 5, 6, 6, 6, 7, 8, 9, 9, 10, 17, 18, 19]) };
            let mut opj: Value; let step: Step;
            if k == 100 || k < 6 {
                // a governance command: approve at the gateway (usually), then execute
                let (pi, cmd, eta) = match forced { Some(("cmd", pi, cmd, eta)) => (pi, cmd, eta), _ => {
                    let pi = r.below(props.len() as u64) as usize; let cmd = *r.pick(&[0u8, 0, 0, 1, 2, 2, 3]);
                    (pi, cmd, match r.below(8) { 0 | 1 => 0, 2 | 3 => now + min_delay + r.below(30), 6 => 1u64 << 63, 7 => u64::MAX, _ => now + r.below(min_delay + 2) }) } };      // also etas in the upper half of u64: parked proposals
                let p = &props[pi];
                let mut payload = exec_payload(cmd, p, eta);
                let variant = if let Some(("stray", _, _, _)) = forced { 14 } else if forced.is_some() || r.chance(2, 3) { 0 } else { r.below(17) };
                if variant == 13 { let mut v = vec![cmd]; v.extend_from_slice(p.target.as_bytes()); v.extend(nested_buf(&p.call_data));
                    let mut padded = vec![0u8; 32]; let b = big(p.value); let n = b.len(); padded[32 - n..].copy_from_slice(&b); v.extend(nested_buf(&padded)); v.extend_from_slice(&eta.to_be_bytes()); payload = v; }   // the same value with leading zero bytes: the same proposal
                if variant == 1 { payload[1..33].copy_from_slice(&[0u8; 32]); }            // zero target
                if variant == 2 { payload.push(0); }                                         // trailing byte
                if variant == 3 { payload[0] = 9; }                                          // unknown command
                msg_counter += 1;
                let id = format!("m-{}", msg_counter).into_bytes();
                let (chain, src) = match variant { 4 => (b"ethereum".to_vec(), gaddr.clone()), 5 => (gchain.clone(), b"axelar1attacker".to_vec()),
                    // the same bytes split elsewhere: chain ++ address is equal, chain and address are not
                    11 => { let mut ch = gchain.clone(); ch.extend_from_slice(&gaddr[..3]); (ch, gaddr[3..].to_vec()) },
                    12 => { let k = gchain.len() - 2; let mut a2 = gchain[k..].to_vec(); a2.extend_from_slice(&gaddr); (gchain[..k].to_vec(), a2) },
                    _ => (gchain.clone(), gaddr.clone()) };
                let approved_payload = if variant == 6 { let mut q = payload.clone(); let n = q.len() - 1; q[n] ^= 1; q } else { payload.clone() };
                let contract = if variant == 7 { u1.clone() } else { gov.clone() };
                if variant != 8 {
                    // approve at the gateway
                    let m = Msg { chain: chain.clone(), id: id.clone(), src: src.clone(), contract: contract.to_vec(), ph: keccak(&approved_payload) };
                    let raw = m.encode();
                    // variant 15: the batch is signed -- validly -- by a signer set the gateway never registered (an invented key, weight 1, threshold 1)
                    let forged_set = SSet { signers: vec![SignerE { pk: pool.pk(3), key: Some(3), weight: bn(1) }], threshold: bn(1), nonce: vec![9u8; 32] };
                    let pr = build_proof(&mut r, &pool, &mut tab, if variant == 15 { &forged_set } else { &set }, &domain, 0, &raw, 0);
                    let st = w.call0(&relayer, &gw, "approveMessages", vec![raw.clone(), pr.bytes.clone()]);
                    let mj = json!({"chain": hx(&m.chain), "id": hx(&m.id), "src": hx(&m.src), "contract": hx(&m.contract), "ph": hx(&m.ph)});
                    batches.push((id.clone(), raw.clone(), pr.bytes.clone(), mj.clone()));
                    steps.push(json!({"op": {"op": "gwApprove", "caller": hx(relayer.as_bytes()), "now": now, "messages": hx(&raw), "proof": hx(&pr.bytes),
                        "msg": mj}, "res": st.json}));
                }
                let (xc, xi, xs, xp) = if (variant == 9 || variant == 10 || variant == 14) && !sent_cmds.is_empty() { r.pick(&sent_cmds).clone() } else { (chain, id, src, payload.clone()) };
                if variant == 14 && !sent_cmds.is_empty() {
                    // a third party calls the gateway's validateMessage for the executed command directly: false, and nothing changes
                    let ph = keccak(&xp);
                    let st = w.call0(&users[2], &gw, "validateMessage", vec![xc.clone(), xi.clone(), xs.clone(), ph.clone()]);
                    steps.push(json!({"op": {"op": "gwValidate", "caller": hx(users[2].as_bytes()), "now": now, "chain": hx(&xc), "id": hx(&xi), "src": hx(&xs), "ph": hx(&ph)}, "res": st.json})); }
                if variant == 10 || variant == 14 { if let Some((_, raw, proof, mj)) = batches.iter().find(|b| b.0 == xi).cloned() {
                    // the public approval batch of an already executed command is submitted to the gateway again before the replay
                    let st = w.call0(&users[0], &gw, "approveMessages", vec![raw.clone(), proof.clone()]);
                    steps.push(json!({"op": {"op": "gwApprove", "caller": hx(users[0].as_bytes()), "now": now, "messages": hx(&raw), "proof": hx(&proof), "msg": mj}, "res": st.json})); } }
                step = w.call0(&relayer, &gov, "execute", vec![xc.clone(), xi.clone(), xs.clone(), xp.clone()]);
                if step.res.result_status == 0 {
                    sent_cmds.push((xc.clone(), xi.clone(), xs.clone(), xp.clone()));
                    if variant != 9 && variant != 10 && variant != 14 { match cmd { 0 => etas[pi] = Some(eta.max(now + min_delay)), 1 => etas[pi] = None, 2 => approved[pi] = true, _ => approved[pi] = false } }
                }
                opj = json!({"op": "execute", "caller": hx(relayer.as_bytes()), "chain": hx(&xc), "id": hx(&xi), "src": hx(&xs), "payload": hx(&xp),
                             "label": format!("cmd{}/v{}", cmd, variant), "prop": pi, "cmd": cmd, "variant": variant});
            } else if k < 11 {
                // executeProposal / executeOperatorProposal with payments
                let operator_path = k >= 9;
                let ready: Vec<usize> = (0..props.len()).filter(|i| if operator_path { approved[*i] } else { etas[*i].map(|e| e <= now).unwrap_or(false) }).collect();
                let waiting: Vec<usize> = (0..props.len()).filter(|i| !operator_path && etas[*i].is_some()).collect();
                let pi = if let Some(("exec", fpi, _, _)) = forced { fpi } else if !ready.is_empty() && r.chance(3, 4) { *r.pick(&ready) } else if !waiting.is_empty() && r.chance(1, 2) { *r.pick(&waiting) } else { r.below(props.len() as u64) as usize };
                let p = props[pi].clone();
                let caller = if operator_path { if forced.is_some() || r.chance(4, 5) { cur_op.clone() } else { anyone.clone() } } else { anyone.clone() };
                let caller = if let Some(("exec", _, 2, _)) = forced { users[0].clone() } else { caller };      // path flag 2: time-lock path, always the same dispatcher
                let (egld, esdt): (u64, Vec<(Vec<u8>, u64, BigUint)>) = match if let Some(("exec", _, _, sh)) = forced { if sh > 0 { sh - 1 } else { r.below(9) } } else { r.below(9) } {
                    8 => (0, (0..12).map(|i| (if i % 2 == 0 { tok.clone() } else { tok2.clone() }, 0u64, bn(1 + i as u64))).collect()),      // twelve transfers: every one is credited on failure
                    6 => (0, vec![(sft.clone(), 5, bn(7))]), 7 => (0, vec![(sft.clone(), 5, bn(2)), (sft.clone(), 6, bn(3)), (tok.clone(), 0, bn(1))]),
                    9 => (5_000_000_000_000_000_000, vec![]),      // 5e18: two of these credited to one account add up to more than 2^63
                    0 => (7, vec![]), 1 => (0, vec![(tok.clone(), 0, bn(11))]), 2 => (0, vec![(tok.clone(), 0, bn(5)), (tok2.clone(), 0, bn(6))]),
                    3 => (0, vec![(tok.clone(), 0, bn(3)), (tok.clone(), 0, bn(4))]), _ => (0, vec![]) };
                let mut value = p.value; if forced.is_none() && r.chance(1, 12) { value += 1; }     // other value: different proposal
                step = w.tx(&caller, &gov, if operator_path { "executeOperatorProposal" } else { "executeProposal" }, vec![p.target.to_vec(), p.call_data.clone(), big(value)], &bn(egld), &esdt);
                if step.res.result_status == 0 {
                    if let Some(pr) = step.res.pending_calls.promises.first() {
                        let payj = json!({"egld": egld.to_string(), "esdt": esdt.iter().map(|(t, n, v)| json!([hx(t), n, v.to_string()])).collect::<Vec<_>>()});
                        pending.push(Pending { id: next_id, promise: pr.clone(), result: None, prop: pi, operator: operator_path, caller: caller.clone(), pay: payj,
                            key: json!([hx(p.target.as_bytes()), hx(&p.call_data), value.to_string()]) }); next_id += 1;
                        if !operator_path { etas[pi] = None; } else { approved[pi] = false; }
                        // in-flight interference: cancel (or re-schedule / re-approve) the same proposal before the callback
                        if forced.is_some() { }
                        else if r.chance(1, 3) { queue.push(("cmd", pi, if operator_path { 3 } else { 1 }, 0)); }
                        else if r.chance(1, 6) { queue.push(("cmd", pi, if operator_path { 2 } else { 0 }, 0)); }
                    }
                }
                opj = json!({"op": if operator_path { "execOperator" } else { "execProposal" }, "caller": hx(caller.as_bytes()), "target": hx(p.target.as_bytes()),
                    "call_data": hx(&p.call_data), "value": value.to_string(), "prop": pi,
                    "pay": {"egld": egld.to_string(), "esdt": esdt.iter().map(|(t, n, v)| json!([hx(t), n, v.to_string()])).collect::<Vec<_>>()}});
            } else if k < 14 && pending.iter().any(|p| p.result.is_none()) {
                // deliver: the destination call happens (outcome chosen here)
                let idxs: Vec<usize> = pending.iter().enumerate().filter(|(_, p)| p.result.is_none()).map(|(i, _)| i).collect();
                let i = *r.pick(&idxs);
                let value = pending[i].promise.call.call_value.clone();
                let tgt = pending[i].promise.call.to.clone();
                let govbal = w.r.blockchain_mock.state.accounts.get(&gov).unwrap().egld_balance.clone();
                let mut ok = r.chance(1, 2);
                if let Some(("deliver_fail", _, _, _)) = forced { ok = false; }
                if let Some(("deliver_ok", _, _, _)) = forced { ok = true; }
                if govbal < value { ok = false; }
                let rets: Vec<Vec<u8>> = if ok && r.chance(1, 2) { vec![vec![0xaa], vec![]] } else { vec![] };
                let forged = if ok { TxResult { result_status: 0, result_values: rets.clone(), ..TxResult::empty() } }
                             else { TxResult { result_status: 4, result_message: "target failed".to_string(), ..TxResult::empty() } };
                let g2 = gov.clone(); let v2 = value.clone();
                step = w.manual_step(move |rr| { if ok {
                    rr.blockchain_mock.state.accounts.get_mut(&g2).unwrap().egld_balance -= &v2;
                    rr.blockchain_mock.state.accounts.get_mut(&tgt).unwrap().egld_balance += &v2; } });
                pending[i].result = Some(forged);
                opj = json!({"op": "deliver", "id": pending[i].id, "ok": ok, "rets": rets.iter().map(|x| hx(x)).collect::<Vec<_>>(), "prop": pending[i].prop,
                             "operator": pending[i].operator, "key": pending[i].key, "native": value.to_string(), "target": hx(pending[i].promise.call.to.as_bytes()),
                             "endpoint": hx(pending[i].promise.call.endpoint_name.as_str().as_bytes()), "args": pending[i].promise.call.arguments.iter().map(|a| hx(a)).collect::<Vec<_>>()});
            } else if k < 17 && pending.iter().any(|p| p.result.is_some()) {
                let idxs: Vec<usize> = pending.iter().enumerate().filter(|(_, p)| p.result.is_some()).map(|(i, _)| i).collect();
                let i = *r.pick(&idxs);
                let p = pending.remove(i);
                let cb = async_promise_callback_tx_input(&p.promise, p.result.as_ref().unwrap(), &w.r.blockchain_mock.vm.builtin_functions);
                step = w.run_input(cb);
                if p.result.as_ref().unwrap().result_status != 0 {
                    let es = p.pay["esdt"].as_array().cloned().unwrap_or_default();
                    if es.is_empty() { credited.push((p.caller.clone(), b"EGLD".to_vec(), 0)); }
                    for e in es { credited.push((p.caller.clone(), hex::decode(e[0].as_str().unwrap()).unwrap(), e[1].as_u64().unwrap())); }
                }
                opj = json!({"op": "callback", "id": p.id, "prop": p.prop, "delivered_ok": p.result.as_ref().unwrap().result_status == 0,
                             "operator": p.operator, "dispatcher": hx(p.caller.as_bytes()), "pay": p.pay, "key": p.key});
            } else if k < 18 {
                let mut caller = anyone.clone();
                let (mut tk, mut nonce) = match r.below(9) { 0 => (b"EGLD".to_vec(), 0u64), 1 => (tok2.clone(), 0), 2 => (sft.clone(), 5), 3 => (sft.clone(), 6), 4 => (sft.clone(), 0), 5 => (b"EGLD".to_vec(), 7), 6 => (tok.clone(), 3), _ => (tok.clone(), 0) };
                if !credited.is_empty() && (matches!(forced, Some(("refund", _, _, _))) || r.chance(2, 3)) { let (cu, ct, cn) = if forced.is_some() { credited.last().unwrap().clone() } else { r.pick(&credited).clone() }; caller = cu; tk = ct; nonce = cn; if forced.is_none() && r.chance(1, 6) { caller = anyone.clone(); } if forced.is_none() && r.chance(1, 5) { nonce = cn + 1 + r.below(7); } }
                let mut arg = nested_buf(&tk); arg.extend_from_slice(&nonce.to_be_bytes());
                // the endpoint takes exactly one (token, nonce): the same credit named twice in one call must be refused as a whole
                let repeat = forced.is_none() && !credited.is_empty() && r.chance(1, 8);
                let other = matches!(forced, Some(("refund_other", _, _, _))) && !credited.is_empty();
                if other { let (cu, ct, cn) = credited.last().unwrap().clone(); tk = ct; nonce = cn;
                    caller = users.iter().find(|u| **u != cu).unwrap().clone();
                    let mut a2 = nested_buf(&tk); a2.extend_from_slice(&nonce.to_be_bytes());
                    step = w.call0(&caller, &gov, "withdrawRefundToken", vec![a2, cu.to_vec()]);
                } else {
                step = w.call0(&caller, &gov, "withdrawRefundToken", if repeat { vec![arg.clone(), arg] } else { vec![arg] }); }
                let repeat = repeat || other;
                opj = json!({"op": "withdrawRefund", "caller": hx(caller.as_bytes()), "token": hx(&tk), "nonce": nonce, "repeat": repeat});
            } else if k < 19 {
                let caller = if r.chance(1, 2) { cur_op.clone() } else { anyone.clone() };
                let a = if forced.is_some() { users[2].clone() } else { match r.below(4) { 0 => VMAddress::zero(), _ => r.pick(&users).clone() } };
                let caller = if forced.is_some() { cur_op.clone() } else { caller };
                step = w.call0(&caller, &gov, "transferOperatorship", vec![a.to_vec()]);
                if step.res.result_status == 0 { cur_op = a.clone(); }
                opj = json!({"op": "transferOp", "caller": hx(caller.as_bytes()), "a": hx(a.as_bytes())});
            } else if k == 19 && r.chance(1, 3) {
                // an upgrade transaction by the owner carrying an address: `upgrade` takes no arguments, the call is refused and the operator stays
                step = w.call0(&owner, &gov, "upgrade", vec![u1.to_vec()]);
                opj = json!({"op": "upgrade", "caller": hx(owner.as_bytes()), "a": hx(u1.as_bytes())});
            } else {
                let caller = anyone.clone();
                step = w.call0(&caller, &gov, "withdraw", vec![caller.to_vec(), big(5)]);
                opj = json!({"op": "withdraw", "caller": hx(caller.as_bytes()), "recipient": hx(caller.as_bytes()), "amount": "5"});
            }
            opj["now"] = json!(now);
            steps.push(json!({"op": opj, "res": step.json}));
        }
        let sigtab: Vec<Value> = tab.0.iter().map(|(a, b, c)| json!([hx(a), hx(b), hx(c)])).collect();
        println!("{}", json!({"trace": t, "init": init, "sigtab": sigtab, "steps": steps}));
    }
}
