// ITS properties (C04 C05 C08 C13 C14 C17 C18 C19 C20): gateway + gas service + ITS + token managers.
// All asynchronous work (transfer-with-data promises, ESDT property lookups, ESDT issuances) is
// delivered by the harness, in any order and with either outcome, with other transactions in between.
use crate::gateway_mode::{build_proof, keccak, Msg, Pool, SSet, SigTab, SignerE};
use crate::util::*;
use crate::vm::*;
use interchain_token_service::abi::AbiEncodeDecode;
use interchain_token_service::abi_types::*;
use multiversx_sc::types::{BigUint as MBig, ManagedBuffer, ManagedByteArray};
use multiversx_sc_scenario::api::StaticApi;
use multiversx_sc_scenario::multiversx_chain_vm::tx_mock::{async_callback_tx_input, async_promise_callback_tx_input, AsyncCallTxData, Promise, TxResult};
use multiversx_sc_scenario::multiversx_chain_vm::types::VMAddress;
use num_bigint::BigUint;
use serde_json::{json, Value};
use token_manager::constants::TokenManagerType;

type M = StaticApi;
fn bn(n: u64) -> BigUint { BigUint::from(n) }
fn mb(b: &[u8]) -> ManagedBuffer<M> { ManagedBuffer::from(b) }
fn mbig(n: u64) -> MBig<M> { MBig::from(n) }
fn b32(b: &[u8]) -> ManagedByteArray<M, 32> { let mut a = [0u8; 32]; a.copy_from_slice(b); ManagedByteArray::from(&a) }
fn out(b: ManagedBuffer<M>) -> Vec<u8> { b.to_boxed_bytes().as_slice().to_vec() }

pub const ISSUE_COST: u64 = 50_000_000_000_000_000;

fn transfer_payload(token_id: &[u8], src: &[u8], dest: &[u8], amount: u64, data: &[u8]) -> Vec<u8> {
    out(InterchainTransferPayload::<M> { message_type: mbig(0), token_id: b32(token_id), source_address: mb(src), destination_address: mb(dest), amount: mbig(amount), data: mb(data) }.abi_encode())
}
// the same transfer message (no data) as VALID ABI whose dynamic tails are stored out of order: destination address first, then source address, then the data;
// every offset-following decoder reads the same fields as from the canonical layout
fn transfer_payload_swapped(token_id: &[u8], src: &[u8], dest: &[u8], amount: u64) -> Vec<u8> {
    fn w32(n: u64) -> Vec<u8> { let mut v = vec![0u8; 24]; v.extend_from_slice(&n.to_be_bytes()); v }
    fn tail(b: &[u8]) -> Vec<u8> { let mut v = w32(b.len() as u64); v.extend_from_slice(b); while v.len() % 32 != 0 { v.push(0); } v }
    let (td, ts, tx) = (tail(dest), tail(src), tail(b""));
    let off_dst = 192u64; let off_src = off_dst + td.len() as u64; let off_data = off_src + ts.len() as u64;
    let mut v = w32(0); v.extend_from_slice(token_id); v.extend(w32(off_src)); v.extend(w32(off_dst)); v.extend(w32(amount)); v.extend(w32(off_data));
    v.extend(td); v.extend(ts); v.extend(tx); v
}
fn deploy_payload(token_id: &[u8], name: &[u8], symbol: &[u8], decimals: u8, minter: &[u8]) -> Vec<u8> {
    out(DeployInterchainTokenPayload::<M> { message_type: mbig(1), token_id: b32(token_id), name: mb(name), symbol: mb(symbol), decimals, minter: mb(minter) }.abi_encode())
}
fn link_payload(token_id: &[u8], ty: u8, src_tok: &[u8], dst_tok: &[u8], params: &[u8]) -> Vec<u8> {
    out(LinkTokenPayload::<M> { message_type: mbig(5), token_id: b32(token_id), token_manager_type: TokenManagerType::from(ty), source_token_address: mb(src_tok), destination_token_address: mb(dst_tok), link_params: mb(params) }.abi_encode())
}
fn hub_wrap(orig_chain: &[u8], inner: &[u8], ty: u64) -> Vec<u8> {
    out(SendToHubPayload::<M> { message_type: mbig(ty), destination_chain: mb(orig_chain), payload: mb(inner) }.abi_encode())
}

enum PKind { Transfer(Promise, Option<TxResult>), Props(AsyncCallTxData, &'static str), Issue(AsyncCallTxData, VMAddress) }
struct Pend { id: u64, kind: PKind }

struct Tok { id: Vec<u8>, kind: &'static str, tm: VMAddress, token: Option<Vec<u8>>, salt: Vec<u8>, deployer: VMAddress, supply: u64, minter: Vec<u8>, custody: u64 }

struct W {
    w: World, its: VMAddress, gw: VMAddress, gas: VMAddress, owner: VMAddress, operator: VMAddress, relayer: VMAddress,
    users: Vec<VMAddress>, dest: VMAddress, pool: Pool, tab: SigTab, set: SSet, domain: Vec<u8>, now: u64,
    steps: Vec<Value>, pend: Vec<Pend>, next_id: u64, next_tm: u8, msg: u64, toks: Vec<Tok>, paused: bool, proposed: Option<(VMAddress, VMAddress)>, last_in: Option<(Vec<u8>, Vec<u8>, Vec<u8>, Vec<u8>)>,
}

impl Tok { fn clone_lite(&self) -> (VMAddress, Vec<u8>, Vec<u8>) { (self.deployer.clone(), self.salt.clone(), self.id.clone()) } }
impl W {
    fn prep_tm_addr(&mut self) -> VMAddress {
        let a = sc_addr(0x40 + self.next_tm);
        let n = self.w.r.blockchain_mock.state.accounts.get(&self.its).unwrap().nonce;
        self.w.r.blockchain_mock.state.put_new_address(self.its.clone(), n, a.clone());
        self.w.track(&a);
        a
    }
    fn after_tx(&mut self, a: &VMAddress) -> bool {
        // did the transaction deploy a manager at the prepared address?
        if self.w.r.blockchain_mock.state.accounts.contains_key(a) { self.w.track(a); self.next_tm += 1;
            // new managers get the ESDT roles for tokens they manage by mint/burn
            true } else { false }
    }
    fn grant_roles(&mut self, tm: &VMAddress, tok: &[u8]) {
        if tok == b"EGLD" { return; }
        let acc = self.w.r.blockchain_mock.state.accounts.get_mut(tm).unwrap();
        acc.esdt.set_roles(tok.to_vec(), vec![b"ESDTRoleLocalMint".to_vec(), b"ESDTRoleLocalBurn".to_vec()]);
        // anybody who issues a token can grant its roles to the manager's address: the manager must refuse a foreign token by itself
        for other in [&b"TOK-123456"[..], b"OTH-654321"] { if other != tok { acc.esdt.set_roles(other.to_vec(), vec![b"ESDTRoleLocalMint".to_vec(), b"ESDTRoleLocalBurn".to_vec()]); } }
    }
    /// run an ITS transaction; records the step; collects pending asynchronous work
    fn its_tx(&mut self, name: &str, caller: &VMAddress, ep: &str, args: Vec<Vec<u8>>, egld: u64, esdt: &[(Vec<u8>, u64, BigUint)], mut opj: Value) -> (bool, Vec<Vec<u8>>, Option<VMAddress>) {
        let newtm = self.prep_tm_addr();
        let st = self.w.tx(caller, &self.its.clone(), ep, args, &bn(egld), esdt);
        let ok = st.res.result_status == 0;
        let deployed = if ok && self.after_tx(&newtm) { Some(newtm.clone()) } else { None };
        if let Some(tm) = &deployed {
            // a mint/burn manager of an existing token is given the ESDT local mint / burn roles (as the token owner would)
            let (ty, tk) = { let acc = self.w.r.blockchain_mock.state.accounts.get(tm).unwrap();
                (acc.storage.get(&b"implementation_type".to_vec()).cloned().unwrap_or_default(), acc.storage.get(&b"token_identifier".to_vec()).cloned().unwrap_or_default()) };
            if (ty == vec![1u8] || ty == vec![4u8]) && !tk.is_empty() { self.grant_roles(tm, &tk); }
        }
        if ok {
            for p in &st.res.pending_calls.promises { self.pend.push(Pend { id: self.next_id, kind: PKind::Transfer(p.clone(), None) }); self.next_id += 1; }
            if let Some(ac) = &st.res.pending_calls.async_call {
                let f = String::from_utf8_lossy(ac.endpoint_name.as_str().as_bytes()).to_string();
                if f == "getTokenProperties" { self.pend.push(Pend { id: self.next_id, kind: PKind::Props(ac.clone(), if name == "registerMetadata" { "meta" } else { "remote" }) }); }
                else { self.pend.push(Pend { id: self.next_id, kind: PKind::Issue(ac.clone(), ac.from.clone()) }); }
                self.next_id += 1;
            }
        }
        opj["op"] = json!(name); opj["caller"] = json!(hx(caller.as_bytes())); opj["now"] = json!(self.now); opj["newtm"] = json!(hx(newtm.as_bytes()));
        opj["pay"] = json!({"egld": egld.to_string(), "esdt": esdt.iter().map(|(t, n, v)| json!([hx(t), n, v.to_string()])).collect::<Vec<_>>()});
        let rets = st.res.result_values.clone();
        self.steps.push(json!({"op": opj, "res": st.json}));
        (ok, rets, deployed)
    }
    fn gw_approve(&mut self, m: &Msg) {
        let raw = m.encode();
        let pr = build_proof(&mut Rng::new(1), &self.pool, &mut self.tab, &self.set, &self.domain, 0, &raw, 0);
        let st = self.w.call0(&self.relayer.clone(), &self.gw.clone(), "approveMessages", vec![raw.clone(), pr.bytes.clone()]);
        self.steps.push(json!({"op": {"op": "gwApprove", "caller": hx(self.relayer.as_bytes()), "now": self.now, "messages": hx(&raw), "proof": hx(&pr.bytes),
            "msg": {"chain": hx(&m.chain), "id": hx(&m.id), "src": hx(&m.src), "contract": hx(&m.contract), "ph": hx(&m.ph)}}, "res": st.json}));
    }
    fn its_bal(&self, tok: &[u8]) -> BigUint {
        let acc = self.w.r.blockchain_mock.state.accounts.get(&self.its).unwrap();
        if tok == b"EGLD" { acc.egld_balance.clone() } else { acc.esdt.get_esdt_balance(tok, 0) }
    }
}

pub fn run(seed: u64, ntraces: usize) { run_d(seed, ntraces, None) }

/// every trace opens with directed schedule `only` (if given) instead of `t % 18`
pub fn run_d(seed: u64, ntraces: usize, only: Option<u64>) {
    let mut r = Rng::new(seed ^ 0x175);
    for t in 0..ntraces {
        let d = only.map(|x| x as usize).unwrap_or(t % 18);      // which directed schedule opens the trace
        let mut w = World::new();
        let owner = user_addr(1); let operator = user_addr(2); let relayer = user_addr(3);
        let users = vec![user_addr(4), user_addr(5), user_addr(6)]; let dest = user_addr(7);
        let tok = b"TOK-123456".to_vec(); let tok2 = b"OTH-654321".to_vec();
        let all: Vec<VMAddress> = [owner.clone(), operator.clone(), relayer.clone(), dest.clone()].into_iter().chain(users.iter().cloned()).collect();
        for u in &all { w.add_user(u, 16_000_000_000_000_000_000); w.add_esdt(u, &tok, 1_000_000); w.add_esdt(u, &tok2, 1_000_000); w.add_esdt(u, b"EGLD-123456", 1_000_000); }
        // a caller that is itself a contract account (a multisig, a wrapper), used by schedule 5 only: refunds go to it like to anybody else
        let scu = sc_addr(0x66); if d == 5 { w.add_contract_user(&scu, 1_000_000); }
        let gw = sc_addr(0x10); let gas = sc_addr(0x12); let tmt = sc_addr(0x13); let its = sc_addr(0x14);
        let pool = Pool::new();
        let set = SSet { signers: vec![SignerE { pk: pool.pk(0), key: Some(0), weight: bn(1) }], threshold: bn(1), nonce: vec![7u8; 32] };
        let domain = vec![5u8; 32];
        let now: u64 = 100_000 + r.below(20_000); w.set_time(now);
        w.deploy(&owner, &gw, b"gateway", vec![big(2), domain.clone(), big(0), owner.to_vec(), set.encode(0)]);
        w.deploy(&owner, &gas, b"gas", vec![owner.to_vec()]);
        let mut params = vec![0u8]; params.push(1); params.extend(nested_buf(b"EGLD"));
        w.deploy(&owner, &tmt, b"tm", vec![owner.to_vec(), vec![2u8], vec![0u8; 32], params]);
        let hub_set = r.chance(5, 6) || d == 6 || d == 1 || d >= 10;
        let mut chains: Vec<(Vec<u8>, Vec<u8>)> = vec![(b"ethereum".to_vec(), b"0xITSeth".to_vec()), (b"avalanche".to_vec(), b"hub".to_vec()), (b"polygon".to_vec(), b"0xITSpoly".to_vec())];
        if hub_set { chains.push((b"axelar".to_vec(), b"axelar1hub".to_vec())); }
        chains.push((b"axelarnet".to_vec(), b"0xITSnet".to_vec()));       // a directly trusted chain whose name has the hub's name as a prefix
        chains.push((b"Fuji-C".to_vec(), b"hub".to_vec()));               // a hub-routed chain whose name has upper-case letters: it is named in the hub wrapper exactly as given
        chains.push((b"avalanche-fuji-subnet-evm-devnet1".to_vec(), b"0xITSd1".to_vec()));      // two chains whose 33-byte names differ in the last byte only
        chains.push((b"avalanche-fuji-subnet-evm-devnet2".to_vec(), b"0xITSd2".to_vec()));
        chains.push((b"twin".to_vec(), b"axelar1hub".to_vec()));          // a directly trusted chain whose peer address string equals the hub's: it still is not the hub chain
        // the service's own chain name: mixed case in every fourth trace (it is hashed into every token id exactly as given)
        let own_chain: Vec<u8> = if t % 4 == 3 { b"MultiversX-D1".to_vec() } else { b"multiversx".to_vec() };
        // every sixth trace the deployment list names the service's OWN chain first (a shared table of all chains): every other entry keeps its own address
        if t % 6 == 1 { chains.insert(0, (own_chain.clone(), b"0xITSself".to_vec())); }
        let mut args = vec![gw.to_vec(), gas.to_vec(), tmt.to_vec(), operator.to_vec(), own_chain.clone(), big(chains.len() as u64)];
        for (c, _) in &chains { args.push(c.clone()); }
        args.push(big(chains.len() as u64)); for (_, a) in &chains { args.push(a.clone()); }
        let st = w.deploy(&owner, &its, b"its", args);
        let mut tracked: Vec<String> = all.iter().map(|u| hx(u.as_bytes())).collect();
        tracked.extend([hx(its.as_bytes()), hx(gw.as_bytes()), hx(gas.as_bytes())]); if d == 5 { tracked.push(hx(scu.as_bytes())); }
        for k in 0..12u8 { tracked.push(hx(sc_addr(0x40 + k).as_bytes())); }
        let init = json!({"its": hx(its.as_bytes()), "gw": hx(gw.as_bytes()), "gas": hx(gas.as_bytes()), "tm_impl": hx(tmt.as_bytes()), "owner": hx(owner.as_bytes()),
            "operator": hx(operator.as_bytes()), "chain": hx(&own_chain), "trusted": chains.iter().map(|(c, a)| json!([hx(c), hx(a)])).collect::<Vec<_>>(),
            "gwnow": now, "retention": 2, "domain": hx(&domain), "gwdelay": 0, "gwop": hx(owner.as_bytes()), "signers": [hx(&set.encode(0))],
            "tracked": tracked, "funds": all.iter().map(|u| json!([hx(u.as_bytes()), "16000000000000000000", [[hx(&tok), "1000000"], [hx(&tok2), "1000000"], [hx(b"EGLD-123456"), "1000000"]]]))
                .chain((if d == 5 { vec![json!([hx(scu.as_bytes()), "1000000", []])] } else { vec![] }).into_iter()).collect::<Vec<_>>(),
            "res": st.json});
        let mut g = W { w, its: its.clone(), gw: gw.clone(), gas: gas.clone(), owner: owner.clone(), operator: operator.clone(), relayer: relayer.clone(), users: users.clone(), dest: dest.clone(),
            pool, tab: SigTab(vec![]), set, domain, now, steps: vec![], pend: vec![], next_id: 0, next_tm: 0, msg: 0, toks: vec![], paused: false, proposed: None, last_in: None };

        let mut script: Vec<u64> = vec![];
        // --- directed schedules (every 10th trace): the recorded findings F-C08-1 and F-C17-2
        if d == 0 {
            let u = g.users[0].clone();
            let (ok, rets, dep) = g.its_tx("registerCanonical", &u, "registerCanonicalInterchainToken", vec![tok.clone()], 0, &[], json!({"token": hx(&tok)}));
            if ok {
                let tid = rets.last().unwrap().clone();
                g.toks.push(Tok { id: tid.clone(), kind: "lock", tm: dep.unwrap(), token: Some(tok.clone()), salt: vec![], deployer: u.clone(), supply: 0, minter: vec![], custody: 100 });
                let out = |g: &mut W, amt: u64| { let e = vec![(tok.clone(), 0u64, bn(amt))];
                    g.its_tx("transfer", &u, "interchainTransfer", vec![tid.clone(), b"ethereum".to_vec(), b"0xdead".to_vec(), vec![], vec![]], 0, &e,
                        json!({"token_id": hx(&tid), "dchain": hx(b"ethereum"), "daddr": hx(b"0xdead"), "metadata": "", "gas": "0"})); };
                out(&mut g, 100);
                let opr = g.operator.clone();
                g.its_tx("setFlowLimits", &opr, "setFlowLimits", vec![big(1), tid.clone(), big(1), big(10)], 0, &[], json!({"ids": [hx(&tid)], "limits": ["10"]}));
                g.msg += 1; let id = format!("msg-{}", g.msg).into_bytes();
                let payload = transfer_payload(&tid, b"0xsender", g.dest.as_bytes(), 10, b"with-data");
                let m = Msg { chain: b"ethereum".to_vec(), id: id.clone(), src: b"0xITSeth".to_vec(), contract: g.its.to_vec(), ph: keccak(&payload) }; g.gw_approve(&m);
                let rl = g.relayer.clone();
                g.its_tx("execute", &rl, "execute", vec![b"ethereum".to_vec(), id.clone(), b"0xITSeth".to_vec(), payload.clone()], 0, &[],
                    json!({"chain": hx(b"ethereum"), "id": hx(&id), "src": hx(b"0xITSeth"), "payload": hx(&payload), "ph": hx(&keccak(&payload)), "label": "directed-c08"}));
                out(&mut g, 10); out(&mut g, 10);
                script.extend([21u64, 20]);          // deliver (forced failure), then callback
            }
        }
        if d == 5 {
            // first: the CONTRACT account registers token metadata with gas attached; the lookup reports a non-fungible token: the gas goes back to that contract
            g.its_tx("registerMetadata", &scu, "registerTokenMetadata", vec![tok2.clone()], 666, &[], json!({"token": hx(&tok2)}));
            script.push(29);
            let u = g.users[1].clone();
            let (ok, rets, dep) = g.its_tx("registerCanonical", &u, "registerCanonicalInterchainToken", vec![tok.clone()], 0, &[], json!({"token": hx(&tok)}));
            if ok {
                g.toks.push(Tok { id: rets.last().unwrap().clone(), kind: "lock", tm: dep.unwrap(), token: Some(tok.clone()), salt: vec![], deployer: u.clone(), supply: 0, minter: vec![], custody: 0 });
                g.its_tx("deployRemoteCanonical", &u, "deployRemoteCanonicalInterchainToken", vec![tok.clone(), b"ethereum".to_vec()], 333, &[], json!({"token": hx(&tok), "dchain": hx(b"ethereum")}));
                let ow = g.owner.clone();
                let (okp, _, _) = g.its_tx("pause", &ow, "pause", vec![], 0, &[], json!({"paused": true})); if okp { g.paused = true; }
                script.extend([22u64, 10]);          // lookup succeeds while paused, then unpause
            }
        }
        if d == 8 {   // F-C17-1: hub address removed before the metadata lookup returns
            let u = g.users[1].clone();
            g.its_tx("registerMetadata", &u, "registerTokenMetadata", vec![tok.clone()], 777, &[], json!({"token": hx(&tok)}));
            let ow = g.owner.clone();
            g.its_tx("removeTrusted", &ow, "removeTrustedAddress", vec![b"axelar".to_vec()], 0, &[], json!({"chain": hx(b"axelar")}));
            // ... and a remote canonical deployment to a chain with a DIRECT peer: the hub's address is not needed, the lookup callback forwards the gas
            { let u0 = g.users[0].clone();
              let (okr, retsr, depr) = g.its_tx("registerCanonical", &u0, "registerCanonicalInterchainToken", vec![tok.clone()], 0, &[], json!({"token": hx(&tok)}));
              if okr { g.toks.push(Tok { id: retsr.last().unwrap().clone(), kind: "lock", tm: depr.unwrap(), token: Some(tok.clone()), salt: vec![], deployer: u0.clone(), supply: 0, minter: vec![], custody: 0 });
                  g.its_tx("deployRemoteCanonical", &u0, "deployRemoteCanonicalInterchainToken", vec![tok.clone(), b"ethereum".to_vec()], 444, &[], json!({"token": hx(&tok), "dchain": hx(b"ethereum")})); } }
            script.extend([22u64, 22, 48, 49, 44, 48, 44, 44, 76, 44, 9]);   // then: a stale operatorship proposal (propose, hand the role on, accept), and a fresh one accepted twice
        }
        if d == 9 {
            // first: the canonical EGLD token with 60 EGLD in its manager's custody -- an inbound transfer WITH DATA of it is delivered, the destination fails,
            // the failure callback must return the EGLD to the manager (as EGLD, not as an ESDT of that name), the message is executed again and succeeds
            { let u1 = g.users[1].clone(); let eg = b"EGLD".to_vec();
              let (oke, retse, depe) = g.its_tx("registerCanonical", &u1, "registerCanonicalInterchainToken", vec![eg.clone()], 0, &[], json!({"token": hx(&eg)}));
              if oke { let tide = retse.last().unwrap().clone();
                  g.toks.push(Tok { id: tide.clone(), kind: "lock", tm: depe.unwrap(), token: Some(eg.clone()), salt: vec![], deployer: u1.clone(), supply: 0, minter: vec![], custody: 60 });
                  g.its_tx("transfer", &u1, "interchainTransfer", vec![tide.clone(), b"ethereum".to_vec(), b"0xdead".to_vec(), vec![], vec![]], 60, &[],
                      json!({"token_id": hx(&tide), "dchain": hx(b"ethereum"), "daddr": hx(b"0xdead"), "metadata": "", "gas": "0"}));
                  script.extend([1700u64, 21, 20, 197, 25, 20]); } }
            // F-C17-5: empty destination chain: the callback falls into the local branch
            let u = g.users[0].clone();
            let (ok, rets, dep) = g.its_tx("registerCanonical", &u, "registerCanonicalInterchainToken", vec![tok.clone()], 0, &[], json!({"token": hx(&tok)}));
            if ok {
                g.toks.push(Tok { id: rets.last().unwrap().clone(), kind: "lock", tm: dep.unwrap(), token: Some(tok.clone()), salt: vec![], deployer: u.clone(), supply: 0, minter: vec![], custody: 0 });
                g.its_tx("deployRemoteCanonical", &u, "deployRemoteCanonicalInterchainToken", vec![tok.clone(), vec![]], 444, &[], json!({"token": hx(&tok), "dchain": ""}));
                script.extend([22u64]);
            }
        }
        if d == 2 || d == 3 || d == 7 || d == 4 || d == 17 {
            // local deployment driven step by step: (2) two issuances in flight, (3) the service named as minter, (7) steps under pause, (4) no minter: the mint step repeated
            let u = g.users[2].clone(); let salt = r.bytes(32); let supply = if d == 2 && (t / 18) % 2 == 1 { 1u64 << 63 } else { 1000u64 };      // every other (2)-trace: an initial supply of 2^63
            let minter = if d == 3 { g.its.to_vec() } else if d == 4 { vec![0u8; 32] } else { g.users[0].to_vec() };
            let dt = |g: &mut W, egld: u64| -> (bool, Vec<Vec<u8>>, Option<VMAddress>) {
                g.its_tx("deployToken", &u, "deployInterchainToken", vec![salt.clone(), b"MyToken".to_vec(), b"MTK".to_vec(), vec![18], big(supply), minter.clone()], egld, &[],
                    json!({"salt": hx(&salt), "name": hx(b"MyToken"), "symbol": hx(b"MTK"), "decimals": 18, "supply": supply.to_string(), "minter": hx(&minter)})) };
            let (ok, rets, dep) = dt(&mut g, 0);
            if ok { if let Some(tm) = dep { g.toks.push(Tok { id: rets.last().unwrap().clone(), kind: "native", tm, token: None, salt: salt.clone(), deployer: u.clone(), supply, minter: minter.clone(), custody: 0 }); } }
            dt(&mut g, if d == 4 { ISSUE_COST + ISSUE_COST / 2 } else { ISSUE_COST });      // (4): the issuing step is overpaid: everything is forwarded to the manager
            if d == 2 || d == 17 { dt(&mut g, ISSUE_COST); }                 // a second issuance before the first callback
            script.extend([23u64]);                                    // first issuance succeeds
            if d == 2 || d == 4 { script.push(42); }                   // between issuance and the mint step the service is the manager's minter
            if d == 7 { script.extend([10u64, 2, 15, 10]); }       // pause, try step 3 and a remote deployment, unpause
            else if d == 3 { script.extend([47u64, 46, 23, 46, 3]); }  // steps called with different arguments: (1000, minter) then (0, no minter)
            else if d == 17 { script.extend([27u64, 45, 3, 3, 26]); }     // (17): the second issuance FAILS after the first was recorded: the recorded token stays, a retry is refused
            else { script.extend([3u64, 23, 3, 3]); }
            if d == 2 { script.extend([81u64, 22, 87, 88, 22, 89, 22, 40, 50, 43, 41, 40, 67, 41, 69]); script.extend([40u64, 51, 67, 53, 69, 41, 79]); script.extend([40u64, 83, 19, 84, 41, 40, 41]); }   // an approval is REPLACED by a second one (the first destination minter is refused, the second accepted);   // ... then: an approval is replaced while its chain is no longer trusted (refused), the chain is trusted again, the replacement is not usable, the original is   // the minter approves a remote deployment, hands the role on, then the stale approval is used                   // step 3, second issuance callback, step 3 again (twice)
        }
        if d == 1 || d == 6 || d >= 10 {
            // (1) an inbound link / deploy message for a token id that is already bound; (6) hub-wrapped inbound messages while paused
            let u = g.users[0].clone();
            let (ok, rets, dep) = g.its_tx("registerCanonical", &u, "registerCanonicalInterchainToken", vec![tok.clone()], 0, &[], json!({"token": hx(&tok)}));
            if ok {
                let tid = rets.last().unwrap().clone();
                g.toks.push(Tok { id: tid.clone(), kind: "lock", tm: dep.unwrap(), token: Some(tok.clone()), salt: vec![], deployer: u.clone(), supply: 0, minter: vec![], custody: 200 });
                let e = vec![(tok.clone(), 0u64, bn(200))];
                g.its_tx("transfer", &u, "interchainTransfer", vec![tid.clone(), b"ethereum".to_vec(), b"0xdead".to_vec(), vec![], vec![]], 0, &e,
                    json!({"token_id": hx(&tid), "dchain": hx(b"ethereum"), "daddr": hx(b"0xdead"), "metadata": "", "gas": "0"}));
                if d == 1 { script.extend([190u64, 191, 192, 190, 90, 91, 92]);
                    // a metadata registration by users[1] whose lookup reports a NON-FUNGIBLE token (gas returned to users[1]); afterwards users[0] sends tokens out with gas:
                    // nothing of the earlier call may show in the later one (refund address = users[0])
                    let u1 = g.users[1].clone();
                    g.its_tx("registerMetadata", &u1, "registerTokenMetadata", vec![tok2.clone()], 555, &[], json!({"token": hx(&tok2)}));
                    script.extend([29u64, 93]); }
                else if d == 6 {
                    // a metadata registration is in flight when the owner pauses: its (successful) lookup callback still forwards the gas
                    let u1 = g.users[1].clone();
                    g.its_tx("registerMetadata", &u1, "registerTokenMetadata", vec![tok.clone()], 555, &[], json!({"token": hx(&tok)}));
                    script.push(22);
                    // a custom token registered BEFORE the pause: linking it while paused is refused because of the pause, not for a missing manager
                    { let u0c = g.users[0].clone(); let saltc = vec![0x6bu8; 32]; let opz = g.operator.clone();
                      let (okc, retsc, depc) = g.its_tx("registerCustom", &u0c, "registerCustomToken", vec![saltc.clone(), tok2.clone(), vec![2u8], opz.to_vec()], 0, &[],
                          json!({"salt": hx(&saltc), "token": hx(&tok2), "ty": 2, "operator": hx(opz.as_bytes())}));
                      if okc { g.toks.push(Tok { id: retsc.last().unwrap().clone(), kind: "lock", tm: depc.unwrap(), token: Some(tok2.clone()), salt: saltc, deployer: u0c, supply: 0, minter: vec![], custody: 0 }); } }
                    let ow = g.owner.clone();
                    let (okp, _, _) = g.its_tx("pause", &ow, "pause", vec![], 0, &[], json!({"paused": true})); if okp { g.paused = true; }
                    script.extend([1602u64, 1702, 1802, 1600, 3090, 3290, 3590, 3291, 3490, 3990, 56, 57, 58, 60, 61, 10, 1602, 61]);
                }
                else if d == 10 {   // inbound battery: every routing variant for a transfer without data, the main ones for transfers with data and deployments
                    for v in 0..21u64 { script.push(1600 + v); } script.push(201);
                    script.extend([1700u64, 20, 20, 1702, 1708, 1709, 1711, 1713, 1714, 1716, 1808, 1800, 1802, 1809, 1811, 1813, 1815, 1816, 1818, 1718, 195, 198, 2300, 2305, 2316, 2309, 2302, 2314]);
                    script.extend([2300u64, 2300, 2300, 2300, 2300, 2300, 85]);      // six consecutive inbound links from the peer: one of every requested manager type (2, 3, 4, 1, 0, 5 in some rotation)
                }
                else if d == 11 {   // the service is paused while a transfer with data is in flight: failed and successful delivery, direct and hub-wrapped
                    script.extend([1700u64, 10, 21, 20, 10, 1702, 10, 20, 20, 10, 1700, 21, 10, 20, 10, 1700, 1700, 21, 24, 20, 20]);
                    script.extend([1700u64, 28, 197, 25, 28, 197, 24, 197]); script.extend([1702u64, 197, 25, 197, 24, 197]);      // six hours pass in each window of a delivery: the message stays locked   // last part: a delivery fails while another of the same token is in flight
                }
                else if d == 12 {   // outbound battery: payment shapes x destination routing, with gas
                    // first: a mint/burn manager (custom token OTH) that also holds the burn role of TOK is paid with TOK: refused; then with its own token: burned
                    { let u0 = g.users[0].clone(); let salt = vec![0x5au8; 32]; let opz = g.operator.clone();
                      let (okc, retsc, depc) = g.its_tx("registerCustom", &u0, "registerCustomToken", vec![salt.clone(), tok2.clone(), vec![1u8], opz.to_vec()], 0, &[],
                          json!({"salt": hx(&salt), "token": hx(&tok2), "ty": 1, "operator": hx(opz.as_bytes())}));
                      if okc { let tmc = depc.unwrap(); g.grant_roles(&tmc, &tok2); let tidc = retsc.last().unwrap().clone();
                          // the manager itself is the recipient of an inbound transfer (it then holds 5 of its own token): a later outbound transfer burns exactly what was paid
                          { g.msg += 1; let idm = format!("msg-{}", g.msg).into_bytes(); let payload = transfer_payload(&tidc, b"0xsender", tmc.as_bytes(), 5, b"");
                            let m = Msg { chain: b"ethereum".to_vec(), id: idm.clone(), src: b"0xITSeth".to_vec(), contract: g.its.to_vec(), ph: keccak(&payload) }; g.gw_approve(&m);
                            g.its_tx("execute", &g.relayer.clone(), "execute", vec![b"ethereum".to_vec(), idm.clone(), b"0xITSeth".to_vec(), payload.clone()], 0, &[],
                                json!({"chain": hx(b"ethereum"), "id": hx(&idm), "src": hx(b"0xITSeth"), "payload": hx(&payload), "ph": hx(&keccak(&payload)), "label": "in6/to-manager"})); }
                          for (pt, amt) in [(tok.clone(), 7u64), (tok2.clone(), 9u64)] {
                              let e = vec![(pt.clone(), 0u64, bn(amt))];
                              g.its_tx("transfer", &u0, "interchainTransfer", vec![tidc.clone(), b"ethereum".to_vec(), b"0xdead".to_vec(), vec![], vec![]], 0, &e,
                                  json!({"token_id": hx(&tidc), "dchain": hx(b"ethereum"), "daddr": hx(b"0xdead"), "metadata": "", "gas": "0"})); }
                          g.toks.push(Tok { id: tidc, kind: "mint", tm: tmc, token: Some(tok2.clone()), salt, deployer: u0.clone(), supply: 0, minter: vec![], custody: 0 }); } }
                    for sh in [9u64, 8, 0, 1, 2] { for ch in 0..5u64 { script.push(3000 + sh * 10 + ch); } }
                    for sh in [9u64, 8, 1] { for ch in 0..2u64 { script.push(3500 + sh * 10 + ch); } }
                    script.extend([3095u64, 3595, 3085, 3585, 3596, 3290, 3291]); script.extend([3100u64, 3600]);      // three payments (transfer / call)
                    script.extend([82u64, 86, 58, 59, 60, 61]);      // a custom token linked to: the hub chain itself (refused), a hub-routed chain, a direct chain   // empty destination address (transfer / call), call data in the metadata
                    script.extend([51u64, 3080, 3580, 52, 3081, 3581]);
                    script.extend([71u64, 3082, 3582, 59]);      // the hub chain registered as hub-routed: still refused as a destination (transfer, call, linkToken)      // ethereum removed -> no transfer to it; then the hub removed -> none to a hub-routed chain
                }
                else if d == 14 {   // inbound deployment in two steps with the nominated minter calling the new manager directly in between
                    script.extend([193u64, 199, 45, 194, 23, 194, 45, 196]);
                    // ... then a second inbound deployment whose FIRST step runs before the owner pauses and whose SECOND step (the issuance, with the issue cost) is tried while paused:
                    // refused, nothing consumed; after unpausing the same call is accepted
                    script.extend([193u64, 10, 194, 10, 194, 23]);
                }
                else if d == 16 {   // the nominated minter already holds minter and operator roles when the hand-over of the third step runs
                    { let u2 = g.users[2].clone();      // first: a metadata registration carrying 1e19 wei of cross-chain gas (more than 2^63); its lookup succeeds
                      g.its_tx("registerMetadata", &u2, "registerTokenMetadata", vec![tok.clone()], 10_000_000_000_000_000_000, &[], json!({"token": hx(&tok)})); script.push(22); }
                    script.extend([62u64, 63, 20, 64, 23, 65, 65, 45]);
                    script.extend([62u64, 75, 23, 75, 75]);      // a zero-supply deployment with a minter: after the issuance every further call with EGLD attached is refused
                }
                else if d == 15 {
                    // (a) remote canonical deployment with an EMPTY destination chain for tokens that were never registered (EGLD: same call; ESDT: in the
                    //     lookup callback): nothing may be bound to their canonical ids, and the canonical registration afterwards still works
                    let u2 = g.users[1].clone();
                    for (tk, gasv) in [(b"EGLD".to_vec(), 0u64), (tok2.clone(), 0), (b"EGLD".to_vec(), 777)] {
                        g.its_tx("deployRemoteCanonical", &u2, "deployRemoteCanonicalInterchainToken", vec![tk.clone(), vec![]], gasv, &[], json!({"token": hx(&tk), "dchain": ""})); }
                    // (b) the trusted address of the source chain is removed / replaced while a transfer with data is in flight and restored afterwards:
                    //     the delivered message must end up executed and a second execute must be refused
                    script.extend([22u64, 56, 80, 1700, 51, 1600, 25, 24, 53, 197, 1700, 25, 54, 1600, 24, 53, 197, 1702, 52, 25, 24, 55, 197, 70, 26, 26, 57, 26, 26, 77, 78, 26]);
                }
                else {              // d == 13: message-type words outside the known range, direct and hub-wrapped
                    for i in 0..11u64 { script.push(2000 + i); script.push(2100 + i); } script.extend([2111u64, 2112]);
                }
            }
        }
        // --- a few registrations first, so that later operations have something to act on
        let nactions = 10 + r.below(14) as usize;
        if script.is_empty() { script = vec![0, 2]; }     // canonical TOK, start a native deployment
        if r.chance(1, 2) { script.push(1); }
        let nactions = nactions + script.len();
        for _ in 0..nactions {
            g.now += match r.below(6) { 0 => 21600, _ => r.below(300) }; let now = g.now; g.w.set_time(now);
            let anyone = r.pick(&g.users).clone();
            let has_pending = !g.pend.is_empty();
            let scripted = !script.is_empty();
            let a = if !script.is_empty() { script.remove(0) } else if has_pending && r.chance(1, 2) { 20 } else { *r.pick(&[0u64, 1, 2, 3, 3, 3, 4, 4, 4, 5, 5, 5, 6, 6, 6, 7, 7, 7, 7, 8, 9, 10, 11, 12, 12, 13, 14, 14, 15, 16, 17, 18, 19, 19, 26, 26]) };
            let a_raw = a; let a = if a == 56 || a == 57 || a == 77 || a == 78 { 0 } else if a == 58 { 1 } else if (59..=61).contains(&a) { 17 } else if a == 198 { 1600 } else { a };
            let force_fail = a == 21; let force_props_ok = a == 22; let force_props_nonfungible = a == 29; let force_issue_ok = a == 23; let force_cb = a == 24; let force_ok = a == 25; let force_issue_fail = a == 27;
            let a = if a == 21 || a == 22 || a == 23 || a == 24 || a == 25 || a == 27 || a == 29 { 20 } else { a };
            // 1<a><vv>: inbound message kind a (6, 7, 8) in routing variant vv; 20<i> / 21<i>: message-type word i (direct / hub-wrapped); 3<shape><chain> / 35..: outbound transfer / call; 190..192: inbound link / deploy for an already bound token id (direct, hub-wrapped, deploy)
            let mut fvar: Option<u64> = None; let mut fbound: Option<u64> = None; let mut fswap = false;
            let mut ftype: Option<u64> = None; let mut fshape: Option<(u64, u64)> = None;
            let mut fdeploy = false; let mut flink = false;
            if a == 196 { // a second, separately approved deploy message for a token id whose manager already recorded its token: refused
                g.msg += 1; let id = format!("msg-{}", g.msg).into_bytes();
                if let Some(tk) = g.toks.iter().rev().find(|t| t.kind == "remote-native") { let tid = tk.id.clone();
                    let payload = deploy_payload(&tid, b"Remote2", b"RM2", 6, g.users[2].as_bytes());
                    let m = Msg { chain: b"ethereum".to_vec(), id: id.clone(), src: b"0xITSeth".to_vec(), contract: g.its.to_vec(), ph: keccak(&payload) }; g.gw_approve(&m);
                    for egld in [0u64, ISSUE_COST] {
                        g.its_tx("execute", &g.relayer.clone(), "execute", vec![b"ethereum".to_vec(), id.clone(), b"0xITSeth".to_vec(), payload.clone()], egld, &[],
                            json!({"chain": hx(b"ethereum"), "id": hx(&id), "src": hx(b"0xITSeth"), "payload": hx(&payload), "ph": hx(&keccak(&payload)), "label": "in8/second-message"})); } }
                continue; }
            if a == 195 { // a released transfer is approved again at the gateway (same message) and executed again: must be refused
                g.msg += 1; let id = format!("msg-{}", g.msg).into_bytes();
                if let Some(tk) = g.toks.first() { let tid = tk.id.clone();
                    let payload = transfer_payload(&tid, b"0xsender", g.users[0].as_bytes(), 3, b"");
                    let m = Msg { chain: b"ethereum".to_vec(), id: id.clone(), src: b"0xITSeth".to_vec(), contract: g.its.to_vec(), ph: keccak(&payload) };
                    for _ in 0..2 { g.gw_approve(&m);
                        g.its_tx("execute", &g.relayer.clone(), "execute", vec![b"ethereum".to_vec(), id.clone(), b"0xITSeth".to_vec(), payload.clone()], 0, &[],
                            json!({"chain": hx(b"ethereum"), "id": hx(&id), "src": hx(b"0xITSeth"), "payload": hx(&payload), "ph": hx(&keccak(&payload)), "label": "in6/reapproved"})); } }
                continue; }
            if a == 70 { // the owner sends an upgrade transaction carrying constructor arguments with ANOTHER chain name: `upgrade` takes no arguments, the call is refused
                let ow = g.owner.clone();
                let args = vec![g.gw.to_vec(), g.gas.to_vec(), tmt.to_vec(), g.operator.to_vec(), b"OtherChain".to_vec(), big(0), big(0)];
                g.its_tx("upgrade", &ow, "upgrade", args, 0, &[], json!({"chain": hx(b"OtherChain")}));
                continue; }
            if a == 199 { // an already EXECUTED message id is presented again with a forged deploy payload for the manager of the last inbound deployment (which has no token yet): refused
                g.msg += 1; let ide = format!("msg-{}", g.msg).into_bytes();
                if let (Some(tk), Some((_, _, _, dp))) = (g.toks.first().map(|t| t.id.clone()), g.last_in.clone()) {
                    let p1 = transfer_payload(&tk, b"0xsender", g.users[0].as_bytes(), 1, b"");
                    let m = Msg { chain: b"ethereum".to_vec(), id: ide.clone(), src: b"0xITSeth".to_vec(), contract: g.its.to_vec(), ph: keccak(&p1) }; g.gw_approve(&m);
                    g.its_tx("execute", &g.relayer.clone(), "execute", vec![b"ethereum".to_vec(), ide.clone(), b"0xITSeth".to_vec(), p1.clone()], 0, &[],
                        json!({"chain": hx(b"ethereum"), "id": hx(&ide), "src": hx(b"0xITSeth"), "payload": hx(&p1), "ph": hx(&keccak(&p1)), "label": "in6/spent"}));
                    if dp.len() >= 64 { let forged = deploy_payload(&dp[32..64], b"Forged", b"FRG", 6, g.users[2].as_bytes());
                        let u2 = g.users[2].clone();
                        g.its_tx("execute", &u2, "execute", vec![b"ethereum".to_vec(), ide.clone(), b"0xITSeth".to_vec(), forged.clone()], ISSUE_COST, &[],
                            json!({"chain": hx(b"ethereum"), "id": hx(&ide), "src": hx(b"0xITSeth"), "payload": hx(&forged), "ph": hx(&keccak(&forged)), "label": "in8/forged-on-spent-id"})); } }
                continue; }
            if a == 80 { // an outbound transfer of the EGLD token (if registered) with its gas paid in EGLD: the native gas event names the same destination as the gateway event
                if let Some(tk) = g.toks.iter().find(|t| t.token.as_deref() == Some(&b"EGLD"[..])) { let tid = tk.id.clone(); let u = g.users[0].clone();
                    for (dchain, gasv) in [(&b"ethereum"[..], 7u64), (&b"avalanche"[..], 9u64)] {
                        g.its_tx("transfer", &u, "interchainTransfer", vec![tid.clone(), dchain.to_vec(), b"0xdestination".to_vec(), vec![], big(gasv)], 50 + gasv, &[],
                            json!({"token_id": hx(&tid), "dchain": hx(dchain), "daddr": hx(b"0xdestination"), "metadata": "", "gas": gasv.to_string()})); } }
                continue; }
            if a == 28 { g.now += 21600; let now = g.now; g.w.set_time(now); continue; }      // six hours pass (a new flow epoch; any timeout has expired)
            if a == 71 { let ow = g.owner.clone();      // the owner registers the hub chain ITSELF with the routing marker: it still is no destination
                g.its_tx("setTrusted", &ow, "setTrustedAddress", vec![b"axelar".to_vec(), b"hub".to_vec()], 0, &[], json!({"chain": hx(b"axelar"), "a": hx(b"hub")})); continue; }
            if a == 76 { // the account that accepted the service's operatorship hands it back to the proposer
                if let Some((from, to)) = g.proposed.clone() { let (ok, _, _) = g.its_tx("transferOp", &to, "transferOperatorship", vec![from.to_vec()], 0, &[], json!({"a": hx(from.as_bytes())})); if ok { g.operator = from; } }
                continue; }
            if a == 90 || a == 91 || a == 92 { // the service's OPERATOR (not the owner) calls the owner-only endpoints with well-formed arguments: set a trusted address (90), remove one (91), pause (92): all refused
                let opr = g.operator.clone();
                if a == 90 { g.its_tx("setTrusted", &opr, "setTrustedAddress", vec![b"avalanche".to_vec(), b"0xByOperator".to_vec()], 0, &[], json!({"chain": hx(b"avalanche"), "a": hx(b"0xByOperator")})); }
                else if a == 91 { g.its_tx("removeTrusted", &opr, "removeTrustedAddress", vec![b"ethereum".to_vec()], 0, &[], json!({"chain": hx(b"ethereum")})); }
                else { let p = !g.paused; let (ok, _, _) = g.its_tx("pause", &opr, if p { "pause" } else { "unpause" }, vec![], 0, &[], json!({"paused": p})); if ok { g.paused = p; } }
                continue; }
            if a == 93 { // users[0] sends the first token out with gas taken from the same payment (13 paid, 4 of it gas): the gas service names the SENDER as refund address
                if let Some(tk) = g.toks.first() { let (tid, ttok) = (tk.id.clone(), tk.token.clone().unwrap_or(tok.clone())); let u = g.users[0].clone();
                    let e = vec![(ttok.clone(), 0u64, bn(13))];
                    g.its_tx("transfer", &u, "interchainTransfer", vec![tid.clone(), b"ethereum".to_vec(), b"0xdestination".to_vec(), vec![], big(4)], 0, &e,
                        json!({"token_id": hx(&tid), "dchain": hx(b"ethereum"), "daddr": hx(b"0xdestination"), "metadata": "", "gas": "4"})); }
                continue; }
            if a == 85 { // an approved transfer of amount ZERO naming a token id nobody registered: refused like any unknown id, the approval stays
                g.msg += 1; let id = format!("msg-{}", g.msg).into_bytes(); let tidz = r.bytes(32);
                let payload = transfer_payload(&tidz, b"0xsender", g.users[0].as_bytes(), 0, b"");
                let m = Msg { chain: b"ethereum".to_vec(), id: id.clone(), src: b"0xITSeth".to_vec(), contract: g.its.to_vec(), ph: keccak(&payload) }; g.gw_approve(&m);
                g.its_tx("execute", &g.relayer.clone(), "execute", vec![b"ethereum".to_vec(), id.clone(), b"0xITSeth".to_vec(), payload.clone()], 0, &[],
                    json!({"chain": hx(b"ethereum"), "id": hx(&id), "src": hx(b"0xITSeth"), "payload": hx(&payload), "ph": hx(&keccak(&payload)), "label": "in6/zero-unknown"}));
                continue; }
            if a == 86 { // an outbound transfer whose gas is paid in an ESDT with the ticker EGLD (EGLD-123456): an ordinary ESDT, forwarded to the gas service as such
                if let Some(tk) = g.toks.first() { let (tid, ttok) = (tk.id.clone(), tk.token.clone().unwrap_or(tok.clone())); let u = g.users[0].clone();
                    let e = vec![(ttok.clone(), 0u64, bn(9)), (b"EGLD-123456".to_vec(), 0u64, bn(4))];
                    g.its_tx("transfer", &u, "interchainTransfer", vec![tid.clone(), b"ethereum".to_vec(), b"0xdestination".to_vec(), vec![], big(4)], 0, &e,
                        json!({"token_id": hx(&tid), "dchain": hx(b"ethereum"), "daddr": hx(b"0xdestination"), "metadata": "", "gas": "4"})); }
                continue; }
            if a == 87 || a == 88 || a == 89 { // 87: the minter approves a remote deployment to ...devnet1; 88: the deployer uses it for ...devnet2 (refused); 89: for ...devnet1
                if let Some(tk) = g.toks.iter().rev().find(|t| t.kind == "native" && t.minter.len() == 32) {
                    let (deployer, salt, minter) = (tk.deployer.clone(), tk.salt.clone(), tk.minter.clone()); let dm = b"0xremoteminter".to_vec();
                    let dchain = if a == 88 { b"avalanche-fuji-subnet-evm-devnet2".to_vec() } else { b"avalanche-fuji-subnet-evm-devnet1".to_vec() };
                    if a == 87 { let caller = VMAddress::new(minter.clone().try_into().unwrap());
                        g.its_tx("approveRemote", &caller, "approveDeployRemoteInterchainToken", vec![deployer.to_vec(), salt.clone(), dchain.clone(), dm.clone()], 0, &[],
                            json!({"deployer": hx(deployer.as_bytes()), "salt": hx(&salt), "dchain": hx(&dchain), "dminter": hx(&dm)})); }
                    else { g.its_tx("deployRemote", &deployer, "deployRemoteInterchainTokenWithMinter", vec![salt.clone(), minter.clone(), dchain.clone(), dm.clone()], 1000, &[],
                            json!({"salt": hx(&salt), "minter": hx(&minter), "dchain": hx(&dchain), "dminter": Some(hx(&dm))})); } }
                continue; }
            if a == 82 { // an outbound transfer to the hub-routed chain with upper-case letters in its name (the wrapper's destination chain is compared byte for byte)
                if let Some(tk) = g.toks.first() { let (tid, ttok) = (tk.id.clone(), tk.token.clone().unwrap_or(tok.clone())); let u = g.users[0].clone();
                    let e = vec![(ttok.clone(), 0u64, bn(5))];
                    g.its_tx("transfer", &u, "interchainTransfer", vec![tid.clone(), b"Fuji-C".to_vec(), b"0xdestination".to_vec(), vec![], vec![]], 0, &e,
                        json!({"token_id": hx(&tid), "dchain": hx(b"Fuji-C"), "daddr": hx(b"0xdestination"), "metadata": "", "gas": "0"})); }
                continue; }
            if a == 81 { // the plain endpoint: deployRemoteInterchainToken(salt, ethereum) for the newest native token, by its deployer, with gas
                if let Some(tk) = g.toks.iter().rev().find(|t| t.kind == "native") {
                    let (deployer, salt) = (tk.deployer.clone(), tk.salt.clone());
                    g.its_tx("deployRemote", &deployer, "deployRemoteInterchainToken", vec![salt.clone(), b"ethereum".to_vec()], 500, &[],
                        json!({"salt": hx(&salt), "minter": hx(&[0u8; 32]), "dchain": hx(b"ethereum"), "dminter": Value::Null})); }
                continue; }
            if a == 79 { // a remote deployment naming the DEPLOYER's own address as destination minter, without any approval: refused
                if let Some(tk) = g.toks.iter().rev().find(|t| t.kind == "native" && t.minter.len() == 32) {
                    let (deployer, salt, minter) = (tk.deployer.clone(), tk.salt.clone(), tk.minter.clone()); let dm = deployer.to_vec();
                    g.its_tx("deployRemote", &deployer, "deployRemoteInterchainTokenWithMinter", vec![salt.clone(), minter.clone(), b"ethereum".to_vec(), dm.clone()], 1000, &[],
                        json!({"salt": hx(&salt), "minter": hx(&minter), "dchain": hx(b"ethereum"), "dminter": Some(hx(&dm))})); }
                continue; }
            if a == 197 { // the last inbound message executed once more, exactly as it was (no new approval)
                if let Some((chain, id, src, payload)) = g.last_in.clone() {
                    g.its_tx("execute", &g.relayer.clone(), "execute", vec![chain.clone(), id.clone(), src.clone(), payload.clone()], 0, &[],
                        json!({"chain": hx(&chain), "id": hx(&id), "src": hx(&src), "payload": hx(&payload), "ph": hx(&keccak(&payload)), "label": "in/again"})); }
                continue; }
            if a == 53 || a == 54 || a == 55 { // the owner sets a trusted address: ethereum back to its peer (53), ethereum to another address (54), the hub back (55)
                let (chain, addr): (&[u8], &[u8]) = if a == 53 { (b"ethereum", b"0xITSeth") } else if a == 54 { (b"ethereum", b"0xOther") } else { (b"axelar", b"axelar1hub") };
                let ow = g.owner.clone();
                g.its_tx("setTrusted", &ow, "setTrustedAddress", vec![chain.to_vec(), addr.to_vec()], 0, &[], json!({"chain": hx(chain), "a": hx(addr)}));
                continue; }
            if a == 194 { // step 2 of the last inbound message: the same execute call with the issue cost attached
                if let Some((chain, id, src, payload)) = g.last_in.clone() {
                    g.its_tx("execute", &g.relayer.clone(), "execute", vec![chain.clone(), id.clone(), src.clone(), payload.clone()], ISSUE_COST, &[],
                        json!({"chain": hx(&chain), "id": hx(&id), "src": hx(&src), "payload": hx(&payload), "ph": hx(&keccak(&payload)), "label": "in8/step2"})); }
                continue; }
            let a = if a == 193 { fdeploy = true; fvar = Some(0); 8 } else { a };
            let a = if a == 201 { fswap = true; fvar = Some(0); 6 } else { a };      // 201: an inbound transfer whose payload stores its tails out of order
            let a = if (190..=192).contains(&a) { fbound = Some(a - 190); fvar = Some(if a == 191 { 2 } else { 0 }); 8 }
                    else if a >= 3000 { let c = a - 3000; fshape = Some(((c % 500) / 10, c % 10)); if c >= 500 { 5 } else { 4 } }
                    else if a >= 2300 && a < 2400 { flink = true; fvar = Some(a - 2300); 8 }      // 23<vv>: inbound LINK_TOKEN message in routing variant vv
                    else if a >= 2000 { let c = a - 2000; ftype = Some(c % 100); fvar = Some(if c >= 100 { 2 } else { 0 }); 6 }
                    else if a >= 1000 { fvar = Some((a - 1000) % 100); (a - 1000) / 100 } else { a };
            match a {
                0 => { // registerCanonicalInterchainToken
                    let token = if a_raw == 56 { b"EGLD".to_vec() } else if a_raw == 57 { tok2.clone() } else if a_raw == 77 { b"ABCDEFGHIJ-12345a".to_vec() } else if a_raw == 78 { b"ABCDEFGHIJ-12345b".to_vec() }
                                else { match r.below(7) { 0 => b"EGLD".to_vec(), 1 => b"bad".to_vec(), 2 => tok2.clone(), 5 => b"ABCDEFGHIJ-12345a".to_vec(), 6 => b"ABCDEFGHIJ-12345b".to_vec(), _ => tok.clone() } };      // also identifiers of the maximum length (10-character ticker)
                    let (ok, rets, dep) = g.its_tx("registerCanonical", &anyone, "registerCanonicalInterchainToken", vec![token.clone()], 0, &[], json!({"token": hx(&token)}));
                    if ok { let tm = dep.unwrap(); g.toks.push(Tok { id: rets.last().unwrap().clone(), kind: "lock", tm: tm.clone(), token: Some(token.clone()), salt: vec![], deployer: anyone.clone(), supply: 0, minter: vec![], custody: 0 }); }
                }
                1 => { // registerCustomToken
                    let salt = r.bytes(32); let ty = *r.pick(&[0u8, 1, 2, 3, 4, 4, 7]); let token = if r.chance(1, 6) { b"bad-token".to_vec() } else { tok2.clone() };
                    let (ty, token) = if a_raw == 58 { (2u8, tok2.clone()) } else { (ty, token) };
                    let op = match r.below(3) { 0 => VMAddress::zero(), _ => g.operator.clone() };
                    let (ok, rets, dep) = g.its_tx("registerCustom", &anyone, "registerCustomToken", vec![salt.clone(), token.clone(), if ty == 0 { vec![] } else { vec![ty] }, op.to_vec()], 0, &[],
                        json!({"salt": hx(&salt), "token": hx(&token), "ty": ty, "operator": hx(op.as_bytes())}));
                    if ok { let tm = dep.unwrap(); if ty == 1 || ty == 4 { g.grant_roles(&tm, &token); }
                        g.toks.push(Tok { id: rets.last().unwrap().clone(), kind: if ty == 2 || ty == 3 { "lock" } else { "mint" }, tm, token: Some(token), salt, deployer: anyone.clone(), supply: 0, minter: vec![], custody: 0 }); }
                }
                2 | 3 => { // deployInterchainToken: next step of an existing deployment, or a new one
                    let existing: Vec<usize> = g.toks.iter().enumerate().filter(|(_, t)| t.kind == "native").map(|(i, _)| i).collect();
                    let (salt, deployer, supply, minter) = if !existing.is_empty() && (a == 3 || r.chance(2, 3)) {
                        let tk = &g.toks[*r.pick(&existing)];
                        let (sup, mi) = if !scripted && r.chance(1, 5) { match r.below(3) { 0 => (0u64, vec![0u8; 32]), 1 => (tk.supply + 1, tk.minter.clone()), _ => (tk.supply, r.pick(&g.users).to_vec()) } } else { (tk.supply, tk.minter.clone()) };
                        (tk.salt.clone(), tk.deployer.clone(), sup, mi)
                    } else {
                        let supply = match r.below(3) { 0 => 0, _ => 1000 + r.below(1000) };
                        let minter = match r.below(5) { 0 => vec![0u8; 32], 1 => g.its.to_vec(), _ => r.pick(&g.users).to_vec() };
                        (r.bytes(32), anyone.clone(), supply, minter)
                    };
                    let known = g.toks.iter().find(|t| t.salt == salt && t.kind == "native");
                    let issuing = known.map(|t| t.token.is_none()).unwrap_or(false) && !g.pend.iter().any(|p| matches!(&p.kind, PKind::Issue(_, tm) if Some(tm) == known.map(|t| &t.tm)));
                    let egld = if !scripted && r.chance(1, 5) { *r.pick(&[0u64, ISSUE_COST, 2 * ISSUE_COST, ISSUE_COST + 1, ISSUE_COST - 1, ISSUE_COST + ISSUE_COST / 2]) } else if issuing { ISSUE_COST } else { 0 };
                    let name = if !scripted && r.chance(1, 10) { vec![] } else { b"MyToken".to_vec() };
                    // the endpoint takes EGLD only (the issue cost): an ESDT payment must be refused, not kept
                    let esdt_pay: Vec<(Vec<u8>, u64, BigUint)> = if !scripted && egld == 0 && r.chance(1, 8) { vec![(tok.clone(), 0u64, bn(5))] } else { vec![] };
                    let (ok, rets, dep) = g.its_tx("deployToken", &deployer, "deployInterchainToken", vec![salt.clone(), name.clone(), b"MTK".to_vec(), vec![18], big(supply), minter.clone()], egld, &esdt_pay,
                        json!({"salt": hx(&salt), "name": hx(&name), "symbol": hx(b"MTK"), "decimals": 18, "supply": supply.to_string(), "minter": hx(&minter)}));
                    if ok { if let Some(tm) = dep { g.toks.push(Tok { id: rets.last().unwrap().clone(), kind: "native", tm, token: None, salt, deployer, supply, minter, custody: 0 }); } }
                }
                4 | 5 => { // outbound interchainTransfer / callContractWithInterchainToken
                    if g.toks.is_empty() { continue; }
                    // forced shapes: chain index 5..9 = chain (index - 5) with an EMPTY destination address; shape 20.. = shape - 20 with call data in the metadata
                    let (f_empty_dest, f_md_data, f_owner) = if let Some((sh, ch)) = fshape { (ch >= 5, sh % 40 >= 20, sh >= 40) } else { (false, false, false) };
                    let fshape = fshape.map(|(sh, ch)| (sh % 20, ch % 5));
                    let anyone = if f_owner { g.owner.clone() } else { anyone.clone() };      // shape 40..: the contract owner is the caller
                    let ti = if fshape.is_some() { 0 } else { r.below(g.toks.len() as u64) as usize };
                    let (tid, ttok) = (g.toks[ti].id.clone(), g.toks[ti].token.clone().unwrap_or(tok.clone()));
                    let gasv = if fshape.is_some() { 3 + r.below(9) } else { match r.below(4) { 0 => 0, _ => 1 + r.below(20) } };
                    let amt = 1 + r.below(60) + if fshape.is_some() { gasv } else { 0 };
                    let is_egld = ttok == b"EGLD".to_vec();
                    let (egld, esdt): (u64, Vec<(Vec<u8>, u64, BigUint)>) = match if let Some((sh, _)) = fshape { sh } else if is_egld { 4 + r.below(5) } else { r.below(10) } {
                        9 if !is_egld => (0, vec![(ttok.clone(), 0, bn(amt)), (ttok.clone(), 0, bn(gasv))]),                // the same token twice: amount, gas
                        10 if !is_egld => (0, vec![(ttok.clone(), 0, bn(amt)), (tok2.clone(), 0, bn(gasv)), (b"EGLD-123456".to_vec(), 0, bn(7))]),      // THREE ESDT entries (transfer, gas, a third): at most two are supported, refused
                        0 => (0, vec![(ttok.clone(), 0, bn(gasv))]),                                          // amount == gas
                        1 => (0, vec![(ttok.clone(), 0, bn(amt)), (tok2.clone(), 0, bn(gasv))]),               // two ESDTs
                        2 => (0, vec![(ttok.clone(), 0, bn(amt)), (tok2.clone(), 0, bn(gasv + 1))]),           // second != gas
                        3 => (0, vec![(tok2.clone(), 0, bn(amt + gasv))]),                                     // wrong token (unless it is the manager's)
                        4 => (0, vec![]),
                        5 if is_egld => (gasv, vec![]),
                        _ => if is_egld { (amt + gasv, vec![]) } else { (0, vec![(ttok.clone(), 0, bn(amt + gasv))]) },
                    };
                    let dchain = if let Some((_, ch)) = fshape { [&b"ethereum"[..], b"avalanche", b"axelar", b"unknown", b"axelarnet"][ch as usize].to_vec() } else { r.pick(&[&b"ethereum"[..], b"avalanche", b"polygon", b"axelar", b"unknown", b"ethereum", b"axelarnet", b"Fuji-C"]).to_vec() };
                    // destination addresses and data also longer than one ABI word and not word aligned (textual addresses of other chains)
                    let daddr = if f_empty_dest || (fshape.is_none() && r.chance(1, 10)) { vec![] } else { match r.below(6) { 0 => r.bytes(40), 1 => r.bytes(33), 2 => r.bytes(64), _ => b"0xdestination".to_vec() } };
                    let before_c = g.toks[ti].custody;
                    let _ = before_c;
                    if a == 4 {
                        let md = match if f_md_data { 2 } else if fshape.is_some() { 0 } else { r.below(5) } { 0 => vec![], 1 => vec![0, 0, 0, 0], 2 => { let mut v = vec![0, 0, 0, 0]; v.extend(nested_buf(&if r.chance(1, 2) { r.bytes(45) } else { b"hello".to_vec() })); v }, 3 => vec![0, 0, 0, 1], _ => vec![1, 2] };
                        let (ok, _, _) = g.its_tx("transfer", &anyone, "interchainTransfer", vec![tid.clone(), dchain.clone(), daddr.clone(), md.clone(), big(gasv)], egld, &esdt,
                            json!({"token_id": hx(&tid), "dchain": hx(&dchain), "daddr": hx(&daddr), "metadata": hx(&md), "gas": gasv.to_string()}));
                        if ok { g.toks[ti].custody += amt; }
                    } else {
                        let data = if fshape.is_none() && r.chance(1, 6) { vec![] } else { match r.below(5) { 0 => r.bytes(50), 1 => r.bytes(32), 2 => r.bytes(97), _ => b"calldata".to_vec() } };
                        let (ok, _, _) = g.its_tx("callContract", &anyone, "callContractWithInterchainToken", vec![tid.clone(), dchain.clone(), daddr.clone(), data.clone(), big(gasv)], egld, &esdt,
                            json!({"token_id": hx(&tid), "dchain": hx(&dchain), "daddr": hx(&daddr), "data": hx(&data), "gas": gasv.to_string()}));
                        if ok { g.toks[ti].custody += amt; }
                    }
                }
                6 | 7 | 8 => { // inbound message through the gateway: transfer (with / without data), deploy, link
                    g.msg += 1; let id = format!("msg-{}", g.msg).into_bytes();
                    let givers: Vec<usize> = g.toks.iter().enumerate().filter(|(_, t)| t.token.is_some() && (t.kind != "lock" || t.custody > 0)).map(|(i, _)| i).collect();
                    let ti = if (fvar.is_some() || fbound.is_some()) && !g.toks.is_empty() { Some(0) } else if !givers.is_empty() && r.chance(4, 5) { Some(*r.pick(&givers)) } else if !g.toks.is_empty() && r.chance(5, 6) { Some(r.below(g.toks.len() as u64) as usize) } else { None };
                    let tid = ti.map(|i| g.toks[i].id.clone()).unwrap_or_else(|| r.bytes(32));
                    let maxa = ti.map(|i| if g.toks[i].kind == "lock" { g.toks[i].custody.max(1) } else { 40 }).unwrap_or(40);
                    let amount = if fvar.is_some() { 1 + r.below(maxa.min(15)) } else { match r.below(6) { 0 => maxa, 1 => maxa + 1, _ => 1 + r.below(maxa) } };
                    // (inbound LINK_TOKEN, `flink`: the requested manager type cycles through all five kinds and an unknown one; the type word -- the third -- is written directly)
                    let inner = match a {
                        6 => { let recipient = if fvar.is_none() && r.chance(1, 8) { let mut v = r.pick(&g.users).to_vec(); match r.below(4) { 0 => vec![1, 2, 3], 1 => { v.push(7); v }, 2 => { v.truncate(31); v }, _ => { v.extend_from_slice(&[0u8; 32]); v } } } else if r.chance(1, 8) { g.toks.first().map(|t| t.tm.to_vec()).unwrap_or(g.dest.to_vec()) } else { r.pick(&g.users).to_vec() };
                               let osrc = match r.below(4) { 0 => r.bytes(40), 1 => vec![], _ => b"0xsender".to_vec() };
                               if fswap { transfer_payload_swapped(&tid, &osrc, &recipient, amount) } else { transfer_payload(&tid, &osrc, &recipient, amount, b"") } }
                        7 => { let osrc = match r.below(4) { 0 => r.bytes(33), _ => b"0xsender".to_vec() }; let data = match r.below(4) { 0 => r.bytes(70), 1 => r.bytes(32), _ => b"with-data".to_vec() };
                               transfer_payload(&tid, &osrc, g.dest.as_bytes(), amount, &data) }
                        _ => if flink { let lty = [2u64, 3, 4, 1, 0, 5][(g.msg % 6) as usize];
                                        let mut p = link_payload(&r.bytes(32), 2, b"0xsrc", &tok2[..], &g.operator.to_vec()); p[95] = lty as u8; p } else if fdeploy { deploy_payload(&r.bytes(32), b"Remote", b"RMT", 6, g.users[1].as_bytes()) } else if fbound == Some(2) { deploy_payload(&tid, b"Remote", b"RMT", 6, &[]) } else if fbound.is_none() && r.chance(2, 3) {
                                let existing: Vec<&Tok> = g.toks.iter().filter(|t| t.kind == "remote-native").collect();
                                let tid2 = if !existing.is_empty() && r.chance(2, 3) { existing[0].id.clone() } else { r.bytes(32) };
                                let minter = match r.below(4) { 0 => vec![], 1 => vec![9, 9], 2 => { let mut v = r.pick(&g.users).to_vec(); v.push(1); v }, _ => r.pick(&g.users).to_vec() };
                                deploy_payload(&tid2, b"Remote", b"RMT", 6, &minter)
                             } else { link_payload(&if fbound.is_some() || (ti.is_some() && r.chance(1, 3)) { tid.clone() } else { r.bytes(32) }, *r.pick(&[0u8, 2, 4]), b"0xsrc", if r.chance(1, 5) { b"bad" } else { &tok2[..] }, &match r.below(5) { 0 | 1 => vec![], 2 => { let mut v = g.operator.to_vec(); v.push(3); v }, _ => g.operator.to_vec() }) },
                    };
                    // an amount word above 2^128 (legal uint256): one transfer in ten, and always for the directed code 198
                    let inner = if (a == 6 || a == 7) && ((fvar.is_none() && r.chance(1, 10)) || a_raw == 198) { let mut p = inner; p[128 + 15] |= 1; p } else { inner };
                    let inner = if let Some(i) = ftype.filter(|i| *i < 11) { let mut p = inner.clone(); for b in p[0..32].iter_mut() { *b = 0; }
                        match i { 0 => p[24] = 0x80, 1 => p[23] = 1, 2 => p[0] = 0x80, 3 => p[31] = 6, 4 => p[31] = 7, 5 => p[27] = 1,
                                  // a KNOWN type in the low bytes under non-zero high bytes: 2^64 + 1, 2^255 + 5, 2^128 + 4, 2^192 + 0, 2^63 + 1 -- none of them is a message type
                                  6 => { p[23] = 1; p[31] = 1 }, 7 => { p[0] = 0x80; p[31] = 5 }, 8 => { p[15] = 1; p[31] = 4 }, 9 => { p[7] = 1 }, _ => { p[24] = 0x80; p[31] = 1 } }; p } else { inner };
                    let variant = if let Some(v) = fvar { v } else if g.paused && r.chance(1, 3) { 2 } else if r.chance(2, 3) { 0 } else { r.below(21) };
                    let (chain, src, payload): (Vec<u8>, Vec<u8>, Vec<u8>) = match variant {
                        1 => (b"avalanche".to_vec(), b"hub".to_vec(), inner.clone()),                                   // direct message from a hub-routed chain
                        2 => (b"axelar".to_vec(), b"axelar1hub".to_vec(), hub_wrap(b"avalanche", &inner, 4)),           // properly wrapped
                        3 => (b"axelar".to_vec(), b"axelar1hub".to_vec(), hub_wrap(b"ethereum", &inner, 4)),            // wrapped, but chain not hub-routed
                        4 => (b"axelar".to_vec(), b"axelar1hub".to_vec(), inner.clone()),                               // unwrapped from the hub chain
                        5 => (b"ethereum".to_vec(), b"0xattacker".to_vec(), inner.clone()),                             // wrong source address
                        6 => (b"ethereum".to_vec(), b"0xITSeth".to_vec(), hub_wrap(b"avalanche", &inner, 4)),           // wrapper from a non-hub chain
                        7 => (b"ethereum".to_vec(), b"0xITSeth".to_vec(), { let mut p = inner.clone(); match r.below(4) { 0 => p[24] = 0x80, 1 => p[23] = 1, 2 => p[0] = 0xff, _ => p[31] = 9 }; p }), // unknown message type
                        9 => (b"unknown".to_vec(), vec![], inner.clone()),                                              // chain without a trusted address, empty source address
                        10 => (b"polygon".to_vec(), if r.chance(1, 2) { vec![] } else { b"0xITSpoly".to_vec() }, inner.clone()),  // a chain that may have been removed
                        11 => (b"axelar".to_vec(), b"axelar1hub".to_vec(), hub_wrap(if r.chance(1, 2) { b"unknown" } else { b"polygon" }, &inner, 4)),   // wrapped, original chain unknown / direct
                        12 => (b"axelarnet".to_vec(), b"0xITSnet".to_vec(), inner.clone()),                                // direct chain named like the hub + suffix: processed as direct
                        13 => (b"axelarnet".to_vec(), b"0xITSnet".to_vec(), hub_wrap(b"avalanche", &inner, 4)),            // ... and it can not speak for the hub
                        14 => (b"ethereum".to_vec(), b"0xitsETH".to_vec(), inner.clone()),                                // the trusted address in another letter case: a different address
                        15 => (b"axelar".to_vec(), b"AXELAR1HUB".to_vec(), hub_wrap(b"avalanche", &inner, 4)),            // the hub's address in another letter case
                        16 => (b"axelar".to_vec(), b"axelar1evil".to_vec(), hub_wrap(b"avalanche", &inner, 4)),           // properly wrapped, from the hub's chain, but not from the hub's address
                        17 => (b"ethereum".to_vec(), b"0xITSet".to_vec(), inner.clone()),                                 // a proper prefix of the trusted address
                        18 => (b"twin".to_vec(), b"axelar1hub".to_vec(), hub_wrap(b"avalanche", &inner, 4)),                // wrapped, from a direct chain whose peer address equals the hub's: not from the hub chain
                        19 => (b"twin".to_vec(), b"axelar1hub".to_vec(), inner.clone()),                                  // the same chain speaking for itself: processed as direct
                        _ => (b"ethereum".to_vec(), b"0xITSeth".to_vec(), inner.clone()),
                    };
                    // message-type codes 11 / 12: the OUTER word of the hub wrapper is 2^64 + 4 / 2^255 + 4 -- not a wrapper
                    let payload = match ftype { Some(11) if payload.len() >= 32 => { let mut p = payload; p[23] = 1; p }, Some(12) if payload.len() >= 32 => { let mut p = payload; p[0] = 0x80; p }, _ => payload };
                    let approve = variant != 8;
                    // variant 20: the approval is addressed to another contract
                    if approve { let m = Msg { chain: chain.clone(), id: id.clone(), src: src.clone(), contract: if variant == 20 { g.users[2].to_vec() } else { g.its.to_vec() }, ph: keccak(&payload) }; g.gw_approve(&m); }
                    let mut payload_x = payload.clone(); if r.chance(1, 15) { let n = payload_x.len() - 1; payload_x[n] ^= 1; }    // tampered after approval
                    let reps = if fdeploy { 1 } else if a == 8 { 2 } else { 1 + r.below(2) };
                    g.last_in = Some((chain.clone(), id.clone(), src.clone(), payload_x.clone()));
                    for k in 0..reps {
                        let egld = if a == 8 && k == 1 { if fvar.is_none() && r.chance(1, 4) { ISSUE_COST + ISSUE_COST / 2 } else { ISSUE_COST } } else { 0 };
                        let (ok, _, dep) = g.its_tx("execute", &g.relayer.clone(), "execute", vec![chain.clone(), id.clone(), src.clone(), payload_x.clone()], egld, &[],
                            json!({"chain": hx(&chain), "id": hx(&id), "src": hx(&src), "payload": hx(&payload_x), "ph": hx(&keccak(&payload_x)), "label": format!("in{}/v{}", a, variant)}));
                        if ok { if let Some(tm) = dep { if a == 8 { let tid3 = payload[32..64].to_vec(); g.toks.push(Tok { id: tid3, kind: "remote-native", tm, token: None, salt: vec![], deployer: g.relayer.clone(), supply: 0, minter: vec![], custody: 0 }); } } }
                        if r.chance(1, 3) { break; }
                        // the (public) approval is delivered to the gateway once more before the next attempt: an executed message must stay executed
                        if approve && k + 1 < reps && r.chance(1, 3) { let m = Msg { chain: chain.clone(), id: id.clone(), src: src.clone(), contract: g.its.to_vec(), ph: keccak(&payload) }; g.gw_approve(&m); }
                    }
                }
                9 => { // setFlowLimits
                    if g.toks.is_empty() { continue; }
                    let caller = match r.below(8) { 0 => anyone.clone(), 1 => g.owner.clone(), _ => g.operator.clone() };      // the owner holds no operator role
                    let tid = g.toks[r.below(g.toks.len() as u64) as usize].id.clone(); let l = match r.below(3) { 0 => 0, _ => 5 + r.below(40) };
                    match r.below(6) {
                        0 => { // two ids (the second possibly unknown): all or nothing
                            let tid2 = if r.chance(1, 2) { g.toks[r.below(g.toks.len() as u64) as usize].id.clone() } else { r.bytes(32) }; let l2 = 1 + r.below(30);
                            g.its_tx("setFlowLimits", &caller, "setFlowLimits", vec![big(2), tid.clone(), tid2.clone(), big(2), big(l), big(l2)], 0, &[], json!({"ids": [hx(&tid), hx(&tid2)], "limits": [l.to_string(), l2.to_string()]})); }
                        1 => { // lengths differ
                            g.its_tx("setFlowLimits", &caller, "setFlowLimits", vec![big(1), tid.clone(), big(2), big(l), big(7)], 0, &[], json!({"ids": [hx(&tid)], "limits": [l.to_string(), "7"]})); }
                        _ => { g.its_tx("setFlowLimits", &caller, "setFlowLimits", vec![big(1), tid.clone(), big(1), big(l)], 0, &[], json!({"ids": [hx(&tid)], "limits": [l.to_string()]})); }
                    }
                }
                10 => { let caller = if scripted { g.owner.clone() } else { match r.below(8) { 0 => anyone.clone(), 1 => g.operator.clone(), _ => g.owner.clone() } }; let p = !g.paused;
                    if p && !scripted && r.chance(1, 2) { continue; }
                    let (ok, _, _) = g.its_tx("pause", &caller, if p { "pause" } else { "unpause" }, vec![], 0, &[], json!({"paused": p})); if ok { g.paused = p;
                        if p && !scripted { for _ in 0..(1 + r.below(3)) { script.push(*r.pick(&[4u64, 5, 6, 7, 2, 0, 14, 15, 17, 20, 8])); } script.push(10); } } }
                11 => { let caller = match r.below(8) { 0 => anyone.clone(), 1 | 2 => g.operator.clone(), _ => g.owner.clone() };      // the operator is not the owner
                    let chain = r.pick(&[&b"ethereum"[..], b"avalanche", b"axelar", b"polygon", b""]).to_vec();
                    if r.chance(1, 2) { g.its_tx("removeTrusted", &caller, "removeTrustedAddress", vec![chain.clone()], 0, &[], json!({"chain": hx(&chain)})); }
                    else { let addr = r.pick(&[&b"hub"[..], b"0xITSnew", b"axelar1hub", b""]).to_vec();
                           g.its_tx("setTrusted", &caller, "setTrustedAddress", vec![chain.clone(), addr.clone()], 0, &[], json!({"chain": hx(&chain), "a": hx(&addr)})); } }
                12 | 13 => { // approve / revoke remote deployment with a custom minter
                    let mut natives: Vec<&Tok> = g.toks.iter().filter(|t| t.kind == "native" && t.token.is_some() && t.minter.len() == 32 && g.users.iter().any(|u| u.to_vec() == t.minter)).collect();
                    if natives.is_empty() || r.chance(1, 6) { natives = g.toks.iter().filter(|t| t.kind == "native").collect(); }
                    let (deployer, salt, minter) = if !natives.is_empty() { let t = r.pick(&natives); (t.deployer.clone(), t.salt.clone(), if t.minter.len() == 32 { VMAddress::new(t.minter.clone().try_into().unwrap()) } else { anyone.clone() }) } else { (anyone.clone(), r.bytes(32), anyone.clone()) };
                    let caller = if r.chance(3, 4) && g.users.contains(&minter) { minter } else { anyone.clone() };
                    let dchain = r.pick(&[&b"ethereum"[..], b"avalanche", b"unknown"]).to_vec();
                    if a == 12 { let dm = r.pick(&[&b"0xremoteminter"[..], b"0xother"]).to_vec();
                        g.its_tx("approveRemote", &caller, "approveDeployRemoteInterchainToken", vec![deployer.to_vec(), salt.clone(), dchain.clone(), dm.clone()], 0, &[],
                            json!({"deployer": hx(deployer.as_bytes()), "salt": hx(&salt), "dchain": hx(&dchain), "dminter": hx(&dm)})); }
                    else { g.its_tx("revokeRemote", &caller, "revokeDeployRemoteInterchainToken", vec![deployer.to_vec(), salt.clone(), dchain.clone()], 0, &[],
                            json!({"deployer": hx(deployer.as_bytes()), "salt": hx(&salt), "dchain": hx(&dchain)})); }
                }
                14 => { // deployRemoteInterchainTokenWithMinter
                    let mut natives: Vec<&Tok> = g.toks.iter().filter(|t| t.kind == "native" && t.token.is_some() && t.minter.len() == 32 && g.users.iter().any(|u| u.to_vec() == t.minter)).collect();
                    if natives.is_empty() || r.chance(1, 6) { natives = g.toks.iter().filter(|t| t.kind == "native").collect(); }
                    let (deployer, salt, tminter) = if !natives.is_empty() { let t = r.pick(&natives); (t.deployer.clone(), t.salt.clone(), t.minter.clone()) } else { (anyone.clone(), r.bytes(32), vec![0u8; 32]) };
                    let minter = match r.below(8) { 0 => vec![0u8; 32], 1 => g.its.to_vec(), _ => if tminter.len() == 32 { tminter } else { vec![0u8; 32] } };
                    let dchain = r.pick(&[&b"ethereum"[..], b"ethereum", b"avalanche", b"avalanche", b"unknown", &own_chain[..], b"", b"axelar"]).to_vec();
                    let dm: Option<Vec<u8>> = match r.below(3) { 0 => None, 1 => Some(b"0xremoteminter".to_vec()), _ => Some(b"0xother".to_vec()) };
                    let mut args = vec![salt.clone(), minter.clone(), dchain.clone()]; if let Some(d) = &dm { args.push(d.clone()); }
                    let gasv = r.below(3) * 1000;
                    // without a minter and a destination minter the plain endpoint deployRemoteInterchainToken(salt, chain) is the same operation: used every other time
                    let plain = minter == vec![0u8; 32] && dm.is_none() && g.msg % 2 == 0;
                    let (ep, args) = if plain { ("deployRemoteInterchainToken", vec![salt.clone(), dchain.clone()]) } else { ("deployRemoteInterchainTokenWithMinter", args) };
                    g.its_tx("deployRemote", &deployer, ep, args, gasv, &[],
                        json!({"salt": hx(&salt), "minter": hx(&minter), "dchain": hx(&dchain), "dminter": dm.as_ref().map(|d| hx(d))}));
                }
                15 => { let token = match r.below(4) { 0 => b"EGLD".to_vec(), 1 => tok2.clone(), _ => tok.clone() };
                    let dchain = r.pick(&[&b"ethereum"[..], b"avalanche", b"unknown", &own_chain[..], b"", b"axelar"]).to_vec(); let gasv = r.below(3) * 777;
                    g.its_tx("deployRemoteCanonical", &anyone, "deployRemoteCanonicalInterchainToken", vec![token.clone(), dchain.clone()], gasv, &[], json!({"token": hx(&token), "dchain": hx(&dchain)})); }
                16 => { let token = match r.below(4) { 0 => b"bad".to_vec(), _ => tok.clone() }; let gasv = r.below(3) * 555;
                    // the gas of this endpoint is EGLD only: an ESDT payment (1 in 4) must be refused
                    let esdt: Vec<(Vec<u8>, u64, BigUint)> = if r.chance(1, 4) { vec![(tok2.clone(), 0, bn(9))] } else { vec![] };
                    g.its_tx("registerMetadata", &anyone, "registerTokenMetadata", vec![token.clone()], if esdt.is_empty() { gasv } else { 0 }, &esdt, json!({"token": hx(&token)})); }
                17 => { // linkToken
                    let customs: Vec<&Tok> = g.toks.iter().filter(|t| !t.salt.is_empty() && t.kind != "native").collect();
                    let (deployer, salt) = if !customs.is_empty() { let t = r.pick(&customs); (t.deployer.clone(), t.salt.clone()) } else { (anyone.clone(), r.bytes(32)) };
                    let dchain = r.pick(&[&b"ethereum"[..], b"avalanche", b"unknown", &own_chain[..], b"", b"axelar", b"axelar"]).to_vec(); let ty = *r.pick(&[0u8, 2, 4]);
                    let dtok = if r.chance(1, 8) { vec![] } else { b"0xremote-token".to_vec() }; let gasv = r.below(3) * 333;
                    let (dchain, ty, dtok, gasv) = if a_raw >= 59 && a_raw <= 61 { ([&b"axelar"[..], b"avalanche", b"ethereum"][(a_raw - 59) as usize].to_vec(), 2u8, b"0xremote-token".to_vec(), 333u64) } else { (dchain, ty, dtok, gasv) };
                    g.its_tx("linkToken", &deployer, "linkToken", vec![salt.clone(), dchain.clone(), dtok.clone(), if ty == 0 { vec![] } else { vec![ty] }, b"params".to_vec()], gasv, &[],
                        json!({"salt": hx(&salt), "dchain": hx(&dchain), "dtoken": hx(&dtok), "ty": ty, "params": hx(b"params")})); }
                26 => { // read-only queries of the service: the id derivations, the chain-name hash, the manager registered for an id
                    let known = if !g.toks.is_empty() && r.chance(2, 3) { Some(g.toks[r.below(g.toks.len() as u64) as usize].clone_lite()) } else { None };
                    let (deployer, salt) = match &known { Some((d, s, _)) if !s.is_empty() => (d.clone(), s.clone()), _ => (anyone.clone(), r.bytes(32)) };
                    match r.below(5) {
                        0 => { g.its_tx("view", &anyone, "interchainTokenId", vec![deployer.to_vec(), salt.clone()], 0, &[], json!({"view": "interchainId", "deployer": hx(deployer.as_bytes()), "salt": hx(&salt)})); }
                        1 => { let token = match r.below(5) { 0 => b"EGLD".to_vec(), 1 => tok2.clone(), 3 => b"ABCDEFGHIJ-12345a".to_vec(), 4 => b"ABCDEFGHIJ-12345b".to_vec(), _ => tok.clone() };
                               g.its_tx("view", &anyone, "canonicalInterchainTokenId", vec![token.clone()], 0, &[], json!({"view": "canonicalId", "token": hx(&token)})); }
                        2 => { g.its_tx("view", &anyone, "linkedTokenId", vec![deployer.to_vec(), salt.clone()], 0, &[], json!({"view": "linkedId", "deployer": hx(deployer.as_bytes()), "salt": hx(&salt)})); }
                        3 => { g.its_tx("view", &anyone, "chainNameHash", vec![], 0, &[], json!({"view": "chainNameHash"})); }
                        _ => { let tid = match &known { Some((_, _, id)) => id.clone(), None => r.bytes(32) };
                               g.its_tx("view", &anyone, "deployedTokenManager", vec![tid.clone()], 0, &[], json!({"view": "deployedTm", "token_id": hx(&tid)})); }
                    }
                }
                18 => { let caller = match r.below(6) { 0 => g.owner.clone(), 1 | 2 => anyone.clone(), _ => g.operator.clone() }; let na = r.pick(&g.users).clone();
                    match r.below(4) {
                        0 | 1 => { let (ok, _, _) = g.its_tx("transferOp", &caller, "transferOperatorship", vec![na.to_vec()], 0, &[], json!({"a": hx(na.as_bytes())})); if ok { g.operator = na; } }
                        2 => { let (ok, _, _) = g.its_tx("proposeOp", &caller, "proposeOperatorship", vec![na.to_vec()], 0, &[], json!({"a": hx(na.as_bytes())}));
                               if ok { g.proposed = Some((caller.clone(), na.clone())); script.extend([44u64]); if r.chance(1, 2) { script.extend([44u64]); } } }
                        _ => { let from = if r.chance(2, 3) { g.operator.clone() } else { r.pick(&g.users).clone() };
                               let (ok, _, _) = g.its_tx("acceptOp", &anyone, "acceptOperatorship", vec![from.to_vec()], 0, &[], json!({"a": hx(from.as_bytes())})); if ok { g.operator = anyone.clone(); } }
                    } }
                44 => { // the proposed account accepts the last operatorship proposal (again: the second time it must fail)
                    let Some((from, to)) = g.proposed.clone() else { continue; };
                    let (ok, _, _) = g.its_tx("acceptOp", &to, "acceptOperatorship", vec![from.to_vec()], 0, &[], json!({"a": hx(from.as_bytes())})); if ok { g.operator = to.clone(); } }
                42 => { // directed: remote deployment naming the service itself as minter, no destination minter
                    let Some(tk) = g.toks.iter().rev().find(|t| t.kind == "native") else { continue; };
                    let (deployer, salt) = (tk.deployer.clone(), tk.salt.clone()); let (minter, dchain) = (g.its.to_vec(), b"ethereum".to_vec());
                    g.its_tx("deployRemote", &deployer, "deployRemoteInterchainTokenWithMinter", vec![salt.clone(), minter.clone(), dchain.clone()], 1000, &[],
                        json!({"salt": hx(&salt), "minter": hx(&minter), "dchain": hx(&dchain), "dminter": Value::Null}));
                }
                43 => { // directed: the nominated minter revokes its approval for (deployer, salt, ethereum)
                    let Some(tk) = g.toks.iter().rev().find(|t| t.kind == "native" && t.minter.len() == 32) else { continue; };
                    let (deployer, salt, minter) = (tk.deployer.clone(), tk.salt.clone(), tk.minter.clone()); let dchain = b"ethereum".to_vec();
                    let caller = VMAddress::new(minter.clone().try_into().unwrap());
                    g.its_tx("revokeRemote", &caller, "revokeDeployRemoteInterchainToken", vec![deployer.to_vec(), salt.clone(), dchain.clone()], 0, &[],
                        json!({"deployer": hx(deployer.as_bytes()), "salt": hx(&salt), "dchain": hx(&dchain)}));
                }
                46 | 47 | 62 | 63 | 64 | 65 | 75 => { // 62..65: a deployment whose steps are called with a minter from the start, an issuance without the cost (fails), then with supply and cost, then the mint step twice
                    // directed: 47 starts a local deployment (supply 1000, minter users[0]); 46 continues the newest one with DIFFERENT arguments (no supply, no minter)
                    let u = g.users[2].clone();
                    let (salt, supply, minter, egld) = if a == 47 { (r.bytes(32), 1000u64, g.users[0].to_vec(), 0u64) }
                      else if a == 62 { (r.bytes(32), 0u64, g.users[0].to_vec(), 0u64) }
                      else if a >= 63 { let Some(tk) = g.toks.iter().rev().find(|t| t.kind == "native") else { continue; };
                                        (tk.salt.clone(), if a == 63 || a == 75 { 0u64 } else { 1000 }, g.users[0].to_vec(), if a == 64 || a == 75 { ISSUE_COST } else { 0 }) }
                      else {
                        let Some(tk) = g.toks.iter().rev().find(|t| t.kind == "native") else { continue; }; (tk.salt.clone(), 0u64, vec![0u8; 32], if tk.token.is_none() { ISSUE_COST } else { 0 }) };
                    let (ok, rets, dep) = g.its_tx("deployToken", &u, "deployInterchainToken", vec![salt.clone(), b"MyToken".to_vec(), b"MTK".to_vec(), vec![18], big(supply), minter.clone()], egld, &[],
                        json!({"salt": hx(&salt), "name": hx(b"MyToken"), "symbol": hx(b"MTK"), "decimals": 18, "supply": supply.to_string(), "minter": hx(&minter)}));
                    if ok && (a == 47 || a == 62) { if let Some(tm) = dep { g.toks.push(Tok { id: rets.last().unwrap().clone(), kind: "native", tm, token: None, salt, deployer: u.clone(), supply, minter, custody: 0 }); } }
                }
                48 | 49 => { // directed: the service's operator proposes the role to users[1] (48) / transfers it to users[2] (49)
                    let caller = g.operator.clone(); let na = if a == 48 { g.users[1].clone() } else { g.users[2].clone() };
                    if a == 48 { let (ok, _, _) = g.its_tx("proposeOp", &caller, "proposeOperatorship", vec![na.to_vec()], 0, &[], json!({"a": hx(na.as_bytes())})); if ok { g.proposed = Some((caller.clone(), na.clone())); } }
                    else { let (ok, _, _) = g.its_tx("transferOp", &caller, "transferOperatorship", vec![na.to_vec()], 0, &[], json!({"a": hx(na.as_bytes())})); if ok { g.operator = na; } }
                }
                51 | 52 => { // directed: the owner removes the trusted address of ethereum (51) / of the hub chain (52)
                    let chain = if a == 51 { b"ethereum".to_vec() } else { b"axelar".to_vec() }; let ow = g.owner.clone();
                    g.its_tx("removeTrusted", &ow, "removeTrustedAddress", vec![chain.clone()], 0, &[], json!({"chain": hx(&chain)}));
                }
                50 => { // directed: deployment naming the HASH of the approved (non-32-byte) destination minter as destination minter: another combination, must be refused
                    let Some(tk) = g.toks.iter().rev().find(|t| t.kind == "native" && t.minter.len() == 32) else { continue; };
                    let (deployer, salt, minter) = (tk.deployer.clone(), tk.salt.clone(), tk.minter.clone()); let (dchain, dm) = (b"ethereum".to_vec(), keccak(b"0xremoteminter"));
                    g.its_tx("deployRemote", &deployer, "deployRemoteInterchainTokenWithMinter", vec![salt.clone(), minter.clone(), dchain.clone(), dm.clone()], 1000, &[],
                        json!({"salt": hx(&salt), "minter": hx(&minter), "dchain": hx(&dchain), "dminter": Some(hx(&dm))}));
                }
                40 | 41 | 67 | 69 => { // 67 / 69: as 40 / 41 with ANOTHER destination minter
                    // directed: the nominated minter of the last native token approves (40) / the deployer uses (41) a remote deployment with a custom minter
                    let Some(tk) = g.toks.iter().rev().find(|t| t.kind == "native" && t.minter.len() == 32) else { continue; };
                    let (deployer, salt, minter) = (tk.deployer.clone(), tk.salt.clone(), tk.minter.clone());
                    let (dchain, dm) = (b"ethereum".to_vec(), if a == 67 || a == 69 { b"0xotherminter".to_vec() } else { b"0xremoteminter".to_vec() });
                    if a == 40 || a == 67 { let caller = VMAddress::new(minter.clone().try_into().unwrap());
                        g.its_tx("approveRemote", &caller, "approveDeployRemoteInterchainToken", vec![deployer.to_vec(), salt.clone(), dchain.clone(), dm.clone()], 0, &[],
                            json!({"deployer": hx(deployer.as_bytes()), "salt": hx(&salt), "dchain": hx(&dchain), "dminter": hx(&dm)})); }
                    else { g.its_tx("deployRemote", &deployer, "deployRemoteInterchainTokenWithMinter", vec![salt.clone(), minter.clone(), dchain.clone(), dm.clone()], 1000, &[],
                            json!({"salt": hx(&salt), "minter": hx(&minter), "dchain": hx(&dchain), "dminter": Some(hx(&dm))})); }
                }
                19 | 45 | 83 | 84 => { // 83 / 84: the nominated minter proposes mintership to users[1]; users[1] accepts it from that minter (after the minter handed the role on: refused) // a user's direct call into one of the token managers (roles, mint, burn, flow limit); 45: the nominated minter calls deployInterchainToken on the newest manager
                    if g.toks.is_empty() { continue; }
                    let ti = if scripted { g.toks.len() - 1 } else { r.below(g.toks.len() as u64) as usize };
                    let (tm, ttok, tminter) = (g.toks[ti].tm.clone(), g.toks[ti].token.clone(), g.toks[ti].minter.clone());
                    let role_holder = if tminter.len() == 32 && tminter != vec![0u8; 32] { VMAddress::new(tminter.clone().try_into().unwrap()) } else { g.operator.clone() };
                    let caller = if a == 45 || a == 84 { g.users[1].clone() } else if scripted || r.chance(2, 3) { role_holder.clone() } else { anyone.clone() };
                    let other = r.pick(&g.users).clone(); let mut egld = 0u64;
                    let other = if a == 83 { g.users[1].clone() } else if a == 84 { role_holder.clone() } else { other };
                    let k = if a == 45 { 15 } else if a == 83 { 1 } else if a == 84 { 2 } else if scripted { 0 } else { r.below(16) };
                    let (top, ep, args, esdt): (Value, &str, Vec<Vec<u8>>, Vec<(Vec<u8>, u64, BigUint)>) = match k {
                        0 => (json!({"op": "transferMint", "a": hx(other.as_bytes())}), "transferMintership", vec![other.to_vec()], vec![]),
                        1 => (json!({"op": "proposeMint", "a": hx(other.as_bytes())}), "proposeMintership", vec![other.to_vec()], vec![]),
                        2 => (json!({"op": "acceptMint", "a": hx(other.as_bytes())}), "acceptMintership", vec![other.to_vec()], vec![]),
                        3 => (json!({"op": "transferOp", "a": hx(other.as_bytes())}), "transferOperatorship", vec![other.to_vec()], vec![]),
                        4 => (json!({"op": "addFL", "a": hx(other.as_bytes())}), "addFlowLimiter", vec![other.to_vec()], vec![]),
                        5 => { let l = 5 + r.below(40); (json!({"op": "setLimit", "limit": l.to_string()}), "setFlowLimit", vec![big(l)], vec![]) }
                        6 | 7 => { let v = 1 + r.below(50); (json!({"op": "mint", "a": hx(other.as_bytes()), "amount": v.to_string()}), "mint", vec![other.to_vec(), big(v)], vec![]) }
                        8 => { let v = 1 + r.below(5); let e = vec![(ttok.clone().unwrap_or(tok.clone()), 0u64, bn(v))]; (json!({"op": "burn"}), "burn", vec![], e) }
                        9 => (json!({"op": "proposeOp", "a": hx(other.as_bytes())}), "proposeOperatorship", vec![other.to_vec()], vec![]),
                        10 => (json!({"op": "acceptOp", "a": hx(other.as_bytes())}), "acceptOperatorship", vec![other.to_vec()], vec![]),
                        11 => (json!({"op": "removeFL", "a": hx(other.as_bytes())}), "removeFlowLimiter", vec![other.to_vec()], vec![]),
                        12 => { let b = r.pick(&g.users).clone(); (json!({"op": "transferFL", "a": hx(other.as_bytes()), "b": hx(b.as_bytes())}), "transferFlowLimiter", vec![other.to_vec(), b.to_vec()], vec![]) }
                        13 => { let v = 1 + r.below(20); (json!({"op": "give", "dest": hx(other.as_bytes()), "amount": v.to_string()}), "giveToken", vec![other.to_vec(), big(v)], vec![]) }   // not the service: refused
                        14 => { let v = 1 + r.below(20); let e = vec![(ttok.clone().unwrap_or(tok.clone()), 0u64, bn(v))]; (json!({"op": "take"}), "takeToken", vec![], e) }
                        _ => { // the manager's deployInterchainToken called directly (allowed to its minter, to retry a failed issuance)
                            egld = ISSUE_COST; let mut marg = vec![1u8]; marg.extend_from_slice(caller.as_bytes());
                            (json!({"op": "deployToken", "minter": hx(caller.as_bytes()), "name": hx(b"Rogue"), "symbol": hx(b"ROGUE")}), "deployInterchainToken", vec![marg, b"Rogue".to_vec(), b"ROGUE".to_vec(), vec![18]], vec![]) }
                    };
                    let st = g.w.tx(&caller, &tm, ep, args, &bn(egld), &esdt);
                    if st.res.result_status == 0 { if let Some(ac) = &st.res.pending_calls.async_call { g.pend.push(Pend { id: g.next_id, kind: PKind::Issue(ac.clone(), ac.from.clone()) }); g.next_id += 1; } }
                    let mut top = top; top["caller"] = json!(hx(caller.as_bytes())); top["now"] = json!(g.now); top["egld"] = json!(egld.to_string());
                    top["esdt"] = json!(esdt.iter().map(|(t, n, v)| json!([hx(t), n, v.to_string()])).collect::<Vec<_>>());
                    g.steps.push(json!({"op": {"op": "tm", "tma": hx(tm.as_bytes()), "top": top, "caller": hx(caller.as_bytes()), "now": g.now}, "res": st.json}));
                }
                _ => { // deliver some pending asynchronous step
                    if g.pend.is_empty() { continue; }
                    let mut i = r.below(g.pend.len() as u64) as usize;
                    if force_issue_ok || force_issue_fail { if let Some(j) = g.pend.iter().position(|p| matches!(p.kind, PKind::Issue(..))) { i = j; } }
                    if force_props_ok { if let Some(j) = g.pend.iter().position(|p| matches!(p.kind, PKind::Props(..))) { i = j; } }
                    if force_fail || force_ok { if let Some(j) = g.pend.iter().position(|p| matches!(p.kind, PKind::Transfer(_, None))) { i = j; } }
                    if force_cb { if let Some(j) = g.pend.iter().position(|p| matches!(p.kind, PKind::Transfer(_, Some(_)))) { i = j; } }
                    let its_addr = g.its.clone();
                    let pid = g.pend[i].id;
                    let advance = match &mut g.pend[i].kind {
                        PKind::Transfer(p, res @ None) => {
                            // destination call: tokens attached to the promise leave the service iff it succeeds
                            let ok = if force_fail { false } else if force_ok { true } else { r.chance(1, 2) };
                            let transfers = g.w.r.blockchain_mock.vm.builtin_functions.extract_token_transfers(&multiversx_sc_scenario::multiversx_chain_vm::tx_mock::async_call_tx_input(&p.call, multiversx_sc_scenario::multiversx_chain_vm::tx_mock::CallType::AsyncCall));
                            let egld = p.call.call_value.clone(); let to = transfers.real_recipient.clone();
                            let esdts: Vec<(Vec<u8>, BigUint)> = transfers.transfers.iter().map(|t| (t.token_identifier.clone(), t.value.clone())).collect();
                            // a promise whose attached funds the service no longer holds fails at the destination call (as on chain); never a harness panic
                            let ok = ok && { let acc = g.w.r.blockchain_mock.state.accounts.get(&its_addr).unwrap();
                                acc.egld_balance >= egld && esdts.iter().all(|(tk, v)| &acc.esdt.get_esdt_balance(tk, 0) >= v) };
                            let st = g.w.manual_step(|rr| { if ok {
                                let s = &mut rr.blockchain_mock.state;
                                s.accounts.get_mut(&its_addr).unwrap().egld_balance -= &egld; s.accounts.get_mut(&to).unwrap().egld_balance += &egld;
                                for (tk, v) in &esdts { { let cur = s.accounts.get(&its_addr).unwrap().esdt.get_esdt_balance(tk, 0); s.accounts.get_mut(&its_addr).unwrap().esdt.set_esdt_balance(tk.clone(), 0, &(cur - v), Default::default()); } s.accounts.get_mut(&to).unwrap().esdt.increase_balance(tk.clone(), 0, v, Default::default()); } } });
                            *res = Some(if ok { if r.chance(1, 2) { TxResult { result_values: vec![b"done".to_vec(), vec![1, 2]], ..TxResult::empty() } } else { TxResult::empty() } } else { TxResult { result_status: 4, result_message: "destination failed".to_string(), ..TxResult::empty() } });
                            g.steps.push(json!({"op": {"op": "deliver", "id": pid, "ok": ok, "now": g.now}, "res": st.json}));
                            false
                        }
                        PKind::Transfer(p, Some(res)) => {
                            let cb = async_promise_callback_tx_input(p, res, &g.w.r.blockchain_mock.vm.builtin_functions);
                            let st = g.w.run_input(cb);
                            g.steps.push(json!({"op": {"op": "callback", "id": pid, "caller": hx(g.relayer.as_bytes()), "now": g.now, "delivered_ok": res.result_status == 0}, "res": st.json}));
                            true
                        }
                        PKind::Props(ac, kind) => {
                            let which = if force_props_ok { 3 } else if force_props_nonfungible { 1 } else { r.below(6) };
                            let other_ty: &[u8] = *r.pick(&[&b"NonFungibleESDT"[..], b"SemiFungibleESDT", b"MetaESDT", b"DynamicNonFungibleESDT", b"NonFungibleESDTv2", b""]);
                            let (forged, resj) = match which {
                                0 => (TxResult { result_status: 4, result_message: "no such token".to_string(), ..TxResult::empty() }, Value::Null),
                                1 | 2 => (TxResult { result_values: vec![b"Name".to_vec(), other_ty.to_vec(), vec![], vec![], vec![], b"NumDecimals-0".to_vec()], ..TxResult::empty() }, json!([hx(b"Name"), hx(other_ty), hx(b"NumDecimals-0")])),
                                _ => { let dec: &[u8] = *r.pick(&[&b"NumDecimals-18"[..], b"NumDecimals-18", b"NumDecimals-6", b"NumDecimals-0", b"NumDecimals-9", b"NumDecimals-10", b"NumDecimals-255"]);
                                       (TxResult { result_values: vec![b"TokName".to_vec(), b"FungibleESDT".to_vec(), vec![], vec![], vec![], dec.to_vec()], ..TxResult::empty() }, json!([hx(b"TokName"), hx(b"FungibleESDT"), hx(dec)])) }
                            };
                            let cb = async_callback_tx_input(ac, &forged, &g.w.r.blockchain_mock.vm.builtin_functions);
                            let caller_hex = hx(&cb.from.to_vec());
                            let st = g.w.run_input(cb);
                            g.steps.push(json!({"op": {"op": "props", "id": pid, "kind": kind, "res": resj, "caller": caller_hex, "now": g.now}, "res": st.json}));
                            true
                        }
                        PKind::Issue(ac, tm) => {
                            let tm = tm.clone();
                            let tm_egld = g.w.r.blockchain_mock.state.accounts.get(&tm).unwrap().egld_balance.clone();
                            let mut ok = force_issue_ok || (!force_issue_fail && r.chance(2, 3)); if tm_egld < bn(ISSUE_COST) { ok = false; }
                            let newtok = format!("MTK-{:06x}", r.below(0xffffff)).into_bytes();
                            let forged = if ok { TxResult { result_values: vec![newtok.clone()], ..TxResult::empty() } } else { TxResult { result_status: 4, result_message: "issue failed".to_string(), ..TxResult::empty() } };
                            let mut cb = async_callback_tx_input(ac, &forged, &g.w.r.blockchain_mock.vm.builtin_functions);
                            // a failed issuance RETURNS the issue cost with the error callback (it left the manager with the call): the callback carries that EGLD
                            let returned = !ok && tm_egld >= bn(ISSUE_COST);
                            if returned { cb.egld_value = bn(ISSUE_COST); }
                            let (tm2, nt, sys) = (tm.clone(), newtok.clone(), cb.from.clone());
                            let st = g.w.run_input_after(move |rr| {
                                if ok || returned { let acc = rr.blockchain_mock.state.accounts.get_mut(&tm2).unwrap(); acc.egld_balance -= bn(ISSUE_COST);
                                    if ok { acc.esdt.set_roles(nt.clone(), vec![b"ESDTRoleLocalMint".to_vec(), b"ESDTRoleLocalBurn".to_vec()]); } }
                                if returned { crate::vm::credit_or_create(rr, &sys, &bn(ISSUE_COST)); } }, cb);
                            if ok && st.res.result_status == 0 { for tk in g.toks.iter_mut() { if tk.tm == tm && tk.token.is_none() { tk.token = Some(newtok.clone()); } } }
                            g.steps.push(json!({"op": {"op": "issue", "id": pid, "tm": hx(tm.as_bytes()), "res": if ok { Some(hx(&newtok)) } else { None }, "now": g.now}, "res": st.json}));
                            true
                        }
                    };
                    if advance { g.pend.remove(i); }
                }
            }
        }
        let _ = g.its_bal(b"EGLD");
        let sigtab: Vec<Value> = g.tab.0.iter().map(|(a, b, c)| json!([hx(a), hx(b), hx(c)])).collect();
        println!("{}", json!({"trace": t, "init": init, "sigtab": sigtab, "steps": g.steps}));
    }
}
