// C15: gas service custody — eight payment endpoints, collectFees, refund, setGasCollector by every caller class.
use crate::util::*;
use crate::vm::*;
use multiversx_sc_scenario::multiversx_chain_vm::types::VMAddress;
use num_bigint::BigUint;
use serde_json::{json, Value};

fn bn(n: u64) -> BigUint { BigUint::from(n) }

pub fn run(seed: u64, ntraces: usize) {
    let mut r = Rng::new(seed ^ 0x9a5);
    for t in 0..ntraces {
        let mut w = World::new();
        let owner = user_addr(1); let collector = user_addr(2);
        let users: Vec<VMAddress> = vec![user_addr(3), user_addr(4), user_addr(5)];
        let toks: Vec<Vec<u8>> = vec![b"GAS-111111".to_vec(), b"TOK-222222".to_vec()];
        let all: Vec<VMAddress> = [owner.clone(), collector.clone()].into_iter().chain(users.iter().cloned()).collect();
        for u in &all { w.add_user(u, 1_000_000); for tk in &toks { w.add_esdt(u, tk, 1_000_000); } }
        for u in &all { w.add_sft(u, b"SFT-abcdef", 5, 1000); }       // a semi-fungible position: never a valid gas payment
        let gs = sc_addr(0x12);
        let collector = if t % 6 == 5 { VMAddress::zero() } else { collector };       // a service deployed without a collector: nobody may collect
        let st = w.deploy(&owner, &gs, b"gas", vec![collector.to_vec()]);
        let init = json!({"self": hx(gs.as_bytes()), "owner": hx(owner.as_bytes()), "collector": hx(collector.as_bytes()),
            "tracked": all.iter().map(|u| hx(u.as_bytes())).chain(std::iter::once(hx(gs.as_bytes()))).collect::<Vec<_>>(),
            "funds": all.iter().map(|u| json!([hx(u.as_bytes()), "1000000", toks.iter().map(|t| json!([hx(t), "1000000"])).collect::<Vec<_>>()])).collect::<Vec<_>>(),
            "res": st.json});
        let mut cur_collector = collector.clone();
        let mut steps: Vec<Value> = vec![];
        let nops = 8 + r.below(14) as usize;
        for opi in 0..nops {
            // directed (sixth operation of every trace): the collector lists the SAME tokens twice in one collectFees call, every entry payable: each entry is paid
            if opi == 6 && cur_collector != VMAddress::zero() {
                let acc = w.r.blockchain_mock.state.accounts.get(&gs).unwrap();
                let b0: u64 = acc.esdt.get_esdt_balance(&toks[0], 0).to_string().parse().unwrap(); let be: u64 = acc.egld_balance.to_string().parse().unwrap();
                if b0 >= 4 && be >= 4 {
                    let tokens = vec![toks[0].clone(), b"EGLD".to_vec(), toks[0].clone(), b"EGLD".to_vec()]; let amounts = vec![b0 / 4 + 1, be / 4, b0 / 4, be / 4 + 1];
                    let receiver = users[1].clone(); let caller = cur_collector.clone();
                    let mut args = vec![receiver.to_vec(), big(4)]; for tk in &tokens { args.push(tk.clone()); } args.push(big(4)); for a in &amounts { args.push(big(*a)); }
                    let st = w.tx(&caller, &gs, "collectFees", args, &bn(0), &[]);
                    let mut opj = json!({"op": "collect", "receiver": hx(receiver.as_bytes()), "tokens": tokens.iter().map(|t| hx(t)).collect::<Vec<_>>(),
                        "amounts": amounts.iter().map(|a| a.to_string()).collect::<Vec<_>>(), "caller_": hx(caller.as_bytes())});
                    opj["caller"] = json!(hx(caller.as_bytes())); opj["pay"] = json!({"egld": "0", "esdt": []});
                    steps.push(json!({"op": opj, "res": st.json}));
                }
            }
            let anyone = r.pick(&all).clone();
            // payment shapes: none, EGLD, one ESDT, two ESDTs, nonce > 0, zero amount
            let gen_pay = |r: &mut Rng, want_native: bool| -> (u64, Vec<(Vec<u8>, u64, BigUint)>) {
                match r.below(10) {
                    0 => (0, vec![]),
                    1 => if want_native { (0, vec![(toks[0].clone(), 0, bn(1 + r.below(50)))]) } else { (1 + r.below(50), vec![]) },
                    2 => (0, vec![(toks[0].clone(), 0, bn(5)), (toks[1].clone(), 0, bn(7))]),
                    3 => (0, vec![(toks[0].clone(), 0, bn(0))]),
                    4 => if want_native { (1 + r.below(500), vec![]) } else { (0, vec![(b"SFT-abcdef".to_vec(), 5, bn(1 + r.below(9)))]) },      // one ESDT transfer with a nonce: not fungible
                    _ => if want_native { (1 + r.below(500), vec![]) } else { (0, vec![(r.pick(&toks).clone(), 0, bn(1 + r.below(500)))]) },
                }
            };
            let pj = |egld: u64, esdt: &Vec<(Vec<u8>, u64, BigUint)>| json!({"egld": egld.to_string(), "esdt": esdt.iter().map(|(t, n, v)| json!([hx(t), n, v.to_string()])).collect::<Vec<_>>()});
            let k = r.below(12);
            let (mut opj, step) = if k < 4 {
                let kind = r.below(4); let native = kind == 1 || kind == 3;
                let (egld, esdt) = gen_pay(&mut r, native);
                let ep = ["payGasForContractCall", "payNativeGasForContractCall", "payGasForExpressCall", "payNativeGasForExpressCall"][kind as usize];
                let sender = r.pick(&all).clone(); let refund = if r.chance(1, 8) { VMAddress::zero() } else { r.pick(&all).clone() }; let payload = r.some_bytes();      // a zero refund address is legal and must be reported as given
                let st = w.tx(&anyone, &gs, ep, vec![sender.to_vec(), b"ethereum".to_vec(), b"0xdest".to_vec(), payload.clone(), refund.to_vec()], &bn(egld), &esdt);
                let mut j = json!({"op": "pay", "kind": kind, "sender": hx(sender.as_bytes()), "chain": hx(b"ethereum"), "daddr": hx(b"0xdest"), "payload": hx(&payload), "refund": hx(refund.as_bytes())});
                j["pay"] = pj(egld, &esdt); (j, st)
            } else if k < 7 {
                let kind = r.below(4); let native = kind == 1 || kind == 3;
                let (egld, esdt) = gen_pay(&mut r, native);
                let ep = ["addGas", "addNativeGas", "addExpressGas", "addNativeExpressGas"][kind as usize];
                let refund = if r.chance(1, 8) { VMAddress::zero() } else { r.pick(&all).clone() }; let txh = r.bytes(8); let li = r.below(300);
                let st = w.tx(&anyone, &gs, ep, vec![txh.clone(), big(li), refund.to_vec()], &bn(egld), &esdt);
                let mut j = json!({"op": "add", "kind": kind, "txhash": hx(&txh), "logidx": li.to_string(), "refund": hx(refund.as_bytes())});
                j["pay"] = pj(egld, &esdt); (j, st)
            } else if k < 9 {
                // collectFees
                let caller = if cur_collector == VMAddress::zero() { if r.chance(1, 2) { owner.clone() } else { anyone.clone() } } else if r.chance(2, 3) { cur_collector.clone() } else { anyone.clone() };
                let receiver = if r.chance(1, 8) { VMAddress::zero() } else { r.pick(&all).clone() };
                let n = r.below(4) as usize;
                let bal = |w: &World, tk: &Vec<u8>| -> u64 { let acc = w.r.blockchain_mock.state.accounts.get(&gs).unwrap();
                    if tk == &b"EGLD".to_vec() { acc.egld_balance.to_string().parse().unwrap() } else { acc.esdt.get_esdt_balance(tk, 0).to_string().parse().unwrap() } };
                let mut tokens: Vec<Vec<u8>> = vec![]; let mut amounts: Vec<u64> = vec![];
                for _ in 0..n {
                    let tk = match r.below(3) { 0 => b"EGLD".to_vec(), _ => r.pick(&toks).clone() };
                    let b = bal(&w, &tk);
                    let a = match r.below(6) { 0 => 0, 1 => b, 2 => b + 1, 3 => b / 2 + 1, _ => 1 + r.below(b.max(1)) };
                    tokens.push(tk); amounts.push(a);
                }
                if n >= 2 && r.chance(1, 3) { tokens[1] = tokens[0].clone(); }          // duplicate token: second entry sees the reduced balance
                let mut amts2 = amounts.clone(); if r.chance(1, 8) { amts2.pop(); }      // length mismatch
                let mut args = vec![receiver.to_vec(), big(tokens.len() as u64)]; for tk in &tokens { args.push(tk.clone()); }
                args.push(big(amts2.len() as u64)); for a in &amts2 { args.push(big(*a)); }
                let st = w.tx(&caller, &gs, "collectFees", args, &bn(0), &[]);
                (json!({"op": "collect", "receiver": hx(receiver.as_bytes()), "tokens": tokens.iter().map(|t| hx(t)).collect::<Vec<_>>(),
                        "amounts": amts2.iter().map(|a| a.to_string()).collect::<Vec<_>>(), "caller_": hx(caller.as_bytes())}), st)
            } else if k < 11 {
                let caller = if cur_collector == VMAddress::zero() { if r.chance(1, 2) { owner.clone() } else { anyone.clone() } } else if r.chance(2, 3) { cur_collector.clone() } else { anyone.clone() };
                let receiver = if r.chance(1, 8) { VMAddress::zero() } else { r.pick(&all).clone() };
                let tk = match r.below(3) { 0 => b"EGLD".to_vec(), _ => r.pick(&toks).clone() };
                let acc = w.r.blockchain_mock.state.accounts.get(&gs).unwrap();
                let b: u64 = if tk == b"EGLD".to_vec() { acc.egld_balance.to_string().parse().unwrap() } else { acc.esdt.get_esdt_balance(&tk, 0).to_string().parse().unwrap() };
                let a = match r.below(5) { 0 => b, 1 => b + 1, _ => 1 + r.below(b.max(1)) }.max(1);
                let txh = r.bytes(8); let li = r.below(300);
                let st = w.tx(&caller, &gs, "refund", vec![txh.clone(), big(li), receiver.to_vec(), tk.clone(), big(a)], &bn(0), &[]);
                (json!({"op": "refund", "txhash": hx(&txh), "logidx": li.to_string(), "receiver": hx(receiver.as_bytes()), "token": hx(&tk), "amount": a.to_string(), "caller_": hx(caller.as_bytes())}), st)
            } else {
                let caller = match r.below(3) { 0 if cur_collector != VMAddress::zero() => cur_collector.clone(), 0 | 1 => owner.clone(), _ => anyone.clone() };
                let a = if r.chance(1, 5) { VMAddress::zero() } else { r.pick(&all).clone() };
                let st = w.tx(&caller, &gs, "setGasCollector", vec![a.to_vec()], &bn(0), &[]);
                if st.res.result_status == 0 { cur_collector = a.clone(); }
                (json!({"op": "setCollector", "a": hx(a.as_bytes()), "caller_": hx(caller.as_bytes())}), st)
            };
            let caller = opj.get("caller_").map(|v| v.as_str().unwrap().to_string()).unwrap_or(hx(anyone.as_bytes()));
            opj["caller"] = json!(caller);
            if opj.get("pay").is_none() { opj["pay"] = json!({"egld": "0", "esdt": []}); }
            steps.push(json!({"op": opj, "res": step.json}));
        }
        println!("{}", json!({"trace": t, "init": init, "steps": steps}));
    }
}
