mod util;
mod abi_mode;
mod vm;
mod gateway_mode;
mod tm_mode;
mod gas_mode;
mod gov_mode;
mod its_mode;

fn main() {
    if std::env::var("AXH_PANICS").is_err() { std::panic::set_hook(Box::new(|_| {})); }
    let args: Vec<String> = std::env::args().collect();
    let mode = args.get(1).map(|s| s.as_str()).unwrap_or("");
    let seed: u64 = args.get(2).and_then(|s| s.parse().ok()).unwrap_or(1);
    let n: usize = args.get(3).and_then(|s| s.parse().ok()).unwrap_or(100);
    match mode {
        "abi" => abi_mode::run(seed, n),
        "gateway" => gateway_mode::run(seed, n),
        "tm" => tm_mode::run(seed, n),
        "gas" => gas_mode::run(seed, n),
        "gov" => gov_mode::run(seed, n),
        "its" => its_mode::run(seed, n),
        "its-d" => its_mode::run_d(seed, n, args.get(4).and_then(|s| s.parse().ok())),
        "keccak" => { use sha3::{Digest, Keccak256}; println!("{}", hex::encode(Keccak256::digest(&hex::decode(&args[2]).unwrap()))); }
        "abi-file" => abi_mode::run_file(&args[2]),
        _ => { eprintln!("usage: axh <mode> <seed> <n>"); std::process::exit(2); }
    }
}
