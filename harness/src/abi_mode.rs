// C06 / C07: drive the crate's ABI codec (interchain_token_service::abi / abi_types)
// with StaticApi on generated values and byte strings; print one JSON case per line.
use crate::util::*;
use interchain_token_service::abi::{AbiEncodeDecode, ParamType, Token};
use interchain_token_service::abi_types::*;
use multiversx_sc::arrayvec::ArrayVec;
use multiversx_sc::types::{BigUint, ManagedBuffer, ManagedByteArray};
use multiversx_sc_scenario::api::StaticApi;
use serde_json::{json, Value};

/// StaticApi keeps its managed-type heap in a thread-local mutex which a panic inside a
/// VM hook poisons; every call into the crate therefore runs on a fresh thread.
fn isolated<T: Send + 'static, F: FnOnce() -> T + Send + 'static>(f: F) -> Option<T> {
    std::thread::Builder::new().stack_size(16 << 20).spawn(f).expect("spawn").join().ok()
}

use token_manager::constants::TokenManagerType;

type M = StaticApi;

#[derive(Clone, Debug)]
pub enum Tok { U(Vec<u8>), B32(Vec<u8>), B(Vec<u8>), S(Vec<u8>), U8(u8) }

fn strip(b: &[u8]) -> Vec<u8> { b.iter().cloned().skip_while(|x| *x == 0).collect() }

impl Tok {
    fn json(&self) -> Value {
        match self {
            Tok::U(b) => json!(["u", hx(&strip(b))]),
            Tok::B32(b) => json!(["b32", hx(b)]),
            Tok::B(b) => json!(["b", hx(b)]),
            Tok::S(b) => json!(["s", hx(b)]),
            Tok::U8(n) => json!(["u8", n]),
        }
    }
    fn to_token(&self) -> Token<M> {
        match self {
            Tok::U(b) => Token::Uint256(BigUint::from_bytes_be(b)),
            Tok::B32(b) => { let mut a = [0u8; 32]; a.copy_from_slice(b); Token::Bytes32(ManagedByteArray::from(&a)) }
            Tok::B(b) => Token::Bytes(ManagedBuffer::from(&b[..])),
            Tok::S(b) => Token::String(ManagedBuffer::from(&b[..])),
            Tok::U8(n) => Token::Uint8(*n),
        }
    }
    fn from_token(t: Token<M>) -> Tok {
        match t {
            Token::Uint256(v) => Tok::U(v.to_bytes_be().as_slice().to_vec()),
            Token::Bytes32(v) => Tok::B32(v.to_byte_array().to_vec()),
            Token::Bytes(v) => Tok::B(v.to_boxed_bytes().as_slice().to_vec()),
            Token::String(v) => Tok::S(v.to_boxed_bytes().as_slice().to_vec()),
            Token::Uint8(v) => Tok::U8(v),
            // a token kind the model does not know (added to the source later): the harness must still build, so that the search for a failing input can run
            #[allow(unreachable_patterns)]
            _ => Tok::B(b"<unknown token kind>".to_vec()),
        }
    }
}

fn mb(b: &[u8]) -> ManagedBuffer<M> { ManagedBuffer::from(b) }
fn bu(b: &[u8]) -> BigUint<M> { BigUint::from_bytes_be(b) }
fn b32(b: &[u8]) -> ManagedByteArray<M, 32> { let mut a = [0u8; 32]; a.copy_from_slice(b); ManagedByteArray::from(&a) }
fn mbv(b: &ManagedBuffer<M>) -> Vec<u8> { b.to_boxed_bytes().as_slice().to_vec() }
fn buv(b: &BigUint<M>) -> Vec<u8> { b.to_bytes_be().as_slice().to_vec() }

pub const KINDS: [&str; 5] = ["transfer", "deploy", "hub", "meta", "link"];

fn kind_shape(kind: &str) -> Vec<char> {
    match kind {
        "transfer" => vec!['u', '3', 'b', 'b', 'u', 'b'],
        "deploy" => vec!['u', '3', 's', 's', '8', 'b'],
        "hub" => vec!['u', 's', 'b'],
        "meta" => vec!['u', 'b', '8'],
        "link" => vec!['u', '3', '8', 'b', 'b', 'b'],
        _ => panic!("kind"),
    }
}

fn tm_type(n: u8) -> TokenManagerType { TokenManagerType::from(n) }

// struct-level encode through the crate's abi_encode; fields given in declaration order
fn enc_struct(kind: &str, f: &[Tok]) -> Vec<u8> {
    let g = |i: usize| -> Vec<u8> { match &f[i] { Tok::U(b) | Tok::B32(b) | Tok::B(b) | Tok::S(b) => b.clone(), Tok::U8(n) => vec![*n] } };
    let out = match kind {
        "transfer" => InterchainTransferPayload::<M> { message_type: bu(&g(0)), token_id: b32(&g(1)), source_address: mb(&g(2)),
            destination_address: mb(&g(3)), amount: bu(&g(4)), data: mb(&g(5)) }.abi_encode(),
        "deploy" => DeployInterchainTokenPayload::<M> { message_type: bu(&g(0)), token_id: b32(&g(1)), name: mb(&g(2)), symbol: mb(&g(3)),
            decimals: g(4)[0], minter: mb(&g(5)) }.abi_encode(),
        "hub" => SendToHubPayload::<M> { message_type: bu(&g(0)), destination_chain: mb(&g(1)), payload: mb(&g(2)) }.abi_encode(),
        "meta" => RegisterTokenMetadataPayload::<M> { message_type: bu(&g(0)), token_identifier: mb(&g(1)), decimals: g(2)[0] }.abi_encode(),
        "link" => LinkTokenPayload::<M> { message_type: bu(&g(0)), token_id: b32(&g(1)), token_manager_type: tm_type(g(2)[0]),
            source_token_address: mb(&g(3)), destination_token_address: mb(&g(4)), link_params: mb(&g(5)) }.abi_encode(),
        _ => panic!("kind"),
    };
    mbv(&out)
}

fn dec_struct(kind: &str, data: &[u8]) -> Vec<Tok> {
    let d = mb(data);
    match kind {
        "transfer" => { let p = InterchainTransferPayload::<M>::abi_decode(d);
            vec![Tok::U(buv(&p.message_type)), Tok::B32(p.token_id.to_byte_array().to_vec()), Tok::B(mbv(&p.source_address)),
                 Tok::B(mbv(&p.destination_address)), Tok::U(buv(&p.amount)), Tok::B(mbv(&p.data))] }
        "deploy" => { let p = DeployInterchainTokenPayload::<M>::abi_decode(d);
            vec![Tok::U(buv(&p.message_type)), Tok::B32(p.token_id.to_byte_array().to_vec()), Tok::S(mbv(&p.name)),
                 Tok::S(mbv(&p.symbol)), Tok::U8(p.decimals), Tok::B(mbv(&p.minter))] }
        "hub" => { let p = SendToHubPayload::<M>::abi_decode(d);
            vec![Tok::U(buv(&p.message_type)), Tok::S(mbv(&p.destination_chain)), Tok::B(mbv(&p.payload))] }
        "meta" => { let p = RegisterTokenMetadataPayload::<M>::abi_decode(d);
            vec![Tok::U(buv(&p.message_type)), Tok::B(mbv(&p.token_identifier)), Tok::U8(p.decimals)] }
        "link" => { let p = LinkTokenPayload::<M>::abi_decode(d);
            vec![Tok::U(buv(&p.message_type)), Tok::B32(p.token_id.to_byte_array().to_vec()), Tok::U8(p.token_manager_type.into()),
                 Tok::B(mbv(&p.source_token_address)), Tok::B(mbv(&p.destination_token_address)), Tok::B(mbv(&p.link_params))] }
        _ => panic!("kind"),
    }
}

fn enc_raw(toks: &[Tok]) -> Vec<u8> {
    let t: Vec<Token<M>> = toks.iter().map(|t| t.to_token()).collect();
    mbv(&<SendToHubPayload<M> as AbiEncodeDecode<M>>::raw_abi_encode(&t))
}

fn dec_raw(shape: &[char], data: &[u8]) -> Vec<Tok> {
    let types: Vec<ParamType<M>> = shape.iter().map(|c| match c {
        'u' => ParamType::Uint256, '3' => ParamType::Bytes32, 'b' => ParamType::Bytes, 's' => ParamType::String, _ => ParamType::Uint8 }).collect();
    let mut result = ArrayVec::<Token<M>, 16>::new();
    <SendToHubPayload<M> as AbiEncodeDecode<M>>::raw_abi_decode(&types, &mb(data), &mut result, 0);
    result.into_iter().map(Tok::from_token).collect()
}

fn gen_uint(r: &mut Rng) -> Vec<u8> {
    match r.below(12) {
        0 => vec![],
        1 => vec![1],
        2 => { let mut v = vec![0x80]; v.extend(vec![0u8; 31]); v }            // 2^255
        3 => vec![0xff; 32],                                                   // 2^256-1
        4 => { let mut v = vec![1]; v.extend(vec![0u8; 32]); v }               // 2^256
        5 => { let mut v = vec![0x10]; v.extend(vec![0u8; 37]); v }            // 2^300
        6 => r.bytes(33),
        7 => { let n = r.below(33) as usize; r.bytes(n) }
        8 => vec![r.below(7) as u8],
        _ => { let n = 1 + r.below(32) as usize; r.bytes(n) }
    }
}

fn gen_tok(r: &mut Rng, c: char) -> Tok {
    match c {
        'u' => Tok::U(strip(&gen_uint(r))),
        '3' => Tok::B32(match r.below(4) { 0 => vec![0; 32], 1 => vec![0xff; 32], _ => r.bytes(32) }),
        'b' => Tok::B(r.some_bytes()),
        's' => Tok::S(r.some_bytes()),
        _ => Tok::U8(match r.below(4) { 0 => 0, 1 => 255, _ => r.next() as u8 }),
    }
}

fn gen_fields(r: &mut Rng, kind: &str) -> Vec<Tok> {
    let mut f: Vec<Tok> = kind_shape(kind).iter().map(|c| gen_tok(r, *c)).collect();
    if kind == "link" { f[2] = Tok::U8(r.below(5) as u8); }
    f
}

fn gen_shape(r: &mut Rng) -> Vec<char> {
    let n = r.below(9) as usize;
    (0..n).map(|_| *r.pick(&['u', '3', 'b', 's', '8'])).collect()
}

fn canonical_small(r: &mut Rng, kind: &str) -> Vec<Tok> {
    // values that always encode (uint < 2^256)
    let mut f = gen_fields(r, kind);
    for t in f.iter_mut() { if let Tok::U(b) = t { if b.len() > 32 { *b = b[b.len() - 32..].to_vec(); *b = strip(b); } } }
    f
}

/// grow one dynamic field so that the whole encoding is exactly 512, 1024, 1536 or 2048 bytes long (or one word short of / beyond that)
fn stretch_to_chunk(r: &mut Rng, f: &mut Vec<Tok>, enc_len: usize) {
    let dynamic: Vec<usize> = f.iter().enumerate().filter(|(_, t)| matches!(t, Tok::B(_) | Tok::S(_))).map(|(i, _)| i).collect();
    if dynamic.is_empty() || enc_len == 0 { return; }
    let i = *r.pick(&dynamic);
    let mut target = 512 * (1 + r.below(4) as usize); while target < enc_len { target += 512; }
    let target = match r.below(6) { 0 => target + 32, 1 => target.saturating_sub(32).max(enc_len), _ => target };
    if let Tok::B(b) | Tok::S(b) = &mut f[i] {
        let padded = (b.len() + 31) / 32 * 32; let np = padded + (target - enc_len);
        let nl = if np == 0 { 0 } else { np - r.below(32) as usize };
        while b.len() < nl { b.push(r.next() as u8); } b.truncate(nl.max(0));
    }
}

fn word_u64(v: u64) -> Vec<u8> { let mut w = vec![0u8; 24]; w.extend_from_slice(&v.to_be_bytes()); w }

// mutate a canonical encoding: returns (label, bytes)
fn mutate(r: &mut Rng, enc: &[u8], nfields: usize) -> (&'static str, Vec<u8>) {
    if enc.len() < 32 * nfields { let n = r.below(200) as usize; return ("random", r.bytes(n)); }
    let mut d = enc.to_vec();
    let words = d.len() / 32;
    match r.below(16) {
        0 => ("canonical", d),
        1 => { // truncate at a word boundary +-1
            if words == 0 { return ("canonical", d); }
            let w = r.below(words as u64 + 1) as i64 * 32 + (r.below(3) as i64 - 1);
            let w = w.clamp(0, d.len() as i64) as usize; d.truncate(w); ("truncate", d) }
        2 => { let n = 1 + r.below(70) as usize; d.extend(r.bytes(n)); ("extend", d) }
        3 => { // rewrite a head word with another head's word (aliasing)
            if nfields < 2 { return ("canonical", d); }
            let i = r.below(nfields as u64) as usize; let j = r.below(nfields as u64) as usize;
            let src = d[32 * j..32 * j + 32].to_vec(); d[32 * i..32 * i + 32].copy_from_slice(&src); ("alias", d) }
        4 => { // offset pointing backwards / into the head
            let i = r.below(nfields as u64) as usize; let v = 32 * r.below(nfields as u64 + 1);
            d[32 * i..32 * i + 32].copy_from_slice(&word_u64(v)); ("into_head", d) }
        5 => { // offset out of range, near the end
            let i = r.below(nfields as u64) as usize; let v = (d.len() as u64).saturating_sub(r.below(70)) + r.below(40);
            d[32 * i..32 * i + 32].copy_from_slice(&word_u64(v)); ("near_end", d) }
        6 => { // huge offsets / lengths: 2^32-1, 2^32, 2^32+k, 2^64-1, 2^255
            let i = r.below(words.max(1) as u64) as usize;
            if 32 * i + 32 > d.len() { return ("canonical", d); }
            let w = match r.below(6) { 0 => word_u64(0xffff_ffff), 1 => word_u64(0x1_0000_0000), 2 => word_u64(0x1_0000_0000 + r.below(200)),
                3 => word_u64(u64::MAX), 4 => { let mut w = vec![0u8; 32]; w[0] = 0x80; w }, _ => { let mut w = vec![0u8; 32]; w[27] = 1; w[31] = r.next() as u8; w } };
            d[32 * i..32 * i + 32].copy_from_slice(&w); ("huge", d) }
        7 => { // dirty high byte somewhere in a word
            let i = r.below(words.max(1) as u64) as usize;
            if 32 * i + 32 > d.len() { return ("canonical", d); }
            let k = r.below(31) as usize; d[32 * i + k] ^= 1 + (r.next() as u8 % 255); ("dirty_high", d) }
        8 => { // dirty padding: flip a zero byte near the end of some tail
            if d.is_empty() { return ("canonical", d); }
            let k = r.below(d.len() as u64) as usize; if d[k] == 0 { d[k] = 1 + (r.next() as u8 % 255); } ("dirty_pad", d) }
        9 => { let n = r.below(400) as usize; ("random", r.bytes(n)) }
        10 => { // random word-aligned bytes with small words
            let n = r.below(14) as usize; let mut v = vec![];
            for _ in 0..n { v.extend(word_u64(match r.below(4) { 0 => 32 * r.below(14), 1 => r.below(70), 2 => r.below(300), _ => r.next() >> r.below(64) })); }
            ("random_words", v) }
        11 => { // change a length word (first word of a tail) slightly
            if words <= nfields { return ("canonical", d); }
            let i = nfields + r.below((words - nfields) as u64) as usize;
            let cur = u64::from_be_bytes(d[32 * i + 24..32 * i + 32].try_into().unwrap());
            let v = match r.below(4) { 0 => cur.wrapping_add(1), 1 => cur.saturating_sub(1), 2 => cur.wrapping_add(32), _ => cur.wrapping_add(r.below(100)) };
            d[32 * i..32 * i + 32].copy_from_slice(&word_u64(v)); ("len_tweak", d) }
        12 => { // u8 word 255/256/257
            let i = r.below(nfields as u64) as usize; let v = *r.pick(&[255u64, 256, 257, 511, 65536]);
            d[32 * i..32 * i + 32].copy_from_slice(&word_u64(v)); ("u8_edge", d) }
        13 => { // two (or three) dirty bytes in the zero prefix of a HEAD word that cancel under xor / sum to a multiple of 256
            let i = r.below(nfields as u64) as usize; if 32 * i + 32 > d.len() { return ("canonical", d); }
            let a = r.below(24) as usize; let mut b = r.below(24) as usize; if b == a { b = (a + 1) % 24; }
            let v = 1 + (r.next() as u8 % 255);
            match r.below(3) { 0 => { d[32 * i + a] ^= v; d[32 * i + b] ^= v; }
                               1 => { d[32 * i + a] = v; d[32 * i + b] = 0u8.wrapping_sub(v); }
                               _ => { d[32 * i + a] = 0x80; d[32 * i + b] = 0x80; } }
            ("dirty_pair", d) }
        14 => { // the same in the word after the head (a length word)
            if words <= nfields { return ("canonical", d); }
            let i = nfields + r.below((words - nfields) as u64) as usize;
            let a = r.below(24) as usize; let b = (a + 1 + r.below(22) as usize) % 24; let v = 1 + (r.next() as u8 % 255);
            d[32 * i + a] ^= v; d[32 * i + b] ^= v; ("dirty_pair_tail", d) }
        _ => { d.pop(); ("chop1", d) }
    }
}

fn toks_json(t: &[Tok]) -> Value { Value::Array(t.iter().map(|x| x.json()).collect()) }

pub fn run(seed: u64, n: usize) {
    let mut r = Rng::new(seed);
    for i in 0..n {
        let v = match r.below(10) {
            0 | 1 | 2 => { // struct encode
                let kind = *r.pick(&KINDS); let mut f = gen_fields(&mut r, kind);
                if r.chance(1, 5) { let l = { let (k2, f2) = (kind.to_string(), f.clone()); isolated(move || enc_struct(&k2, &f2)).map(|o| o.len()).unwrap_or(0) }; stretch_to_chunk(&mut r, &mut f, l); }
                let out = { let (k2, f2) = (kind.to_string(), f.clone()); isolated(move || enc_struct(&k2, &f2)) };
                json!({"i": i, "k": "enc", "ty": kind, "toks": toks_json(&f), "out": out.map(|o| hx(&o))}) }
            3 => { // raw encode of an arbitrary token list
                let shape = gen_shape(&mut r); let f: Vec<Tok> = shape.iter().map(|c| gen_tok(&mut r, *c)).collect();
                let out = { let f2 = f.clone(); isolated(move || enc_raw(&f2)) };
                json!({"i": i, "k": "enc", "ty": "raw", "toks": toks_json(&f), "out": out.map(|o| hx(&o))}) }
            4 | 5 | 6 | 7 => { // struct decode of a (mutated) canonical encoding
                let kind = *r.pick(&KINDS); let mut f = canonical_small(&mut r, kind);
                let enc = { let (k2, f2) = (kind.to_string(), f.clone()); isolated(move || enc_struct(&k2, &f2)).unwrap_or_default() };
                let enc = if r.chance(1, 6) { stretch_to_chunk(&mut r, &mut f, enc.len()); let (k2, f2) = (kind.to_string(), f.clone()); isolated(move || enc_struct(&k2, &f2)).unwrap_or_default() } else { enc };
                let (label, data) = mutate(&mut r, &enc, kind_shape(kind).len());
                let out = { let (k2, d2) = (kind.to_string(), data.clone()); isolated(move || dec_struct(&k2, &d2)) };
                json!({"i": i, "k": "dec", "ty": kind, "mut": label, "data": hx(&data), "out": out.map(|o| toks_json(&o))}) }
            8 => { // raw decode with a random shape against a (mutated) encoding of that shape
                let shape = gen_shape(&mut r);
                let f: Vec<Tok> = shape.iter().map(|c| { let mut t = gen_tok(&mut r, *c); if let Tok::U(b) = &mut t { if b.len() > 32 { b.truncate(32); *b = strip(b); } } t }).collect();
                let enc = { let f2 = f.clone(); isolated(move || enc_raw(&f2)).unwrap_or_default() };
                let (label, data) = mutate(&mut r, &enc, shape.len().max(1));
                let out = { let (s2, d2) = (shape.clone(), data.clone()); isolated(move || dec_raw(&s2, &d2)) };
                json!({"i": i, "k": "dec", "ty": "raw", "shape": shape.iter().collect::<String>(), "mut": label, "data": hx(&data), "out": out.map(|o| toks_json(&o))}) }
            _ => { // struct decode of random bytes of another type's encoding (cross-type confusion)
                let kind = *r.pick(&KINDS); let other = *r.pick(&KINDS); let f = canonical_small(&mut r, other);
                let data = { let (k2, f2) = (other.to_string(), f.clone()); isolated(move || enc_struct(&k2, &f2)).unwrap_or_default() };
                let out = { let (k2, d2) = (kind.to_string(), data.clone()); isolated(move || dec_struct(&k2, &d2)) };
                json!({"i": i, "k": "dec", "ty": kind, "mut": "cross_type", "data": hx(&data), "out": out.map(|o| toks_json(&o))}) }
        };
        println!("{}", v);
    }
}

fn tok_from_json(v: &Value) -> Tok {
    let k = v[0].as_str().unwrap();
    match k {
        "u" => Tok::U(unhx(v[1].as_str().unwrap())),
        "b32" => Tok::B32(unhx(v[1].as_str().unwrap())),
        "b" => Tok::B(unhx(v[1].as_str().unwrap())),
        "s" => Tok::S(unhx(v[1].as_str().unwrap())),
        _ => Tok::U8(v[1].as_u64().unwrap() as u8),
    }
}

/// replay: recompute the implementation's output for the cases of a JSONL file
pub fn run_file(path: &str) {
    let text = std::fs::read_to_string(path).expect("read cases");
    for line in text.lines() {
        if line.trim().is_empty() { continue; }
        let mut j: Value = serde_json::from_str(line).expect("json");
        let kind = j["ty"].as_str().unwrap().to_string();
        if j["k"] == "enc" {
            let f: Vec<Tok> = j["toks"].as_array().unwrap().iter().map(tok_from_json).collect();
            let out = if kind == "raw" { { let f2 = f.clone(); isolated(move || enc_raw(&f2)) } }
                      else { { let (k2, f2) = (kind.clone(), f.clone()); isolated(move || enc_struct(&k2, &f2)) } };
            j["out"] = match out { Some(o) => json!(hx(&o)), None => Value::Null };
        } else {
            let data = unhx(j["data"].as_str().unwrap());
            let out = if kind == "raw" {
                let shape: Vec<char> = j["shape"].as_str().unwrap().chars().collect();
                { let (s2, d2) = (shape.clone(), data.clone()); isolated(move || dec_raw(&s2, &d2)) }
            } else { { let (k2, d2) = (kind.clone(), data.clone()); isolated(move || dec_struct(&k2, &d2)) } };
            j["out"] = match out { Some(o) => toks_json(&o), None => Value::Null };
        }
        println!("{}", j);
    }
}
