// C01 / C02 / C03: histories of gateway operations with real ed25519 proofs.
use crate::util::*;
use crate::vm::*;
use ed25519_dalek::{Keypair, PublicKey, SecretKey, Signer};
use multiversx_sc_scenario::multiversx_chain_vm::types::VMAddress;
use num_bigint::BigUint;
use serde_json::{json, Value};
use sha3::{Digest, Keccak256};

pub fn keccak(b: &[u8]) -> Vec<u8> { Keccak256::digest(b).to_vec() }

pub const PREFIX: &[u8] = b"\x19MultiversX Signed Message:\n";

pub struct Pool { pub keys: Vec<Keypair> }
impl Pool {
    pub fn new() -> Self {
        let mut keys: Vec<Keypair> = (1u8..=8).map(|i| {
            let sk = SecretKey::from_bytes(&[i.wrapping_mul(37).wrapping_add(11); 32]).unwrap();
            let pk: PublicKey = (&sk).into();
            Keypair { secret: sk, public: pk }
        }).collect();
        keys.sort_by(|a, b| a.public.as_bytes().cmp(b.public.as_bytes()));
        Pool { keys }
    }
    pub fn pk(&self, i: usize) -> Vec<u8> { self.keys[i].public.as_bytes().to_vec() }
}

#[derive(Clone)]
pub struct SignerE { pub pk: Vec<u8>, pub key: Option<usize>, pub weight: BigUint }
#[derive(Clone)]
pub struct SSet { pub signers: Vec<SignerE>, pub threshold: BigUint, pub nonce: Vec<u8> }

pub fn enc_big(n: &BigUint, pad: usize) -> Vec<u8> {
    let mut b = bigu(n);
    for _ in 0..pad { b.insert(0, 0); }
    nested_buf(&b)
}

impl SSet {
    pub fn encode(&self, pad: usize) -> Vec<u8> {
        let mut v = (self.signers.len() as u32).to_be_bytes().to_vec();
        for s in &self.signers { v.extend_from_slice(&s.pk); v.extend_from_slice(&enc_big(&s.weight, pad)); }
        v.extend_from_slice(&enc_big(&self.threshold, pad));
        v.extend_from_slice(&self.nonce);
        v
    }
    pub fn hash(&self) -> Vec<u8> { keccak(&self.encode(0)) }
}

pub struct SigTab(pub Vec<(Vec<u8>, Vec<u8>, Vec<u8>)>);

pub fn digest(domain: &[u8], sh: &[u8], dh: &[u8]) -> Vec<u8> {
    let mut v = PREFIX.to_vec(); v.extend_from_slice(domain); v.extend_from_slice(sh); v.extend_from_slice(dh);
    keccak(&v)
}
pub fn data_hash(tag: u8, raw: &[u8]) -> Vec<u8> { let mut v = vec![tag]; v.extend_from_slice(raw); keccak(&v) }

fn weight(r: &mut Rng) -> BigUint {
    match r.below(8) {
        0 => BigUint::from(1u32),
        1 => BigUint::from(1u32) << 64,
        2 => BigUint::from(1u32) << 130,
        _ => BigUint::from(1 + r.below(5)),
    }
}

pub fn gen_valid_set(r: &mut Rng) -> SSet {
    let n = 1 + r.below(5) as usize;
    let mut idx: Vec<usize> = (0..8).collect();
    // choose n distinct indices, keep sorted (pool is sorted by public key)
    while idx.len() > n { let k = r.below(idx.len() as u64) as usize; idx.remove(k); }
    let pool = Pool::new();
    let eq = r.chance(1, 3);
    let w0 = weight(r);
    let signers: Vec<SignerE> = idx.iter().map(|i| SignerE { pk: pool.pk(*i), key: Some(*i), weight: if eq { w0.clone() } else { weight(r) } }).collect();
    let total: BigUint = signers.iter().map(|s| s.weight.clone()).sum();
    let threshold = match r.below(5) {
        0 => total.clone(),
        1 => BigUint::from(1u32),
        2 => signers[0].weight.clone(),
        _ => { let half = &total / 2u32 + 1u32; if half > total { total.clone() } else { half } }
    };
    SSet { signers, threshold, nonce: r.bytes(32) }
}

/// malformed candidate sets for rotation (each violates one rule of validate_signers)
pub fn gen_bad_set(r: &mut Rng) -> (&'static str, SSet) { let k = r.below(8); gen_bad_set_k(r, k) }
pub fn gen_bad_set_k(r: &mut Rng, kind: u64) -> (&'static str, SSet) {
    let mut s = gen_valid_set(r);
    match kind {
        0 => { s.signers.clear(); ("empty", s) }
        1 => { if s.signers.len() >= 2 { s.signers.swap(0, 1); ("unsorted", s) } else { s.signers[0].pk = vec![0; 32]; ("zero_key", s) } }
        2 => { let d = s.signers[0].clone(); s.signers.insert(1, d); ("duplicate_key", s) }
        3 => { let k = r.below(s.signers.len() as u64) as usize; s.signers[k].weight = BigUint::from(0u32); ("zero_weight", s) }
        4 => { s.threshold = BigUint::from(0u32); ("zero_threshold", s) }
        5 => { let total: BigUint = s.signers.iter().map(|x| x.weight.clone()).sum(); s.threshold = total + 1u32; ("threshold_above_total", s) }
        6 => { s.signers[0].pk = vec![0; 32]; ("zero_key", s) }
        _ => { let total: BigUint = s.signers.iter().map(|x| x.weight.clone()).sum(); s.threshold = total; ("threshold_eq_total", s) }
    }
}

pub struct ProofSpec { pub label: &'static str, pub bytes: Vec<u8> }

/// Build a proof for (tag, raw data) by set `s` under `domain`, in one of many shapes.
pub fn build_proof(r: &mut Rng, pool: &Pool, tab: &mut SigTab, s: &SSet, domain: &[u8], tag: u8, raw: &[u8], variant: u64) -> ProofSpec {
    let sh = s.hash();
    let dh = data_hash(tag, raw);
    let d = digest(domain, &sh, &dh);
    let mut sign = |tab: &mut SigTab, key: usize, msg: &[u8]| -> Vec<u8> {
        let sig = pool.keys[key].sign(msg).to_bytes().to_vec();
        tab.0.push((pool.pk(key), msg.to_vec(), sig.clone()));
        sig
    };
    let n = s.signers.len();
    let mut sigs: Vec<Option<Vec<u8>>> = vec![None; n];
    // positions in order until the threshold is reached
    let mut acc = BigUint::from(0u32);
    let mut quorum: Vec<usize> = vec![];
    for (i, sg) in s.signers.iter().enumerate() {
        if acc >= s.threshold { break; }
        if sg.key.is_some() { quorum.push(i); acc += &sg.weight; }
    }
    let mut pad = 0usize;
    let mut trailing = false;
    let label: &'static str;
    let skey = |i: usize| s.signers[i].key.unwrap_or(0);
    match variant {
        0 => { for &i in &quorum { sigs[i] = Some(sign(tab, skey(i), &d)); } label = "minimal_quorum"; }
        1 => { for i in 0..n { sigs[i] = Some(sign(tab, skey(i), &d)); } label = "all_sign"; }
        2 => { let mut q = quorum.clone(); q.pop(); for &i in &q { sigs[i] = Some(sign(tab, skey(i), &d)); } label = "below_threshold"; }
        3 => { for &i in &quorum { sigs[i] = Some(sign(tab, skey(i), &d)); }
               if let Some(&i) = quorum.first() { if let Some(sg) = sigs[i].as_mut() { sg[5] ^= 0x40; } } label = "invalid_sig_in_quorum"; }
        4 => { for i in 0..n { sigs[i] = Some(sign(tab, skey(i), &d)); }
               let last = *quorum.last().unwrap_or(&0);
               if last + 1 < n { if let Some(sg) = sigs[last + 1].as_mut() { sg[7] ^= 1; } label = "invalid_sig_after_quorum"; } else { label = "all_sign"; } }
        5 => { for &i in &quorum { sigs[i] = Some(sign(tab, skey(i), &d)); } sigs.rotate_right(1); label = "shifted"; }
        6 => { for &i in &quorum { sigs[i] = Some(sign(tab, skey(i), &d)); } sigs.pop(); label = "short_vector"; }
        7 => { for &i in &quorum { sigs[i] = Some(sign(tab, skey(i), &d)); } sigs.push(None); label = "long_vector"; }
        8 => { sigs.clear(); label = "empty_vector"; }
        9 => { let mut dom2 = domain.to_vec(); dom2[0] ^= 1; let d2 = digest(&dom2, &sh, &dh);
               for &i in &quorum { sigs[i] = Some(sign(tab, skey(i), &d2)); } label = "wrong_domain"; }
        10 => { let d2 = digest(domain, &sh, &data_hash(1 - tag, raw));
                for &i in &quorum { sigs[i] = Some(sign(tab, skey(i), &d2)); } label = "wrong_command_tag"; }
        11 => { let mut raw2 = raw.to_vec(); if raw2.is_empty() { raw2.push(1) } else { let k = raw2.len() - 1; raw2[k] ^= 1; }
                let d2 = digest(domain, &sh, &data_hash(tag, &raw2));
                for &i in &quorum { sigs[i] = Some(sign(tab, skey(i), &d2)); } label = "other_batch"; }
        12 => { let mut s2 = s.clone(); s2.nonce[0] ^= 1; let d2 = digest(domain, &s2.hash(), &dh);
                for &i in &quorum { sigs[i] = Some(sign(tab, skey(i), &d2)); } label = "other_signer_set_hash"; }
        13 => { for &i in &quorum { sigs[i] = Some(sign(tab, skey(i), &d)); } pad = 1 + r.below(2) as usize; label = "noncanonical_weights"; }
        14 => { for &i in &quorum { sigs[i] = Some(sign(tab, skey(i), &d)); } trailing = true; label = "trailing_byte"; }
        15 => { for &i in &quorum { let other = (skey(i) + 1) % 8; sigs[i] = Some(sign(tab, other, &d)); } label = "wrong_key"; }
        16 => { // gaps: a non-signing member before the quorum completes (needs enough weight elsewhere)
                let mut acc2 = BigUint::from(0u32);
                for i in (0..n).rev() { if acc2 >= s.threshold { break; } sigs[i] = Some(sign(tab, skey(i), &d)); acc2 += &s.signers[i].weight; }
                label = "quorum_from_the_end"; }
        17 => { // only the LAST member signs: its weight alone is (usually) below the threshold, the positional prefix is not
                if n > 0 { sigs[n - 1] = Some(sign(tab, skey(n - 1), &d)); } label = "last_signer_only"; }
        18 => { // one signature missing somewhere before the last signed position
                for i in 0..n { sigs[i] = Some(sign(tab, skey(i), &d)); }
                if n > 1 { let k = r.below((n - 1) as u64) as usize; sigs[k] = None; } label = "gap_before_last"; }
        19 => { // every quorum member "signs", but only the FIRST signature is genuine: the last one in the quorum is corrupted
                for &i in &quorum { sigs[i] = Some(sign(tab, skey(i), &d)); }
                if quorum.len() >= 2 { let i = *quorum.last().unwrap(); if let Some(sg) = sigs[i].as_mut() { sg[9] ^= 0x10; } label = "invalid_last_in_quorum"; } else { label = "minimal_quorum"; } }
        20 => { // the first member's genuine signature replayed at every other position
                if n > 0 { let s0 = sign(tab, skey(0), &d); for i in 0..n { sigs[i] = Some(s0.clone()); } }
                label = if n >= 2 { "first_replayed_everywhere" } else { "all_sign" }; }
        21 => { // first genuine, the rest garbage
                if n > 0 { sigs[0] = Some(sign(tab, skey(0), &d)); for i in 1..n { sigs[i] = Some(vec![0x42u8; 64]); } }
                label = if n >= 2 { "first_genuine_rest_garbage" } else { "all_sign" }; }
        22 => { // the registered set restated with a LOWER threshold (the first signer's weight): only the first signer signs, over the digest of the restated set
                let mut s2 = s.clone(); if n > 0 { s2.threshold = s.signers[0].weight.clone(); }
                let d2 = digest(domain, &s2.hash(), &dh);
                if n > 0 { sigs[0] = Some(sign(tab, skey(0), &d2)); }
                let mut bytes = s2.encode(0);
                bytes.extend_from_slice(&(sigs.len() as u32).to_be_bytes());
                for sg in &sigs { match sg { None => bytes.push(0), Some(x) => { bytes.push(1); bytes.extend_from_slice(x); } } }
                return ProofSpec { label: "restated_lower_threshold", bytes }; }
        _ => { for &i in &quorum { sigs[i] = Some(sign(tab, skey(i), &d)); }
               // a bad option tag
               label = "minimal_quorum"; }
    }
    let mut bytes = s.encode(pad);
    bytes.extend_from_slice(&(sigs.len() as u32).to_be_bytes());
    for sg in &sigs {
        match sg { None => bytes.push(0), Some(x) => { bytes.push(1); bytes.extend_from_slice(x); } }
    }
    if trailing { bytes.push(0); }
    ProofSpec { label, bytes }
}

#[derive(Clone)]
pub struct Msg { pub chain: Vec<u8>, pub id: Vec<u8>, pub src: Vec<u8>, pub contract: Vec<u8>, pub ph: Vec<u8> }
impl Msg {
    pub fn encode(&self) -> Vec<u8> {
        let mut v = nested_buf(&self.chain); v.extend(nested_buf(&self.id)); v.extend(nested_buf(&self.src));
        v.extend_from_slice(&self.contract); v.extend_from_slice(&self.ph); v
    }
}

struct G {
    w: World, gw: VMAddress, owner: VMAddress, operator: VMAddress, users: Vec<VMAddress>,
    pool: Pool, tab: SigTab, sets: Vec<SSet>, retention: u64, domain: Vec<u8>, min_delay: u64, last_rot: u64,
    sent: Vec<Msg>,
    first: Vec<(Vec<u8>, Vec<u8>, Vec<u8>, Vec<u8>, Vec<u8>)>,        // the first message approved under each id (the one the gateway holds)
    validated: Vec<(Vec<u8>, Vec<u8>, Vec<u8>, Vec<u8>, Vec<u8>)>,     // messages whose validation succeeded: validated again later (every such call answers false)
}

fn small_name(r: &mut Rng, pool: &[&str]) -> Vec<u8> { r.pick(pool).as_bytes().to_vec() }

impl G {
    fn pick_set(&self, r: &mut Rng) -> (&'static str, SSet) {
        let e = self.sets.len();
        let ret = self.retention as usize;
        if e == 0 { return ("invented_no_signers_registered", gen_valid_set(r)); }     // a gateway deployed without signers accepts nobody
        match r.below(10) {
            0 | 1 | 2 | 3 | 4 => ("latest", self.sets[e - 1].clone()),
            5 => { let k = if e > 1 { e - 1 - (1 + r.below(ret.min(e - 1).max(1) as u64) as usize).min(e - 1) } else { 0 }; ("older", self.sets[k].clone()) }
            6 => { if e > ret { ("retention_edge", self.sets[e - 1 - ret].clone()) } else { ("oldest", self.sets[0].clone()) } }
            7 => { if e > ret + 1 { ("expired", self.sets[e - 2 - ret].clone()) } else { ("oldest", self.sets[0].clone()) } }
            8 => { let mut s = self.sets[e - 1].clone(); s.nonce[31] ^= 1; ("unregistered_nonce", s) }
            _ => ("random_registered", self.sets[r.below(e as u64) as usize].clone()),
        }
    }

    fn gen_msg(&mut self, r: &mut Rng) -> Msg {
        // re-sent ids (possibly with altered fields) with probability 1/3
        if !self.sent.is_empty() && r.chance(1, 3) {
            let m = &self.sent[r.below(self.sent.len() as u64) as usize];
            let mut n = Msg { chain: m.chain.clone(), id: m.id.clone(), src: m.src.clone(), contract: m.contract.clone(), ph: m.ph.clone() };
            match r.below(4) { 0 => n.src.push(b'x'), 1 => n.ph[0] ^= 1, 2 => n.contract = self.users[r.below(self.users.len() as u64) as usize].to_vec(), _ => {} }
            return n;
        }
        // one message in six is picked so that its approval hash starts with the byte of the stored Executed marker ('1') or with a zero byte:
        // the stored Approved(hash) must still read back as approved
        if r.chance(1, 6) {
            let want = *r.pick(&[0x31u8, 0x31, 0x00]); let start = r.below(3) * 2000;
            let mut m = Msg { chain: b"ethereum".to_vec(), id: vec![], src: b"0xabc".to_vec(), contract: self.users[0].to_vec(), ph: keccak(&[0]) };
            for k in start..start + 6000 { m.id = format!("h{}-{}", want, k).into_bytes(); if keccak(&m.encode())[0] == want { break; } }
            return m;
        }
        Msg { chain: small_name(r, &["ethereum", "avalanche", "axelar", ""]), id: format!("id-{}", r.below(12)).into_bytes(),
              src: small_name(r, &["0xabc", "0xITS", "src", "0xAbCd"]), contract: self.users[r.below(self.users.len() as u64) as usize].to_vec(),
              ph: keccak(&[r.below(6) as u8]) }
    }
}

fn op_json(op: &str, label: String, caller: &VMAddress, now: u64, fields: Value) -> Value {
    let mut j = json!({"op": op, "label": label, "caller": hx(caller.as_bytes()), "now": now});
    for (k, v) in fields.as_object().unwrap() { j[k] = v.clone(); }
    j
}

pub fn run(seed: u64, ntraces: usize) {
    let mut r = Rng::new(seed ^ 0x6a7e);
    for t in 0..ntraces {
        let mut w = World::new();
        let owner = user_addr(1); let operator = user_addr(2);
        let users: Vec<VMAddress> = vec![user_addr(3), user_addr(4), user_addr(5)];
        for a in [&owner, &operator].into_iter().chain(users.iter()) { w.add_user(a, 1_000_000); }
        let gw = sc_addr(0x10);
        let retention = if t % 8 == 5 { 2 } else { r.below(4) };
        let min_delay = if t % 8 == 5 { 100 } else { *r.pick(&[0u64, 10, 100]) };
        let domain = r.bytes(32);
        let no_operator = r.chance(1, 12);
        let mut t0 = 1000 + r.below(1000);
        w.set_time(t0);
        let nsets = if t % 8 == 7 { 0 } else { 1 + r.below(2) as usize };
        let mut sets: Vec<SSet> = (0..nsets).map(|_| gen_valid_set(&mut r)).collect();
        // a deployment naming a malformed signer set must be refused as a whole (t % 8 == 6)
        if t % 8 == 6 { let (_, bad) = gen_bad_set(&mut r); if r.chance(1, 2) { sets.push(bad); } else { sets.insert(0, bad); } }
        let op_arg = if no_operator { vec![0u8; 32] } else { operator.to_vec() };
        let mut args = vec![big(retention), domain.clone(), big(min_delay), op_arg.clone()];
        for s in &sets { args.push(s.encode(0)); }
        let st = w.deploy(&owner, &gw, b"gateway", args);
        let init = json!({"owner": hx(owner.as_bytes()), "now": t0, "retention": retention, "domain": hx(&domain), "min_delay": min_delay,
            "operator": hx(&op_arg), "signers": sets.iter().map(|s| hx(&s.encode(0))).collect::<Vec<_>>(), "res": st.json});
        let mut g = G { w, gw: gw.clone(), owner: owner.clone(), operator: operator.clone(), users: users.clone(), pool: Pool::new(), tab: SigTab(vec![]),
            sets, retention, domain, min_delay, last_rot: t0, sent: vec![], first: vec![], validated: vec![] };
        let mut steps: Vec<Value> = vec![];
        let nops = if st.res.result_status != 0 { 0 } else { 6 + r.below(10) as usize };      // a refused deployment leaves no contract to call
        // directed rotation battery (t % 8 == 5): (caller index in [owner, operator, user0, user1], set: 0 latest / 1 previous, early?)
        //   owner and a user inside the delay (refused), the operator inside the delay (allowed), then after the delay:
        //   the owner with the previous set (refused), a user with the latest set (allowed), the operator with the previous set (allowed)
        let mut rot_script: Vec<(usize, usize, bool, Option<u64>)> = if t % 8 == 5 && !no_operator && st.res.result_status == 0 {
            let mut v = vec![(0, 0, true, None), (2, 0, true, None), (1, 0, true, None), (0, 1, false, None), (2, 0, false, None), (1, 1, false, None), (0, 0, true, None)];
            // then the operator (no delay needed) proposes every kind of malformed set with a fully signed proof of the latest set: all refused
            for k in 0..8u64 { v.push((1, 0, true, Some(k))); }
            v } else { vec![] };
        let nops = nops + rot_script.len();
        // follow-ups of a successful validation: the same call again, by a stranger, and with another payload hash -- an executed message never validates again
        let mut ru = Rng::new(seed ^ 0x75a9 ^ ((t as u64) << 20)); let mut nup = (t / 8) as u64 * 3;
        let mut vq: Vec<((Vec<u8>, Vec<u8>, Vec<u8>, Vec<u8>, Vec<u8>), u64)> = vec![];
        for _ in 0..nops {
            let forced_rot = if rot_script.is_empty() { None } else { Some(rot_script.remove(0)) };
            // time advance around the rotation delay
            let dt = if let Some((_, _, early, _)) = forced_rot { if early { g.min_delay / 2 } else { g.min_delay + 1 } } else { match r.below(6) { 0 => 0, 1 => g.min_delay.saturating_sub(1), 2 => g.min_delay, 3 => g.min_delay + 1, _ => r.below(2 * g.min_delay + 5) } };
            let now = (g.last_rot + dt).max(t0); t0 = now; g.w.set_time(now);
            let callers = [g.owner.clone(), g.operator.clone(), g.users[0].clone(), g.users[1].clone()];
            let forced_val = if forced_rot.is_none() && !vq.is_empty() { Some(vq.remove(0)) } else { None };
            let choice = if forced_rot.is_some() { 8 } else if forced_val.is_some() { 15 } else { r.below(20) };
            let (opj, step) = if choice < 8 {
                // approveMessages
                let nm = match r.below(6) { 0 => 0, 1 | 2 => 1, _ => 1 + r.below(4) as usize };
                let mut msgs: Vec<Msg> = (0..nm).map(|_| g.gen_msg(&mut r)).collect();
                if nm >= 2 && r.chance(1, 3) { // duplicate id inside the batch with altered contents
                    let m = &msgs[0]; let mut d = Msg { chain: m.chain.clone(), id: m.id.clone(), src: m.src.clone(), contract: m.contract.clone(), ph: m.ph.clone() };
                    d.src.push(b'!'); msgs.push(d);
                }
                // one batch in four re-submits, unchanged, one or two messages that were approved before (nothing new in it): the proof is checked all the same
                let resub = !g.sent.is_empty() && r.chance(1, 4);
                if resub { let k = 1 + r.below(2) as usize; msgs = (0..k).map(|_| { let m = &g.sent[r.below(g.sent.len() as u64) as usize];
                    Msg { chain: m.chain.clone(), id: m.id.clone(), src: m.src.clone(), contract: m.contract.clone(), ph: m.ph.clone() } }).collect(); }
                let mut raw: Vec<u8> = msgs.iter().flat_map(|m| m.encode()).collect();
                let mut mlabel = if resub { "resubmitted" } else { "batch" };
                if r.chance(1, 15) { raw.push(7); mlabel = "batch_trailing_byte"; }
                if r.chance(1, 20) && !raw.is_empty() { raw.truncate(raw.len() - 1); mlabel = "batch_truncated"; }
                let (slabel, set) = g.pick_set(&mut r);
                // ... and mostly with a fully signed proof of a set that is expired, never registered, or the latest
                let (slabel, set) = if resub && r.chance(2, 3) { let e = g.sets.len(); let ret = g.retention as usize;
                    match r.below(3) { 0 if e > ret + 1 => ("expired", g.sets[e - 2 - ret].clone()), 1 if e > 0 => { let mut z = g.sets[e - 1].clone(); z.nonce[31] ^= 1; ("unregistered_nonce", z) }, _ => (slabel, set) } } else { (slabel, set) };
                let variant = if r.chance(1, 2) { r.below(2) } else { r.below(23) };
                let variant = if resub { variant % 2 } else { variant };
                let G { pool, tab, domain, .. } = &mut g;
                let p = build_proof(&mut r, pool, tab, &set, domain, 0, &raw, variant);
                let caller = r.pick(&callers).clone();
                let st = g.w.call0(&caller, &g.gw, "approveMessages", vec![raw.clone(), p.bytes.clone()]);
                if st.res.result_status == 0 { for m in msgs { if !g.sent.iter().any(|x| x.chain == m.chain && x.id == m.id) { g.first.push((m.chain.clone(), m.id.clone(), m.src.clone(), m.contract.clone(), m.ph.clone())); } g.sent.push(m); } }
                (op_json("approve", format!("{}/{}/{}/n={}", mlabel, slabel, p.label, nm), &caller, now, json!({"messages": hx(&raw), "proof": hx(&p.bytes)})), st)
            } else if choice < 12 {
                // rotateSigners
                let (nlabel, newset) = if let Some((_, _, _, Some(k))) = forced_rot { gen_bad_set_k(&mut r, k) } else { match if forced_rot.is_some() { 5 } else { r.below(6) } { 0 => gen_bad_set(&mut r), 1 | 2 if !g.sets.is_empty() => ("duplicate_of_registered", g.sets[r.below(g.sets.len() as u64) as usize].clone()), _ => ("fresh", gen_valid_set(&mut r)) } };
                // the same logical set may arrive with non-canonical (zero-padded) weights / threshold: it is still the same set
                let npad = if forced_rot.is_none() && (r.chance(1, 8) || (nlabel == "duplicate_of_registered" && r.chance(1, 2))) { 1 + r.below(2) as usize } else { 0 };
                let mut raw = newset.encode(npad);
                if forced_rot.is_none() && r.chance(1, 20) { raw.push(0); }
                let (slabel, set) = if let Some((_, which, _, _)) = forced_rot { let e = g.sets.len(); if which == 1 && e >= 2 { ("previous", g.sets[e - 2].clone()) } else { ("latest", g.sets[e - 1].clone()) } } else { g.pick_set(&mut r) };
                let variant = if forced_rot.is_some() { 1 } else if r.chance(2, 3) { r.below(2) } else { r.below(23) };
                let G { pool, tab, domain, .. } = &mut g;
                let p = build_proof(&mut r, pool, tab, &set, domain, 1, &raw, variant);
                let caller = if let Some((ci, _, _, _)) = forced_rot { callers[ci].clone() } else if r.chance(1, 2) { g.operator.clone() } else { r.pick(&callers).clone() };
                let st = g.w.call0(&caller, &g.gw, "rotateSigners", vec![raw.clone(), p.bytes.clone()]);
                if st.res.result_status == 0 { g.sets.push(newset); g.last_rot = now; }
                (op_json("rotate", format!("{}/{}/{}/{}", nlabel, slabel, p.label, if caller == g.operator { "operator" } else { "other" }), &caller, now,
                    json!({"signers": hx(&raw), "proof": hx(&p.bytes)})), st)
            } else if choice < 16 {
                // validateMessage by right / wrong caller with right / wrong fields
                let (chain, id, src, contract, ph) = if let Some((m, _)) = &forced_val { m.clone() } else if !g.validated.is_empty() && r.chance(1, 3) { r.pick(&g.validated).clone() } else if !g.first.is_empty() && r.chance(1, 2) { r.pick(&g.first).clone() } else if !g.sent.is_empty() && r.chance(5, 6) {
                    let m = &g.sent[r.below(g.sent.len() as u64) as usize]; (m.chain.clone(), m.id.clone(), m.src.clone(), m.contract.clone(), m.ph.clone())
                } else { (b"ethereum".to_vec(), b"id-0".to_vec(), b"0xabc".to_vec(), g.users[0].to_vec(), keccak(&[0])) };
                let orig = (chain.clone(), id.clone(), src.clone(), contract.clone(), ph.clone());
                let (label, caller, src2, ph2) = match if let Some((_, k)) = &forced_val { *k } else { r.below(10) } {
                    8 | 9 => { let s: Vec<u8> = src.iter().map(|b| if b.is_ascii_alphabetic() { b ^ 0x20 } else { *b }).collect();      // same letters, other case: a different source address
                               ("source_other_case", VMAddress::new(contract.clone().try_into().unwrap()), s, ph) }
                    0 => ("wrong_caller", g.users[(r.below(3)) as usize].clone(), src, ph),
                    1 => { let mut s = src.clone(); s.push(b'z'); ("wrong_source", VMAddress::new(contract.clone().try_into().unwrap()), s, ph) }
                    2 => { let mut p = ph.clone(); p[3] ^= 2; ("wrong_payload_hash", VMAddress::new(contract.clone().try_into().unwrap()), src, p) }
                    3 => ("short_payload_hash", VMAddress::new(contract.clone().try_into().unwrap()), src, ph[..31].to_vec()),
                    _ => ("right", VMAddress::new(contract.clone().try_into().unwrap()), src, ph),
                };
                let st = g.w.call0(&caller, &g.gw, "validateMessage", vec![chain.clone(), id.clone(), src2.clone(), ph2.clone()]);
                if st.res.result_status == 0 && st.res.result_values.first().map(|v| !v.is_empty()).unwrap_or(false) { if forced_val.is_none() { for k in [4u64, 0, 2] { vq.push((orig.clone(), k)); } } g.validated.push(orig); }
                (op_json("validate", label.to_string(), &caller, now, json!({"chain": hx(&chain), "id": hx(&id), "src": hx(&src2), "ph": hx(&ph2)})), st)
            } else if choice < 17 {
                let caller = r.pick(&callers).clone();
                let newop = match r.below(5) { 0 => vec![0u8; 32], 1 => g.users[2].to_vec(), _ => g.operator.to_vec() };
                let st = g.w.call0(&caller, &g.gw, "transferOperatorship", vec![newop.clone()]);
                if st.res.result_status == 0 { g.operator = VMAddress::new(newop.clone().try_into().unwrap()); }
                (op_json("transferOp", "transferOp".to_string(), &caller, now, json!({"new": hx(&newop)})), st)
            } else if choice < 18 {
                let caller = r.pick(&callers).clone();
                let payload = r.some_bytes();
                let st = g.w.call0(&caller, &g.gw, "callContract", vec![b"ethereum".to_vec(), b"0xdest".to_vec(), payload.clone()]);
                (op_json("callContract", "callContract".to_string(), &caller, now, json!({"chain": hx(b"ethereum"), "addr": hx(b"0xdest"), "payload": hx(&payload)})), st)
            } else {
                let caller = g.users[0].clone();
                if !g.sent.is_empty() {
                    let m = &g.sent[r.below(g.sent.len() as u64) as usize];
                    if r.chance(1, 2) {
                        let (chain, id, mut src, contract, ph) = (m.chain.clone(), m.id.clone(), m.src.clone(), m.contract.clone(), m.ph.clone());
                        if r.chance(1, 3) { src = src.iter().map(|b| if b.is_ascii_alphabetic() { b ^ 0x20 } else { *b }).collect(); }
                        let st = g.w.call0(&caller, &g.gw, "isMessageApproved", vec![chain.clone(), id.clone(), src.clone(), contract.clone(), ph.clone()]);
                        (op_json("isApproved", "view".to_string(), &caller, now, json!({"chain": hx(&chain), "id": hx(&id), "src": hx(&src), "contract": hx(&contract), "ph": hx(&ph)})), st)
                    } else {
                        let (chain, id) = (m.chain.clone(), m.id.clone());
                        let st = g.w.call0(&caller, &g.gw, "isMessageExecuted", vec![chain.clone(), id.clone()]);
                        (op_json("isExecuted", "view".to_string(), &caller, now, json!({"chain": hx(&chain), "id": hx(&id)})), st)
                    }
                } else {
                    let st = g.w.call0(&caller, &g.gw, "isMessageExecuted", vec![b"x".to_vec(), b"y".to_vec()]);
                    (op_json("isExecuted", "view".to_string(), &caller, now, json!({"chain": hx(b"x"), "id": hx(b"y")})), st)
                }
            };
            steps.push(json!({"op": opj, "res": step.json}));
            // upgrade transactions (traces t % 8 == 3 only, driven by a PRNG of their own so that every other trace is what it was):
            // the owner re-runs the second half of `init` on the existing gateway -- operator argument (zero = keep), signer sets registered
            // without proof and without the rotation delay, but with every validity / duplicate check; a refused upgrade changes nothing
            if t % 8 == 3 && ru.chance(1, 2) {
                let k = nup % 8; nup += 1;
                let cur_op = g.operator.to_vec(); let u2 = g.users[2].to_vec();
                let (label, oparg, newsets, pad): (&str, Vec<u8>, Vec<SSet>, usize) = match k {
                    0 => ("noop", vec![0u8; 32], vec![], 0),
                    1 => ("operator_only", u2.clone(), vec![], 0),
                    2 => ("one_fresh_set", vec![0u8; 32], vec![gen_valid_set(&mut ru)], 0),
                    3 => if let Some(sx) = g.sets.last() { ("duplicate_set", u2.clone(), vec![gen_valid_set(&mut ru), sx.clone()], 0) } else { ("one_fresh_set", vec![0u8; 32], vec![gen_valid_set(&mut ru)], 0) },
                    4 => { let (_, bad) = gen_bad_set(&mut ru); ("malformed_set", u2.clone(), vec![bad], 0) }
                    5 => ("two_fresh_sets", cur_op.clone(), vec![gen_valid_set(&mut ru), gen_valid_set(&mut ru)], 0),
                    6 => ("short_operator", vec![7u8; 31], vec![], 0),
                    _ => ("fresh_set_padded_weights", vec![0u8; 32], vec![gen_valid_set(&mut ru)], 1),
                };
                let mut uargs = vec![oparg.clone()]; for sx in &newsets { uargs.push(sx.encode(pad)); }
                let ow = g.owner.clone();
                let stu = g.w.call0(&ow, &g.gw, "upgrade", uargs.clone());
                if stu.res.result_status == 0 {
                    if oparg.len() == 32 && oparg.iter().any(|b| *b != 0) { g.operator = VMAddress::new(oparg.clone().try_into().unwrap()); }
                    if !newsets.is_empty() { g.last_rot = now; } for sx in newsets { g.sets.push(sx); } }
                steps.push(json!({"op": op_json("upgrade", label.to_string(), &ow, now, json!({"operator": hx(&oparg), "signers": uargs[1..].iter().map(|b| hx(b)).collect::<Vec<_>>()})), "res": stu.json}));
            }
        }
        let sigtab: Vec<Value> = g.tab.0.iter().map(|(a, b, c)| json!([hx(a), hx(b), hx(c)])).collect();
        println!("{}", json!({"trace": t, "gw": hx(gw.as_bytes()), "init": init, "sigtab": sigtab, "steps": steps}));
    }
}
