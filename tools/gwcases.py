"""Gateway traces (harness 'gateway' mode) -> Coq case files."""
import json

def H(s):
    return '(unhex "%s")' % s

def ctx(op, owner):
    return '{| c_caller := %s; c_owner := %s; c_now := %d |}' % (H(op['caller']), H(owner), op['now'])

def ugop(op, owner):
    k = op['op']
    if k == 'upgrade':     # an upgrade transaction (the protocol accepts it from the owner only): Model/GWUpgrade.v
        return '(inr (GUpgrade %s %s [%s]))' % (ctx(op, owner), H(op['operator']), '; '.join(H(x) for x in op['signers']))
    return '(inl %s)' % gop(op, owner)

def gop(op, owner):
    c = ctx(op, owner)
    k = op['op']
    if k == 'approve':
        return '(GApprove %s %s %s)' % (c, H(op['messages']), H(op['proof']))
    if k == 'rotate':
        return '(GRotate %s %s %s)' % (c, H(op['signers']), H(op['proof']))
    if k == 'validate':
        return '(GValidate %s %s %s %s %s)' % (c, H(op['chain']), H(op['id']), H(op['src']), H(op['ph']))
    if k == 'transferOp':
        return '(GTransferOp %s %s)' % (c, H(op['new']))
    if k == 'callContract':
        return '(GCallContract %s %s %s %s)' % (c, H(op['chain']), H(op['addr']), H(op['payload']))
    if k == 'isApproved':
        return '(GIsApproved %s %s %s %s %s %s)' % (c, H(op['chain']), H(op['id']), H(op['src']), H(op['contract']), H(op['ph']))
    if k == 'isExecuted':
        return '(GIsExecuted %s %s %s)' % (c, H(op['chain']), H(op['id']))
    raise ValueError(k)

def event(l):
    return '{| ev_topics := [%s]; ev_data := %s |}' % ('; '.join(H(t) for t in l['t']), H(''.join(l['d'])))

def expect(res, addr):
    logs = [l for l in res['logs'] if l['a'] == addr]
    sd = [(k, v) for a, k, v in res['sd'] if a == addr]
    return '{| x_ok := %s; x_rets := [%s]; x_logs := [%s]; x_sd := [%s] |}' % (
        'true' if res['ok'] else 'false', '; '.join(H(r) for r in res['rets']),
        '; '.join(event(l) for l in logs), '; '.join('(%s, %s)' % (H(k), H(v)) for k, v in sd))

def trace_term(j):
    gw = j['gw']; i = j['init']; owner = i['owner']
    tab = '[%s]' % '; '.join('(%s, %s, %s)' % (H(a), H(b), H(c)) for a, b, c in j['sigtab'])
    steps = '[%s]' % ';\n   '.join('(%s, %s)' % (ugop(s['op'], owner), expect(s['res'], gw)) for s in j['steps'])
    return '(ucheck_trace %s %d %d %s %d %s [%s] %s\n  %s)' % (
        tab, i['now'], i['retention'], H(i['domain']), i['min_delay'], H(i['operator']),
        '; '.join(H(s) for s in i['signers']), expect(i['res'], gw), steps)

HEADER = ('From Coq Require Import String List NArith.\n'
          'From Ax Require Import Lib.Bytes Lib.Mvx Lib.Keccak Model.Check Model.Gateway Model.GatewayCheck Model.GWUpgrade.\n'
          'Import ListNotations.\nOpen Scope N_scope.\nSet Printing Width 1000000.\nSet Printing Depth 10000000.\n')

def write_case_file(path, traces):
    with open(path, 'w') as fh:
        fh.write(HEADER)
        for n, j in enumerate(traces):
            fh.write('Definition t%d : list N := %s.\n' % (n, trace_term(j)))
        fh.write('Eval vm_compute in [%s].\n' % '; '.join('t%d' % n for n in range(len(traces))))
