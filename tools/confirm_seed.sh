#!/bin/bash
# confirm a seeded change produced in /tmp/seed_<ID>: demo fails with / passes without the patch, the 32 pinned tests
# still pass, then run our check against the patched worktree.  usage: confirm_seed.sh C09 [more property ids to check]
ID=$1; shift; PROPS="$ID $@"
W=/tmp/seed_$ID
cd $W || exit 2
DEMO=$(python3 -c "import json;print(json.load(open('meta.json'))['demo_cmd'])")
echo "== demo cmd: $DEMO"
git apply --check -R patch.diff 2>/dev/null || { echo "patch not applied; applying"; git apply patch.diff || exit 2; }
( eval "$DEMO" ) >/tmp/seed_${ID}_with.log 2>&1; WITH=$?
git apply -R patch.diff || exit 2
( eval "$DEMO" ) >/tmp/seed_${ID}_without.log 2>&1; WITHOUT=$?
git apply patch.diff || exit 2
echo "== demo exit with patch: $WITH (expect != 0), without: $WITHOUT (expect 0)"
cargo test --workspace --no-fail-fast --offline 2>&1 | grep -E "^test .*(FAILED|failed)|^test result" | grep -v "0 passed; 0 failed" > /tmp/seed_${ID}_suite.log
echo "== suite with patch:"; cat /tmp/seed_${ID}_suite.log
# bring the scratch worktree up to /repo's HEAD (repairs committed after the worktree was created), keeping the seeded change
BASE=$(git -C $W rev-parse HEAD); TIP=$(git -C /repo rev-parse HEAD)
if [ "$BASE" != "$TIP" ]; then git -C /repo diff $BASE $TIP > /tmp/seed_${ID}_uptodate.diff
  if git -C $W apply -R --check /tmp/seed_${ID}_uptodate.diff 2>/dev/null; then echo "== worktree already carries /repo's newer commits";
  elif git -C $W apply /tmp/seed_${ID}_uptodate.diff; then echo "== worktree brought up to $TIP"; else echo "== WARNING: could not apply /repo's newer commits to the worktree"; fi; fi
cd /verif
for P in $PROPS; do
  VERIF_REPO=$W ./vcheck check $P > /tmp/seed_${ID}_check_$P.log 2>&1; echo "== vcheck $P exit $? : $(grep -E 'VIOLATION|^OK' /tmp/seed_${ID}_check_$P.log | head -2)"
done
