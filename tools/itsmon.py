"""Property monitors for the ITS properties, evaluated on the IMPLEMENTATION's observations of an
ITS-world trace (statuses, storage diffs, balance diffs, logs); independent of the Coq model's step
function.  Known-finding classes are attached to failures that match a recorded finding."""

GATED = {'execute', 'transfer', 'callContract', 'deployToken', 'deployRemote', 'registerCanonical', 'deployRemoteCanonical', 'registerCustom', 'linkToken'}
ASYNC_OPS = {'deliver', 'callback', 'props', 'issue', 'gwApprove'}
TMA = b'token_manager_address'.hex()
TOKID = b'token_identifier'.hex()
CCE = b'contract_call_event'.hex()

def its_delta(res, its):
    """balance changes of the service in this step: token -> new balance"""
    return {t: int(v) for a, t, v in res['bd'] if a == its}

def monitor(tr, which):
    i = tr['init']; its = i['its']; owner = i['owner']
    fails = []
    bal = {}                      # current balances of the service
    held = {}                     # pending id -> {token: amount held in the service for it}
    stranded = {}                 # token -> amount stuck by recorded findings
    pend_kind = {}                # pending id -> ('transfer'|'meta'|'remote'|'issue')
    next_id = 0
    paused = False
    operator = i['operator']
    trusted = {c: a for c, a in i['trusted']}
    approvals = {}                # (chain,id) -> (src, contract, ph) approved at the gateway, unconsumed
    released = set()              # (chain,id) with a successful no-data release
    tm_bound = {}                 # token id -> manager address
    tm_token = {}                 # manager address -> recorded token
    minter_appr = {}              # (minter, deployer, salt, dchain) -> dminter
    minted = {}                   # (deployer, salt) -> number of deployInterchainToken calls that minted the initial supply
    for k, st in enumerate(tr['steps']):
        op = st['op']; res = st['res']; ok = res['ok']; kind = op['op']
        def fail(what, classes=()):
            fails.append({'step': k, 'what': what, 'known_classes': list(classes), 'op': op, 'impl': res})
        before = dict(bal)
        for t, v in its_delta(res, its).items():
            bal[t] = v
        delta = {t: bal.get(t, 0) - before.get(t, 0) for t in set(bal) | set(before) if bal.get(t, 0) != before.get(t, 0)}
        # ---- storage-level invariants (C14, C18)
        for a, key, v in res['sd']:
            if a == its and key.startswith(TMA):
                tid = key[len(TMA):]
                if tid in tm_bound and tm_bound[tid] != v and which == 'C14':
                    fail('token id %s.. re-bound from manager %s.. to %s..' % (tid[:8], tm_bound[tid][-8:], v[-8:]))
                if v: tm_bound.setdefault(tid, v)
            if key == TOKID and a != its:
                if a in tm_token and tm_token[a] != v and which == 'C18':
                    fail('token manager %s.. replaced its recorded token %s by %s' % (a[-8:], tm_token[a], v), ['F-C18-1'] if False else [])
                if v: tm_token.setdefault(a, v)
        # ---- pause and privileges (C20)
        if which == 'C20':
            if paused and kind in GATED and ok:
                fail('%s succeeded while the service is paused' % kind)
            if paused and kind in GATED and (res['sd'] or res['bd']):
                fail('%s changed state or moved value while the service is paused' % kind)
            if kind in ('pause', 'setTrusted', 'removeTrusted') and ok and op['caller'] != owner:
                fail('%s succeeded for a caller that is not the owner' % kind)
            if kind == 'setFlowLimits' and ok and op['caller'] != operator:
                fail('setFlowLimits succeeded for a caller without the operator role')
        if kind == 'pause' and ok: paused = op['paused']
        if kind == 'transferOp' and ok: operator = op['a']
        if kind == 'acceptOp' and ok: operator = op['caller']
        if kind == 'setTrusted' and ok: trusted[op['chain']] = op['a']
        if kind == 'removeTrusted' and ok: trusted.pop(op['chain'], None)
        # ---- gateway approvals
        if kind == 'gwApprove' and ok:
            m = op['msg']
            approvals.setdefault((m['chain'], m['id']), (m['src'], m['contract'], m['ph']))
        # ---- inbound
        if kind == 'execute' and ok:
            if which == 'C13' and trusted.get(op['chain']) != op['src']:
                fail('inbound message accepted from an address that is not the trusted address of its source chain')
            a = approvals.get((op['chain'], op['id']))
            if which == 'C04' and (a is None or a[0] != op['src'] or a[1] != its or a[2] != op.get('ph')):
                fail('inbound message executed without a gateway approval for exactly this source, service address and payload')
        # ---- outbound message: one gateway contract-call event per successful transfer
        if kind in ('transfer', 'callContract') and ok and which == 'C05':
            cce = [l for l in res['logs'] if l['a'] == i['gw'] and l['t'] and l['t'][0] == CCE]
            if len(cce) != 1:
                fail('%d gateway contract-call events for one outbound transfer' % len(cce))
            elif cce[0]['t'][1] != its:
                fail('contract-call event not sent by the service')
            if delta:
                fail('outbound transfer changed the service\'s own balances: %s' % delta)
            gas = int(op['gas'])
            gas_logs = [l for l in res['logs'] if l['a'] == i['gas'] and l['ep'] not in ('ESDTTransfer', 'transferValueOnly', 'MultiESDTNFTTransfer')]
            if (gas > 0) != (len(gas_logs) == 1):
                fail('gas value %d but %d gas-service events' % (gas, len(gas_logs)))
        if kind in ('transfer', 'callContract') and ok and which == 'C13':
            cce = [l for l in res['logs'] if l['a'] == i['gw'] and l['t'] and l['t'][0] == CCE]
            if cce:
                dchain, daddr = cce[0]['t'][2], cce[0]['t'][3]
                want = trusted.get(op['dchain'])
                if want == b'hub'.hex():
                    if dchain != b'axelar'.hex() or daddr != trusted.get(b'axelar'.hex()):
                        fail('hub-routed chain not sent to the hub\'s trusted address')
                elif dchain != op['dchain'] or daddr != want:
                    fail('outbound message not sent to the trusted address of the destination chain')
        # ---- local deployment: the initial supply is minted at most once (C18)
        if kind == 'deployToken' and ok and int(op['supply']) > 0:
            got = [(a, t, v) for a, t, v in res['bd'] if a == op['caller'] and t != b'EGLD'.hex()]
            if got:
                key = (op['caller'], op['salt'])
                minted[key] = minted.get(key, 0) + 1
                if minted[key] > 1 and which == 'C18':
                    fail('the initial supply of a local deployment was minted %d times' % minted[key])
        # ---- custom minter approvals (C19)
        if kind == 'approveRemote' and ok:
            minter_appr[(op['caller'], op['deployer'], op['salt'], op['dchain'])] = op['dminter']
        if kind == 'revokeRemote' and ok:
            minter_appr.pop((op['caller'], op['deployer'], op['salt'], op['dchain']), None)
        if kind == 'deployRemote' and ok and op.get('dminter') is not None:
            key = (op['minter'], op['caller'], op['salt'], op['dchain'])
            if which == 'C19' and minter_appr.get(key) != op['dminter']:
                fail('remote deployment with a custom destination minter accepted without the minter\'s approval of exactly that tuple')
            minter_appr.pop(key, None)
        if kind == 'deployRemote' and ok and which == 'C19' and op['minter'] == its:
            fail('the service itself accepted as minter')
        # ---- asynchronous bookkeeping and custody of the service (C08, C17)
        if kind not in ASYNC_OPS and ok:
            n = res.get('npend', 0)
            for _ in range(n):
                pend_kind[next_id] = {'execute': 'transfer', 'registerMetadata': 'meta'}.get(kind, 'issue' if kind in ('deployToken', 'tm') else 'remote')
                if kind == 'execute' and not delta:
                    pend_kind[next_id] = 'issue'          # inbound deploy step 2: value forwarded to the manager
                held[next_id] = {t: d for t, d in delta.items() if d > 0} if pend_kind[next_id] != 'issue' else {}
                next_id += 1
            if n == 0 and delta and which in ('C17',):
                fail('a completed operation left value in the service: %s' % delta)
        if kind == 'deliver':
            if op['ok']:
                held[op['id']] = {}
        if kind == 'callback':
            pid = op['id']
            if ok: held.pop(pid, None)
            else:
                h = held.pop(pid, {})
                for t, v in h.items(): stranded[t] = stranded.get(t, 0) + v
                if which == 'C08' and any(h.values()):
                    cls = ['F-C08-1'] if res['msg'] == 'Flow limit exceeded' else []
                    fail('failure callback of a transfer-with-data failed (%s): %s left in the service, lock stays set' % (res['msg'], h), cls)
        if kind == 'props':
            pid = op['id']
            h = held.pop(pid, {})
            if not ok:
                for t, v in h.items(): stranded[t] = stranded.get(t, 0) + v
                if which == 'C17' and any(h.values()):
                    known = {('meta', 'Untrusted chain'): 'F-C17-1', ('remote', 'Contract is paused'): 'F-C17-2', ('remote', 'Untrusted chain'): 'F-C17-3',
                             ('remote', 'Cannot deploy remotely to self'): 'F-C17-4'}
                    c = known.get((op['kind'], res['msg']))
                    if c is None and op['kind'] == 'remote' and res['msg'] in ('Not native interchain token manager', 'Token address already exists',
                                                                                 'Can not send EGLD payment if not issuing ESDT', 'Not service or minter'):
                        c = 'F-C17-5'
                    fail('callback of the token-properties lookup failed (%s): %s left in the service' % (res['msg'], h), [c] if c else [])
        if kind == 'issue':
            held.pop(op['id'], None)
        # custody equation: the service holds exactly what live pending work accounts for (plus recorded strandings)
        if which in ('C08', 'C17'):
            want = dict(stranded)
            for h in held.values():
                for t, v in h.items(): want[t] = want.get(t, 0) + v
            for t in set(want) | set(bal):
                is_egld = (t == b'EGLD'.hex())
                if (which == 'C17') != is_egld and not (which == 'C08' and not is_egld):
                    continue
                if bal.get(t, 0) != want.get(t, 0):
                    fail('service balance of %s is %d, pending work accounts for %d' % (bytes.fromhex(t).decode('latin1'), bal.get(t, 0), want.get(t, 0)))
                    bal[t] = want.get(t, 0)     # report once
    return fails
