"""Governance-world traces (harness 'gov' mode) -> Coq case files."""
import os
from tmcases import H, ledger, is_event
import gwcases

FX = os.environ.get('VERIF_GOV_FX', 'true')

def cv(p):
    p = p or {}
    esdt = '; '.join('{| ep_token := %s; ep_nonce := %d; ep_amount := %s |}' % (H(t), n, v) for t, n, v in p.get('esdt', []))
    return '{| cv_egld := %s; cv_esdt := [%s] |}' % (p.get('egld', '0'), esdt)

def ctx(op, i):
    return '{| x_self := %s; x_caller := %s; x_now := %d; x_value := %s |}' % (H(i['gov']), H(op['caller']), op['now'], cv(op.get('pay')))

def vop(op, i):
    k = op['op']
    if k == 'gwApprove':
        return '(VGateway %s)' % gwcases.gop({'op': 'approve', 'caller': op['caller'], 'now': op['now'], 'messages': op['messages'], 'proof': op['proof']}, i['owner'])
    if k == 'gwValidate':      # somebody calls the gateway's validateMessage directly
        return '(VGateway %s)' % gwcases.gop({'op': 'validate', 'caller': op['caller'], 'now': op['now'], 'chain': op['chain'], 'id': op['id'], 'src': op['src'], 'ph': op['ph']}, i['owner'])
    if k == 'deliver':
        return '(VDeliver %s %d %s [%s])' % (H(i['gov']), op['id'], 'true' if op['ok'] else 'false', '; '.join(H(x) for x in op['rets']))
    if k == 'callback':
        return '(VCallback %s %d)' % (H(i['gov']), op['id'])
    c = ctx(op, i)
    if k == 'execute':
        return '(VExecute %s %s %s %s %s)' % (c, H(op['chain']), H(op['id']), H(op['src']), H(op['payload']))
    if k == 'execProposal':
        return '(VExecProposal %s %s %s %s)' % (c, H(op['target']), H(op['call_data']), op['value'])
    if k == 'execOperator':
        return '(VExecOperator %s %s %s %s)' % (c, H(op['target']), H(op['call_data']), op['value'])
    if k == 'withdraw':
        return '(VWithdraw %s %s %s)' % (c, H(op['recipient']), op['amount'])
    if k == 'transferOp':
        return '(VTransferOp %s %s)' % (c, H(op['a']))
    if k == 'upgrade':
        # an upgrade transaction carrying an argument: `upgrade` takes none, the framework refuses the call.  The model has no such call
        # shape; it is represented by a call the model refuses as well (a payment attached to the non-payable withdrawRefundToken).
        c = c.replace('x_value := {| cv_egld := 0;', 'x_value := {| cv_egld := 1;')
        return '(VWithdrawRefund %s %s 0)' % (c, H(b'EGLD'.hex()))
    if k == 'withdrawRefund':
        if op.get('repeat'):
            # called with the argument given twice: the framework refuses the call (wrong number of arguments).  The model has no such
            # call shape; it is represented by a call the model refuses as well (a payment attached to this non-payable endpoint).
            c = c.replace('x_value := {| cv_egld := 0;', 'x_value := {| cv_egld := 1;')
        return '(VWithdrawRefund %s %s %d)' % (c, H(op['token']), op['nonce'])
    raise ValueError(k)

ERR_EVENTS = {b'execute_proposal_error_event'.hex(), b'operator_execute_proposal_error_event'.hex()}

def norm_log(l):
    t = l['t']; d = ''.join(l['d'])
    if t and t[0] in ERR_EVENTS:       # VM-specific error code / message are not compared
        t = t[:2]; d = ''
    return '{| lg_addr := %s; lg_topics := [%s]; lg_data := %s |}' % (H(l['a']), '; '.join(H(x) for x in t), H(d))

def expect(res, i):
    logs = '; '.join(norm_log(l) for l in res['logs'] if l['a'] in (i['gov'], i['gw']) and is_event(l))
    sdg = [(k, v) for a, k, v in res['sd'] if a == i['gov']]
    sdw = [(k, v) for a, k, v in res['sd'] if a == i['gw']]
    f = lambda sd: '; '.join('(%s, %s)' % (H(k), H(v)) for k, v in sd)
    return '{| vx_ok := %s; vx_rets := [%s]; vx_logs := [%s]; vx_sd_gov := [%s]; vx_sd_gw := [%s]; vx_bd := [%s] |}' % (
        'true' if res['ok'] else 'false', '; '.join(H(r) for r in res['rets']), logs, f(sdg), f(sdw),
        '; '.join('(%s, %s, %s)' % (H(a), H(t), v) for a, t, v in res['bd']))

def trace_term(j):
    i = j['init']
    tab = '[%s]' % '; '.join('(%s, %s, %s)' % (H(a), H(b), H(c)) for a, b, c in j['sigtab'])
    st = '[%s]' % ';\n   '.join('(%s, %s)' % (vop(s['op'], i), expect(s['res'], i)) for s in j['steps'])
    return '(vcheck_trace %s %s [%s] %s %d %d %s %d %s [%s] %s %s %s %d %s\n  %s)' % (
        tab, FX, '; '.join(H(a) for a in i['tracked']), ledger(i['funds']), i['gwnow'], i['retention'], H(i['domain']), i['gwdelay'], H(i['gwop']),
        '; '.join(H(s) for s in i['signers']), H(i['gw']), H(i['chain']), H(i['gaddr']), i['min_delay'], H(i['operator']), st)

HEADER = ('From Coq Require Import String List NArith.\n'
          'From Ax Require Import Lib.Bytes Lib.Mvx Lib.Keccak Model.Check Model.Env Model.Gateway Model.GatewayCheck Model.Governance Model.GovCheck.\n'
          'Import ListNotations.\nOpen Scope N_scope.\nSet Printing Width 1000000.\nSet Printing Depth 10000000.\n')

def write_case_file(path, traces):
    with open(path, 'w') as fh:
        fh.write(HEADER)
        for n, j in enumerate(traces):
            fh.write('Definition t%d : list N := %s.\n' % (n, trace_term(j)))
        fh.write('Eval vm_compute in [%s].\n' % '; '.join('t%d' % n for n in range(len(traces))))
