#!/usr/bin/env python3
"""store a confirmed seeded change from /tmp/seed_<ID>[suffix] under /verif/seeded/<name>/ :
patch.diff, demo/, meta.json (agent's description + what was run here to confirm it and what our checks reported).
usage: store_seed.py <ID> <name> "<caught_by text>" [check-log paths...]"""
import json, os, shutil, sys, re
sid, name, caught = sys.argv[1], sys.argv[2], sys.argv[3]
W = '/tmp/seed_' + sid
D = '/verif/seeded/' + name
os.makedirs(D, exist_ok=True)
shutil.copy(W + '/patch.diff', D + '/patch.diff')
if os.path.isdir(D + '/demo'): shutil.rmtree(D + '/demo')
shutil.copytree(W + '/demo', D + '/demo')
meta = json.load(open(W + '/meta.json'))
def rd(p):
    try: return open(p).read()
    except Exception: return ''
suite = [l for l in rd('/tmp/seed_%s_suite.log' % sid).splitlines()]
checks = {}
for f in sorted(os.listdir('/tmp')):
    m = re.match(r'seed_%s_check_(C\d\d)\.log$' % sid, f)
    if m:
        lines = [l for l in rd('/tmp/' + f).splitlines() if l.startswith(('VIOLATION', 'OK ', 'KNOWN-FINDING'))]
        checks[m.group(1)] = lines
meta['confirmed'] = {
    'ran': ['git apply patch.diff in a scratch worktree of /repo at HEAD',
            meta.get('demo_cmd', '') + '  (exit != 0 with the patch, exit 0 without it)',
            'cargo test --workspace --no-fail-fast --offline  (the pinned 32 tests; all pass with the patch)',
            'VERIF_REPO=<worktree> ./vcheck check <property>'],
    'demo_with_patch_tail': rd('/tmp/seed_%s_with.log' % sid).splitlines()[-6:],
    'suite_with_patch': suite,
    'vcheck': checks,
    'caught_by': caught,
}
json.dump(meta, open(D + '/meta.json', 'w'), indent=1)
print('stored', D)
