#!/usr/bin/env python3
"""Regenerate coq/Gen/Generated.v from the Rust sources of the repository.

Regex translator for constants and tables (not for control flow).  Fails loudly
(exit 3, message on stderr) when a source construct it relies on cannot be
found, which the orchestrator treats as a broken tie, never as a pass.
usage: gen_tables.py <repo> <out.v>
"""
import re, sys, os

class GenError(Exception):
    pass

def read(repo, rel):
    p = os.path.join(repo, rel)
    if not os.path.exists(p):
        raise GenError(f"missing source file {rel}")
    return open(p).read()

def need(m, what):
    if not m:
        raise GenError(f"cannot find {what}")
    return m

def coq_str(b: bytes) -> str:
    # Coq string literal of hex digits (decoded by Bytes.unhex)
    return '(unhex "%s")' % b.hex()

def rust_bytes_literal(s: str) -> bytes:
    # handles \x19 \n \\ and plain ascii
    out = bytearray(); i = 0
    while i < len(s):
        c = s[i]
        if c == '\\':
            n = s[i+1]
            if n == 'x':
                out.append(int(s[i+2:i+4], 16)); i += 4
            elif n == 'n':
                out.append(10); i += 2
            elif n == '\\':
                out.append(92); i += 2
            elif n == '"':
                out.append(34); i += 2
            elif n == '0':
                out.append(0); i += 2
            else:
                raise GenError(f"unknown escape \\{n}")
        else:
            out.append(ord(c)); i += 1
    return bytes(out)

KINDMAP = {'Uint256': 'PUint', 'Bytes32': 'PBytes32', 'Bytes': 'PBytes', 'String': 'PString', 'Uint8': 'PUint8'}

def gen_abi_types(repo, out):
    src = read(repo, 'interchain-token-service/src/abi_types.rs')
    structs = ['InterchainTransferPayload', 'DeployInterchainTokenPayload', 'SendToHubPayload',
               'RegisterTokenMetadataPayload', 'LinkTokenPayload']
    for st in structs:
        m = need(re.search(r'impl<M: ManagedTypeApi> AbiEncodeDecode<M> for %s<M> \{(.*?)\n\}\n' % st, src, re.S), f'impl AbiEncodeDecode for {st}')
        body = m.group(1)
        enc = need(re.search(r'fn abi_encode\(self\).*?raw_abi_encode\(&\[(.*?)\]\)', body, re.S), f'{st}::abi_encode token list').group(1)
        enc_toks = re.findall(r'Token::(\w+)\(\s*self\.(\w+)', enc)
        if not enc_toks:
            raise GenError(f'{st}: no tokens in abi_encode')
        dec = need(re.search(r'fn abi_decode\(.*?raw_abi_decode\(\s*&\[(.*?)\],', body, re.S), f'{st}::abi_decode type list').group(1)
        dec_types = re.findall(r'ParamType::(\w+)', dec)
        init_off = need(re.search(r'&mut result,\s*(\d+),?\s*\)', body), f'{st} initial offset').group(1)
        pops = re.findall(r'let (\w+) = result\.pop\(\)\.unwrap\(\)\.(into_\w+)\(\)', body)
        # struct declaration order
        decl = need(re.search(r'pub struct %s<M: ManagedTypeApi> \{(.*?)\}' % st, src, re.S), f'struct {st}').group(1)
        fields = re.findall(r'pub (\w+):', decl)
        out.append(f'Definition gen_{st}_enc : list ptype := [{"; ".join(KINDMAP[k] for k, _ in enc_toks)}].')
        out.append(f'Definition gen_{st}_enc_fields : list string := [{"; ".join(chr(34)+f+chr(34) for _, f in enc_toks)}]%string.')
        out.append(f'Definition gen_{st}_dec : list ptype := [{"; ".join(KINDMAP[k] for k in dec_types)}].')
        out.append(f'Definition gen_{st}_dec_offset : N := {init_off}.')
        out.append(f'Definition gen_{st}_pops : list string := [{"; ".join(chr(34)+f+chr(34) for f, _ in pops)}]%string.')
        out.append(f'Definition gen_{st}_pop_conv : list string := [{"; ".join(chr(34)+c+chr(34) for _, c in pops)}]%string.')
        out.append(f'Definition gen_{st}_fields : list string := [{"; ".join(chr(34)+f+chr(34) for f in fields)}]%string.')
    # ABI primitives: constants that appear in abi.rs
    abi = read(repo, 'interchain-token-service/src/abi.rs')
    m = need(re.search(r'fn pad_bytes_len\(bytes: &ManagedBuffer<M>\) -> u32 \{.*?\(\(bytes\.len\(\) \+ (\d+)\) / (\d+)\) as u32 \+ (\d+)', abi, re.S), 'pad_bytes_len formula')
    out.append(f'Definition gen_pad_bytes_len_consts : list N := [{m.group(1)}; {m.group(2)}; {m.group(3)}].')
    m = need(re.search(r'fn take_usize\(slice: &Word\) -> usize \{\s*if !slice\[\.\.(\d+)\]', abi), 'take_usize zero-prefix width')
    out.append(f'Definition gen_take_usize_prefix : N := {m.group(1)}.')
    m = need(re.search(r'fn take_u8\(slice: &Word\) -> u8 \{\s*if !slice\[\.\.(\d+)\]', abi), 'take_u8 zero-prefix width')
    out.append(f'Definition gen_take_u8_prefix : N := {m.group(1)}.')
    m = need(re.search(r'padded\[(\d+)\.\.(\d+)\]\.copy_from_slice\(&value\.to_be_bytes\(\)\)', abi), 'pad_u32 placement')
    out.append(f'Definition gen_pad_u32_range : list N := [{m.group(1)}; {m.group(2)}].')
    # TokenManagerType <-> u8
    tmc = read(repo, 'token-manager/src/constants.rs')
    enum = need(re.search(r'pub enum TokenManagerType \{(.*?)\}', tmc, re.S), 'enum TokenManagerType').group(1)
    variants = re.findall(r'^\s*(\w+),', enum, re.M)
    from_u8 = need(re.search(r'impl From<u8> for TokenManagerType \{(.*?)\n\}', tmc, re.S), 'From<u8> for TokenManagerType').group(1)
    f1 = re.findall(r'(\d+) => TokenManagerType::(\w+)', from_u8)
    to_u8 = need(re.search(r'impl From<TokenManagerType> for u8 \{(.*?)\n\}', tmc, re.S), 'From<TokenManagerType> for u8').group(1)
    f2 = re.findall(r'TokenManagerType::(\w+) => (\d+)', to_u8)
    out.append(f'Definition gen_tm_variants : list string := [{"; ".join(chr(34)+v+chr(34) for v in variants)}]%string.')
    out.append(f'Definition gen_tm_from_u8 : list (N * string) := [{"; ".join("(%s, %s)" % (n, chr(34)+v+chr(34)) for n, v in f1)}]%string.')
    out.append(f'Definition gen_tm_to_u8 : list (string * N) := [{"; ".join("(%s, %s)" % (chr(34)+v+chr(34), n) for v, n in f2)}]%string.')

def main():
    repo, outp = sys.argv[1], sys.argv[2]
    out = ['(* GENERATED by tools/gen_tables.py from the Rust sources -- do not edit *)',
           'From Coq Require Import String List NArith.',
           'From Ax Require Import Lib.Bytes Lib.SolAbi Model.ItsPayloads.',
           'Import ListNotations.', 'Open Scope N_scope.', '']
    try:
        gen_abi_types(repo, out)
        for fn in EXTRA:
            fn(repo, out)
    except GenError as e:
        sys.stderr.write(f'gen_tables: {e}\n')
        sys.exit(3)
    text = '\n'.join(out) + '\n'
    old = open(outp).read() if os.path.exists(outp) else None
    if old != text:
        os.makedirs(os.path.dirname(outp), exist_ok=True)
        open(outp, 'w').write(text)

def gen_vectors(repo, out):
    # the struct-level decode vectors of the repository's own test-suite (produced by Solidity tooling)
    src = read(repo, 'interchain-token-service/tests/its_abi_decode_test.rs')
    found = re.findall(r'(\w+)::<StaticApi>::abi_decode\(ManagedBuffer::from\(&hex!\(\s*"(.*?)"', src, re.S)
    kinds = {'InterchainTransferPayload': 'KTransfer', 'DeployInterchainTokenPayload': 'KDeploy', 'SendToHubPayload': 'KHub',
             'RegisterTokenMetadataPayload': 'KMeta', 'LinkTokenPayload': 'KLink'}
    items = []
    for st, hx in found:
        if st in kinds:
            items.append('(%s, unhex "%s")' % (kinds[st], re.sub(r'\s+', '', hx)))
    out.append('Definition gen_struct_vectors : list (pkind * bytes) := [%s].' % ';\n  '.join(items))

def enum_variants(src, name):
    body = need(re.search(r'pub enum %s(?:<[^>]*>)? \{(.*?)\n\}' % name, src, re.S), f'enum {name}').group(1)
    body = re.sub(r'//.*', '', body)
    body = re.sub(r'#\[[^\]]*\]', '', body)
    return [v for v in re.findall(r'^\s*(\w+)\s*(?:\([^)]*\))?\s*,', body, re.M)]

def storage_mappers(src):
    return re.findall(r'#\[storage_mapper\("(\w+)"\)\]', src)

def events(src):
    return re.findall(r'#\[event\("(\w+)"\)\]', src)

def strlist(xs):
    return '[%s]%%string' % '; '.join('"%s"' % x for x in xs)

def gen_gateway(repo, out):
    c = read(repo, 'gateway/src/constants.rs')
    m = need(re.search(r'pub const MULTIVERSX_SIGNED_MESSAGE_PREFIX: &\[u8; (\d+)\] = b"(.*?)";', c), 'MULTIVERSX_SIGNED_MESSAGE_PREFIX')
    pre = rust_bytes_literal(m.group(2))
    if len(pre) != int(m.group(1)):
        raise GenError('prefix length mismatch')
    out.append('Definition gen_gw_signed_prefix : bytes := %s.' % coq_str(pre))
    out.append('Definition gen_gw_command_types : list string := %s.' % strlist(enum_variants(c, 'CommandType')))
    m = need(re.search(r'const MESSAGE_EXECUTED: &\[u8; 1\] = b"(.*?)";', c), 'MESSAGE_EXECUTED')
    out.append('Definition gen_gw_message_executed : bytes := %s.' % coq_str(rust_bytes_literal(m.group(1))))
    out.append('Definition gen_gw_message_states : list string := %s.' % strlist(enum_variants(c, 'MessageState')))
    # field order of the hashed / decoded structs
    for st in ['Message', 'WeightedSigner', 'WeightedSigners', 'Proof', 'CrossChainId']:
        body = need(re.search(r'pub struct %s<M: ManagedTypeApi> \{(.*?)\}' % st, c, re.S), f'struct {st}').group(1)
        out.append('Definition gen_gw_%s_fields : list string := %s.' % (st, strlist(re.findall(r'pub (\w+):', body))))
    srcs = ''.join(read(repo, 'gateway/src/%s.rs' % f) for f in ['lib', 'auth', 'operator'])
    out.append('Definition gen_gw_storage : list string := %s.' % strlist(sorted(set(storage_mappers(srcs)))))
    out.append('Definition gen_gw_events : list string := %s.' % strlist(events(read(repo, 'gateway/src/events.rs'))))

def const_expr(e):
    e = e.strip().replace('_', '')
    if not re.fullmatch(r'[0-9a-fxb*+\s()]+', e):
        raise GenError(f'unsupported constant expression {e!r}')
    return int(eval(e, {'__builtins__': {}}))

def gen_token_manager(repo, out):
    fl = read(repo, 'token-manager/src/flow_limit.rs')
    m = need(re.search(r'const EPOCH_TIME: u64 = ([^;]+);', fl), 'EPOCH_TIME')
    out.append('Definition gen_tm_epoch_time : N := %d.' % const_expr(m.group(1)))
    m = need(re.search(r'let epoch = self\.blockchain\(\)\.get_block_timestamp\(\) / EPOCH_TIME;', fl), 'epoch = timestamp / EPOCH_TIME')
    m = need(re.search(r'require!\(\s*&flow_to_add \+ flow_amount <= &flow_to_compare \+ &flow_limit\s*&& flow_amount <= &flow_limit,', fl), 'add_flow acceptance condition')
    roles = read(repo, 'modules/operatable/src/roles.rs')
    bits = re.findall(r'const (\w+) = (0b[01]+);', roles)
    if not bits:
        raise GenError('no role bits')
    out.append('Definition gen_role_bits : list (string * N) := [%s]%%string.' % '; '.join('("%s", %d)' % (n, int(v, 2)) for n, v in bits))
    c = read(repo, 'token-manager/src/constants.rs')
    m = need(re.search(r'pub const DEFAULT_ESDT_ISSUE_COST: u64 = ([0-9_]+);', c), 'DEFAULT_ESDT_ISSUE_COST')
    out.append('Definition gen_tm_issue_cost : N := %d.' % const_expr(m.group(1)))
    srcs = ''.join(read(repo, f) for f in ['token-manager/src/lib.rs', 'token-manager/src/flow_limit.rs', 'token-manager/src/mintership.rs',
                                           'modules/operatable/src/roles.rs', 'modules/operatable/src/operatable.rs'])
    out.append('Definition gen_tm_storage : list string := %s.' % strlist(sorted(set(storage_mappers(srcs)))))
    out.append('Definition gen_tm_events : list string := %s.' % strlist(sorted(set(events(srcs)))))
    out.append('Definition gen_tm_endpoints : list string := %s.' % strlist(sorted(set(re.findall(r'#\[endpoint\((\w+)\)\]', srcs)) | set(re.findall(r'#\[endpoint\]\s*fn (\w+)', srcs)))))

def endpoint_table(src):
    """(endpoint name, payable annotation or "", only_owner) for each #[endpoint] / #[view] of a source text"""
    out = []
    for m in re.finditer(r'((?:\s*#\[[^\]]*\]\s*\n)+)\s*fn (\w+)', src):
        attrs, fn = m.group(1), m.group(2)
        ep = re.search(r'#\[(?:endpoint|view)(?:\((\w+)\))?\]', attrs)
        if not ep:
            continue
        name = ep.group(1) or fn
        pay = re.search(r'#\[payable\("([^"]*)"\)\]', attrs)
        out.append((name, pay.group(1) if pay else '', 'only_owner' in attrs, 'view' in ep.group(0)))
    return out

def gen_gas_service(repo, out):
    lib = read(repo, 'gas-service/src/lib.rs')
    eps = [e for e in endpoint_table(lib) if not e[3]]
    out.append('Definition gen_gas_endpoints : list (string * string) := [%s]%%string.' % '; '.join('("%s", "%s")' % (n, p) for n, p, _, _ in eps))
    out.append('Definition gen_gas_events : list string := %s.' % strlist(events(read(repo, 'gas-service/src/events.rs'))))
    out.append('Definition gen_gas_storage : list string := %s.' % strlist(storage_mappers(lib)))
    ev = read(repo, 'gas-service/src/events.rs')
    for st in ['GasPaidForContractCallData', 'NativeGasPaidForContractCallData', 'AddGasData', 'AddNativeGasData', 'RefundedData']:
        body = need(re.search(r'pub struct %s<M: ManagedTypeApi> \{(.*?)\}' % st, ev, re.S), f'struct {st}').group(1)
        out.append('Definition gen_gas_%s_fields : list string := %s.' % (st, strlist(re.findall(r'pub (\w+):', body))))
    n = len(re.findall(r'require!\((?:gas_fee_amount|value) > 0, "Nothing received"\)', lib))
    out.append('Definition gen_gas_nonzero_checks : N := %d.' % n)

def gen_governance(repo, out):
    lib = read(repo, 'governance/src/lib.rs')
    out.append('Definition gen_gov_commands : list string := %s.' % strlist(enum_variants(lib, 'ServiceGovernanceCommand')))
    for st in ['DecodedCallData', 'ExecutePayload', 'EgldOrEsdtToken']:
        body = need(re.search(r'pub struct %s<M: ManagedTypeApi> \{(.*?)\}' % st, lib, re.S), f'struct {st}').group(1)
        out.append('Definition gen_gov_%s_fields : list string := %s.' % (st, strlist(re.findall(r'pub (\w+):', body))))
    for c in ['EXECUTE_PROPOSAL_CALLBACK_GAS', 'EXECUTE_PROPOSAL_CALLBACK_GAS_PER_PAYMENT', 'KEEP_EXTRA_GAS']:
        m = need(re.search(r'const %s: u64 = ([0-9_]+);' % c, lib), c)
        out.append('Definition gen_gov_%s : N := %d.' % (c, const_expr(m.group(1))))
    eps = [e for e in endpoint_table(lib) if not e[3]]
    out.append('Definition gen_gov_endpoints : list (string * string) := [%s]%%string.' % '; '.join('("%s", "%s")' % (n, p) for n, p, _, _ in eps))
    out.append('Definition gen_gov_storage : list string := %s.' % strlist(storage_mappers(lib)))
    out.append('Definition gen_gov_events : list string := %s.' % strlist(events(read(repo, 'governance/src/events.rs'))))
    # proposal hash = keccak(target ++ call_data ++ native_value), nested encodings, in this order
    m = need(re.search(r'fn get_proposal_hash\(.*?\{(.*?)self\.crypto\(\)\.keccak256\(encoded\)', lib, re.S), 'get_proposal_hash').group(1)
    out.append('Definition gen_gov_proposal_hash_order : list string := %s.' % strlist(re.findall(r'(\w+)\s*\.dep_encode', m)))

def gen_its(repo, out):
    c = read(repo, 'interchain-token-service/src/constants.rs')
    for name in ['MESSAGE_TYPE_INTERCHAIN_TRANSFER', 'MESSAGE_TYPE_DEPLOY_INTERCHAIN_TOKEN', 'MESSAGE_TYPE_SEND_TO_HUB', 'MESSAGE_TYPE_RECEIVE_FROM_HUB',
                 'MESSAGE_TYPE_LINK_TOKEN', 'MESSAGE_TYPE_REGISTER_TOKEN_METADATA']:
        m = need(re.search(r'pub const %s: u64 = (\d+);' % name, c), name)
        out.append('Definition gen_its_%s : N := %s.' % (name, m.group(1)))
    for name in ['PREFIX_INTERCHAIN_TOKEN_ID', 'ITS_HUB_CHAIN_NAME', 'ITS_HUB_ROUTING_IDENTIFIER', 'PREFIX_CANONICAL_TOKEN_SALT', 'PREFIX_INTERCHAIN_TOKEN_SALT',
                 'PREFIX_DEPLOY_APPROVAL', 'PREFIX_CUSTOM_TOKEN_SALT']:
        m = need(re.search(r'pub const %s: &\[u8\] = b"(.*?)";' % name, c), name)
        out.append('Definition gen_its_%s : bytes := %s.' % (name, coq_str(rust_bytes_literal(m.group(1)))))
    m = need(re.search(r'pub const ESDT_EGLD_IDENTIFIER: &str = "(.*?)";', c), 'ESDT_EGLD_IDENTIFIER')
    out.append('Definition gen_its_ESDT_EGLD_IDENTIFIER : bytes := %s.' % coq_str(m.group(1).encode()))
    m = need(re.search(r'pub const LATEST_METADATA_VERSION: u32 = (\d+);', c), 'LATEST_METADATA_VERSION')
    out.append('Definition gen_its_LATEST_METADATA_VERSION : N := %s.' % m.group(1))
    body = need(re.search(r'pub struct DeployApproval<M: ManagedTypeApi> \{(.*?)\}', c, re.S), 'struct DeployApproval').group(1)
    out.append('Definition gen_its_DeployApproval_fields : list string := %s.' % strlist(re.findall(r'pub (\w+):', body)))
    files = ['lib', 'user_functions', 'factory', 'address_tracker', 'proxy_its', 'proxy_gmp', 'executable', 'remote']
    srcs = {f: read(repo, 'interchain-token-service/src/%s.rs' % f) for f in files}
    # the proxy of the DESTINATION contract is not an endpoint of the service
    srcs['proxy_its'] = re.sub(r'pub mod executable_contract_proxy \{.*?\n\}\n', '', srcs['proxy_its'], flags=re.S)
    eps = []
    for f in files:
        eps += [(n, p, o) for n, p, o, v in endpoint_table(srcs[f]) if not v]
    out.append('Definition gen_its_endpoints : list (string * string * bool) := [%s]%%string.' % '; '.join('("%s", "%s", %s)' % (n, p, 'true' if o else 'false') for n, p, o in eps))
    out.append('Definition gen_its_storage : list string := %s.' % strlist(sorted(set(sum((storage_mappers(srcs[f]) for f in files), [])))))
    # which user-facing functions call require_not_paused directly (function name -> yes)
    gated = []
    for f in files:
        for m in re.finditer(r'fn (\w+)\((?:[^{]|\n)*?\{((?:.|\n)*?)\n    \}', srcs[f]):
            if 'self.require_not_paused()' in m.group(2):
                gated.append(m.group(1))
    out.append('Definition gen_its_pause_gated_fns : list string := %s.' % strlist(sorted(set(gated))))

EXTRA = [gen_vectors, gen_gateway, gen_token_manager, gen_gas_service, gen_governance, gen_its]

if __name__ == '__main__':
    main()
