"""Per-property check logic (imported by /verif/vcheck)."""
import os, json, time, re, hashlib, collections, sys

CHECKS = {}


def register(cid, **kw):
    CHECKS[cid] = kw


# ------------------------------------------------------------------ generic driver

def run_check(ctx, cid, tier, seed, t0):
    spec = CHECKS[cid]
    problems = []
    # regenerating the tables from the tree under test, building the property's cone against them and reading Print Assumptions is ONE
    # critical section: a concurrent check of another tree (VERIF_REPO) regenerates Gen/Generated.v from that tree
    with ctx.Lock('coq'):
        ok, msg = ctx.regen()
        if not ok:
            problems.append({'kind': 'translator', 'detail': msg})
        bad = ctx.lint()
        if bad:
            problems.append({'kind': 'lint', 'detail': bad[:20]})
        pr = ctx.check_props(cid)
    if not pr['built']:
        problems.append({'kind': 'proof-obligation', 'detail': 'Coq build of the cone of %s failed at %s' % (pr['file'], pr.get('failed_at')),
                         'log': pr.get('log', '')[-1500:]})
    elif not pr.get('axioms_ok', False):
        problems.append({'kind': 'assumptions', 'detail': 'Print Assumptions not closed / not allow-listed: %s' % pr.get('axioms')})
    chk = None
    if tier == 'thorough' and pr['built']:
        ok_chk, chk = ctx.coqchk(cid)
        if not ok_chk:
            problems.append({'kind': 'coqchk', 'detail': 'coqchk -o does not report a clean context: %s' % chk})
    hok, hout = ctx.harness_build()
    corr = None
    if not hok:
        problems.append({'kind': 'harness-build', 'detail': 'harness does not build against the repository', 'log': hout[-2000:]})
    else:
        try:
            corr = spec['corr'](ctx, cid, tier, seed)
        except Exception as e:   # a crash of the machinery is a broken tie, never a pass
            import traceback
            problems.append({'kind': 'correspondence-crash', 'detail': repr(e), 'log': traceback.format_exc()[-2000:]})
    if corr and corr.get('problems'):
        problems += corr['problems']
    monitor_fail = corr['monitor_failures'] if corr else []
    mism = corr['corr_mismatches'] if corr else []
    if mism:
        problems.append({'kind': 'correspondence', 'detail': '%d case(s) where the Coq model and the implementation differ' % len(mism),
                         'first': mism[0]})
    known = ctx.known_findings(cid)
    unknown_fail = []
    known_hit = {}
    for mf in monitor_fail:
        k = next((k for k in known if k['id'] in mf.get('known_classes', [])), None)
        if k:
            known_hit.setdefault(k['id'], k)
        else:
            unknown_fail.append(mf)
    obligations = len(pr['obligations'])
    discharged = obligations if pr['built'] and pr.get('axioms_ok', False) else 0
    cov = {
        'obligations': obligations,
        'discharged': discharged,
        'obligation_names': pr['obligations'],
        'pinned_statements': pr['pins'],
        'print_assumptions': {'closed_under_global_context': pr.get('print_assumptions_closed', 0), 'axioms': pr.get('axioms', [])},
        'checker_cmd': 'make -C coq Props/%s.vo (full .vo build of the cone, coq_makefile) && coqc -Q coq Ax coq/Props/%s.v' % (cid, cid),
        'trusted_base': ctx.TRUSTED_BASE + spec.get('trusted_extra', []),
        'problems': problems,
        'coqchk': chk if chk is not None else 'run in the thorough tier only',
    }
    if corr:
        cov['known_findings_listed'] = [k['id'] for k in known]
        cov['known_findings_reproduced'] = sorted(known_hit)
        for k in ('evaluations', 'distinct_nontrivial', 'rule', 'samples', 'traces_validated_against_impl', 'distribution'):
            if k in corr:
                cov[k] = corr[k]
    else:
        cov.update({'evaluations': 0, 'distinct_nontrivial': 0, 'rule': 'correspondence did not run', 'samples': ['none'],
                    'traces_validated_against_impl': 0})
    nviol = len(unknown_fail) + (1 if (problems and not unknown_fail) else 0)
    ctx.write_evidence(cid, tier, seed, t0, cov, nviol, spec.get('assumptions', []))
    for k in known:
        rep = 'reproduced in this run' if k['id'] in known_hit else 'not exercised by this run\'s traces'
        print('KNOWN-FINDING: property=%s %s: %s [%s]' % (cid, k['id'], k['what'], rep))
    if unknown_fail:
        rp = ctx.write_replay(cid, seed, {'property': cid, 'kind': 'failing-input', 'case': unknown_fail[0],
                                          'others': len(unknown_fail) - 1, 'problems': problems,
                                          'replay_cmd': './vcheck replay <this file>'})
        print('VIOLATION property=%s replay=%s' % (cid, rp))
        return 1
    if problems:
        rp = ctx.write_replay(cid, seed, {'property': cid, 'kind': 'broken-tie', 'broken': problems,
                                          'note': 'the property is no longer shown to hold; the search over %d generated cases found no input on which it fails'
                                                  % (corr['evaluations'] if corr else 0)})
        print('VIOLATION property=%s replay=%s no-failing-input-found' % (cid, rp))
        return 1
    print('OK property=%s tier=%s obligations=%d cases=%d' % (cid, tier, obligations, corr['evaluations'] if corr else 0))
    return 0


# ------------------------------------------------------------------ ABI codec (C06, C07)

def coq_tok(t):
    k, v = t
    if k == 'u':
        return '(TUint (be_dec (unhex "%s")))' % v
    if k == 'b32':
        return '(TBytes32 (unhex "%s"))' % v
    if k == 'b':
        return '(TBytes (unhex "%s"))' % v
    if k == 's':
        return '(TString (unhex "%s"))' % v
    return '(TUint8 %d)' % v


KIND = {'transfer': 'KTransfer', 'deploy': 'KDeploy', 'hub': 'KHub', 'meta': 'KMeta', 'link': 'KLink'}
SHAPE = {'u': 'PUint', '3': 'PBytes32', 'b': 'PBytes', 's': 'PString', '8': 'PUint8'}


def coq_kind(j):
    if j['ty'] == 'raw':
        if j['k'] == 'enc':
            return '(KRaw (map type_of %s))' % coq_toks(j['toks'])
        return '(KRaw [%s])' % '; '.join(SHAPE[c] for c in j['shape'])
    return KIND[j['ty']]


def coq_toks(ts):
    return '[%s]' % '; '.join(coq_tok(t) for t in ts)


def abi_case_term(j):
    if j['k'] == 'enc':
        out = 'None' if j['out'] is None else '(Some (unhex "%s"))' % j['out']
        return '(check_enc %s %s %s + 4 * (check_roundtrip %s %s %s / 2))' % (
            coq_kind(j), coq_toks(j['toks']), out, coq_kind(j), coq_toks(j['toks']), out)
    out = 'None' if j['out'] is None else '(Some %s)' % coq_toks(j['out'])
    return '(check_dec %s (unhex "%s") %s)' % (coq_kind(j), j['data'], out)


def abi_corr(which):
    def corr(ctx, cid, tier, seed):
        n = 3000 if tier == "quick" else 60000
        cases = []
        # corpus first
        cdir = os.path.join(ctx.ROOT, 'corpus', 'abi')
        if os.path.isdir(cdir):
            for fn in sorted(os.listdir(cdir)):
                rc, lines, err = ctx.run_harness(['abi-file', os.path.join(cdir, fn)])
                cases += [json.loads(l) for l in lines]
        ncorpus = len(cases)
        rc, lines, err = ctx.run_harness(['abi', seed, n])
        if rc != 0:
            raise RuntimeError('harness abi mode failed: ' + err[-500:])
        cases += [json.loads(l) for l in lines]
        if which == 'enc':
            sel = [c for c in cases if c['k'] == 'enc']
        else:
            sel = cases      # decode cases, plus round trip on what the implementation encoded
        # shard
        shards = max(1, -(-len(sel) // 250))       # at most 250 cases per file: a coqc evaluating thousands of payload terms needs many GB
        wd = os.path.join(ctx.BUILD, 'cases', '%s-%s-%d' % (cid, tier, os.getpid()))     # private to this run: concurrent checks of one property must not share files
        os.makedirs(wd, exist_ok=True)
        for f in os.listdir(wd):
            os.remove(os.path.join(wd, f))
        files = []
        parts = [sel[i::shards] for i in range(shards)]
        for i, part in enumerate(parts):
            f = os.path.join(wd, 'cases_%d.v' % i)
            with open(f, 'w') as fh:
                fh.write('From Coq Require Import String List NArith.\nFrom Ax Require Import Lib.Bytes Lib.SolAbi Model.ItsPayloads.\n'
                         'Import ListNotations.\nOpen Scope N_scope.\nSet Printing Width 1000000.\nSet Printing Depth 10000000.\n')
                fh.write('Definition results : list N := [\n%s].\n' % ';\n'.join(abi_case_term(c) for c in part))
                fh.write('Eval vm_compute in results.\n')
            files.append(f)
        outs = ctx.coq_eval_files(files)
        import shutil; shutil.rmtree(wd, ignore_errors=True)
        monitor_failures, corr_mismatches = [], []
        for i, f in enumerate(files):
            rc, out = outs[f]
            res = ctx.parse_N_list(out) if rc == 0 else None
            if res is None or len(res) != len(parts[i]):
                raise RuntimeError('cannot evaluate %s: %s' % (f, out[-800:]))
            for c, code in zip(parts[i], res):
                c = dict(c); c['code'] = code
                if which == 'enc':
                    if code & 2:
                        c['why'] = 'implementation output differs from the ABI specification encoder (enc_spec)'
                        monitor_failures.append(c)
                    elif code & 1:
                        corr_mismatches.append(c)
                else:
                    if c['k'] == 'dec':
                        if code & 2:
                            c['why'] = 'implementation decode result differs from the ABI layout decoder (dec_spec)'
                            monitor_failures.append(c)
                        elif code & 1:
                            corr_mismatches.append(c)
                    elif code & 4:
                        c['why'] = 'round trip: spec-decoding the implementation\'s encoding does not return the value'
                        monitor_failures.append(c)
        dist = collections.Counter()
        seen = set()
        nontrivial = 0
        for c in sel:
            acc = c['out'] is not None
            dist['%s/%s/%s/%s' % (c['k'], c['ty'], c.get('mut', '-'), 'accepted' if acc else 'rejected')] += 1
            key = hashlib.sha1(json.dumps([c['k'], c['ty'], c.get('toks'), c.get('data'), c.get('shape')]).encode()).hexdigest()
            if key in seen:
                continue
            seen.add(key)
            if c['k'] == 'enc':
                nt = (not acc) or any(t[0] in ('b', 's') and len(t[1]) > 0 for t in c['toks'])
            else:
                nt = len(c['data']) >= 64
            nontrivial += 1 if nt else 0
        samples = [{k: (v if not isinstance(v, str) or len(v) < 300 else v[:300] + '...') for k, v in c.items()} for c in sel[ncorpus:ncorpus + 3]]
        return {'evaluations': len(sel), 'distinct_nontrivial': nontrivial,
                'rule': 'cases generated by harness/src/abi_mode.rs from one PRNG (seed=VERIF_SEED): struct/raw encodes of random values with lengths '
                        'concentrated on 32-byte boundaries and integers around 2^255/2^256/2^300; decodes of canonical encodings mutated by truncation, extension, '
                        'aliasing, backward/into-head/near-end/huge offsets, dirty high bytes and padding, length tweaks, u8 edges, random bytes, cross-type bytes. '
                        'distinct = distinct inputs; non-trivial = encode with a non-empty dynamic field or a rejection / decode of >= 32 bytes',
                'samples': samples, 'traces_validated_against_impl': len(sel), 'distribution': dict(sorted(dist.items())),
                'monitor_failures': monitor_failures, 'corr_mismatches': corr_mismatches}
    return corr


C06_ASSUMPTIONS = dict(
         assumptions=['encodings below 2^32 bytes (u32 offset arithmetic of the implementation is modelled without wrap-around)',
                      'the Rust harness calls the crate\'s abi_encode/raw_abi_encode with StaticApi (native debug build)'])
C07_ASSUMPTIONS = dict(
         assumptions=['freedom from out-of-bounds reads of the implementation rests on the managed-buffer API (load_slice/copy_slice), exercised but not proved',
                      'usize is 64-bit in the harness build; offsets are below 2^32+32 so no wrap on wasm32 either'])
# (registered below, after the ITS world's rule text: the message-type word read by ITS execute is part of C07's observation points)


# ------------------------------------------------------------------ trace-based correspondence (contracts in the VM)

def combine(*corrs):
    """several correspondences decide one property: every part runs, the results are merged"""
    def corr(ctx, cid, tier, seed):
        rs, crashes = [], []
        for i, c in enumerate(corrs):
            try:
                rs.append(c(ctx, cid, tier, seed))
            except Exception as e:      # a part that cannot run is a broken tie of its own; the other parts still report their failing inputs
                import traceback
                crashes.append({'kind': 'correspondence-crash', 'detail': 'part %d: %r' % (i + 1, e), 'log': traceback.format_exc()[-1500:]})
        if not rs:
            raise RuntimeError('no part of the correspondence could run: %s' % crashes)
        dist = {}
        for i, r in enumerate(rs):
            for k, v in r.get('distribution', {}).items():
                dist['part%d/%s' % (i + 1, k)] = v
        return {'evaluations': sum(r['evaluations'] for r in rs), 'distinct_nontrivial': sum(r['distinct_nontrivial'] for r in rs),
                'rule': ' || '.join('part %d: %s' % (i + 1, r['rule']) for i, r in enumerate(rs)),
                'samples': [x for r in rs for x in r.get('samples', [])][:4],
                'traces_validated_against_impl': sum(r['traces_validated_against_impl'] for r in rs), 'distribution': dist,
                'monitor_failures': [x for r in rs for x in r['monitor_failures']], 'corr_mismatches': [x for r in rs for x in r['corr_mismatches']],
                'problems': crashes}
    return corr


def trace_corr(mode, module, ntraces, relevant, rule, nontrivial, corpus_dir=None, monitor=None, extra_args=()):
    """mode: harness mode; module: tools/<module>.py with write_case_file(path, traces);
    relevant(step_op, code) -> bool: is a mismatch with these bits inside the property's projection."""
    def corr(ctx, cid, tier, seed):
        import importlib
        mod = importlib.import_module(module)
        n = ntraces[0] if tier == 'quick' else ntraces[1]
        traces = []
        cdir = os.path.join(ctx.ROOT, 'corpus', corpus_dir or mode)
        if os.path.isdir(cdir):
            for fn in sorted(os.listdir(cdir)):
                rc, lines, err = ctx.run_harness([mode + '-file', os.path.join(cdir, fn)])
                traces += [json.loads(l) for l in lines]
        rc, lines, err = ctx.run_harness([mode, seed, n] + list(extra_args))
        if rc != 0:
            raise RuntimeError('harness %s mode failed: %s' % (mode, err[-500:]))
        traces += [json.loads(l) for l in lines]
        if hasattr(mod, 'prepare'):
            traces = [mod.prepare(t) for t in traces]
        shards = max(1, min(ctx.NPROC, len(traces)), -(-len(traces) // 60))   # at most 60 traces per file (memory)
        wd = os.path.join(ctx.BUILD, 'cases', '%s-%s-%d' % (cid, tier, os.getpid()))     # private to this run: concurrent checks of one property must not share files
        os.makedirs(wd, exist_ok=True)
        for f in os.listdir(wd):
            os.remove(os.path.join(wd, f))
        parts = [traces[i::shards] for i in range(shards)]
        files = []
        for i, part in enumerate(parts):
            f = os.path.join(wd, 'cases_%d.v' % i)
            mod.write_case_file(f, part)
            files.append(f)
        outs = ctx.coq_eval_files(files)
        import shutil; shutil.rmtree(wd, ignore_errors=True)
        monitor_failures, corr_mismatches, warnings = [], [], []
        nsteps = 0
        dist = collections.Counter()
        for i, f in enumerate(files):
            rc, out = outs[f]
            res = ctx.parse_N_lists(out) if rc == 0 else None
            if res is None or len(res) != len(parts[i]):
                raise RuntimeError('cannot evaluate %s: %s' % (f, out[-1500:]))
            for tr, codes in zip(parts[i], res):
                steps = [{'op': {'op': 'init', 'label': 'init'}, 'res': tr['init']['res']}] + tr['steps']
                if len(codes) < len(steps) and codes and codes[-1] != 0:
                    # the checker stops at a step after which the model has no state to continue from (e.g. the deployment
                    # succeeded in the implementation and is refused by the model): that step is the divergence
                    codes = codes + [0] * (len(steps) - len(codes))
                if len(codes) != len(steps):
                    raise RuntimeError('trace %s: %d codes for %d steps' % (tr.get('trace'), len(codes), len(steps)))
                nsteps += len(steps)
                first = True
                for k, (st, code) in enumerate(zip(steps, codes)):
                    dist['%s/%s' % (st['op']['op'], 'ok' if st['res']['ok'] else 'rejected')] += 1
                    if code and first:
                        item = {'trace': tr.get('trace'), 'step': k, 'code': code, 'op': st['op'], 'impl': st['res'],
                                'history': {'init': tr['init'], 'steps': tr['steps'][:k]},
                                'why': 'implementation deviates from the Coq model (for which the property is proved) at this step; '
                                       'code bits: 1 status, 2 return data, 4 events, 8 storage, 16 balances, 32 property monitor'}
                        if relevant(st['op'], code):
                            first = False
                            monitor_failures.append(item)
                        else:
                            warnings.append({'trace': tr.get('trace'), 'step': k, 'code': code, 'op': st['op']['op']})
                            # a deviation outside this property's projection that is confined to storage and events (no status, return data
                            # or balance difference) does not end the comparison: a later step of a relevant operation that
                            # behaves differently is still reported.  Any other deviation does end it (states may have parted for
                            # reasons that are not this property's concern; the property whose projection covers it reports it).
                            if code & ~12:      # anything beyond events (4) and storage (8): status, return data, balances, monitor
                                first = False
        # property monitors on the implementation's own observations (independent of the model's step function)
        if monitor:
            for tr in traces:
                for f in monitor(tr, cid):
                    monitor_failures.append({'trace': tr.get('trace'), 'step': f['step'], 'code': 32, 'op': f['op'], 'impl': f['impl'],
                                             'why': 'property monitor: ' + f['what'], 'known_classes': f['known_classes'],
                                             'history': {'init': tr['init'], 'steps': tr['steps'][:f['step']]}})
        seen = set(); nt = 0
        for tr in traces:
            key = hashlib.sha1(json.dumps(tr['steps'], sort_keys=True).encode()).hexdigest()
            if key in seen:
                continue
            seen.add(key)
            if nontrivial(tr):
                nt += 1
        sample = traces[0] if traces else {}
        samples = [{'init': {k: v for k, v in sample.get('init', {}).items() if k != 'res'},
                    'ops': [dict((k, (v if not isinstance(v, str) or len(v) < 120 else v[:120] + '...')) for k, v in s['op'].items()) | {'ok': s['res']['ok']}
                            for s in sample.get('steps', [])[:8]]}]
        return {'evaluations': nsteps, 'distinct_nontrivial': nt, 'rule': rule, 'samples': samples,
                'traces_validated_against_impl': len(traces), 'distribution': dict(sorted(dist.items())),
                'monitor_failures': monitor_failures, 'corr_mismatches': [], 'out_of_projection_mismatches': warnings[:20]}
    return corr


GW_RULE = ('histories generated by harness/src/gateway_mode.rs from one PRNG (seed=VERIF_SEED): deployments with retention 0-3, delay 0/10/100, '
           '1-5 signers from a pool of 8 real ed25519 keys (small/equal/huge weights); approvals, rotations, validations, operatorship transfers and views; '
           'proofs: minimal quorum, all sign, threshold-1, invalid signature before/after the quorum point, shifted/short/long/empty vector, wrong domain/tag/batch/set, '
           'non-canonical weights, trailing byte, wrong key; sets: latest, older, retention edge, expired, unregistered; time steps around the rotation delay; '
           'every eighth history (t % 8 == 3) also contains UPGRADE transactions by the owner (no-op, operator only, one / two fresh sets, a duplicate set, a malformed set, a 31-byte operator, zero-padded weights), compared with Model/GWUpgrade.v. '
           'Every step compares status, return data, events and the storage diff with the Coq model (keccak-256 executed in Coq, signature oracle = table of honestly produced signatures). '
           'distinct = distinct operation sequences; non-trivial = at least one accepted and one rejected state-changing operation')


def gw_nontrivial(tr):
    oks = [s['res']['ok'] for s in tr['steps'] if s['op']['op'] in ('approve', 'rotate', 'validate', 'transferOp')]
    return any(oks) and not all(oks)


register('C01', corr=trace_corr('gateway', 'gwcases', (48, 1600), lambda op, code: op['op'] in ('approve', 'rotate', 'init', 'upgrade') and code & 9, GW_RULE, gw_nontrivial),
         assumptions=['keccak-256 and ed25519 are outside the proofs: theorems hold for every hash and verifier function; collision-freedom appears only as explicit hypotheses of c01_digest_binding',
                      'u64 timestamps: block time monotone and below 2^64'])
register('C02', corr=trace_corr('gateway', 'gwcases', (48, 1600), lambda op, code: (op['op'] in ('approve', 'validate', 'isApproved', 'isExecuted') and code & 15) or (op['op'] == 'upgrade' and code & 9), GW_RULE, gw_nontrivial),
         assumptions=['collision-freedom only as the explicit hypothesis of c02_binding'])
register('C03', corr=trace_corr('gateway', 'gwcases', (48, 1600), lambda op, code: (op['op'] in ('rotate', 'transferOp', 'init', 'approve') and code & 9) or (op['op'] == 'upgrade' and code & 13), GW_RULE, gw_nontrivial),
         assumptions=['block time monotone (now >= last rotation timestamp) and below 2^64; the upgrade endpoint is modelled in Model/GWUpgrade.v (an upgrade transaction is the owner\'s by protocol rule: the harness sends it from the owner only)'])


TM_RULE = ('histories generated by harness/src/tm_mode.rs (seed=VERIF_SEED): a token manager of each of the five types deployed with a user account as its service; '
           'give/take with amounts around the limit (L-1, L, L+1, 1, random), right/wrong token, one/two payments, limit changes by limiters and strangers, time steps to and across '
           'six-hour epoch boundaries; all role endpoints by every caller class (service, operator, minter, flow limiter, stranger); direct mint/burn; deployInterchainToken with '
           'harness-scheduled issuance callbacks (success / failure). Every step compares status, return data, events, storage diff and balance diff with the Coq model. '
           'distinct = distinct operation sequences; non-trivial = at least one accepted and one rejected give/take/role operation')


def tm_nontrivial(tr):
    oks = [s['res']['ok'] for s in tr['steps']]
    return any(oks) and not all(oks)


# who holds the flow-limiter role is decided by the role operations: their acceptance and storage effect belong to C09's last sentence
TM_ROLE_OPS = ('addFL', 'removeFL', 'transferFL', 'transferOp', 'proposeOp', 'acceptOp', 'upgrade')
register('C09', corr=trace_corr('tm', 'tmcases', (60, 2000), lambda op, code: (op['op'] in ('give', 'take', 'setLimit', 'init') and code & 25) or (op['op'] in TM_ROLE_OPS and code & 9), TM_RULE, tm_nontrivial),
         assumptions=['block timestamp below 2^64; amounts are unbounded naturals (BigUint)'])
register('C10', corr=trace_corr('tm', 'tmcases', (60, 2000), lambda op, code: op['op'] != 'setLimit' and code & 31, TM_RULE, tm_nontrivial),
         assumptions=['the manager holds the ESDT local mint/burn roles of its token (granted by the harness as the token owner would)',
                      'unsolicited deposits into a manager are outside the model (managers are non-payable except through their own endpoints)',
                      'zero-amount giveToken is not generated (the debug VM rejects zero-value ESDT transfers from an account without that token)'])


GAS_RULE = ('histories generated by harness/src/gas_mode.rs (seed=VERIF_SEED): the eight payment endpoints with payments none / EGLD / one ESDT / two ESDTs / zero amount / wrong kind, '
            'collectFees with duplicate tokens and amounts 0, balance, balance+1, refund with amounts up to balance+1 and zero receiver, setGasCollector, by collector, owner and strangers. '
            'Every step compares status, events, storage diff and balance diff with the Coq model. distinct = distinct operation sequences; non-trivial = at least one accepted and one rejected operation')

register('C15', corr=trace_corr('gas', 'gascases', (60, 2000), lambda op, code: code & 29, GAS_RULE, tm_nontrivial),
         assumptions=['receivers are user accounts (a non-payable contract as receiver would make the transfer fail in the protocol)',
                      'zero-amount ESDT refunds are not generated'])


GOV_RULE = ('histories generated by harness/src/gov_mode.rs (seed=VERIF_SEED): gateway + governance; commands (schedule / cancel / approve / cancel-approval) approved at the real gateway '
            'with real ed25519 proofs and executed, including forged source chain / address, unapproved, replayed, tampered, zero-target, malformed payloads; executeProposal / '
            'executeOperatorProposal at times around the eta with payments none / EGLD / one / several ESDTs (repeated token); the dispatched call and its callback are separate '
            'harness-scheduled steps with other transactions (cancel, re-schedule, second execute, withdrawals) placed in both windows, both outcomes; every 8th trace is a directed '
            'cancel-while-in-flight schedule. Every step compares status, events, governance and gateway storage diffs and balance diffs with the Coq model; Python monitors restate '
            'C11/C12/C16 over the implementation observations. distinct = distinct operation sequences; non-trivial = at least one accepted dispatch and one rejected operation')


def gov_nontrivial(tr):
    disp = [s for s in tr['steps'] if s['op']['op'] in ('execProposal', 'execOperator') and s['res']['ok']]
    rej = [s for s in tr['steps'] if not s['res']['ok']]
    return bool(disp) and bool(rej)


def _govmon(tr, cid):
    import govmon
    return govmon.monitor(tr, cid)


register('C11', corr=trace_corr('gov', 'govcases', (48, 900), lambda op, code: (op['op'] in ('execute', 'execProposal', 'callback', 'gwApprove') and code & 9) or (op['op'] == 'deliver' and code & 25), GOV_RULE, gov_nontrivial, monitor=_govmon),
         assumptions=['callbacks run to completion (gas metering is not modelled)', 'now + minimum delay below 2^64 (u64 addition)',
                      'the external target contract is abstracted to an outcome (success with return data / failure)'])
register('C12', corr=trace_corr('gov', 'govcases', (48, 900), lambda op, code: (op['op'] in ('execute', 'execOperator', 'transferOp', 'withdraw', 'callback', 'gwApprove', 'gwValidate', 'upgrade') and code & 27) or (op['op'] == 'withdrawRefund' and code & 17), GOV_RULE, gov_nontrivial, monitor=_govmon),
         assumptions=['callbacks run to completion (gas metering is not modelled)', 'collision freedom of keccak only where C02 states it'])
register('C16', corr=trace_corr('gov', 'govcases', (48, 900), lambda op, code: op['op'] in ('callback', 'withdrawRefund', 'execProposal', 'execOperator') and code & 25, GOV_RULE, gov_nontrivial, monitor=_govmon),
         assumptions=['whether the contract still holds the credited funds when a proposal has meanwhile moved them is outside the property'])


ITS_RULE = ('histories generated by harness/src/its_mode.rs (seed=VERIF_SEED): gateway + gas service + ITS + token managers deployed from source; registrations (canonical, custom, '
            'local 3-step deployments with every minter / supply choice), outbound transfers over every payment shape / gas relation / metadata / destination (trusted, untrusted, '
            'hub-routed, hub chain, hub unset), inbound messages approved at the real gateway (transfers with and without data, deployments, links; wrapped / unwrapped / wrong source / '
            'tampered / unknown type), flow limits, pause, trusted-address changes, custom-minter approvals, remote deployments, metadata registration; all asynchronous work '
            '(transfer-with-data promises, ESDT property lookups, ESDT issuances) delivered by the harness in any order with either outcome and other transactions in between; every 10th '
            'traces are directed schedules of the recorded findings. Every step compares status, return data, gateway and gas-service events, storage diffs of the service, the gateway '
            'and every token manager, and balance diffs with the Coq model; Python monitors restate the properties over the implementation observations. '
            'distinct = distinct operation sequences; non-trivial = at least one accepted and one rejected ITS operation')


def its_nontrivial(tr):
    oks = [s['res']['ok'] for s in tr['steps'] if s['op']['op'] not in ('gwApprove', 'deliver', 'issue')]
    return any(oks) and not all(oks)


def _itsmon(tr, cid):
    import itsmon
    return itsmon.monitor(tr, cid)


def its_rel(ops, bits):
    return lambda op, code: (ops is None or op['op'] in ops) and code & bits


ITS_N = (50, 600)
register('C04', corr=trace_corr('its', 'itscases', ITS_N, its_rel({'execute', 'gwApprove', 'init'}, 27), ITS_RULE, its_nontrivial, monitor=_itsmon),
         assumptions=['ESDT-level transfer rules (frozen accounts, non-payable recipients) are outside the model', 'zero-amount inbound transfers are generated only for token ids nobody registered (refused before any transfer is attempted); the VM mock refuses zero-value ESDT transfers'])
register('C05', corr=trace_corr('its', 'itscases', ITS_N, its_rel({'transfer', 'callContract'}, 31), ITS_RULE, its_nontrivial, monitor=_itsmon),
         assumptions=['the EGLD-000000 multi-transfer representation of EGLD is modelled but not exercised by the harness; c05_service_balances_unchanged excludes it by hypothesis',
                      'c05_service_balances_unchanged: the service is not the caller, the token manager or the gas service'])
register('C08', corr=trace_corr('its', 'itscases', ITS_N, its_rel({'execute', 'deliver', 'callback'}, 27), ITS_RULE, its_nontrivial, monitor=_itsmon),
         assumptions=['callbacks run to completion as far as gas is concerned (gas is not modelled)', 'the destination contract is abstracted to an outcome'])
register('C13', corr=trace_corr('its', 'itscases', ITS_N, its_rel({'execute', 'transfer', 'callContract', 'setTrusted', 'removeTrusted', 'linkToken', 'deployRemote', 'deployRemoteCanonical', 'props'}, 13), ITS_RULE, its_nontrivial, monitor=_itsmon),
         assumptions=[])
register('C14', corr=trace_corr('its', 'itscases', ITS_N, its_rel({'registerCanonical', 'registerCustom', 'deployToken', 'execute', 'linkToken', 'deployRemote', 'deployRemoteCanonical', 'props', 'upgrade', 'view'}, 11), ITS_RULE, its_nontrivial, monitor=_itsmon),
         assumptions=['injectivity of the derivations is stated on preimages; at hash level it needs collision freedom of keccak-256'])
register('C17', corr=trace_corr('its', 'itscases', ITS_N, its_rel({'registerMetadata', 'deployRemote', 'deployRemoteCanonical', 'props', 'linkToken'}, 29), ITS_RULE, its_nontrivial, monitor=_itsmon),
         assumptions=['the ESDT system contract lookup is abstracted to its result (success with name/type/decimals, or error)',
                      'world-level custody theorems: address separation (the service is not the caller, the gas service, a token manager or the address of a new manager), no EGLD-000000 alias among the payments, an inbound transfer without data does not name the service as recipient, non-empty destination chain for the lookup callback of a remote deployment (the empty chain is finding F-C17-5)'])
register('C18', corr=trace_corr('its', 'itscases', ITS_N, its_rel({'deployToken', 'execute', 'issue', 'tm'}, 27), ITS_RULE, its_nontrivial, monitor=_itsmon),
         assumptions=['the ESDT issuance is abstracted to its result (token identifier or error); the issue cost is consumed on success'])
register('C19', corr=trace_corr('its', 'itscases', ITS_N, its_rel({'approveRemote', 'revokeRemote', 'deployRemote', 'tm'}, 11), ITS_RULE, its_nontrivial, monitor=_itsmon),
         assumptions=['approval keys: collision freedom of keccak-256 is needed to go from preimages to keys'])
register('C20', corr=trace_corr('its', 'itscases', ITS_N, its_rel(None, 25), ITS_RULE, its_nontrivial, monitor=_itsmon),
         assumptions=['metadata registration, minter approvals, role / flow-limit / trusted-address management and views are not pause-gated, following the property text'])


# C06 part 2: the bytes that actually leave the service.  Every trace opens with the outbound battery (schedule 12: payment shapes x destination routing, hub-routed
# chains incl. one with upper-case letters, remote deployments, links); the payload in the gateway's contract-call event (and the gas-service events) of every outbound
# operation is compared with the model's encoding of the same message.
register('C06', corr=combine(abi_corr('enc'),
                             trace_corr('its-d', 'itscases', (4, 40), its_rel({'transfer', 'callContract', 'deployRemote', 'deployRemoteCanonical', 'linkToken', 'props', 'registerMetadata'}, 4),
                                        ITS_RULE, its_nontrivial, extra_args=(12,))),
         **C06_ASSUMPTIONS)

# C07 part 2: get_message_type in ITS execute.  Every trace opens with the message-type battery (schedule 13): first words 2^63, 2^64, 2^255, 6, 7, 2^32 and
# known types under non-zero high bytes (2^64+1, 2^255+5, 2^128+4, 2^192, 2^63+1), direct and inside the hub wrapper; the execute steps are compared with the model.
register('C07', corr=combine(abi_corr('dec'),
                             trace_corr('its-d', 'itscases', (4, 40), its_rel({'execute'}, 27), ITS_RULE, its_nontrivial, extra_args=(13,))),
         **C07_ASSUMPTIONS)

# ------------------------------------------------------------------ replay

def replay(ctx, path):
    j = json.load(open(path))
    print(json.dumps(j, indent=1)[:4000])
    if j.get('kind') != 'failing-input':
        return 0
    cid = j['property']
    c = j['case']
    if cid in ('C06', 'C07') and 'k' in c:
        ok, out = ctx.harness_build()
        tmp = os.path.join(ctx.BUILD, 'replay_case.jsonl')
        open(tmp, 'w').write(json.dumps({k: v for k, v in c.items() if k not in ('code', 'why')}) + '\n')
        rc, lines, err = ctx.run_harness(['abi-file', tmp])
        print('implementation now returns:', lines[0][:2000] if lines else err)
    return 0
