#!/bin/bash
# Regression sweep over the stored seeded changes: every one of them must be reported as a VIOLATION of its property.
# usage: tools/seed_sweep.sh [names...]   (default: all directories under seeded/)
# Uses one scratch worktree of /repo outside /repo and /verif and removes it (and its build output) at the end.
cd /verif
W=/tmp/verif_sweep_$$
git -C /repo worktree add --detach $W HEAD >/dev/null 2>&1 || { echo "cannot create worktree"; exit 2; }
NAMES="$@"; [ -z "$NAMES" ] && NAMES=$(ls seeded)
MISSED=0
for n in $NAMES; do
  id=${n%%-*}
  git -C $W checkout -q -- . ; git -C $W clean -fdq
  if ! git -C $W apply /verif/seeded/$n/patch.diff 2>/dev/null; then echo "$n: patch does not apply"; MISSED=$((MISSED+1)); continue; fi
  out=$(VERIF_REPO=$W ./vcheck check $id 2>&1 | grep -E "^VIOLATION|^OK" | head -1)
  case "$out" in VIOLATION*no-failing-input-found) echo "$n: broken tie only: $out";; VIOLATION*) echo "$n: caught";; *) echo "$n: MISSED ($out)"; MISSED=$((MISSED+1));; esac
done
git -C /repo worktree remove --force $W
TAG=$(python3 -c "import hashlib;print(hashlib.sha1(b'$W').hexdigest()[:10])")
rm -rf /verif/build/target-$TAG /verif/build/harness-$TAG /verif/build/cargo-$TAG.lock /verif/build/evidence-$TAG
echo "missed: $MISSED"
exit $MISSED
