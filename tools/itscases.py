"""ITS-world traces (harness 'its' mode) -> Coq case files."""
from tmcases import H, OH, ledger, is_event
import tmcases
import gwcases

def cv(p):
    p = p or {}
    esdt = '; '.join('{| ep_token := %s; ep_nonce := %d; ep_amount := %s |}' % (H(t), n, v) for t, n, v in p.get('esdt', []))
    return '{| cv_egld := %s; cv_esdt := [%s] |}' % (p.get('egld', '0'), esdt)

def ctx(op, i):
    return '{| ic_self := %s; ic_caller := %s; ic_owner := %s; ic_now := %d; ic_value := %s; ic_newtm := %s |}' % (
        H(i['its']), H(op['caller']), H(i['owner']), op['now'], cv(op.get('pay')), H(op.get('newtm', '')))

def props_res(r):
    if r is None:
        return 'None'
    return '(Some (%s, %s, %s))' % (H(r[0]), H(r[1]), H(r[2]))

def iop(op, i):
    k = op['op']
    if k == 'gwApprove':
        return '(IGateway %s)' % gwcases.gop({'op': 'approve', 'caller': op['caller'], 'now': op['now'], 'messages': op['messages'], 'proof': op['proof']}, i['owner'])
    if k == 'tm':
        return '(ITm %s %s)' % (H(op['tma']), tmcases.top(op['top'], op['tma']))
    if k == 'deliver':
        return '(IDeliver %s %d %s)' % (H(i['its']), op['id'], 'true' if op['ok'] else 'false')
    if k == 'issue':
        return '(IIssue %d %s)' % (op['id'], OH(op['res']))
    c = ctx(op, i)
    if k == 'callback':
        return '(ICallback %s %d)' % (c, op['id'])
    if k == 'props':
        return '(IProps %s %d %s)' % (c, op['id'], props_res(op['res']))
    if k == 'execute':
        return '(IExecute %s %s %s %s %s)' % (c, H(op['chain']), H(op['id']), H(op['src']), H(op['payload']))
    if k == 'transfer':
        return '(ITransfer %s %s %s %s %s %s)' % (c, H(op['token_id']), H(op['dchain']), H(op['daddr']), H(op['metadata']), op['gas'])
    if k == 'callContract':
        return '(ICallContract %s %s %s %s %s %s)' % (c, H(op['token_id']), H(op['dchain']), H(op['daddr']), H(op['data']), op['gas'])
    if k == 'registerMetadata':
        return '(IRegisterMetadata %s %s)' % (c, H(op['token']))
    if k == 'deployToken':
        return '(IDeployToken %s %s %s %s %d %s %s)' % (c, H(op['salt']), H(op['name']), H(op['symbol']), op['decimals'], op['supply'], H(op['minter']))
    if k == 'approveRemote':
        return '(IApproveRemote %s %s %s %s %s)' % (c, H(op['deployer']), H(op['salt']), H(op['dchain']), H(op['dminter']))
    if k == 'revokeRemote':
        return '(IRevokeRemote %s %s %s %s)' % (c, H(op['deployer']), H(op['salt']), H(op['dchain']))
    if k == 'deployRemote':
        return '(IDeployRemote %s %s %s %s %s)' % (c, H(op['salt']), H(op['minter']), H(op['dchain']), OH(op['dminter']))
    if k == 'registerCanonical':
        return '(IRegisterCanonical %s %s)' % (c, H(op['token']))
    if k == 'deployRemoteCanonical':
        return '(IDeployRemoteCanonical %s %s %s)' % (c, H(op['token']), H(op['dchain']))
    if k == 'registerCustom':
        return '(IRegisterCustom %s %s %s %d %s)' % (c, H(op['salt']), H(op['token']), op['ty'], H(op['operator']))
    if k == 'linkToken':
        return '(ILinkToken %s %s %s %s %d %s)' % (c, H(op['salt']), H(op['dchain']), H(op['dtoken']), op['ty'], H(op['params']))
    if k == 'setFlowLimits':
        return '(ISetFlowLimits %s [%s] [%s])' % (c, '; '.join(H(x) for x in op['ids']), '; '.join(op['limits']))
    if k == 'setTrusted':
        return '(ISetTrusted %s %s %s)' % (c, H(op['chain']), H(op['a']))
    if k == 'removeTrusted':
        return '(IRemoveTrusted %s %s)' % (c, H(op['chain']))
    if k == 'pause':
        return '(IPause %s %s)' % (c, 'true' if op['paused'] else 'false')
    if k == 'transferOp':
        return '(ITransferOp %s %s)' % (c, H(op['a']))
    if k == 'proposeOp':
        return '(IProposeOp %s %s)' % (c, H(op['a']))
    if k == 'acceptOp':
        return '(IAcceptOp %s %s)' % (c, H(op['a']))
    if k == 'upgrade':
        # an upgrade transaction carrying constructor-style arguments: the service's `upgrade` takes none, the framework
        # refuses the call.  The model has no such endpoint; it is represented by a call the model refuses as well
        # (setTrustedAddress with an empty chain name): a refused transaction with no effect.
        return '(ISetTrusted %s [] [])' % c
    raise ValueError(k)

def step_term(op, i):
    """an operation of the world (inl) or a read-only query of the service (inr)"""
    if op['op'] == 'view':
        v = op['view']
        if v == 'interchainId': t = '(VInterchainId %s %s)' % (H(op['deployer']), H(op['salt']))
        elif v == 'canonicalId': t = '(VCanonicalId %s)' % H(op['token'])
        elif v == 'linkedId': t = '(VLinkedId %s %s)' % (H(op['deployer']), H(op['salt']))
        elif v == 'chainNameHash': t = 'VChainNameHash'
        elif v == 'deployedTm': t = '(VDeployedTm %s)' % H(op['token_id'])
        else: raise ValueError(v)
        return '(inr %s)' % t
    return '(inl %s)' % iop(op, i)

def expect(res, i):
    # only gateway and gas-service events are compared
    logs = '; '.join('{| lg_addr := %s; lg_topics := [%s]; lg_data := %s |}' % (H(l['a']), '; '.join(H(t) for t in l['t']), H(''.join(l['d'])))
                     for l in res['logs'] if l['a'] in (i['gw'], i['gas']) and is_event(l))
    sd = [(a, k, v) for a, k, v in res['sd'] if not k.startswith('43425f434c4f53555245') and a != i['gas']]
    return '{| ix_ok := %s; ix_rets := [%s]; ix_logs := [%s]; ix_sd := [%s]; ix_bd := [%s] |}' % (
        'true' if res['ok'] else 'false', '; '.join(H(r) for r in res['rets']), logs,
        '; '.join('(%s, %s, %s)' % (H(a), H(k), H(v)) for a, k, v in sd),
        '; '.join('(%s, %s, %s)' % (H(a), H(t), v) for a, t, v in res['bd']))

def trace_term(j):
    i = j['init']
    tab = '[%s]' % '; '.join('(%s, %s, %s)' % (H(a), H(b), H(c)) for a, b, c in j['sigtab'])
    st = '[%s]' % ';\n   '.join('(%s, %s)' % (step_term(s['op'], i), expect(s['res'], i)) for s in j['steps'])
    return '(icheck_trace %s [%s] %s %d %d %s %d %s [%s] %s %s %s %s %s %s [%s]\n  %s)' % (
        tab, '; '.join(H(a) for a in i['tracked']), ledger(i['funds']), i['gwnow'], i['retention'], H(i['domain']), i['gwdelay'], H(i['gwop']),
        '; '.join(H(s) for s in i['signers']), H(i['its']), H(i['gw']), H(i['gas']), H(i['tm_impl']), H(i['operator']), H(i['chain']),
        '; '.join('(%s, %s)' % (H(c), H(a)) for c, a in i['trusted']), st)

HEADER = ('From Coq Require Import String List NArith.\n'
          'From Ax Require Import Lib.Bytes Lib.Mvx Lib.Keccak Model.Check Model.Env Model.Gateway Model.GatewayCheck Model.TokenManager Model.Its Model.ItsCheck.\n'
          'Import ListNotations.\nOpen Scope N_scope.\nSet Printing Width 1000000.\nSet Printing Depth 10000000.\n')

def write_case_file(path, traces):
    with open(path, 'w') as fh:
        fh.write(HEADER)
        for n, j in enumerate(traces):
            fh.write('Definition t%d : list N := %s.\n' % (n, trace_term(j)))
        fh.write('Eval vm_compute in [%s].\n' % '; '.join('t%d' % n for n in range(len(traces))))
