"""Property monitors for C11 / C12 / C16, evaluated on the IMPLEMENTATION's observations of a
governance-world trace (statuses, storage diffs, balance diffs).  They are independent of the Coq
model's step function: they re-state the property over the observable history.  Used to turn a
broken proof or correspondence into a concrete failing history, and to recognise known findings."""
import hashlib

def keccak_unavailable():
    raise RuntimeError

def parse_payload(hexs):
    b = bytes.fromhex(hexs)
    try:
        cmd = b[0]; target = b[1:33]; n = int.from_bytes(b[33:37], 'big'); cd = b[37:37 + n]
        o = 37 + n; m = int.from_bytes(b[o:o + 4], 'big'); val = int.from_bytes(b[o + 4:o + 4 + m], 'big')
        o = o + 4 + m; eta = int.from_bytes(b[o:o + 8], 'big')
        if o + 8 != len(b) or cmd > 3 or len(target) != 32:
            return None
        return cmd, (target.hex(), cd.hex(), str(val)), eta
    except Exception:
        return None

def parse_call_data(hexs):
    """nested endpoint name, u32 argument count, nested arguments, u64 gas"""
    b = bytes.fromhex(hexs)
    try:
        n = int.from_bytes(b[0:4], 'big'); ep = b[4:4 + n]; o = 4 + n
        if len(ep) != n: return None
        cnt = int.from_bytes(b[o:o + 4], 'big'); o += 4; args = []
        for _ in range(cnt):
            m = int.from_bytes(b[o:o + 4], 'big'); a = b[o + 4:o + 4 + m]
            if len(a) != m: return None
            args.append(a.hex()); o += 4 + m
        if o + 8 != len(b): return None
        return ep.hex(), args
    except Exception:
        return None

REFUND = b'refund_token'.hex()
ETA = b'time_lock_eta'.hex()
APPR = b'operator_approvals'.hex()

def refund_key(user_hex, tok_hex, nonce):
    t = bytes.fromhex(tok_hex)
    return REFUND + user_hex + len(t).to_bytes(4, 'big').hex() + tok_hex + int(nonce).to_bytes(8, 'big').hex()

def monitor(tr, which):
    """returns list of failures: dicts {step, what, known_classes}"""
    i = tr['init']; gov = i['gov']
    min_delay = i['min_delay']
    fails = []
    sched = {}          # key -> eta (outstanding time-lock authorisation)
    tl_flight = {}      # pending id -> dict(key, eta, cancelled)
    approved = {}       # key -> bool
    op_flight = {}      # pending id -> dict(key, cancelled)
    gw_approved = {}    # (chain,id) -> (src, contract, ph) approved and not yet consumed
    consumed = set()
    operator = i['operator']
    credits = {}        # (user, token) -> amount
    next_id = 0
    dispatch_info = {}
    for k, st in enumerate(tr['steps']):
        op = st['op']; res = st['res']; ok = res['ok']; kind = op['op']; now = op.get('now', 0)
        gov_sd = [(key, v) for a, key, v in res['sd'] if a == gov]
        def fail(what, classes=()):
            fails.append({'step': k, 'what': what, 'known_classes': list(classes), 'op': op, 'impl': res})
        # C12: time locks / approvals change only in execute, dispatch, callback
        if which == 'C12' and kind not in ('execute', 'execProposal', 'execOperator', 'callback'):
            if any(key.startswith(ETA) or key.startswith(APPR) for key, _ in gov_sd):
                fail('time lock / operator approval storage changed by %s' % kind)
        if kind == 'gwApprove' and ok:
            m = op['msg']
            if (m['chain'], m['id']) not in gw_approved and (m['chain'], m['id']) not in consumed:
                gw_approved[(m['chain'], m['id'])] = (m['src'], m['contract'], m['ph'])
        elif kind == 'execute':
            if ok:
                pp = parse_payload(op['payload'])
                if which == 'C12':
                    if op['chain'] != i['chain'] or op['src'] != i['gaddr']:
                        fail('command accepted from a source other than the configured governance chain/address')
                    a = gw_approved.get((op['chain'], op['id']))
                    if a is None or a[0] != op['src'] or a[1] != gov:
                        fail('command accepted without a matching unconsumed gateway approval addressed to the governance contract')
                    if pp is None:
                        fail('malformed command payload accepted')
                gw_approved.pop((op['chain'], op['id']), None); consumed.add((op['chain'], op['id']))
                if pp:
                    cmd, key, eta = pp
                    if cmd == 0:
                        if which == 'C11' and key in sched:
                            fail('an already scheduled proposal was scheduled again')
                        sched[key] = max(eta, now + min_delay)
                    elif cmd == 1:
                        sched.pop(key, None)
                        for f in tl_flight.values():
                            if f['key'] == key: f['cancelled'] = True
                    elif cmd == 2:
                        approved[key] = True
                    else:
                        approved.pop(key, None)
                        for f in op_flight.values():
                            if f['key'] == key: f['cancelled'] = True
            else:
                if gov_sd and which == 'C12':
                    fail('a rejected command changed storage')
        elif kind == 'execProposal':
            key = (op['target'], op['call_data'], op['value'])
            if ok:
                eta = sched.get(key)
                if which == 'C11':
                    if eta is None:
                        cancelled_restore = any(d.get('restored_after_cancel') for d in dispatch_info.values() if d['key'] == key)
                        fail('time-locked proposal dispatched without an outstanding (scheduled, uncancelled, unconsumed) authorisation',
                             ['F-C11-1'] if cancelled_restore else [])
                    elif now < eta:
                        fail('time-locked proposal dispatched before its eta')
                sched.pop(key, None)
                tl_flight[next_id] = {'key': key, 'eta': eta, 'cancelled': False}
                dispatch_info[next_id] = {'key': key}
                next_id += 1
        elif kind == 'execOperator':
            key = (op['target'], op['call_data'], op['value'])
            if ok:
                if which == 'C12':
                    if op['caller'] != operator:
                        fail('operator proposal dispatched by an account that is not the operator')
                    if not approved.get(key):
                        cancelled_restore = any(d.get('restored_after_cancel') for d in dispatch_info.values() if d['key'] == key)
                        fail('operator proposal dispatched without an outstanding approval', ['F-C12-1'] if cancelled_restore else [])
                approved.pop(key, None)
                op_flight[next_id] = {'key': key, 'cancelled': False}
                dispatch_info[next_id] = {'key': key}
                next_id += 1
        elif kind == 'deliver' and 'endpoint' in op and which in ('C11', 'C12') and (which == 'C12') == bool(op.get('operator')):
            # the call that reaches the target is exactly the scheduled / approved one
            tgt, cd, val = op['key']; pc = parse_call_data(cd)
            if pc is not None:
                if op['target'] != tgt or str(op['native']) != str(val) or op['endpoint'] != pc[0] or list(op['args']) != pc[1]:
                    fail('the call dispatched to the target differs from the %s target, call data and value: endpoint %s arguments %s'
                         % ('approved' if which == 'C12' else 'scheduled', bytes.fromhex(op['endpoint']), op['args']))
        elif kind == 'callback' and ok:
            pid = op['id']
            if op['operator']:
                f = op_flight.pop(pid, None)
                if f and not op['delivered_ok']:
                    if not f['cancelled']: approved[f['key']] = True
                    else: dispatch_info[pid]['restored_after_cancel'] = True     # remember: the code may (wrongly) restore here
            else:
                f = tl_flight.pop(pid, None)
                if f and not op['delivered_ok']:
                    if not f['cancelled']:
                        if f['eta'] is not None: sched[f['key']] = f['eta']
                    else: dispatch_info[pid]['restored_after_cancel'] = True
            # C16: credits
            if not op['delivered_ok']:
                pay = op['pay']; user = op['dispatcher']
                items = [(t, int(n), int(v)) for t, n, v in pay['esdt']] if pay['esdt'] else [(b'EGLD'.hex(), 0, int(pay['egld']))]
                expected = {}
                for t, n, v in items:
                    credits[(user, t, n)] = credits.get((user, t, n), 0) + v
                    if v != 0:      # the observation is a storage DIFF: a credit that grows by 0 does not appear in it
                        expected[refund_key(user, t, n)] = credits[(user, t, n)]
                if which == 'C16':
                    got = {key: int(v, 16) if v else 0 for key, v in gov_sd if key.startswith(REFUND)}
                    exp = {key: v for key, v in expected.items()}
                    # zero credits (EGLD 0) leave no storage change
                    exp = {key: v for key, v in exp.items() if v != 0 or key in got}
                    if got != exp:
                        fail('credits after a failed dispatch differ from the attached amounts: storage %s, expected %s' % (got, exp))
            elif which == 'C16' and any(key.startswith(REFUND) for key, _ in gov_sd):
                fail('a successful dispatch credited a refund')
        elif kind == 'withdrawRefund':
            user = op['caller']; tok = op['token']; nonce = int(op['nonce'])
            ltok = tok if nonce == 0 else tok + b'#'.hex() + nonce.to_bytes(8, 'big').hex()     # balance key of an SFT instance
            c = credits.get((user, tok, nonce), 0)
            if ok and which == 'C16':
                got = [int(v) for a, t, v in res['bd'] if a == user and t == ltok]
                # the caller's balance must have moved by exactly the credit (no entry when the credit is 0)
                moved = any(True for a, t, v in res['bd'] if a == user and t == ltok)
                if c == 0 and moved:
                    fail('withdrawal paid out without a credit')
                if c != 0 and not moved:
                    fail('withdrawal of an outstanding credit moved nothing')
                changed = {key: v for key, v in gov_sd if key.startswith(REFUND)}
                if c != 0 and changed.get(refund_key(user, tok, op['nonce'])) != '':
                    fail('credit not cleared by its withdrawal')
                if any(key != refund_key(user, tok, op['nonce']) for key in changed):
                    fail('withdrawal touched another account\'s credit')
            if ok: credits[(user, tok, nonce)] = 0
        elif kind == 'transferOp':
            if ok:
                if which == 'C12' and op['caller'] not in (operator, gov):
                    fail('operator changed by an account that is neither the operator nor the contract')
                operator = op['a']
        elif kind == 'withdraw':
            if ok and which == 'C12' and op['caller'] != gov:
                fail('funds withdrawn by an account other than the contract itself')
        # C16: refunds change only in failed-dispatch callbacks and withdrawals
        if which == 'C16' and kind not in ('callback', 'withdrawRefund') and any(key.startswith(REFUND) for key, _ in gov_sd):
            fail('refund credits changed by %s' % kind)
    return fails
