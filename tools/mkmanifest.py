#!/usr/bin/env python3
"""Writes MANIFEST.json from the table below (kept in one place so it stays valid)."""
import json, os
ROOT = os.path.dirname(os.path.dirname(os.path.abspath(__file__)))
CLAIMED = {
 'C06': dict(section='8/C06', technique='Coq proof (enc_impl = enc_spec for all token lists) + differential correspondence of the Rust encoder against the Coq model by vm_compute',
   text='Theorem c06_encode_exact: the Gallina mirror of raw_abi_encode equals an encoder written from the Solidity ABI specification for every token list below 2^32 bytes, rejections included; field lists regenerated from abi_types.rs are pinned; the Rust encoder is run on generated values and compared byte for byte with model and specification.',
   note='Trusted: Coq kernel, hand-written model of abi.rs tied to the code by the correspondence, gen_tables.py, harness. Encodings >= 2^32 bytes (u32 wrap) are outside the theorem.'),
 'C07': dict(section='8/C07', technique='Coq proof (dec_impl = dec_spec on all byte strings; round trip) + differential correspondence of the Rust decoder on mutated encodings',
   text='Theorems c07_decode_exact (for ALL byte strings the mirrored decoder equals the ABI-layout decoder), c07_roundtrip, c07_field_sound (reads inside the buffer, offsets/lengths < 2^32, u8 < 256), struct-level versions for the five payloads; the Rust decoder is run on canonical and mutated encodings and compared with model and specification; second part: ITS traces opening with the message-type battery (first words 2^63, 2^64, 2^255, 6, 7, 2^32 and known types under non-zero high bytes, direct and hub-wrapped) compare what ITS execute makes of the message-type word with the model.',
   note='Trusted: as C06; out-of-bounds freedom of the implementation rests on the managed buffer API (exercised, not proved).'),
}
CLAIMED.update({
 'C01': dict(section='8/C01', technique='Coq proof (soundness/completeness/window/digest-binding of approveMessages over all hash and verifier functions) + differential correspondence of the real gateway in the Rust VM against the model with keccak-256 executed in Coq',
   text='Theorems c01_sound, c01_complete, c01_out_of_window, c01_digest_binding, c01_inv_reachable (and, for histories with upgrade transactions, c01_inv_reachable_with_upgrades, c01_settings_forever_with_upgrades, c01_upgrade_approves_nothing; Model/GWUpgrade.v) over a Gallina model of gateway auth/lib (raw-byte decoding of batch and proof included), for every hash and verifier function and every reachable state; the real contract is run on generated histories with real ed25519 proofs and compared step by step (status, return data, events, storage diff) with the model.',
   note='Trusted: Coq kernel; hand-written model tied by the correspondence; signature oracle = table of honestly produced signatures; keccak/ed25519 outside the proofs (collision freedom only as explicit hypotheses).'),
 'C02': dict(section='8/C02', technique='Coq proof (monotone lifecycle, first-wins, validate spec, at-most-once by induction over histories, binding) + differential correspondence in the Rust VM',
   text='Theorems c02_step_monotone, c02_rank_monotone, c02_first_wins, c02_validate_spec, c02_at_most_once, c02_binding for all operation histories of the gateway model, and c02_*_with_upgrades (one-way life cycle and at-most-once validation along histories that also contain upgrade transactions); the real contract is compared step by step on generated histories with duplicate / re-sent ids and right/wrong validators.',
   note='Trusted: as C01.'),
 'C03': dict(section='8/C03', technique='Coq proof (rotation effect, exact acceptance predicate of signer sets, epoch/hash bijection invariant over all histories, operator vs non-operator, operatorship) + differential correspondence in the Rust VM',
   text='Theorems c03_rotate_sound, c03_validate_signers_spec (+ five rejections), c03_bijection_reachable, c03_registered_forever, c03_operator_complete, c03_out_of_window_*, c03_operatorship; the upgrade path (Model/GWUpgrade.v): c03_upgrade_spec, c03_upgrade_rejects, c03_bijection_reachable_with_upgrades, c03_registered_forever_with_upgrades, c03_epoch_monotone_with_upgrades, c03_operatorship_with_upgrades; correspondence on rotation histories (every eighth with upgrade transactions by the owner) by operator / others with sets of every age and time steps around the delay.',
   note='Trusted: as C01; block time monotone; an upgrade transaction belongs to the owner by protocol rule (the harness sends it from the owner only).'),
})
CLAIMED.update({
 'C09': dict(section='8/C09', technique='Coq proof (acceptance rule, two-sided net-flow bound preserved by every transaction and every history with an unchanged limit) + differential correspondence of the real token manager in the Rust VM',
   text='Theorems c09_add_flow_spec, c09_accept_in/out, c09_reject_iff, c09_step_bounded (all sixteen operations, all callers), c09_history_bounded, c09_fresh_epoch, c09_unlimited, c09_limit_gate; EPOCH_TIME regenerated and pinned to 21600; the real contract is compared step by step (status, returns, events, storage, balances) on histories with amounts around L and epoch boundaries.',
   note='Trusted: Coq kernel; hand-written model of token-manager tied by the correspondence; gen_tables.py; harness.'),
 'C10': dict(section='8/C10', technique='Coq proof (service-only, exact custody/supply effect of give/take, mint/burn gates, role transfer/proposal algebra, role frame) + differential correspondence in the Rust VM',
   text='Theorems c10_give/take_service_only, c10_give_lock, c10_take_lock, c10_transfer_exact, c10_give_mint, c10_take_mint, c10_mint/burn_requires, c10_transfer_role, c10_accept_role (usable once), c10_*_auth, c10_roles_frame, c10_no_redeploy; proposals over whole histories (Proofs/TMProposals.v): c10_proposals_changed_only_by, c10_accepts_never_outnumber_proposals; correspondence over all five manager types and every caller class. Upgrade path (Model/TMUpgrade.v): c10_upgrade_spec, c10_upgrade_moves_nothing, c10_service_forever, c10_give/take_after_history_service_only, c10_token_forever_with_upgrades, c10_upgrade_nonvacuous; upgrades by the owner with arbitrary constructor arguments are part of the traces. In the ITS world (Proofs/ItsTmGeneric.v): c10_identity_forever_in_world, c10_give/take_service_only_in_world (all 25 operation kinds), c10_in_world_nonvacuous.',
   note='Trusted: as C09; per-step custody statements (the history-level sum is their direct fold); ESDT role/frozen-account rules of the protocol are outside the model. History level (Proofs/TMCustody.v): c10_custody_step and c10_custody_history (holdings of a lock/unlock manager = initial + taken - given over every operation sequence).'),
})
CLAIMED.update({
 'C15': dict(section='8/C15', technique='Coq proof (receipt characterisation, exact events, collector-only outflow for every operation, collectFees relation, collector replacement) + differential correspondence of the real gas service in the Rust VM',
   text='Theorems c15_received, c15_pay_event, c15_add_event, c15_zero_rejected, c15_pay_ledger, c15_refund, c15_collect (inductive relation: skipped above the current balance or transferred exactly), c15_collect_zero, c15_outflow (for every operation and caller the balance decreases only in collectFees/refund by the collector), c15_collector; conservation (Proofs/GasConserve.v): c15_conserve_step and c15_conservation (for EVERY history of calls by accounts other than the service: balance = initial + all receipts - everything collectFees/refund moved to their receivers, per token), c15_out_needs_collector, c15_conservation_nonvacuous; endpoint/payable table, event names and struct field orders regenerated and pinned.',
   note='Trusted: Coq kernel; hand-written model tied by the correspondence (status, events, storage, balances on every step); gen_tables.py; harness.'),
})
CLAIMED.update({
 'C11': dict(section='8/C11', technique='Coq proof (dispatch precondition, command effects, callback effects, and for ALL schedules: a cancelled proposal stays undispatchable until rescheduled) + differential correspondence of gateway+governance in the Rust VM with harness-scheduled promises + trace monitors',
   text='Theorems c11_dispatch_requires, c11_commands (eta >= now + delay, no reschedule), c11_callback, c11_cancel_kills, c11_cancelled_stays_cancelled (induction over arbitrary operation lists = all interleavings of dispatch, target call, callback and other transactions), c11_dead_no_dispatch; exclusion (Proofs/GovExcl.v): c11_never_scheduled_and_in_flight, c11_exclusion_reachable, c11_callback_restores_only_onto_empty, c11_eta_changes_only_by; counting over whole histories (Proofs/GovCount.v): c11_eta_potential and c11_pending_potential (all nine operation kinds) give c11_one_success_per_scheduling (successful dispatches of a proposal <= accepted schedulings of it, for every history and schedule) and c11_accepts_bounded; c11_unrepaired_refuted exhibits the history on which the source before the fix: commit violated the property. The real contracts are compared step by step with the model and a monitor re-checks the property on the implementation trace. c11_command_traces_to_batch: the authentication of a scheduling command, end to end (Proofs/GovGwOrigin.v).',
   note='Trusted: Coq kernel; hand-written model of governance+gateway tied by the correspondence; external target abstracted to an outcome; gas not modelled. Genuine defect F-C11-1 repaired by a fix: commit (known_findings.json).'),
 'C12': dict(section='8/C12', technique='Coq proof (authenticated-command precondition with gateway consumption, no replay, table frame for every other operation, operator dispatch/approval algebra for all schedules, operator and funds gates) + differential correspondence + trace monitors',
   text='Theorems c12_execute_requires, c12_no_replay, c12_tables_frame, c12_operator_dispatch, c12_operator_callback, c12_cancelled_approval_stays_cancelled, c12_deadop_no_dispatch, c12_operator_change, c12_withdraw_self_only, c12_approval_changes_only_by, c12_eta_changes_only_by, c12_callback_restores_approval_only_in_flight (Proofs/GovExcl.v). Counting (Proofs/GovCountOp.v): c12_approval_potential, c12_one_success_per_approval (successful operator dispatches <= accepted approvals, for every history). End to end (Proofs/GovGwOrigin.v): c12_gateway_projection, c12_command_traces_to_batch (an accepted command traces back to an approveMessages transaction of the same history naming exactly this command), c12_end_to_end_nonvacuous.',
   note='Trusted: as C11. Genuine defect F-C12-1 repaired by the same fix: commit.'),
 'C16': dict(section='8/C16', technique='Coq proof (credit arithmetic per token incl. repeated tokens, callback credits under any schedule, withdrawal exactness, frame) + differential correspondence + trace monitor',
   text='Theorems c16_credit, c16_callback_credits, c16_withdraw, c16_frame; histories (Proofs/GovCredits.v): c16_credits_step (all 9 operation kinds) and c16_credits_history (for EVERY history and schedule: outstanding credit of (caller, token, nonce) = initial + attached to failed dispatches by that caller - withdrawn by that caller), c16_withdrawn_owner_only.',
   note='Trusted: as C11.'),
})
ITS_NOTE = 'Trusted: Coq kernel; hand-written model of the ITS world (gateway, gas service, ITS, token managers, ledger, pending asynchronous work) tied to the code by the step-by-step correspondence; the external destination contract and the ESDT system contract are abstracted to outcomes; gas not modelled.'
ITS_TECH = 'Coq proof over the ITS world model + differential correspondence of the real contracts in the Rust VM with harness-scheduled asynchronous steps + trace monitors on the implementation observations'
CLAIMED.update({
 'C04': dict(section='8/C04', technique=ITS_TECH, note=ITS_NOTE,
   text='Theorems c04_release_requires (live approval for exactly this message addressed to the service, consumed by the step; exactly the payload amount to the payload recipient through the registered manager), c04_trusted_source, c04_give, c04_once (an executed message releases nothing again). World level (Proofs/ItsGw.v): c04_gateway_forward (all 25 operation kinds move every gateway message only forward), c04_executed_forever, c04_released_once_forever.'),
 'C05': dict(section='8/C05 End to end (Proofs/ItsGwOrigin.v): c04_gateway_projection, c04_approval_from_history, c04_release_traces_to_batch (a release traces back to an approveMessages transaction of the same history that the gateway accepted, naming exactly this message), c04_end_to_end_nonvacuous.', technique=ITS_TECH, note=ITS_NOTE,
   text='Theorems c05_split (payment shapes), c05_effect (take by the manager of the token id, one gateway message with abi.encode(0, token id, sender, destination, amount, data) to the routed destination), c05_take, c05_message (exact contract-call and gas-paid events, gas moved to the gas service, refund address = sender), c05_payload_abi (C06); world level (Proofs/ItsOutbound.v): c05_split_accounts_for_everything and c05_service_balances_unchanged (a successful outbound transfer step leaves every balance of the service unchanged).'),
 'C08': dict(section='8/C08', technique=ITS_TECH, note=ITS_NOTE + ' Known finding F-C08-1 (failure callback rejected by the flow limit) is recorded in known_findings.json and exhibited by c08_refuted_flow_limit.',
   text='Theorems c08_start (approval checked not consumed, lock taken, one promise), c08_lock_excludes, c08_callback (success: message executed, nothing else moves; failure: gateway untouched, tokens taken back through takeToken, lock cleared), c08_no_double; the recorded finding is reported as KNOWN-FINDING, any other stranding or double delivery as a violation. World level (Proofs/ItsLocks.v): the invariant LockInv (every delivery in flight holds its lock; at most one delivery in flight per message) is inductive over all 25 operation kinds: c08_inv_init, c08_inv_step, c08_inv_reachable, c08_in_flight_locked.'),
 'C13': dict(section='8/C13', technique=ITS_TECH, note=ITS_NOTE,
   text='Theorems c13_route_out (+ three refusals), c13_route_in, c13_route_message, c13_execute_requires_trusted, c13_trusted_owner_only; hub names and message types regenerated and pinned. World level (Proofs/ItsConfig.v): c13_trusted_table_owner_only (no operation other than the set/remove endpoints of the owner changes the trusted-address table).'),
 'C14': dict(section='8/C14', technique=ITS_TECH, note=ITS_NOTE,
   text='Theorems c14_*_id (published derivations), c14_preimage_inj / c14_kind_prefix, c14_create, c14_binding_forever_step and c14_binding_forever (write-once binding over every operation, asynchronous step and history, by case analysis over all 25 operations + induction), c14_local_deployer, c14_custom_not_native; prefix hashes distinct for keccak by computation.'),
 'C17': dict(section='8/C17', technique=ITS_TECH, note=ITS_NOTE + ' Known findings F-C17-1..5 (callback of the lookup fails in a later configuration: value stays in the service) are recorded and exhibited by the c17_refuted_* Examples.',
   text='Theorems c17_metadata_callback and c17_remote_callback (whenever the callback completes the whole attached value is refunded or forwarded to the gas service with one gateway message), c17_sync_forward; the recorded classes are reported as KNOWN-FINDING, any other value left in the service as a violation (custody equation monitor). World level (Proofs/ItsCustody.v): the custody equation of the service for any ledger token - c17_sync_custody (all 19 synchronous endpoints: balance moves by exactly what the pending work created by the transaction holds), c17_sync_nothing_kept, c17_deliver_custody, c17_callback_custody and c17_props_custody (a succeeding callback strands nothing; a failing one strands exactly what the pending work held = the recorded findings); c17_ids_distinct_reachable (Proofs/ItsIds.v); whole histories (Proofs/ItsCustodyRun.v): c17_history_custody and c17_completed_history_keeps_nothing (run to completion without a failing callback => the service holds what it held before).'),
 'C18': dict(section='8/C18', technique=ITS_TECH, note=ITS_NOTE + ' Genuine defects F-C18-1 and F-C18-2 repaired by fix: commits.',
   text='Theorems c18_inbound_two_step, c18_executed_not_approved, c18_token_never_replaced, c18_no_reissue, c18_zero_supply_no_minter, c18_service_minter_refused, c18_mintership_leaves_service, c18_handover_keeps_minter_bit, c18_no_minter_no_mint. Every operation / history (Proofs/TMToken.v, Proofs/ItsTokens.v): c18_endpoints_keep_token, c18_token_forever_step, c18_token_forever (the recorded token survives all 25 operation kinds; hypothesis: deployment addresses are fresh).'),
 'C19': dict(section='8/C19', technique=ITS_TECH, note=ITS_NOTE,
   text='Theorems c19_approve, c19_minter_check, c19_revoke, c19_deploy (approval of exactly that tuple and hash by the current minter, consumed; no destination minter without a local minter; service never minter), c19_single_use, c19_key_preimage_inj. World level (Proofs/ItsApprovals.v): c19_approvals_frame and c19_approval_origin (a non-empty approval is only ever written by the approve endpoint called by a current minter, under exactly its key and hash). Whole histories (Proofs/ItsApprovalCount.v): c19_approval_step, c19_approval_history, c19_uses_bounded_by_approvals (for every history, key and hash h: successful deployments naming h under the key <= successful approvals of exactly (key, h)); c19_history_nonvacuous.'),
 'C20': dict(section='8/C20', technique=ITS_TECH, note=ITS_NOTE + ' Genuine defects F-C20-1 and F-C20-2 repaired by a fix: commit.',
   text='Theorems c20_paused_frame (every gated endpoint leaves the world unchanged while paused), c20_pause_owner_only, c20_unpause_restores, c20_trusted_owner_only, c20_remove_trusted_owner_only, c20_flow_limits_operator_only; the endpoint table and the list of pause-gated functions are regenerated from the sources and pinned. World level (Proofs/ItsRoles.v, Proofs/ItsConfig.v): c20_roles_frame, c20_operator_gain (the operator role is gained only by transfer from / accepted proposal of a holder), c20_config_frame, c20_pause_flag_owner_only.'),
})
NOT_YET = {}
def main():
    props = [json.loads(l) for l in open(os.path.join(ROOT, 'properties.jsonl'))]
    checks = []
    for p in props:
        cid = p['id']
        if cid in CLAIMED:
            c = CLAIMED[cid]
            checks.append({
                'property_id': cid,
                'quick_cmd': './vcheck check %s --tier quick' % cid,
                'thorough_cmd': './vcheck check %s --tier thorough' % cid,
                'evidence_file': 'evidence/%s.json' % cid,
                'replay_cmd_template': './vcheck replay {path}',
                'engine': 'coq-proof+correspondence',
                'level_claimed': {'category': 'proof', 'text': c['text'], 'design_ref': 'DESIGN.md section ' + c['section']},
                'level_note': c['note'],
                'technique': c['technique'],
            })
    na = [{'property_id': p['id'], 'reason': NOT_YET.get(p['id'], 'not claimed yet: model and theorems for this property are still being built (the technique applies; see DESIGN.md section 8)')}
          for p in props if p['id'] not in CLAIMED]
    m = {
        'version': 1,
        'setup_cmd': './vcheck setup',
        'hooks': {'guard': 'multiversx_sc_axelar_cgp_rs_verif', 'enable': 'RUSTFLAGS="--cfg multiversx_sc_axelar_cgp_rs_verif" (set by vcheck when it builds the harness against /repo); no hook commits are needed so far',
                  'baseline_off_cmd': 'cd /repo && cargo test --workspace --no-fail-fast --offline', 'source_commits': [], 'add_only': True},
        'engines': [{'name': 'coq-proof+correspondence', 'path': 'vcheck', 'serves_properties': sorted(CLAIMED),
                     'kind_free_text': 'Coq 8.16.1 theorems over a hand-written Gallina model (coq/), regenerated tables (tools/gen_tables.py), Rust harness running the real contracts (harness/), model evaluated by vm_compute on the same inputs'}],
        'checks': checks,
        'not_applicable': na,
        'notes': 'See DESIGN.md. Every claimed check rebuilds Gen/Generated.v, the Coq cone and the harness from /repo on each run.',
    }
    json.dump(m, open(os.path.join(ROOT, 'MANIFEST.json'), 'w'), indent=1)
main()
