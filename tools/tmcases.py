"""Token-manager traces (harness 'tm' mode) -> Coq case files."""
import json

def H(s):
    return '(unhex "%s")' % s

def OH(s):
    return 'None' if s is None else '(Some %s)' % H(s)

def cv(op):
    esdt = '; '.join('{| ep_token := %s; ep_nonce := %d; ep_amount := %s |}' % (H(t), n, v) for t, n, v in op.get('esdt', []))
    return '{| cv_egld := %s; cv_esdt := [%s] |}' % (op.get('egld', '0'), esdt)

def ctx(op, self_):
    return '{| t_self := %s; t_caller := %s; t_now := %d; t_value := %s |}' % (H(self_), H(op['caller']), op['now'], cv(op))

def top(op, self_):
    k = op['op']
    if k == 'issueCallback':
        return '(TIssueCallback %s %s)' % (H(self_), OH(op['result']))
    c = ctx(op, self_)
    if k == 'give':
        return '(TGive %s %s %s)' % (c, H(op['dest']), op['amount'])
    if k == 'take':
        return '(TTake %s)' % c
    if k == 'setLimit':
        return '(TSetLimit %s %s)' % (c, op['limit'])
    if k == 'addFL':
        return '(TAddFL %s %s)' % (c, H(op['a']))
    if k == 'removeFL':
        return '(TRemoveFL %s %s)' % (c, H(op['a']))
    if k == 'transferFL':
        return '(TTransferFL %s %s %s)' % (c, H(op['a']), H(op['b']))
    m = {'transferOp': 'TTransferOp', 'proposeOp': 'TProposeOp', 'acceptOp': 'TAcceptOp',
         'transferMint': 'TTransferMint', 'proposeMint': 'TProposeMint', 'acceptMint': 'TAcceptMint'}
    if k in m:
        return '(%s %s %s)' % (m[k], c, H(op['a']))
    if k == 'mint':
        return '(TMint %s %s %s)' % (c, H(op['a']), op['amount'])
    if k == 'burn':
        return '(TBurn %s)' % c
    if k == 'deployToken':
        return '(TDeployToken %s %s %s %s)' % (c, OH(op['minter']), H(op['name']), H(op['symbol']))
    raise ValueError(k)

BUILTIN_EPS = {'ESDTLocalBurn', 'ESDTLocalMint', 'ESDTTransfer', 'transferValueOnly', 'MultiESDTNFTTransfer', 'ESDTNFTTransfer',
               'ESDTSetRole', 'ESDTUnSetRole', 'registerAndSetAllRoles', 'issue'}

def is_event(l):
    return l['ep'] not in BUILTIN_EPS

def logs(res, addr):
    return '[%s]' % '; '.join('{| lg_addr := %s; lg_topics := [%s]; lg_data := %s |}' % (H(l['a']), '; '.join(H(t) for t in l['t']), H(''.join(l['d'])))
                              for l in res['logs'] if l['a'] == addr and is_event(l))

def expect(res, addr):
    # CB_CLOSURE* is the VM's bookkeeping of a legacy async callback closure, not contract state
    sd = [(k, v) for a, k, v in res['sd'] if a == addr and not k.startswith('43425f434c4f53555245')]
    return '{| tx_ok := %s; tx_rets := [%s]; tx_logs := %s; tx_sd := [%s]; tx_bd := [%s] |}' % (
        'true' if res['ok'] else 'false', '; '.join(H(r) for r in res['rets']), logs(res, addr),
        '; '.join('(%s, %s)' % (H(k), H(v)) for k, v in sd),
        '; '.join('(%s, %s, %s)' % (H(a), H(t), v) for a, t, v in res['bd']))

def ledger(funds):
    items = []
    for a, egld, esdts in funds:
        items.append('((%s, EGLD), %s)' % (H(a), egld))
        for t, v in esdts:
            items.append('((%s, %s), %s)' % (H(a), H(t), v))
    return '[%s]' % '; '.join(items)

VIEW_OPS = ('getFlowLimit',)

def step_op(op, self_):
    """an endpoint operation (inl) or an upgrade sent by the owner (inr, Model/TMUpgrade.v)"""
    if op['op'] == 'upgrade':
        return '(inr (TUpgrade %s %s %d %s %s %s))' % (H(self_), H(op['service']), op['type'], H(op['tid']), OH(op['operator']), OH(op['token']))
    return '(inl %s)' % top(op, self_)

def trace_term(j):
    i = j['init']; self_ = i['self']
    steps = [s for s in j['steps'] if s['op']['op'] not in VIEW_OPS]
    st = '[%s]' % ';\n   '.join('(%s, %s)' % (step_op(s['op'], self_), expect(s['res'], self_)) for s in steps)
    return '(tcheck_trace [%s] %s %s %s %d %s %s %s %s\n  %s)' % (
        '; '.join(H(a) for a in i['tracked']), ledger(i['funds']), H(self_), H(i['service']), i['type'], H(i['tid']),
        OH(i['operator']), OH(i['token']), expect(i['res'], self_), st)

HEADER = ('From Coq Require Import String List NArith.\n'
          'From Ax Require Import Lib.Bytes Lib.Mvx Model.Check Model.Env Model.TokenManager Model.TMUpgrade Model.TMCheck.\n'
          'Import ListNotations.\nOpen Scope N_scope.\nSet Printing Width 1000000.\nSet Printing Depth 10000000.\n')

def prepare(j):
    """drop pure view steps (kept in the harness output for time advance only)"""
    j = dict(j); j['steps'] = [s for s in j['steps'] if s['op']['op'] not in VIEW_OPS]
    return j

def write_case_file(path, traces):
    with open(path, 'w') as fh:
        fh.write(HEADER)
        for n, j in enumerate(traces):
            fh.write('Definition t%d : list N := %s.\n' % (n, trace_term(j)))
        fh.write('Eval vm_compute in [%s].\n' % '; '.join('t%d' % n for n in range(len(traces))))
