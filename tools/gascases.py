"""Gas-service traces (harness 'gas' mode) -> Coq case files."""
from tmcases import H, ledger, is_event

def cv(p):
    esdt = '; '.join('{| ep_token := %s; ep_nonce := %d; ep_amount := %s |}' % (H(t), n, v) for t, n, v in p.get('esdt', []))
    return '{| cv_egld := %s; cv_esdt := [%s] |}' % (p.get('egld', '0'), esdt)

def ctx(op, i):
    return '{| gc_self := %s; gc_caller := %s; gc_owner := %s; gc_value := %s |}' % (H(i['self']), H(op['caller']), H(i['owner']), cv(op['pay']))

def gsop(op, i):
    c = ctx(op, i); k = op['op']
    if k == 'pay':
        return '(GSPay %d %s %s %s %s %s %s)' % (op['kind'], c, H(op['sender']), H(op['chain']), H(op['daddr']), H(op['payload']), H(op['refund']))
    if k == 'add':
        return '(GSAdd %d %s %s %s %s)' % (op['kind'], c, H(op['txhash']), op['logidx'], H(op['refund']))
    if k == 'collect':
        return '(GSCollect %s %s [%s] [%s])' % (c, H(op['receiver']), '; '.join(H(t) for t in op['tokens']), '; '.join(op['amounts']))
    if k == 'refund':
        return '(GSRefund %s %s %s %s %s %s)' % (c, H(op['txhash']), op['logidx'], H(op['receiver']), H(op['token']), op['amount'])
    if k == 'setCollector':
        return '(GSSetCollector %s %s)' % (c, H(op['a']))
    raise ValueError(k)

def expect(res, addr):
    logs = '; '.join('{| lg_addr := %s; lg_topics := [%s]; lg_data := %s |}' % (H(l['a']), '; '.join(H(t) for t in l['t']), H(''.join(l['d'])))
                     for l in res['logs'] if l['a'] == addr and is_event(l))
    sd = [(k, v) for a, k, v in res['sd'] if a == addr]
    return '{| gx_ok := %s; gx_logs := [%s]; gx_sd := [%s]; gx_bd := [%s] |}' % (
        'true' if res['ok'] else 'false', logs, '; '.join('(%s, %s)' % (H(k), H(v)) for k, v in sd),
        '; '.join('(%s, %s, %s)' % (H(a), H(t), v) for a, t, v in res['bd']))

def trace_term(j):
    i = j['init']
    st = '[%s]' % ';\n   '.join('(%s, %s)' % (gsop(s['op'], i), expect(s['res'], i['self'])) for s in j['steps'])
    return '(gscheck_trace [%s] %s %s %s\n  %s)' % ('; '.join(H(a) for a in i['tracked']), ledger(i['funds']), H(i['collector']), expect(i['res'], i['self']), st)

HEADER = ('From Coq Require Import String List NArith.\n'
          'From Ax Require Import Lib.Bytes Lib.Mvx Model.Check Model.Env Model.GasService.\n'
          'Import ListNotations.\nOpen Scope N_scope.\nSet Printing Width 1000000.\nSet Printing Depth 10000000.\n')

def write_case_file(path, traces):
    with open(path, 'w') as fh:
        fh.write(HEADER)
        for n, j in enumerate(traces):
            fh.write('Definition t%d : list N := %s.\n' % (n, trace_term(j)))
        fh.write('Eval vm_compute in [%s].\n' % '; '.join('t%d' % n for n in range(len(traces))))
