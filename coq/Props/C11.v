(* C11 — Governance time lock: only scheduled, matured, uncancelled proposals run, once.
   Statements only; proofs in Proofs/GovFacts.v and Proofs/GovWorld.v.  The theorems are about the
   repaired source (fx = true; known_findings.json: fixed F-C11-1); the last Example shows the
   history on which the source before the repair violated the property. *)
From Coq Require Import String List NArith Lia.
From Ax Require Import Lib.Bytes Lib.Mvx Lib.Keccak Model.Check Model.Env Model.Gateway Model.Governance
     Proofs.GatewayMsgs Proofs.GovFacts Proofs.GovWorld Proofs.GovGwOrigin Proofs.GovCount Proofs.GovExcl Gen.Generated.
Import ListNotations.
Open Scope N_scope.

Section C11.
  Variable H : bytes -> bytes.
  Variable verify : bytes -> bytes -> bytes -> bool.
  Notation phash := (proposal_hash H).
  Notation step := (vstep H verify true).

  (* a dispatch happens only for exactly that (target, call data, value) with a stored eta that the
     block time has reached; the eta is consumed (one dispatch per scheduling) *)
  Theorem c11_dispatch_requires : forall w c target cd v w' ev,
    execute_proposal H true w c target cd v = Some (w', ev) ->
    let h := phash target cd v in
    let eta := getN (gv_eta (w_gov w)) h in
    eta <> 0 /\ eta <= x_now c /\
    getN (gv_eta (w_gov w')) h = 0 /\ getN (gv_tl_flight (w_gov w')) h = 1 /\
    gv_approvals (w_gov w') = gv_approvals (w_gov w) /\ gv_op_flight (w_gov w') = gv_op_flight (w_gov w) /\
    gv_refunds (w_gov w') = gv_refunds (w_gov w) /\ gv_operator (w_gov w') = gv_operator (w_gov w) /\
    (forall h', h' <> h -> getN (gv_eta (w_gov w')) h' = getN (gv_eta (w_gov w)) h' /\
                           getN (gv_tl_flight (w_gov w')) h' = getN (gv_tl_flight (w_gov w)) h') /\
    exists d, dec_call_data cd = Some d /\ w_gw w' = w_gw w /\ w_led w' = w_led w /\
      w_pend w' = w_pend w ++ [{| gp_id := w_next w; gp_kind := PTimeLock; gp_hash := h; gp_eta := eta; gp_caller := x_caller c; gp_pay := x_value c;
                                  gp_target := target; gp_endpoint := cd_endpoint d; gp_args := cd_args d; gp_value := v; gp_stage := AwaitCall |}].
  Proof. exact (execute_proposal_spec H). Qed.

  (* commands: scheduling sets eta = max(eta, now + delay) >= now + delay, only when neither scheduled
     nor in flight; cancelling clears the eta and forgets an in-flight dispatch *)
  Theorem c11_commands : forall self g now p g' ev,
    process_command H true self g now p = Some (g', ev) ->
    let h := phash (xp_target p) (xp_call_data p) (xp_value p) in
    gv_refunds g' = gv_refunds g /\ gv_operator g' = gv_operator g /\
    (forall h', h' <> h -> getN (gv_eta g') h' = getN (gv_eta g) h' /\ getN (gv_tl_flight g') h' = getN (gv_tl_flight g) h' /\
                           getN (gv_approvals g') h' = getN (gv_approvals g) h' /\ getN (gv_op_flight g') h' = getN (gv_op_flight g) h') /\
    (if xp_cmd p =? 0 then
        getN (gv_eta g) h = 0 /\ getN (gv_tl_flight g) h = 0 /\
        getN (gv_eta g') h = N.max (xp_eta p) (now + gv_min_delay g) /\ now + gv_min_delay g <= getN (gv_eta g') h /\
        getN (gv_tl_flight g') h = 0 /\ gv_approvals g' = gv_approvals g /\ gv_op_flight g' = gv_op_flight g
     else if xp_cmd p =? 1 then
        getN (gv_eta g') h = 0 /\ getN (gv_tl_flight g') h = 0 /\ gv_approvals g' = gv_approvals g /\ gv_op_flight g' = gv_op_flight g
     else if xp_cmd p =? 2 then
        getN (gv_approvals g') h = 1 /\ gv_eta g' = gv_eta g /\ gv_tl_flight g' = gv_tl_flight g /\ gv_op_flight g' = gv_op_flight g
     else
        getN (gv_approvals g') h = 0 /\ getN (gv_op_flight g') h = 0 /\ gv_eta g' = gv_eta g /\ gv_tl_flight g' = gv_tl_flight g).
  Proof. exact (process_command_spec H). Qed.

  (* the callback: a failed call restores exactly the consumed eta (unless cancelled in flight);
     a successful call leaves the proposal gone *)
  Theorem c11_callback : forall self g p ok rets g' ev,
    callback true self g p ok rets = (g', ev) -> gp_kind p = PTimeLock ->
    let h := gp_hash p in
    getN (gv_tl_flight g') h = 0 /\
    getN (gv_eta g') h = (if ok then getN (gv_eta g) h else if getN (gv_tl_flight g) h =? 0 then getN (gv_eta g) h else gp_eta p) /\
    (forall h', h' <> h -> getN (gv_eta g') h' = getN (gv_eta g) h' /\ getN (gv_tl_flight g') h' = getN (gv_tl_flight g) h').
  Proof.
    intros self g p ok rets g' ev CB K. apply callback_spec in CB. cbv zeta in CB. destruct CB as (_ & _ & M).
    rewrite K in M. destruct M as (_ & _ & A & B & C). auto.
  Qed.

  (* for ALL schedules of all operations: a proposal that is cancelled (or was never scheduled) and not
     in flight can never be dispatched until a new schedule command for it is accepted — wherever the
     cancel was placed relative to dispatch, target call and callback *)
  Theorem c11_cancel_kills : forall w c chain id src payload p,
    dec_exec_payload payload = Some p -> xp_cmd p = 1 ->
    vo_ok (snd (step w (VExecute c chain id src payload))) = true ->
    Dead (fst (step w (VExecute c chain id src payload))) (phash (xp_target p) (xp_call_data p) (xp_value p)).
  Proof. exact (cancel_kills H verify). Qed.
  Theorem c11_cancelled_stays_cancelled : forall ops w h,
    Dead w h -> Forall (fun o => ~ is_schedule_of H o h) ops -> Dead (vrun H verify true w ops) h.
  Proof. exact (cancelled_stays_cancelled H verify). Qed.
  Theorem c11_dead_no_dispatch : forall w c t cd v, Dead w (phash t cd v) -> vo_ok (snd (step w (VExecProposal c t cd v))) = false.
  Proof. exact (dead_no_dispatch H verify). Qed.

  (* counting, for every operation of the world (Proofs/GovCount.v).  sched_of / accept_of / cb_of ok read
     one step's event off the operation and its outcome: an accepted schedule command for h, an accepted
     executeProposal for h, the callback of a time-lock dispatch of h reporting success / failure.
     The stored eta is consumed by every accepted dispatch and produced only by an accepted scheduling or
     given back by a failed call; a pending dispatch is produced only by an accepted executeProposal. *)
  Theorem c11_eta_potential : forall w o h,
    accept_of H verify w o h + bnz (getN (gv_eta (w_gov (fst (step w o)))) h) <=
    sched_of H verify w o h + cb_of false w o h + bnz (getN (gv_eta (w_gov w)) h).
  Proof. exact (eta_potential H verify). Qed.
  Theorem c11_pending_potential : forall w o h,
    cb_of true w o h + cb_of false w o h + npend h (w_pend (fst (step w o))) <= accept_of H verify w o h + npend h (w_pend w).
  Proof. exact (pending_potential H verify). Qed.
  (* every history, every schedule: successful dispatches of h <= accepted schedulings of h (+ what was
     scheduled or in flight at the start): each scheduling authorises at most one successful dispatch *)
  Theorem c11_one_success_per_scheduling : forall os w h,
    total H verify (cb_of true) w os h <= total H verify (sched_of H verify) w os h + bnz (getN (gv_eta (w_gov w)) h) + npend h (w_pend w).
  Proof. exact (successes_bounded_by_schedulings H verify). Qed.
  Theorem c11_accepts_bounded : forall os w h,
    total H verify (accept_of H verify) w os h <=
    total H verify (sched_of H verify) w os h + total H verify (cb_of false) w os h + bnz (getN (gv_eta (w_gov w)) h).
  Proof. exact (accepts_bounded H verify). Qed.
  (* "scheduled by an AUTHENTICATED governance command", end to end (Proofs/GovGwOrigin.v): a command accepted after any history that
     started without the message traces back to an approveMessages transaction of that history, accepted by the gateway, whose batch
     named exactly this command for the governance contract (see c12_command_traces_to_batch and c01_sound) *)
  Theorem c11_command_traces_to_batch : forall ops w0 c chain id src payload w' ev,
    mst (w_gw w0) (chain, id) = None ->
    gov_execute H true (vrun H verify true w0 ops) c chain id src payload = Some (w', ev) ->
    exists cg raw p ms m pre,
      In (VGateway (GApprove cg raw p)) ops /\ dec_messages_top raw = Some ms /\ In m ms /\ mkey m = (chain, id) /\
      mhash H m = message_hash H chain id src (x_self c) (H payload) /\
      Forall (fun go => In (VGateway go) ops \/ gis_val go) pre /\
      approve_messages H verify (grun H verify (w_gw w0) pre) raw p <> None.
  Proof. exact (command_traces_to_batch H verify). Qed.
  (* a time lock is never scheduled and in flight at once (Proofs/GovExcl.v): invariant over all nine operation kinds, hence in every world
     reachable from a freshly deployed contract; so the eta an error callback gives back to a failed dispatch never lands on an eta that a
     governance command has set in the meantime -- when a callback changes the eta of h, that eta was zero, the dispatch of h still marked in
     flight, and the call had failed; and nothing but a command, the consuming dispatch and that callback ever changes an eta *)
  Theorem c11_never_scheduled_and_in_flight : forall w o, Excl w -> Excl (fst (step w o)).
  Proof. exact (excl_step H verify). Qed.
  Theorem c11_exclusion_reachable : forall ops w, gv_eta (w_gov w) = [] -> Excl (vrun H verify true w ops).
  Proof. intros. apply excl_reachable. apply excl_fresh. assumption. Qed.
  Theorem c11_callback_restores_only_onto_empty : forall w self id h,
    Excl w ->
    getN (gv_eta (w_gov (fst (step w (VCallback self id))))) h <> getN (gv_eta (w_gov w)) h ->
    exists p rets, find_pending id (w_pend w) = Some p /\ gp_stage p = AwaitCallback false rets /\ gp_kind p = PTimeLock /\ gp_hash p = h /\
                   getN (gv_eta (w_gov w)) h = 0 /\ getN (gv_tl_flight (w_gov w)) h <> 0 /\
                   getN (gv_eta (w_gov (fst (step w (VCallback self id))))) h = gp_eta p.
  Proof. exact (callback_restores_only_onto_empty H verify). Qed.
  Theorem c11_eta_changes_only_by : forall w o h,
    getN (gv_eta (w_gov (fst (step w o)))) h <> getN (gv_eta (w_gov w)) h ->
    match o with VExecute _ _ _ _ _ | VExecProposal _ _ _ _ | VCallback _ _ => True | _ => False end.
  Proof. exact (eta_changes_only_by H verify). Qed.
End C11.

Print Assumptions c11_dispatch_requires.
Print Assumptions c11_commands.
Print Assumptions c11_callback.
Print Assumptions c11_cancelled_stays_cancelled.
Print Assumptions c11_dead_no_dispatch.
Print Assumptions c11_one_success_per_scheduling.
Print Assumptions c11_accepts_bounded.
Print Assumptions c11_exclusion_reachable.
Print Assumptions c11_callback_restores_only_onto_empty.
Print Assumptions c11_eta_changes_only_by.

(* non-vacuity of the counting theorems: schedule, dispatch, failed call (eta given back), dispatch again,
   successful call: 1 scheduling, 2 accepted dispatches, 1 failure, 1 success *)
Example c11_counting_nonvacuous :
  let h := proposal_hash keccak256 Refuted.tgt Refuted.cdata 0 in
  let os := [ VExecute (Refuted.cx 100) Refuted.chain (str "m1") Refuted.gaddr (Refuted.payload 0);
              VExecProposal (Refuted.cx 110) Refuted.tgt Refuted.cdata 0; VDeliver Refuted.self 0 false []; VCallback Refuted.self 0;
              VExecProposal (Refuted.cx 115) Refuted.tgt Refuted.cdata 0; VDeliver Refuted.self 1 true []; VCallback Refuted.self 1;
              VExecProposal (Refuted.cx 120) Refuted.tgt Refuted.cdata 0 ] in
  total keccak256 Refuted.vf (sched_of keccak256 Refuted.vf) Refuted.w0 os h = 1 /\
  total keccak256 Refuted.vf (accept_of keccak256 Refuted.vf) Refuted.w0 os h = 2 /\
  total keccak256 Refuted.vf (cb_of false) Refuted.w0 os h = 1 /\
  total keccak256 Refuted.vf (cb_of true) Refuted.w0 os h = 1.
Proof. vm_compute. repeat split; reflexivity. Qed.

(* non-vacuity of the exclusion theorems: the start world has no time lock; after schedule + dispatch the marker is set and the eta is zero;
   the failing callback then CHANGES the eta (gives it back) -- the case c11_callback_restores_only_onto_empty speaks about *)
Example c11_exclusion_nonvacuous :
  let h := proposal_hash keccak256 Refuted.tgt Refuted.cdata 0 in
  let w1 := vrun keccak256 Refuted.vf true Refuted.w0
              [ VExecute (Refuted.cx 100) Refuted.chain (str "m1") Refuted.gaddr (Refuted.payload 0);
                VExecProposal (Refuted.cx 110) Refuted.tgt Refuted.cdata 0; VDeliver Refuted.self 0 false [] ] in
  gv_eta (w_gov Refuted.w0) = [] /\ getN (gv_eta (w_gov w1)) h = 0 /\ getN (gv_tl_flight (w_gov w1)) h = 1 /\
  getN (gv_eta (w_gov (fst (vstep keccak256 Refuted.vf true w1 (VCallback Refuted.self 0))))) h <> 0.
Proof. vm_compute. repeat split; try reflexivity. discriminate. Qed.

(* the defect that was repaired (fix: commit in the repository): with the old callback the history
   schedule; dispatch; cancel-in-flight; failed call; callback lets the cancelled proposal run again *)
Example c11_unrepaired_refuted :
  vo_ok (snd (vstep keccak256 Refuted.vf false (vrun keccak256 Refuted.vf false Refuted.w0 Refuted.history)
                    (VExecProposal (Refuted.cx 120) Refuted.tgt Refuted.cdata 0))) = true.
Proof. exact Refuted.c11_unrepaired_refuted. Qed.
Example c11_repaired_same_history :
  vo_ok (snd (vstep keccak256 Refuted.vf true (vrun keccak256 Refuted.vf true Refuted.w0 Refuted.history)
                    (VExecProposal (Refuted.cx 120) Refuted.tgt Refuted.cdata 0))) = false.
Proof. exact (proj1 Refuted.c11_repaired_holds_here). Qed.

Example pin_gov_commands : gen_gov_commands = ["ScheduleTimeLockProposal"; "CancelTimeLockProposal"; "ApproveOperatorProposal"; "CancelOperatorApproval"]%string := eq_refl.
Example pin_gov_payload : gen_gov_ExecutePayload_fields = ["command"; "target"; "call_data"; "native_value"; "eta"]%string
  /\ gen_gov_DecodedCallData_fields = ["endpoint_name"; "arguments"; "min_gas_limit"]%string := conj eq_refl eq_refl.
Example pin_gov_hash_order : gen_gov_proposal_hash_order = ["target"; "call_data"; "native_value"]%string := eq_refl.
Example pin_gov_gas : gen_gov_EXECUTE_PROPOSAL_CALLBACK_GAS = CALLBACK_GAS /\ gen_gov_EXECUTE_PROPOSAL_CALLBACK_GAS_PER_PAYMENT = CALLBACK_GAS_PER_PAYMENT
  /\ gen_gov_KEEP_EXTRA_GAS = KEEP_EXTRA_GAS := conj eq_refl (conj eq_refl eq_refl).

Check c11_one_success_per_scheduling.
Check c11_cancelled_stays_cancelled : forall H verify ops w h,
    Dead w h -> Forall (fun o => ~ is_schedule_of H o h) ops -> Dead (vrun H verify true w ops) h.

Check c11_callback_restores_only_onto_empty.
Check c11_exclusion_reachable : forall H verify ops w, gv_eta (w_gov w) = [] -> Excl (vrun H verify true w ops).
