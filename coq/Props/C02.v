(* C02 — Gateway message lifecycle is monotone and each message validates at most once.
   Statements only; proofs in Proofs/GatewayMsgs.v. *)
From Coq Require Import String List NArith Lia.
From Ax Require Import Lib.Bytes Lib.Mvx Model.Gateway Proofs.AListFacts Proofs.GatewayMsgs Proofs.GatewayAuth Model.GatewayCheck Model.GWUpgrade Proofs.GWUpgradeFacts Gen.Generated.
Import ListNotations.
Open Scope N_scope.

Section C02.
  Variable H : bytes -> bytes.
  Variable verify : bytes -> bytes -> bytes -> bool.

  (* one step: executed is final; approved keeps its hash or becomes executed; non-existent
     never jumps to executed — for every operation by every caller *)
  Theorem c02_step_monotone : forall g o k, step_mono_at g (fst (gstep H verify g o)) k.
  Proof. exact (gstep_mono H verify). Qed.

  (* every history *)
  Theorem c02_rank_monotone : forall g ops k, (rank (mst g k) <= rank (mst (grun H verify g ops) k))%nat.
  Proof. exact (grun_rank_monotone H verify). Qed.
  Theorem c02_executed_final : forall g ops k, mst g k = Some MExecuted -> mst (grun H verify g ops) k = Some MExecuted.
  Proof. exact (grun_executed_final H verify). Qed.
  Theorem c02_approved_keeps_hash : forall g ops k h, mst g k = Some (MApproved h) ->
    mst (grun H verify g ops) k = Some (MApproved h) \/ mst (grun H verify g ops) k = Some MExecuted.
  Proof. exact (grun_approved_stays H verify). Qed.

  (* an id already approved or executed is untouched by any later batch, whatever it carries *)
  Theorem c02_batch_keeps : forall g ms k s, mst g k = Some s -> mst (fst (approve_all H g ms)) k = Some s.
  Proof. exact (approve_all_keeps H). Qed.
  (* a fresh id gets the contents of its first occurrence in the batch (duplicates inside a batch lose) *)
  Theorem c02_first_wins : forall g ms k, mst g k = None ->
    mst (fst (approve_all H g ms)) k =
      match find (fun m => pair_eqb k (mkey m)) ms with Some m => Some (MApproved (mhash H m)) | None => None end.
  Proof. exact (approve_all_fresh H). Qed.

  (* validation: true iff the stored state is Approved(hash of (id, source address, CALLER, payload hash));
     then the id becomes executed; otherwise nothing changes *)
  Theorem c02_validate_spec : forall g c chain id src ph g' b ev,
    validate_message H g c chain id src ph = Some (g', b, ev) ->
    length ph = 32%nat /\
    b = is_approved_with H g chain id src (c_caller c) ph /\
    (b = true -> g' = set_messages g (aset pair_eqb (chain, id) MExecuted (g_messages g)) /\ ev = [ev_executed chain id]) /\
    (b = false -> g' = g /\ ev = []).
  Proof. exact (validate_message_inv H). Qed.
  Theorem c02_approved_iff : forall g chain id src contract ph,
    is_approved_with H g chain id src contract ph = true <->
    mst g (chain, id) = Some (MApproved (message_hash H chain id src contract ph)).
  Proof. exact (is_approved_with_spec H). Qed.

  (* in any history, validation returns true at most once per id *)
  Theorem c02_at_most_once : forall g ops k, (count_true H verify g ops k <= 1)%nat.
  Proof. exact (validate_at_most_once H verify). Qed.

  (* a true result names an id approved in this history; unless the two hashed strings collide,
     exactly its source address, destination (= caller) and payload hash *)
  Theorem c02_binding : forall g0 ops c chain id src ph g' ev,
    g_messages g0 = [] ->
    validate_message H (grun H verify g0 ops) c chain id src ph = Some (g', true, ev) ->
    exists m, In m (batch_msgs H verify g0 ops) /\ m_chain m = chain /\ m_id m = id /\
      H (enc_msgkey chain id (m_src m) (m_contract m) (m_ph m)) = H (enc_msgkey chain id src (c_caller c) ph) /\
      (Nlen src < 2 ^ 32 -> Nlen (m_src m) < 2 ^ 32 -> length (c_caller c) = 32%nat -> length (m_contract m) = 32%nat ->
       (H (enc_msgkey chain id (m_src m) (m_contract m) (m_ph m)) = H (enc_msgkey chain id src (c_caller c) ph) ->
        enc_msgkey chain id (m_src m) (m_contract m) (m_ph m) = enc_msgkey chain id src (c_caller c) ph) ->
       m_src m = src /\ m_contract m = c_caller c /\ m_ph m = ph).
  Proof. exact (validate_binding H verify). Qed.

  (* views agree with the state *)
  Theorem c02_view_executed : forall g chain id, is_message_executed g chain id = true <-> mst g (chain, id) = Some MExecuted.
  Proof.
    intros. unfold is_message_executed. rewrite msg_state_mst.
    destruct (mst g (chain, id)) as [[h|]|]; split; intro E; try discriminate; reflexivity.
  Qed.
  (* the three stored encodings are pairwise distinct for 32-byte hashes *)
  Theorem c02_state_codec : forall h, length h = 32%nat -> render_mstate (MApproved h) <> render_mstate MExecuted /\ render_mstate (MApproved h) <> [] /\ render_mstate MExecuted <> [].
  Proof. intros h L. cbn. repeat split; intro E; try (rewrite E in L; discriminate); discriminate. Qed.
End C02.

Print Assumptions c02_step_monotone.
Print Assumptions c02_rank_monotone.
Print Assumptions c02_first_wins.
Print Assumptions c02_validate_spec.
Print Assumptions c02_at_most_once.
Print Assumptions c02_binding.

(* histories that also contain UPGRADE transactions (Model/GWUpgrade.v): an upgrade never touches the message table, so the
   life cycle is one-way along histories mixing the seven endpoint operations and upgrades in any order *)
Section C02U.
  Variable H : bytes -> bytes.
  Variable verify : bytes -> bytes -> bytes -> bool.
  Theorem c02_upgrade_keeps_messages : forall g now op srs g' ev,
    gw_upgrade H g now op srs = Some (g', ev) -> g_messages g' = g_messages g.
  Proof. exact (upgrade_messages H). Qed.
  Theorem c02_step_monotone_with_upgrades : forall g o k, step_mono_at g (fst (ugstep H verify g o)) k.
  Proof. exact (ugstep_mono H verify). Qed.
  Theorem c02_executed_final_with_upgrades : forall g ops k,
    mst g k = Some MExecuted -> mst (ugrun H verify g ops) k = Some MExecuted.
  Proof. exact (ugrun_executed_final H verify). Qed.
  Theorem c02_approved_keeps_hash_with_upgrades : forall g ops k h,
    mst g k = Some (MApproved h) ->
    mst (ugrun H verify g ops) k = Some (MApproved h) \/ mst (ugrun H verify g ops) k = Some MExecuted.
  Proof. exact (ugrun_approved_stays H verify). Qed.
  Theorem c02_at_most_once_with_upgrades : forall g ops k, (ucount_true H verify g ops k <= 1)%nat.
  Proof. exact (uvalidate_at_most_once H verify). Qed.
End C02U.
Print Assumptions c02_executed_final_with_upgrades.
Print Assumptions c02_approved_keeps_hash_with_upgrades.
Print Assumptions c02_at_most_once_with_upgrades.

Example pin_executed_marker : gen_gw_message_executed = render_mstate MExecuted := eq_refl.
Example pin_states : gen_gw_message_states = ["NonExistent"; "Approved"; "Executed"]%string := eq_refl.
Example pin_ccid : gen_gw_CrossChainId_fields = ["source_chain"; "message_id"]%string := eq_refl.
Example pin_events : gen_gw_events = ["contract_call_event"; "message_approved_event"; "message_executed_event"; "signers_rotated_event"; "operatorship_transferred_event"]%string := eq_refl.

Check c02_at_most_once : forall H verify g ops k, (count_true H verify g ops k <= 1)%nat.
Check c02_step_monotone : forall H verify g o k, step_mono_at g (fst (gstep H verify g o)) k.

Check c02_executed_final_with_upgrades : forall H verify g ops k,
    mst g k = Some MExecuted -> mst (ugrun H verify g ops) k = Some MExecuted.
