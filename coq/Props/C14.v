(* C14 — ITS token ids are deterministic, domain-separated, and bind one manager forever.
   Statements only; proofs in Proofs/ItsWorld.v and Proofs/ItsMore.v. *)
From Coq Require Import String List NArith Lia Bool.
From Ax Require Import Lib.Bytes Lib.Mvx Lib.SolAbi Lib.Keccak Model.Check Model.Env Model.Gateway Model.TokenManager Model.Its
     Proofs.GatewayMsgs Proofs.TMFacts Proofs.ItsFacts Proofs.ItsWorld Proofs.ItsMore Gen.Generated.
Import ListNotations.
Open Scope N_scope.

Section C14.
  Variable H : bytes -> bytes.
  Variable verify : bytes -> bytes -> bytes -> bool.

  (* the published derivations (pure functions of kind prefix, chain name hash, deployer/salt or token) *)
  Theorem c14_interchain_id : forall s deployer salt, interchain_token_id H s deployer salt =
      H (H PREFIX_TOKEN_ID ++ zero32 ++ H (H PREFIX_INTERCHAIN ++ i_chain_hash s ++ deployer ++ salt)).
  Proof. exact (token_id_derivation H). Qed.
  Theorem c14_canonical_id : forall s token, canonical_token_id H s token = H (H PREFIX_TOKEN_ID ++ zero32 ++ H (H PREFIX_CANONICAL ++ i_chain_hash s ++ token)).
  Proof. exact (canonical_id_derivation H). Qed.
  Theorem c14_linked_id : forall s deployer salt, linked_token_id H s deployer salt = H (H PREFIX_TOKEN_ID ++ zero32 ++ H (H PREFIX_CUSTOM ++ i_chain_hash s ++ deployer ++ salt)).
  Proof. exact (linked_id_derivation H). Qed.
  (* = abi.encode of the bytes32 tuples of the reference implementation *)
  Theorem c14_abi_tuple4 : forall a b c d, enc_spec [TBytes32 a; TBytes32 b; TBytes32 c; TBytes32 d] = Some (a ++ b ++ c ++ d).
  Proof. exact enc4. Qed.
  (* different kinds, chains, deployers or salts never share a preimage *)
  Theorem c14_preimage_inj : forall (p ch d s p' ch' d' s' : bytes),
    length p = 32%nat -> length p' = 32%nat -> length ch = 32%nat -> length ch' = 32%nat -> length d = 32%nat -> length d' = 32%nat ->
    p ++ ch ++ d ++ s = p' ++ ch' ++ d' ++ s' -> p = p' /\ ch = ch' /\ d = d' /\ s = s'.
  Proof. exact salt_preimage_inj. Qed.
  Theorem c14_kind_prefix : forall (p r p' r' : bytes), length p = 32%nat -> length p' = 32%nat -> p ++ r = p' ++ r' -> p = p'.
  Proof. exact kind_prefix_first. Qed.

  (* a manager is created only for an unbound token id, at the provided address, with exactly the
     requested type, token, operator and the service as its service *)
  Theorem c14_create : forall w c token_id ty token operator w',
    deploy_tm w c token_id ty token operator = Some w' ->
    tm_addr (iw_its w) token_id = [] /\ ic_newtm c <> [] /\
    exists t ev, tm_init (ic_newtm c) (ic_self c) ty token_id (if bytes_eqb operator [] then None else Some operator) token = Some (t, ev) /\
      w' = w_its (w_tm w (ic_newtm c) t) (set_tm (iw_its w) token_id (ic_newtm c)).
  Proof. exact deploy_tm_spec. Qed.

  (* write-once, over every operation of every caller and every asynchronous step, and every history *)
  Theorem c14_binding_forever_step : forall w o, tms_mono w (fst (istep H verify w o)).
  Proof. exact (istep_tms_mono H verify). Qed.
  Theorem c14_binding_forever : forall ops w, tms_mono w (irun H verify w ops).
  Proof. exact (irun_tms_mono H verify). Qed.

  (* local registrations derive the id from the caller's own address *)
  Theorem c14_local_deployer : forall w c salt n sy d sup m w' rets ev,
    deploy_interchain_token_ep H w c salt n sy d sup m = Some (w', rets, ev) -> rets = [interchain_token_id H (iw_its w) (ic_caller c) salt].
  Proof. exact (deploy_token_uses_caller H). Qed.
  Theorem c14_custom_not_native : forall w c salt tok ty op w' rets ev,
    register_custom_token H w c salt tok ty op = Some (w', rets, ev) -> rets = [linked_token_id H (iw_its w) (ic_caller c) salt] /\ ty <> T_NATIVE.
  Proof. exact (register_custom_uses_caller H). Qed.
End C14.
Print Assumptions c14_binding_forever.
Print Assumptions c14_create.
Print Assumptions c14_preimage_inj.
Example c14_prefix_hashes_distinct :
  let hs := map keccak256 [PREFIX_TOKEN_ID; PREFIX_CANONICAL; PREFIX_INTERCHAIN; PREFIX_APPROVAL; PREFIX_CUSTOM] in
  forallb (fun i => forallb (fun j => Nat.eqb i j || negb (bytes_eqb (nth i hs []) (nth j hs []))) (seq 0 5)) (seq 0 5) = true.
Proof. exact prefix_hashes_distinct. Qed.
Example pin_prefixes : [gen_its_PREFIX_INTERCHAIN_TOKEN_ID; gen_its_PREFIX_CANONICAL_TOKEN_SALT; gen_its_PREFIX_INTERCHAIN_TOKEN_SALT; gen_its_PREFIX_CUSTOM_TOKEN_SALT]
  = [PREFIX_TOKEN_ID; PREFIX_CANONICAL; PREFIX_INTERCHAIN; PREFIX_CUSTOM] := eq_refl.
Example pin_prefix_text : PREFIX_TOKEN_ID = str "its-interchain-token-id" /\ PREFIX_CANONICAL = str "canonical-token-salt" /\ PREFIX_INTERCHAIN = str "interchain-token-salt"
  /\ PREFIX_CUSTOM = str "custom-token-salt" := conj eq_refl (conj eq_refl (conj eq_refl eq_refl)).
Example pin_its_storage : gen_its_storage = ["approved_destination_minters"; "chain_name"; "chain_name_hash"; "gas_service"; "gateway"; "token_manager";
  "token_manager_address"; "transfer_with_data_lock"; "trusted_address"]%string := eq_refl.
Check c14_binding_forever.
