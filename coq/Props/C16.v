(* C16 — Governance credits failed dispatch payments to the caller, withdrawable once.
   Statements only; proofs in Proofs/GovFacts.v and Proofs/GovWorld.v. *)
From Coq Require Import String List NArith Lia Bool.
From Ax Require Import Lib.Bytes Lib.Mvx Model.Check Model.Env Model.Gateway Model.Governance
     Proofs.GovFacts Proofs.GovWorld Proofs.GovCredits Gen.Generated.
Import ListNotations.
Open Scope N_scope.

Section C16.
  Variable H : bytes -> bytes.
  Variable verify : bytes -> bytes -> bytes -> bool.
  Notation step := (vstep H verify true).

  (* a failed dispatch credits every attached amount to its caller, additively per token (a token
     attached twice is credited twice); nobody else's credit moves *)
  Theorem c16_credit : forall g u v u' tok nonce,
    refund_of (credit_failure g u v) u' tok nonce =
      refund_of g u' tok nonce +
      (if bytes_eqb u' u then
         match cv_esdt v with
         | [] => if bytes_eqb tok EGLD && (nonce =? 0) then cv_egld v else 0
         | ps => sum_for tok nonce ps
         end
       else 0).
  Proof. exact credit_failure_spec. Qed.

  (* the callback of any pending dispatch, under any schedule: credits change by exactly that on failure, not at all on success *)
  Theorem c16_callback_credits : forall w self id p ok rets,
    find_pending id (w_pend w) = Some p -> gp_stage p = AwaitCallback ok rets ->
    forall u tok nonce,
      refund_of (w_gov (fst (step w (VCallback self id)))) u tok nonce =
      refund_of (if ok then w_gov w else credit_failure (w_gov w) (gp_caller p) (gp_pay p)) u tok nonce.
  Proof. exact (callback_step_credits H verify). Qed.

  (* withdrawal: only the caller's own credit for that token, in full, zeroed; a second withdrawal moves nothing *)
  Theorem c16_withdraw : forall w c tok nonce w' ev,
    gov_withdraw_refund w c tok nonce = Some (w', ev) ->
    let v := refund_of (w_gov w) (x_caller c) tok nonce in
    refund_of (w_gov w') (x_caller c) tok nonce = 0 /\
    (forall u t n, (u, (t, n)) <> (x_caller c, (tok, nonce)) -> refund_of (w_gov w') u t n = refund_of (w_gov w) u t n) /\
    (v = 0 -> w_led w' = w_led w) /\
    (v <> 0 -> transfer (w_led w) (x_self c) (x_caller c) (ltok tok nonce) v = Some (w_led w')) /\
    tables w' = tables w.
  Proof. exact gov_withdraw_refund_spec. Qed.

  (* no other operation touches the credits: outstanding = attached to failed dispatches - withdrawn *)
  Theorem c16_frame : forall w o,
    match o with
    | VCallback _ _ | VWithdrawRefund _ _ _ => True
    | _ => gv_refunds (w_gov (fst (step w o))) = gv_refunds (w_gov w)
    end.
  Proof. exact (refunds_frame H verify). Qed.

  (* every operation, every caller, every schedule: the credit of (u, tok, nonce) moves by exactly what the
     callback of a failed dispatch by u credits and what a successful withdrawal by u takes *)
  Theorem c16_credits_step : forall w o u tok nonce,
    refund_of (w_gov (fst (step w o))) u tok nonce + withdrawn_by H verify w o u tok nonce =
    refund_of (w_gov w) u tok nonce + credited_by w o u tok nonce.
  Proof. exact (credits_step H verify). Qed.
  (* every history: outstanding credit = initial credit + attached to failed dispatches - withdrawn *)
  Theorem c16_credits_history : forall os w u tok nonce,
    refund_of (w_gov (vrun H verify true w os)) u tok nonce + total_withdrawn H verify w os u tok nonce =
    refund_of (w_gov w) u tok nonce + total_credited H verify w os u tok nonce.
  Proof. exact (credits_history H verify). Qed.
  Theorem c16_withdrawn_owner_only : forall w c t n u tok nonce,
    x_caller c <> u -> withdrawn_by H verify w (VWithdrawRefund c t n) u tok nonce = 0.
  Proof. exact (withdrawn_owner_only H verify). Qed.
End C16.

Print Assumptions c16_credit.
Print Assumptions c16_callback_credits.
Print Assumptions c16_withdraw.
Print Assumptions c16_frame.
Print Assumptions c16_credits_history.

Example pin_gov_token : gen_gov_EgldOrEsdtToken_fields = ["token_identifier"; "token_nonce"]%string := eq_refl.
Example pin_gov_refund_storage : In "refund_token"%string gen_gov_storage.
Proof. cbn. tauto. Qed.

(* non-vacuity: two ESDT payments of the same token are credited twice *)
Example c16_nonvacuous :
  let g := {| gv_gateway := []; gv_chain := []; gv_address := []; gv_min_delay := 0; gv_operator := []; gv_eta := []; gv_tl_flight := [];
              gv_approvals := []; gv_op_flight := []; gv_refunds := [] |} in
  let u := be_enc 32 4 in
  let v := {| cv_egld := 0; cv_esdt := [ {| ep_token := str "TOK-123456"; ep_nonce := 0; ep_amount := 3 |}; {| ep_token := str "TOK-123456"; ep_nonce := 0; ep_amount := 4 |} ] |} in
  refund_of (credit_failure g u v) u (str "TOK-123456") 0 = 7.
Proof. vm_compute. reflexivity. Qed.

Check c16_callback_credits.
Check c16_frame.
Check c16_credits_history.
