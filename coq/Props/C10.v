(* C10 — Token manager custody, mint authority and role transfers are exact and gated.
   Statements only; proofs in Proofs/TMFacts.v. *)
From Coq Require Import String List NArith Lia.
From Ax Require Import Lib.Bytes Lib.Mvx Lib.Keccak Model.Check Model.Env Model.Gateway Model.TokenManager Model.TMUpgrade Model.Its Proofs.TMFacts Proofs.TMCustody Proofs.TMProposals Proofs.TMUpgradeFacts
     Proofs.ItsMore Proofs.ItsTmGeneric Gen.Generated.
Import ListNotations.
Open Scope N_scope.

Theorem c10_give_service_only : forall t l c d a, t_caller c <> tm_service t -> give_token t l c d a = None.
Proof. exact give_only_service. Qed.
Theorem c10_take_service_only : forall t l c, t_caller c <> tm_service t -> take_token t l c = None.
Proof. exact take_only_service. Qed.

(* lock/unlock: giving is exactly a transfer of the amount out of custody; taking keeps the payment *)
Theorem c10_give_lock : forall t l c d a t' l' rets logs,
  is_mint_type (tm_type t) = false -> give_token t l c d a = Some (t', l', rets, logs) ->
  t_caller c = tm_service t /\ tm_token t <> [] /\
  transfer l (t_self c) d (tm_token t) a = Some l' /\ rets = [tm_token t; be_min a].
Proof. exact give_lock_effect. Qed.
Theorem c10_take_lock : forall t l c t' l' rets logs,
  is_mint_type (tm_type t) = false -> take_token t l c = Some (t', l', rets, logs) ->
  t_caller c = tm_service t /\ l' = l /\
  exists amount, egld_or_single_fungible (t_value c) = Some (tm_token t, amount) /\ rets = [be_min amount].
Proof. exact take_lock_effect. Qed.
Theorem c10_transfer_exact : forall l from to t v l', transfer l from to t v = Some l' -> from <> to ->
  v <= bal l from t /\ bal l' from t = bal l from t - v /\ bal l' to t = bal l to t + v /\
  (forall a t', (a, t') <> (from, t) -> (a, t') <> (to, t) -> bal l' a t' = bal l a t').
Proof. exact transfer_spec. Qed.

(* mint/burn: supply moves by exactly the amount, the manager holds nothing *)
Theorem c10_give_mint : forall t l c d a t' l' rets logs,
  is_mint_type (tm_type t) = true -> give_token t l c d a = Some (t', l', rets, logs) -> d <> t_self c ->
  bal l' (t_self c) (tm_token t) = bal l (t_self c) (tm_token t) /\ bal l' d (tm_token t) = bal l d (tm_token t) + a.
Proof. exact give_mint_balances. Qed.
Theorem c10_take_mint : forall t l c t' l' rets logs,
  is_mint_type (tm_type t) = true -> take_token t l c = Some (t', l', rets, logs) ->
  t_caller c = tm_service t /\
  exists amount, egld_or_single_fungible (t_value c) = Some (tm_token t, amount) /\
                 debit l (t_self c) (tm_token t) amount = Some l' /\ rets = [be_min amount].
Proof. exact take_mint_effect. Qed.

(* direct mint and burn: native manager, minter role, token recorded *)
Theorem c10_mint_requires : forall t l c a v r, tm_mint t l c a v = Some r ->
  tm_type t = T_NATIVE /\ intersects (roles_of t (t_caller c)) MINTER = true /\ tm_token t <> [].
Proof. exact mint_requires. Qed.
Theorem c10_burn_requires : forall t l c r, tm_burn t l c = Some r ->
  tm_type t = T_NATIVE /\ intersects (roles_of t (t_caller c)) MINTER = true /\ tm_token t <> [].
Proof. exact burn_requires. Qed.

(* role transfers: the holder loses the role, the target gets it, nobody else changes *)
Theorem c10_transfer_role : forall self t src dst r t' e,
  transfer_role self t src dst r = Some (t', e) ->
  N.land (roles_of t src) r = r /\ (src <> dst -> N.land (roles_of t' src) r = 0) /\ N.land (roles_of t' dst) r = r /\
  (forall a, a <> src -> a <> dst -> roles_of t' a = roles_of t a) /\ tm_proposed t' = tm_proposed t.
Proof. exact transfer_role_spec. Qed.
(* proposals: exactly the proposed account, exactly the proposed roles, usable once *)
Theorem c10_accept_role : forall self t src dst r t' e,
  accept_role self t src dst r = Some (t', e) ->
  proposed_of t src dst = r /\ r <> 0 /\ proposed_of t' src dst = 0 /\ accept_role self t' src dst r = None.
Proof. exact accept_role_spec. Qed.
Theorem c10_accept_wrong_account : forall self t src other r, proposed_of t src other = 0 -> accept_role self t src other r = None.
Proof. exact accept_wrong_account. Qed.
(* who may start them *)
Theorem c10_transfer_operatorship_auth : forall t l c a r, transfer_operatorship t l c a = Some r -> intersects (roles_of t (t_caller c)) OPERATOR = true.
Proof. exact transfer_operatorship_auth. Qed.
Theorem c10_transfer_mintership_auth : forall t l c a r, transfer_mintership t l c a = Some r -> intersects (roles_of t (t_caller c)) MINTER = true.
Proof. exact transfer_mintership_auth. Qed.
Theorem c10_flow_limiter_ops_auth : forall t l c a b r,
  (add_flow_limiter t l c a = Some r \/ remove_flow_limiter t l c a = Some r \/ transfer_flow_limiter t l c a b = Some r) ->
  intersects (roles_of t (t_caller c)) OPERATOR = true.
Proof. exact flow_limiter_ops_auth. Qed.
(* every other operation leaves all roles unchanged *)
Theorem c10_roles_frame : forall t l o,
  match o with
  | TGive _ _ _ | TTake _ | TSetLimit _ _ | TMint _ _ _ | TBurn _ | TIssueCallback _ _ => tm_roles (fst (fst (tstep t l o))) = tm_roles t
  | _ => True
  end.
Proof. exact roles_frame. Qed.
Theorem c10_no_redeploy : forall t l c m n s, tm_token t <> [] -> deploy_interchain_token t l c m n s = None.
Proof. exact deploy_refused_when_token_set. Qed.

(* ---- history level (Proofs/TMCustody.v): lock/unlock custody over EVERY sequence of the sixteen operations by any callers
   (other than the manager calling itself): holdings = initial holdings + everything taken - everything given.
   taken_by / given_by are what one transaction takes in / gives out when it succeeds (0 when it fails). *)
Theorem c10_custody_step : forall t l o self tok,
  lockish t self tok ->
  (forall c, top_ctx o = Some c -> t_self c = self /\ t_caller c <> self) ->
  (match o with TIssueCallback s _ => s = self | _ => True end) ->
  let '(t', l', out) := tstep t l o in
  lockish t' self tok /\ bal l' self tok + given_by self o out = bal l self tok + taken_by o out.
Proof. exact lock_custody_step. Qed.
Theorem c10_custody_history : forall ops t l self tok, lockish t self tok -> ops_ok self ops ->
  let '(t', l') := trun t l ops in
  lockish t' self tok /\ bal l' self tok + total_given self t l ops = bal l self tok + total_taken t l ops.
Proof. exact lock_custody_history. Qed.

(* ---- the upgrade path (Model/TMUpgrade.v, Proofs/TMUpgradeFacts.v): `upgrade` re-runs the constructor on an existing manager ----
   whatever its arguments: the recorded service, token id, flow limit and counters, pending issuances and proposals stay; a recorded
   token stays; a lock/unlock or mint/burn type stays (a NATIVE type, stored as the empty buffer, is replaced -- see the Example below);
   no funds move; roles are only added, and only to the operator and service named in the arguments.  Upgrades can be sent by the
   manager's owner only (the protocol's rule, not the contract's); for managers deployed by the token service that owner is the service
   contract, which has no code path that upgrades a manager: histories with upgrades are outside what the deployed system can do, the
   theorems say what they could and could not change *)
Theorem c10_upgrade_spec : forall t self service ty tid operator token t' e,
  tm_upgrade t self service ty tid operator token = Some (t', e) ->
  fixed_eq t t' /\
  (tm_type t <> T_NATIVE -> tm_type t' = tm_type t) /\ (tm_type t = T_NATIVE -> tm_type t' = ty) /\
  (tm_token t <> [] -> tm_token t' = tm_token t) /\
  (tm_token t = [] -> tm_token t' = match token with Some tk => tk | None => [] end) /\
  (forall a, N.land (roles_of t' a) (roles_of t a) = roles_of t a) /\
  (forall a, a <> service -> a <> match operator with Some o => o | None => zero32 end -> roles_of t' a = roles_of t a).
Proof. exact upgrade_spec. Qed.
Theorem c10_upgrade_moves_nothing : forall t l u, snd (fst (ustep t l (inr u))) = l.
Proof. exact upgrade_ledger. Qed.
(* histories of endpoint calls, issuance callbacks and upgrades with arbitrary arguments, in any order: the service recorded at
   deployment is the recorded service for ever, so nobody else ever makes the manager give or take *)
Theorem c10_service_forever : forall ops t l, tm_service (fst (urun t l ops)) = tm_service t.
Proof. exact urun_service. Qed.
Theorem c10_give_after_history_service_only : forall ops t0 l0 l c d a,
  t_caller c <> tm_service t0 -> give_token (fst (urun t0 l0 ops)) l c d a = None.
Proof. exact give_after_history_service_only. Qed.
Theorem c10_take_after_history_service_only : forall ops t0 l0 l c,
  t_caller c <> tm_service t0 -> take_token (fst (urun t0 l0 ops)) l c = None.
Proof. exact take_after_history_service_only. Qed.
Theorem c10_token_forever_with_upgrades : forall ops t l, tm_token t <> [] -> tm_token (fst (urun t l ops)) = tm_token t.
Proof. exact urun_token. Qed.

(* ---- in the ITS world (Proofs/ItsTmGeneric.v): token managers move by token-manager operations only -- for any preorder respected by every
   endpoint call and manager step, the manager at a watched address is related to itself across all 25 operation kinds of the world
   (assumption about the environment: new managers are deployed at fresh addresses).  Instance: service, token id and type never change;
   so, whatever happened in between, the manager gives and takes only for the service recorded at its deployment *)
Theorem c10_identity_forever_in_world : forall H verify a ops w t,
  Forall (fun o => forall c, iop_ctx' o = Some c -> ic_newtm c <> a) ops ->
  get_tm w a = Some t -> exists t', get_tm (irun H verify w ops) a = Some t' /\ same_identity t t'.
Proof. exact its_tm_identity_forever. Qed.
Theorem c10_give_service_only_in_world : forall H verify a ops w t t' l c d x,
  Forall (fun o => forall c0, iop_ctx' o = Some c0 -> ic_newtm c0 <> a) ops ->
  get_tm w a = Some t -> get_tm (irun H verify w ops) a = Some t' ->
  t_caller c <> tm_service t -> give_token t' l c d x = None.
Proof. exact its_tm_give_service_only. Qed.
Theorem c10_take_service_only_in_world : forall H verify a ops w t t' l c,
  Forall (fun o => forall c0, iop_ctx' o = Some c0 -> ic_newtm c0 <> a) ops ->
  get_tm w a = Some t -> get_tm (irun H verify w ops) a = Some t' ->
  t_caller c <> tm_service t -> take_token t' l c = None.
Proof. exact its_tm_take_service_only. Qed.

Print Assumptions c10_give_lock.
Print Assumptions c10_identity_forever_in_world.
Print Assumptions c10_give_service_only_in_world.
Print Assumptions c10_upgrade_spec.
Print Assumptions c10_service_forever.
Print Assumptions c10_give_after_history_service_only.
Print Assumptions c10_custody_history.
Print Assumptions c10_give_mint.
Print Assumptions c10_transfer_role.
Print Assumptions c10_accept_role.
Print Assumptions c10_roles_frame.

(* proposals over whole histories (Proofs/TMProposals.v, written after seed C10-r15): the table of pending proposals is touched by the two
   propose and the two accept endpoints only, in exactly this way (all sixteen operations); and for every pair (from, to) and role r <> 0 the
   successful accepts by `to` of r from `from` never outnumber the successful proposals of exactly r by `from` to `to` (plus what the slot held
   at the start) -- in every history: a replaced or used proposal authorises nothing, an accepted proposal cannot be replayed *)
Theorem c10_proposals_changed_only_by : forall t l o t' l' r e, run_endpoint t l o = Some (t', l', r, e) -> pchange t t' o.
Proof. exact run_endpoint_pchange. Qed.
Theorem c10_proposal_step : forall f to r, r <> 0 -> forall t l o,
  accepted_ok f to r t l o + holds f to r (fst (fst (tstep t l o))) <= holds f to r t + proposed_ok f to r t l o.
Proof. exact proposal_step. Qed.
Theorem c10_accepts_never_outnumber_proposals : forall f to r, r <> 0 -> forall ops t l,
  total (accepted_ok f to r) t l ops <= holds f to r t + total (proposed_ok f to r) t l ops.
Proof. exact accepts_never_outnumber_proposals. Qed.
Print Assumptions c10_proposals_changed_only_by.
Print Assumptions c10_accepts_never_outnumber_proposals.

(* non-vacuity: the operator (who is also a minter) proposes operatorship and then mintership to the same account: the second proposal
   replaces the first, so accepting operatorship is refused, accepting mintership succeeds once and is refused the second time:
   one counted proposal of MINTER, one counted accept; no counted accept of OPERATOR although one was proposed *)
Example c10_proposals_nonvacuous :
  let self := be_enc 32 32 in let a := be_enc 32 11 in let b := be_enc 32 13 in
  let t := {| tm_service := be_enc 32 9; tm_type := T_NATIVE; tm_tid := zeros 32; tm_token := str "MTK-abcdef"; tm_roles := [(a, N.lor MINTER OPERATOR)];
              tm_proposed := []; tm_limit := 0; tm_in := []; tm_out := []; tm_pending := 0 |} in
  let c who := {| t_self := self; t_caller := who; t_now := 0; t_value := no_value |} in
  let ops := [TProposeOp (c a) b; TProposeMint (c a) b; TAcceptOp (c b) a; TAcceptMint (c b) a; TAcceptMint (c b) a] in
  total (proposed_ok a b MINTER) t [] ops = 1 /\ total (accepted_ok a b MINTER) t [] ops = 1 /\
  total (proposed_ok a b OPERATOR) t [] ops = 1 /\ total (accepted_ok a b OPERATOR) t [] ops = 0 /\
  roles_of (fst (trun t [] ops)) b = MINTER /\ roles_of (fst (trun t [] ops)) a = OPERATOR.
Proof. vm_compute. repeat split; reflexivity. Qed.

Example pin_role_bits : gen_role_bits = [("MINTER", MINTER); ("OPERATOR", OPERATOR); ("FLOW_LIMITER", FLOW_LIMITER)]%string := eq_refl.
Example pin_issue_cost : gen_tm_issue_cost = ISSUE_COST := eq_refl.
Example pin_tm_types : map snd gen_tm_to_u8 = [T_NATIVE; T_MINT_BURN_FROM; T_LOCK_UNLOCK; T_LOCK_UNLOCK_FEE; T_MINT_BURN] := eq_refl.
Example pin_tm_storage : gen_tm_storage = ["account_roles"; "flow_in_amount"; "flow_limit"; "flow_out_amount"; "implementation_type";
  "interchain_token_id"; "interchain_token_service"; "proposed_roles"; "token_identifier"]%string := eq_refl.
Example pin_tm_endpoints : gen_tm_endpoints = ["acceptMintership"; "acceptOperatorship"; "addFlowLimiter"; "burn"; "deployInterchainToken"; "giveToken"; "mint";
  "proposeMintership"; "proposeOperatorship"; "removeFlowLimiter"; "setFlowLimit"; "takeToken"; "transferFlowLimiter"; "transferMintership"; "transferOperatorship"]%string := eq_refl.

Check c10_give_lock.
Check c10_roles_frame.

(* non-vacuity: a lock/unlock manager, the service takes 50 then gives 20: holdings 30 = 0 + 50 - 20 *)
Example c10_custody_nonvacuous :
  let self := be_enc 32 32 in let svc := be_enc 32 9 in let u := be_enc 32 7 in let tok := str "TOK-123456" in
  match tm_init self svc T_LOCK_UNLOCK (zeros 32) None (Some tok) with
  | Some (t, _) =>
      let l := [((svc, tok), 100)] in
      let c v := {| t_self := self; t_caller := svc; t_now := 0; t_value := v |} in
      let ops := [TTake (c {| cv_egld := 0; cv_esdt := [{| ep_token := tok; ep_nonce := 0; ep_amount := 50 |}] |}); TGive (c no_value) u 20] in
      is_mint_type (tm_type t) = false /\ tm_token t = tok /\ tm_pending t = 0 /\
      bal (snd (trun t l ops)) self tok = 30 /\ total_taken t l ops = 50 /\ total_given self t l ops = 20
  | None => False
  end.
Proof. vm_compute. repeat split; reflexivity. Qed.

(* the upgrade path is not vacuous, and the one thing it does replace: a native manager (type 0, stored as the empty buffer) upgraded with
   the arguments of a lock/unlock manager becomes a lock/unlock manager; a lock/unlock manager upgraded with another service, type,
   token id and token keeps all four *)
Module UP.
  Definition A (n : N) := be_enc 32 n.
  Definition native : tm := {| tm_service := A 9; tm_type := T_NATIVE; tm_tid := A 77; tm_token := str "MTK-abcdef"; tm_roles := [(A 9, 6)]; tm_proposed := [];
                               tm_limit := 5; tm_in := []; tm_out := []; tm_pending := 0 |}.
  Definition lock : tm := {| tm_service := A 9; tm_type := T_LOCK_UNLOCK; tm_tid := A 77; tm_token := str "TOK-123456"; tm_roles := [(A 9, 6)]; tm_proposed := [];
                             tm_limit := 5; tm_in := []; tm_out := []; tm_pending := 0 |}.
  Definition up := TUpgrade (A 32) (A 13) T_LOCK_UNLOCK_FEE (A 78) (Some (A 13)) (Some (str "OTHER-abcdef")).
End UP.
Example c10_upgrade_nonvacuous :
  let '(t1, l1, o1) := ustep UP.native [] (inr UP.up) in
  let '(t2, l2, o2) := ustep UP.lock [] (inr UP.up) in
  to_ok o1 = true /\ tm_type t1 = T_LOCK_UNLOCK_FEE /\ tm_service t1 = UP.A 9 /\ tm_token t1 = str "MTK-abcdef" /\ roles_of t1 (UP.A 13) = 6 /\
  to_ok o2 = true /\ tm_type t2 = T_LOCK_UNLOCK /\ tm_service t2 = UP.A 9 /\ tm_tid t2 = UP.A 77 /\ tm_token t2 = str "TOK-123456" /\ tm_limit t2 = 5.
Proof. vm_compute. repeat split; reflexivity. Qed.
Check c10_service_forever.
Check c10_upgrade_spec.

(* non-vacuity in the world: the history of Proofs/ItsMore.v (an inbound transfer with data, two outbound transfers, a failed delivery)
   meets the freshness premise, the manager exists before and after, and its flow counters DID change while its identity did not *)
Example c10_in_world_nonvacuous :
  Forall (fun o => forall c, iop_ctx' o = Some c -> ic_newtm c <> Findings.tma) Findings.h08 /\
  get_tm Findings.w08 Findings.tma = Some (Findings.tm0 10) /\
  match get_tm (irun keccak256 Findings.vf Findings.w08 Findings.h08) Findings.tma with
  | Some t' => tm_service t' = Findings.self /\ tm_tid t' = Findings.tid /\ tm_type t' = T_LOCK_UNLOCK /\ tm_out t' <> []
  | None => False end.
Proof.
  split; [|vm_compute; repeat split; try reflexivity; discriminate].
  repeat constructor; intros c E; cbn in E; inversion E; subst; vm_compute; discriminate.
Qed.
Check c10_identity_forever_in_world.

Check c10_accepts_never_outnumber_proposals : forall f to r, r <> 0 -> forall ops t l,
  total (accepted_ok f to r) t l ops <= holds f to r t + total (proposed_ok f to r) t l ops.
