(* C09 — Token manager flow limit bounds net flow per six-hour epoch.
   Statements only; proofs in Proofs/FlowLimit.v. *)
From Coq Require Import String List NArith Lia.
From Ax Require Import Lib.Bytes Lib.Mvx Model.Check Model.Env Model.TokenManager Proofs.FlowLimit Gen.Generated.
Import ListNotations.
Open Scope N_scope.

(* the acceptance rule, exactly *)
Theorem c09_add_flow_spec : forall limit a c x v,
  add_flow limit a c x = Some v <-> (a + x <= c + limit /\ x <= limit /\ v = a + x).
Proof. exact add_flow_spec. Qed.

(* an accepted inbound transfer is at most L and leaves the inbound net flow of its epoch at most L;
   nothing else moves; with limit 0 nothing is counted *)
Theorem c09_accept_in : forall t now x t',
  add_flow_in t now x = Some t' ->
  tm_limit t' = tm_limit t /\ (tm_limit t = 0 -> t' = t) /\
  (tm_limit t <> 0 ->
     let e := epoch_of_time now in
     x <= tm_limit t /\ fin t' e = fin t e + x /\ fin t' e <= fout t' e + tm_limit t /\
     fout t' = fout t /\ (forall e', e' <> e -> fin t' e' = fin t e')).
Proof. exact add_flow_in_spec. Qed.
Theorem c09_accept_out : forall t now x t',
  add_flow_out t now x = Some t' ->
  tm_limit t' = tm_limit t /\ (tm_limit t = 0 -> t' = t) /\
  (tm_limit t <> 0 ->
     let e := epoch_of_time now in
     x <= tm_limit t /\ fout t' e = fout t e + x /\ fout t' e <= fin t' e + tm_limit t /\
     fin t' = fin t /\ (forall e', e' <> e -> fout t' e' = fout t e')).
Proof. exact add_flow_out_spec. Qed.

(* rejected exactly when the amount exceeds L or would push the net flow above L (a rejected
   transfer fails the transaction: tstep returns the unchanged state) *)
Theorem c09_reject_iff : forall t now x,
  add_flow_in t now x = None <->
  tm_limit t <> 0 /\ (let e := epoch_of_time now in fout t e + tm_limit t < fin t e + x \/ tm_limit t < x).
Proof. exact add_flow_in_rejects. Qed.

(* every transaction of every caller preserves the two-sided bound while the limit is unchanged *)
Theorem c09_step_bounded : forall t l o e,
  let '(t', l', out) := tstep t l o in
  tm_limit t' = tm_limit t -> Bounded (tm_limit t) t e -> Bounded (tm_limit t) t' e.
Proof. exact tstep_bounded. Qed.

(* every history with a constant limit *)
Theorem c09_history_bounded : forall ops t l e,
  limit_constant (tm_limit t) t l ops -> Bounded (tm_limit t) t e -> Bounded (tm_limit t) (fst (trun t l ops)) e.
Proof. exact bounded_history. Qed.

(* counters of an epoch that has not been touched are zero, so the bound holds at its start *)
Theorem c09_fresh_epoch : forall L t e, fin t e = 0 -> fout t e = 0 -> Bounded L t e.
Proof. exact fresh_epoch_bounded. Qed.

Theorem c09_unlimited : forall t now x, tm_limit t = 0 -> add_flow_in t now x = Some t /\ add_flow_out t now x = Some t.
Proof. exact flow_unlimited. Qed.

(* only flow limiters change the limit *)
Theorem c09_limit_gate : forall t l o,
  tm_limit (fst (fst (tstep t l o))) <> tm_limit t ->
  exists c v, o = TSetLimit c v /\ intersects (roles_of t (t_caller c)) FLOW_LIMITER = true /\ tm_limit (fst (fst (tstep t l o))) = v.
Proof. exact limit_changes_only_by_flow_limiter. Qed.

Print Assumptions c09_step_bounded.
Print Assumptions c09_history_bounded.
Print Assumptions c09_reject_iff.
Print Assumptions c09_limit_gate.

Example pin_epoch_time : gen_tm_epoch_time = EPOCH_TIME /\ EPOCH_TIME = 6 * 3600 := conj eq_refl eq_refl.
Example pin_flow_limiter_bit : In ("FLOW_LIMITER"%string, FLOW_LIMITER) gen_role_bits.
Proof. cbn. tauto. Qed.

(* non-vacuity: limit 10, epoch 5: in 10, out 10, out 10 accepted; a further out 1 rejected *)
Example c09_nonvacuous :
  let t0 := with_limit {| tm_service := []; tm_type := 2; tm_tid := []; tm_token := []; tm_roles := []; tm_proposed := [];
                          tm_limit := 0; tm_in := []; tm_out := []; tm_pending := 0 |} 10 in
  let now := 5 * EPOCH_TIME + 7 in
  match add_flow_in t0 now 10 with
  | Some t1 => match add_flow_out t1 now 10 with
               | Some t2 => match add_flow_out t2 now 10 with
                            | Some t3 => add_flow_out t3 now 1 = None /\ Bounded 10 t3 5 /\ fout t3 5 = 20
                            | None => False end
               | None => False end
  | None => False end.
Proof. vm_compute. repeat split; try discriminate; intro H; discriminate H. Qed.

Check c09_step_bounded : forall t l o e, let '(t', l', out) := tstep t l o in
  tm_limit t' = tm_limit t -> Bounded (tm_limit t) t e -> Bounded (tm_limit t) t' e.
