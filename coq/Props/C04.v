(* C04 — ITS releases inbound tokens only for approved trusted messages, at most once.
   Statements only; proofs in Proofs/ItsFacts.v. *)
From Coq Require Import String List Arith NArith Lia Bool.
From Coq Require Import Init.Byte.
From Ax Require Import Lib.Bytes Lib.Mvx Lib.SolAbi Lib.Keccak Model.Check Model.Env Model.Gateway Model.GatewayCheck Model.TokenManager Model.Its
     Proofs.GatewayMsgs Proofs.TMFacts Proofs.ItsFacts Proofs.ItsWorld Proofs.ItsMore Proofs.ItsGw Proofs.ItsGwOrigin Gen.Generated.
Import ListNotations.
Open Scope N_scope.

Section C04.
  Variable H : bytes -> bytes.

  (* a transfer without data: released only when the gateway holds an approval addressed to the service for
     exactly (source chain, message id, source address, H payload); that approval is consumed by the same
     step; the manager registered for the payload's token id gives exactly the payload amount to the payload's
     32-byte recipient *)
  Theorem c04_release_requires : forall w c orig chain id src ph payload w' ev token_id osrc dest amount ty,
    dec_impl [PUint; PBytes32; PBytes; PBytes; PUint; PBytes] payload = Some [TUint ty; TBytes32 token_id; TBytes osrc; TBytes dest; TUint amount; TBytes []] ->
    process_transfer H w c orig chain id src ph payload = Some (w', ev) ->
    length dest = 32%nat /\
    is_approved_with H (iw_gw w) chain id src (ic_self c) ph = true /\
    mst (iw_gw w') (chain, id) = Some MExecuted /\
    exists w1 tok, gw_validate H w c chain id src ph = Some (w1, true, ev) /\ call_tm_give w1 c token_id dest amount = Some (w', tok).
  Proof. exact (process_transfer_nodata_spec H). Qed.
  (* ... and the source address is the trusted peer of the source chain (whole endpoint) *)
  Theorem c04_trusted_source : forall w c chain id src payload w' ev,
    its_execute H w c chain id src payload = Some (w', ev) -> is_trusted (iw_its w) chain src = true /\ i_paused (iw_its w) = false.
  Proof.
    intros w c chain id src payload w' ev R. unfold its_execute in R.
    destruct (negb (has_no_esdt _)); [discriminate|]. destruct (i_paused _); [discriminate|].
    destruct (is_trusted (iw_its w) chain src); [auto | discriminate].
  Qed.
  (* the give is the registered manager's giveToken with the service as caller (exact ledger effect: C10) *)
  Theorem c04_give : forall w c token_id dest amount w' tok, call_tm_give w c token_id dest amount = Some (w', tok) ->
    let tma := tm_addr (iw_its w) token_id in
    tma <> [] /\ exists t t' l' rets logs, get_tm w tma = Some t /\ tok = tm_token t /\
      give_token t (iw_led w) (tm_ctx c tma no_value) dest amount = Some (t', l', rets, logs) /\
      w' = w_led_ (w_tm w tma t') l'.
  Proof. exact call_tm_give_spec. Qed.
  (* at most once: once the message is executed, any later attempt with it fails *)
  Theorem c04_once : forall w c orig chain id src ph payload,
    mst (iw_gw w) (chain, id) = Some MExecuted -> process_transfer H w c orig chain id src ph payload = None.
  Proof. exact (process_transfer_after_executed H). Qed.

  (* ---- world level, every history ----
     every operation of the ITS world (all 25 kinds, all callers, asynchronous steps in any order) moves each gateway
     message only forward; an executed message is executed in every later world; so a released transfer is released
     at most once EVER: after a successful release of (chain, id), in every world reachable by any operations, any
     further attempt for that message -- same or tampered payload, any source address, any caller -- fails *)
  Variable verify : bytes -> bytes -> bytes -> bool.
  Theorem c04_gateway_forward : forall w o k, (rank (mst (iw_gw w) k) <= rank (mst (iw_gw (fst (istep H verify w o))) k))%nat.
  Proof. intros w o k. apply (istep_gm H verify). Qed.
  Theorem c04_executed_forever : forall ops w k, mst (iw_gw w) k = Some MExecuted -> mst (iw_gw (irun H verify w ops)) k = Some MExecuted.
  Proof. exact (irun_executed_final H verify). Qed.
  Theorem c04_released_once_forever : forall w c orig chain id src ph payload w' ev,
    process_transfer H w c orig chain id src ph payload = Some (w', ev) ->
    (exists ty tid osrc dest amount, dec_impl [PUint; PBytes32; PBytes; PBytes; PUint; PBytes] payload = Some [TUint ty; TBytes32 tid; TBytes osrc; TBytes dest; TUint amount; TBytes []]) ->
    forall ops c2 orig2 src2 ph2 payload2, process_transfer H (irun H verify w' ops) c2 orig2 chain id src2 ph2 payload2 = None.
  Proof. exact (released_once_forever H verify). Qed.
  (* ---- END TO END (Proofs/ItsGwOrigin.v) ----
     the gateway inside the ITS world is driven by gateway operations only -- the gateway transactions of the history and the
     validateMessage calls of the service (all 25 operation kinds) -- so the theorems about gateway histories hold of it; in
     particular an approval it holds was put there by an approveMessages transaction of THIS history that the gateway accepted
     (by c01_sound: under a weighted-threshold proof of a registered signer set inside the retention window), and a released
     transfer traces back to such a transaction whose batch named exactly this message *)
  Theorem c04_gateway_projection : forall ops w,
    exists os, iw_gw (irun H verify w ops) = grun H verify (iw_gw w) os /\ Forall (fun o => In (IGateway o) ops \/ is_val o) os.
  Proof. exact (its_gateway_projection H verify). Qed.
  Theorem c04_approval_from_history : forall ops w k h,
    mst (iw_gw w) k = None ->
    mst (iw_gw (irun H verify w ops)) k = Some (MApproved h) ->
    exists c raw p ms m pre,
      In (IGateway (GApprove c raw p)) ops /\ dec_messages_top raw = Some ms /\ In m ms /\ mkey m = k /\ h = mhash H m /\
      Forall (fun o => In (IGateway o) ops \/ is_val o) pre /\
      approve_messages H verify (grun H verify (iw_gw w) pre) raw p <> None.
  Proof. exact (its_approval_from_history H verify). Qed.
  Theorem c04_release_traces_to_batch : forall ops w0 c orig chain id src ph payload w' ev token_id osrc dest amount ty,
    mst (iw_gw w0) (chain, id) = None ->
    dec_impl [PUint; PBytes32; PBytes; PBytes; PUint; PBytes] payload = Some [TUint ty; TBytes32 token_id; TBytes osrc; TBytes dest; TUint amount; TBytes []] ->
    process_transfer H (irun H verify w0 ops) c orig chain id src ph payload = Some (w', ev) ->
    exists cg raw p ms m pre,
      In (IGateway (GApprove cg raw p)) ops /\ dec_messages_top raw = Some ms /\ In m ms /\ mkey m = (chain, id) /\
      mhash H m = message_hash H chain id src (ic_self c) ph /\
      Forall (fun o => In (IGateway o) ops \/ is_val o) pre /\
      approve_messages H verify (grun H verify (iw_gw w0) pre) raw p <> None.
  Proof. exact (release_traces_to_batch H verify). Qed.
End C04.
Print Assumptions c04_release_requires.
Print Assumptions c04_once.
Print Assumptions c04_executed_forever.
Print Assumptions c04_released_once_forever.
Print Assumptions c04_approval_from_history.
Print Assumptions c04_release_traces_to_batch.
Check c04_release_requires.
Check c04_once.
Check c04_released_once_forever.

(* non-vacuity of the end-to-end statement: a gateway with a registered 3-member signer set (threshold 4) and no messages; the history
   is ONE gateway transaction -- approveMessages with a batch naming (ethereum, id-1) for the service, signed by members 2 and 3 --
   after which the service releases the transfer: the premises of c04_release_traces_to_batch hold *)
Module E2E.
  Import Findings.
  Definition k1 := be_enc 32 11. Definition k2 := be_enc 32 22. Definition k3 := be_enc 32 33.
  Definition W : wsigners := {| ws_signers := [ {| s_key := k1; s_weight := 1 |}; {| s_key := k2; s_weight := 2 |}; {| s_key := k3; s_weight := 3 |} ];
                                ws_threshold := 4; ws_nonce := zeros 32 |}.
  Definition dom := be_enc 32 7.
  Definition pay : bytes :=
    match enc_impl [TUint 0; TBytes32 tid; TBytes (str "0xsender"); TBytes dest; TUint 10; TBytes []] with Some p => p | None => [] end.
  Definition batch : bytes := enc_buf (str "ethereum") ++ enc_buf (str "id-1") ++ enc_buf (str "0xITS") ++ self ++ keccak256 pay.
  Definition D := digest keccak256 dom (signers_hash keccak256 W) (data_hash keccak256 CMD_APPROVE batch).
  Definition sg (k : bytes) := k ++ k.
  Definition vfo (key msg sig : bytes) : bool := bytes_eqb msg D && bytes_eqb sig (sg key).
  Definition proof_bytes (sigs : list (option bytes)) : bytes :=
    enc_wsigners W ++ enc_u32 (Nlen sigs) ++ concat (map (fun o => match o with None => [x00] | Some s => x01 :: s end) sigs).
  Definition g0 := match gw_init keccak256 100 2 dom 10 (be_enc 32 1) [enc_wsigners W] with Some (g, _) => g | None => empty_gw end.
  Definition w0 : iworld :=
    {| iw_gw := g0; iw_its := its0 [(str "ethereum", str "0xITS")] false; iw_tms := [(tma, tm0 0)];
       iw_led := [((tma, tok), 100)]; iw_pend := []; iw_next := 0 |}.
  Definition ops : list iop :=
    [IGateway (GApprove {| c_caller := user; c_owner := A 1; c_now := 200 |} batch (proof_bytes [None; Some (sg k2); Some (sg k3)]))].
End E2E.
Example c04_end_to_end_nonvacuous :
  let w := irun keccak256 E2E.vfo E2E.w0 E2E.ops in
  mst (iw_gw E2E.w0) (str "ethereum", str "id-1") = None /\
  dec_impl [PUint; PBytes32; PBytes; PBytes; PUint; PBytes] E2E.pay =
    Some [TUint 0; TBytes32 Findings.tid; TBytes (str "0xsender"); TBytes Findings.dest; TUint 10; TBytes []] /\
  match process_transfer keccak256 w (Findings.cx Findings.user no_value) (str "ethereum") (str "ethereum") (str "id-1") (str "0xITS") (keccak256 E2E.pay) E2E.pay with
  | Some (w', _) => bal (iw_led w') Findings.dest Findings.tok = 10 /\ mst (iw_gw w') (str "ethereum", str "id-1") = Some MExecuted
  | None => False
  end.
Proof. vm_compute. repeat split; reflexivity. Qed.
Check c04_release_traces_to_batch.
Check c04_approval_from_history.
