(* C04 — ITS releases inbound tokens only for approved trusted messages, at most once.
   Statements only; proofs in Proofs/ItsFacts.v. *)
From Coq Require Import String List Arith NArith Lia Bool.
From Ax Require Import Lib.Bytes Lib.Mvx Lib.SolAbi Lib.Keccak Model.Check Model.Env Model.Gateway Model.TokenManager Model.Its
     Proofs.GatewayMsgs Proofs.TMFacts Proofs.ItsFacts Proofs.ItsWorld Proofs.ItsMore Proofs.ItsGw Gen.Generated.
Import ListNotations.
Open Scope N_scope.

Section C04.
  Variable H : bytes -> bytes.

  (* a transfer without data: released only when the gateway holds an approval addressed to the service for
     exactly (source chain, message id, source address, H payload); that approval is consumed by the same
     step; the manager registered for the payload's token id gives exactly the payload amount to the payload's
     32-byte recipient *)
  Theorem c04_release_requires : forall w c orig chain id src ph payload w' ev token_id osrc dest amount ty,
    dec_impl [PUint; PBytes32; PBytes; PBytes; PUint; PBytes] payload = Some [TUint ty; TBytes32 token_id; TBytes osrc; TBytes dest; TUint amount; TBytes []] ->
    process_transfer H w c orig chain id src ph payload = Some (w', ev) ->
    length dest = 32%nat /\
    is_approved_with H (iw_gw w) chain id src (ic_self c) ph = true /\
    mst (iw_gw w') (chain, id) = Some MExecuted /\
    exists w1 tok, gw_validate H w c chain id src ph = Some (w1, true, ev) /\ call_tm_give w1 c token_id dest amount = Some (w', tok).
  Proof. exact (process_transfer_nodata_spec H). Qed.
  (* ... and the source address is the trusted peer of the source chain (whole endpoint) *)
  Theorem c04_trusted_source : forall w c chain id src payload w' ev,
    its_execute H w c chain id src payload = Some (w', ev) -> is_trusted (iw_its w) chain src = true /\ i_paused (iw_its w) = false.
  Proof.
    intros w c chain id src payload w' ev R. unfold its_execute in R.
    destruct (negb (has_no_esdt _)); [discriminate|]. destruct (i_paused _); [discriminate|].
    destruct (is_trusted (iw_its w) chain src); [auto | discriminate].
  Qed.
  (* the give is the registered manager's giveToken with the service as caller (exact ledger effect: C10) *)
  Theorem c04_give : forall w c token_id dest amount w' tok, call_tm_give w c token_id dest amount = Some (w', tok) ->
    let tma := tm_addr (iw_its w) token_id in
    tma <> [] /\ exists t t' l' rets logs, get_tm w tma = Some t /\ tok = tm_token t /\
      give_token t (iw_led w) (tm_ctx c tma no_value) dest amount = Some (t', l', rets, logs) /\
      w' = w_led_ (w_tm w tma t') l'.
  Proof. exact call_tm_give_spec. Qed.
  (* at most once: once the message is executed, any later attempt with it fails *)
  Theorem c04_once : forall w c orig chain id src ph payload,
    mst (iw_gw w) (chain, id) = Some MExecuted -> process_transfer H w c orig chain id src ph payload = None.
  Proof. exact (process_transfer_after_executed H). Qed.

  (* ---- world level, every history ----
     every operation of the ITS world (all 25 kinds, all callers, asynchronous steps in any order) moves each gateway
     message only forward; an executed message is executed in every later world; so a released transfer is released
     at most once EVER: after a successful release of (chain, id), in every world reachable by any operations, any
     further attempt for that message -- same or tampered payload, any source address, any caller -- fails *)
  Variable verify : bytes -> bytes -> bytes -> bool.
  Theorem c04_gateway_forward : forall w o k, (rank (mst (iw_gw w) k) <= rank (mst (iw_gw (fst (istep H verify w o))) k))%nat.
  Proof. intros w o k. apply (istep_gm H verify). Qed.
  Theorem c04_executed_forever : forall ops w k, mst (iw_gw w) k = Some MExecuted -> mst (iw_gw (irun H verify w ops)) k = Some MExecuted.
  Proof. exact (irun_executed_final H verify). Qed.
  Theorem c04_released_once_forever : forall w c orig chain id src ph payload w' ev,
    process_transfer H w c orig chain id src ph payload = Some (w', ev) ->
    (exists ty tid osrc dest amount, dec_impl [PUint; PBytes32; PBytes; PBytes; PUint; PBytes] payload = Some [TUint ty; TBytes32 tid; TBytes osrc; TBytes dest; TUint amount; TBytes []]) ->
    forall ops c2 orig2 src2 ph2 payload2, process_transfer H (irun H verify w' ops) c2 orig2 chain id src2 ph2 payload2 = None.
  Proof. exact (released_once_forever H verify). Qed.
End C04.
Print Assumptions c04_release_requires.
Print Assumptions c04_once.
Print Assumptions c04_executed_forever.
Print Assumptions c04_released_once_forever.
Check c04_release_requires.
Check c04_once.
Check c04_released_once_forever.
