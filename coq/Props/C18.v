(* C18 — ITS token deployment flows consume authority once and issue one token per id.
   Statements only; proofs in Proofs/ItsFacts.v, Proofs/ItsMore.v, Proofs/TMFacts.v (repaired source:
   fixed F-C18-1 recorded token overwritten, F-C18-2 service as minter). *)
From Coq Require Import String List NArith Lia Bool.
From Ax Require Import Lib.Bytes Lib.Mvx Lib.SolAbi Lib.Keccak Model.Check Model.Env Model.Gateway Model.TokenManager Model.Its
     Proofs.GatewayMsgs Proofs.TMFacts Proofs.ItsFacts Proofs.ItsWorld Proofs.ItsMore Proofs.TMToken Proofs.ItsTokens Proofs.ItsGwOrigin Gen.Generated.
Import ListNotations.
Open Scope N_scope.

Section C18.
  Variable H : bytes -> bytes.

  (* inbound deploy message: nothing without a live approval; the first call (no manager yet) creates a native
     manager and leaves the approval unconsumed; the following call consumes it and starts the issuance *)
  Theorem c18_inbound_two_step : forall w c chain id src ph payload w' ev token_id name symbol dec minter ty,
    dec_impl [PUint; PBytes32; PString; PString; PUint8; PBytes] payload = Some [TUint ty; TBytes32 token_id; TString name; TString symbol; TUint8 dec; TBytes minter] ->
    process_deploy H w c chain id src ph payload = Some (w', ev) ->
    is_approved_with H (iw_gw w) chain id src (ic_self c) ph = true /\
    (tm_addr (iw_its w) token_id = [] ->
        iw_gw w' = iw_gw w /\ ev = [] /\ deploy_tm w c token_id T_NATIVE None minter = Some w') /\
    (tm_addr (iw_its w) token_id <> [] ->
        mst (iw_gw w') (chain, id) = Some MExecuted /\
        exists w1 m, gw_validate H w c chain id src ph = Some (w1, true, ev) /\ opt_addr minter = Some m /\
                     call_tm_deploy_token w1 c token_id m name symbol = Some w').
  Proof. exact (process_deploy_spec H). Qed.
  (* hence at most one issuance per message: afterwards the executed message is not approved any more *)
  Theorem c18_executed_not_approved : forall g chain id src contract ph, mst g (chain, id) = Some MExecuted -> is_approved_with H g chain id src contract ph = false.
  Proof. exact (executed_not_approved H). Qed.

  (* a recorded token is never replaced by a later issuance callback; issuing again is refused once recorded *)
  Theorem c18_token_never_replaced : forall t self result, tm_token t <> [] -> tm_token (fst (deploy_token_callback t self result)) = tm_token t.
  Proof. exact callback_keeps_recorded_token. Qed.
  Theorem c18_no_reissue : forall t l c m n s, tm_token t <> [] -> deploy_interchain_token t l c m n s = None.
  Proof. exact deploy_refused_when_token_set. Qed.

  (* local flow: zero supply without minter refused; the service itself never accepted as minter *)
  Theorem c18_zero_supply_no_minter : forall w c salt n sy d, deploy_interchain_token_ep H w c salt n sy d 0 zero32 = None.
  Proof. exact (deploy_token_zero_supply_no_minter H). Qed.
  Theorem c18_service_minter_refused : forall w c salt n sy d sup, deploy_interchain_token_ep H w c salt n sy d sup (ic_self c) = None.
  Proof. exact (deploy_token_service_minter_refused H). Qed.
  (* third step: after minting, mintership is transferred away from the service (minter <> service), none of the
     remaining hand-over calls gives it back, and without it the service cannot mint: the mint happens once *)
  Theorem c18_mintership_leaves_service : forall t l x a t' l' rets logs,
    transfer_mintership t l x a = Some (t', l', rets, logs) -> a <> t_caller x -> has_minter t' (t_caller x) = false.
  Proof. exact transfer_mintership_removes. Qed.
  Theorem c18_handover_keeps_minter_bit : forall self t f a r t' e b, N.testbit r 0 = false -> transfer_role self t f a r = Some (t', e) -> has_minter t' b = has_minter t b.
  Proof. exact transfer_role_minter_frame. Qed.
  Theorem c18_no_minter_no_mint : forall t l x a v, has_minter t (t_caller x) = false -> tm_mint t l x a v = None.
  Proof. exact mint_needs_minter. Qed.

  (* ---- every operation, every history (Proofs/TMToken.v, Proofs/ItsTokens.v) ----
     no endpoint of a token manager changes its recorded token (all sixteen operations); in the ITS world, the token recorded
     by the manager at address a survives every operation of all 25 kinds in any order -- the only assumption is about the
     environment: no operation deploys a NEW manager at a's address (deployment addresses are fresh) *)
  Variable verify : bytes -> bytes -> bytes -> bool.
  Theorem c18_endpoints_keep_token : forall t l o t' l' r e, run_endpoint t l o = Some (t', l', r, e) -> tm_token t' = tm_token t.
  Proof. exact run_endpoint_token. Qed.
  Theorem c18_token_forever_step : forall a w o, (forall c, iop_ctx o = Some c -> ic_newtm c <> a) -> tka a w (fst (istep H verify w o)).
  Proof. exact (istep_token_forever H verify). Qed.
  Theorem c18_token_forever : forall a ops w, Forall (fun o => forall c, iop_ctx o = Some c -> ic_newtm c <> a) ops -> tka a w (irun H verify w ops).
  Proof. exact (irun_token_forever H verify). Qed.
  (* end to end (Proofs/ItsGwOrigin.v): an inbound deployment step accepted after any history that started without the message traces
     back to an approveMessages transaction of that history, accepted by the gateway, whose batch named exactly this message *)
  Theorem c18_deploy_traces_to_batch : forall ops w0 c chain id src ph payload w' ev token_id name symbol dec minter ty,
    mst (iw_gw w0) (chain, id) = None ->
    dec_impl [PUint; PBytes32; PString; PString; PUint8; PBytes] payload = Some [TUint ty; TBytes32 token_id; TString name; TString symbol; TUint8 dec; TBytes minter] ->
    process_deploy H (irun H verify w0 ops) c chain id src ph payload = Some (w', ev) ->
    exists cg raw p ms m pre,
      In (IGateway (GApprove cg raw p)) ops /\ dec_messages_top raw = Some ms /\ In m ms /\ mkey m = (chain, id) /\
      mhash H m = message_hash H chain id src (ic_self c) ph /\
      Forall (fun o => In (IGateway o) ops \/ is_val o) pre /\
      approve_messages H verify (grun H verify (iw_gw w0) pre) raw p <> None.
  Proof. exact (deploy_traces_to_batch H verify). Qed.
End C18.
Print Assumptions c18_inbound_two_step.
Print Assumptions c18_deploy_traces_to_batch.
Print Assumptions c18_token_never_replaced.
Print Assumptions c18_token_forever.
Print Assumptions c18_mintership_leaves_service.
Print Assumptions c18_no_minter_no_mint.
Check c18_inbound_two_step.
Check c18_token_never_replaced.
Check c18_token_forever.
