(* C12 — Governance acts only on authenticated commands; operator proposals need approval.
   Statements only; proofs in Proofs/GovFacts.v and Proofs/GovWorld.v (repaired source, fixed F-C12-1). *)
From Coq Require Import String List NArith Lia.
From Coq Require Import Init.Byte.
From Ax Require Import Lib.Bytes Lib.Mvx Lib.Keccak Model.Check Model.Env Model.Gateway Model.GatewayCheck Model.Governance
     Proofs.GatewayMsgs Proofs.GovFacts Proofs.GovWorld Proofs.GovGwOrigin Proofs.GovCount Proofs.GovCountOp Proofs.GovExcl Gen.Generated.
Import ListNotations.
Open Scope N_scope.

Section C12.
  Variable H : bytes -> bytes.
  Variable verify : bytes -> bytes -> bytes -> bool.
  Notation phash := (proposal_hash H).
  Notation step := (vstep H verify true).

  (* an accepted command comes from the configured chain AND address, and the gateway holds an approval
     for (chain, id, source, THIS contract, H payload) which this very step consumes *)
  Theorem c12_execute_requires : forall fx w c chain id src payload w' ev,
    gov_execute H fx w c chain id src payload = Some (w', ev) ->
    chain = gv_chain (w_gov w) /\ src = gv_address (w_gov w) /\
    is_approved_with H (w_gw w) chain id src (x_self c) (H payload) = true /\
    mst (w_gw w') (chain, id) = Some MExecuted /\
    w_led w' = w_led w /\ w_pend w' = w_pend w /\ w_next w' = w_next w /\
    exists p g' ev', dec_exec_payload payload = Some p /\ xp_target p <> zero32 /\
      process_command H fx (x_self c) (w_gov w) (x_now c) p = Some (g', ev') /\ w_gov w' = g'.
  Proof. exact (gov_execute_spec H). Qed.
  Theorem c12_no_replay : forall fx w c chain id src payload,
    mst (w_gw w) (chain, id) = Some MExecuted -> gov_execute H fx w c chain id src payload = None.
  Proof. exact (gov_execute_no_replay H). Qed.

  (* time locks and approvals are untouched by every other kind of operation, whoever calls *)
  Theorem c12_tables_frame : forall w o,
    match o with
    | VGateway _ | VWithdraw _ _ _ | VTransferOp _ _ | VWithdrawRefund _ _ _ | VDeliver _ _ _ _ => tables (fst (step w o)) = tables w
    | _ => True
    end.
  Proof. exact (tables_frame H verify). Qed.

  (* operator dispatch: current operator, outstanding approval for exactly that proposal, consumed *)
  Theorem c12_operator_dispatch : forall w c target cd v w' ev,
    execute_operator_proposal H true w c target cd v = Some (w', ev) ->
    let h := phash target cd v in
    x_caller c = gv_operator (w_gov w) /\ getN (gv_approvals (w_gov w)) h <> 0 /\
    getN (gv_approvals (w_gov w')) h = 0 /\ getN (gv_op_flight (w_gov w')) h = 1 /\
    gv_eta (w_gov w') = gv_eta (w_gov w) /\ gv_tl_flight (w_gov w') = gv_tl_flight (w_gov w) /\
    gv_refunds (w_gov w') = gv_refunds (w_gov w) /\ gv_operator (w_gov w') = gv_operator (w_gov w) /\
    (forall h', h' <> h -> getN (gv_approvals (w_gov w')) h' = getN (gv_approvals (w_gov w)) h' /\
                           getN (gv_op_flight (w_gov w')) h' = getN (gv_op_flight (w_gov w)) h') /\
    exists d, dec_call_data cd = Some d /\ w_gw w' = w_gw w /\ w_led w' = w_led w /\
      w_pend w' = w_pend w ++ [{| gp_id := w_next w; gp_kind := POperator; gp_hash := h; gp_eta := 0; gp_caller := x_caller c; gp_pay := x_value c;
                                  gp_target := target; gp_endpoint := cd_endpoint d; gp_args := cd_args d; gp_value := v; gp_stage := AwaitCall |}].
  Proof. exact (execute_operator_proposal_spec H). Qed.
  (* restored if the call fails (unless cancelled in flight), removed by a cancel command: *)
  Theorem c12_operator_callback : forall self g p ok rets g' ev,
    callback true self g p ok rets = (g', ev) -> gp_kind p = POperator ->
    let h := gp_hash p in
    getN (gv_op_flight g') h = 0 /\
    getN (gv_approvals g') h = (if ok then getN (gv_approvals g) h else if getN (gv_op_flight g) h =? 0 then getN (gv_approvals g) h else 1).
  Proof.
    intros self g p ok rets g' ev CB K. apply callback_spec in CB. cbv zeta in CB. destruct CB as (_ & _ & M).
    rewrite K in M. destruct M as (_ & _ & A & _ & C). auto.
  Qed.
  Theorem c12_cancelled_approval_stays_cancelled : forall ops w h,
    DeadOp w h -> Forall (fun o => ~ is_approve_of H o h) ops -> DeadOp (vrun H verify true w ops) h.
  Proof. exact (cancelled_approval_stays_cancelled H verify). Qed.
  Theorem c12_deadop_no_dispatch : forall w c t cd v, DeadOp w (phash t cd v) -> vo_ok (snd (step w (VExecOperator c t cd v))) = false.
  Proof. exact (deadop_no_dispatch H verify). Qed.

  (* operator replacement and withdrawal of funds *)
  Theorem c12_operator_change : forall w c a w' ev, gov_transfer_operatorship w c a = Some (w', ev) ->
    (x_caller c = gv_operator (w_gov w) \/ x_caller c = x_self c) /\ a <> zero32 /\ gv_operator (w_gov w') = a /\ w_led w' = w_led w.
  Proof. exact gov_transfer_operatorship_spec. Qed.
  Theorem c12_withdraw_self_only : forall w c r a w' ev, gov_withdraw w c r a = Some (w', ev) ->
    x_caller c = x_self c /\ transfer (w_led w) (x_self c) r EGLD a = Some (w_led w') /\ w_gov w' = w_gov w.
  Proof. exact gov_withdraw_self_only. Qed.

  (* counting (Proofs/GovCountOp.v): over every history and schedule, successful operator dispatches of h
     <= accepted approve commands for h (+ approved / in flight at the start): an approval is consumed by
     the dispatch, given back only by a failed call, and authorises at most one successful dispatch *)
  Theorem c12_approval_potential : forall w o h,
    accept_op_of H verify w o h + bnz (getN (gv_approvals (w_gov (fst (step w o)))) h) <=
    approve_of H verify w o h + cbo_of false w o h + bnz (getN (gv_approvals (w_gov w)) h).
  Proof. exact (approval_potential H verify). Qed.
  Theorem c12_one_success_per_approval : forall os w h,
    total H verify (cbo_of true) w os h <=
    total H verify (approve_of H verify) w os h + bnz (getN (gv_approvals (w_gov w)) h) + npend_op h (w_pend w).
  Proof. exact (op_successes_bounded_by_approvals H verify). Qed.
  (* ---- END TO END (Proofs/GovGwOrigin.v) ----
     the gateway inside the governance world is driven by gateway operations only (the gateway transactions of the history and the
     validateMessage call of governance.execute; all nine operation kinds), so an accepted command traces back to an approveMessages
     transaction of THIS history whose batch named exactly this command for the governance contract and which the gateway accepted
     (c01_sound: weighted-threshold proof of a registered signer set inside the retention window) *)
  Theorem c12_gateway_projection : forall ops w,
    exists os, w_gw (vrun H verify true w ops) = grun H verify (w_gw w) os /\ Forall (fun go => In (VGateway go) ops \/ gis_val go) os.
  Proof. exact (gov_gateway_projection H verify). Qed.
  Theorem c12_command_traces_to_batch : forall ops w0 c chain id src payload w' ev,
    mst (w_gw w0) (chain, id) = None ->
    gov_execute H true (vrun H verify true w0 ops) c chain id src payload = Some (w', ev) ->
    exists cg raw p ms m pre,
      In (VGateway (GApprove cg raw p)) ops /\ dec_messages_top raw = Some ms /\ In m ms /\ mkey m = (chain, id) /\
      mhash H m = message_hash H chain id src (x_self c) (H payload) /\
      Forall (fun go => In (VGateway go) ops \/ gis_val go) pre /\
      approve_messages H verify (grun H verify (w_gw w0) pre) raw p <> None.
  Proof. exact (command_traces_to_batch H verify). Qed.
  (* "time locks and operator approvals change only through a governance command" (Proofs/GovExcl.v): apart from a command, an approval
     changes only when executeOperatorProposal consumes it or when the callback of a FAILED operator dispatch that is still marked in flight
     gives it back (a cancel-approval command in between clears the marker: then nothing comes back); the same for etas: see
     c11_eta_changes_only_by and c11_callback_restores_only_onto_empty *)
  Theorem c12_approval_changes_only_by : forall w o h,
    getN (gv_approvals (w_gov (fst (vstep H verify true w o)))) h <> getN (gv_approvals (w_gov w)) h ->
    match o with VExecute _ _ _ _ _ | VExecOperator _ _ _ _ | VCallback _ _ => True | _ => False end.
  Proof. exact (approval_changes_only_by H verify). Qed.
  Theorem c12_callback_restores_approval_only_in_flight : forall w self id h,
    getN (gv_approvals (w_gov (fst (vstep H verify true w (VCallback self id))))) h <> getN (gv_approvals (w_gov w)) h ->
    exists p rets, find_pending id (w_pend w) = Some p /\ gp_stage p = AwaitCallback false rets /\ gp_kind p = POperator /\ gp_hash p = h /\
                   getN (gv_op_flight (w_gov w)) h <> 0 /\ getN (gv_approvals (w_gov (fst (vstep H verify true w (VCallback self id))))) h = 1.
  Proof. exact (callback_restores_approval_only_in_flight H verify). Qed.
  Theorem c12_eta_changes_only_by : forall w o h,
    getN (gv_eta (w_gov (fst (vstep H verify true w o)))) h <> getN (gv_eta (w_gov w)) h ->
    match o with VExecute _ _ _ _ _ | VExecProposal _ _ _ _ | VCallback _ _ => True | _ => False end.
  Proof. exact (eta_changes_only_by H verify). Qed.
End C12.

Print Assumptions c12_execute_requires.
Print Assumptions c12_no_replay.
Print Assumptions c12_tables_frame.
Print Assumptions c12_operator_dispatch.
Print Assumptions c12_cancelled_approval_stays_cancelled.
Print Assumptions c12_withdraw_self_only.
Print Assumptions c12_one_success_per_approval.
Print Assumptions c12_command_traces_to_batch.
Print Assumptions c12_approval_changes_only_by.
Print Assumptions c12_callback_restores_approval_only_in_flight.

Example pin_gov_endpoints : gen_gov_endpoints = [("executeProposal", "*"); ("executeOperatorProposal", "*"); ("withdraw", ""); ("transferOperatorship", "");
   ("execute", ""); ("withdrawRefundToken", "")]%string := eq_refl.
Example pin_gov_storage : gen_gov_storage = ["gateway"; "minimum_time_lock_delay"; "governance_chain"; "governance_address"; "operator"; "time_lock_eta";
   "operator_approvals"; "time_lock_in_flight"; "operator_in_flight"; "refund_token"]%string := eq_refl.

Check c12_tables_frame.
Check c12_one_success_per_approval.
Check c12_cancelled_approval_stays_cancelled.

(* non-vacuity of the end-to-end statement: a gateway with a registered 3-member signer set (threshold 4) and no messages; the history
   is ONE gateway transaction -- approveMessages naming (axelarnet, m1) from the governance address for the governance contract, signed
   by members 2 and 3 -- after which governance.execute accepts the scheduling command *)
Module E2E.
  Import Refuted.
  Definition k1 := be_enc 32 11. Definition k2 := be_enc 32 22. Definition k3 := be_enc 32 33.
  Definition W : wsigners := {| ws_signers := [ {| s_key := k1; s_weight := 1 |}; {| s_key := k2; s_weight := 2 |}; {| s_key := k3; s_weight := 3 |} ];
                                ws_threshold := 4; ws_nonce := zeros 32 |}.
  Definition dom := be_enc 32 7.
  Definition batch : bytes := enc_buf chain ++ enc_buf (str "m1") ++ enc_buf gaddr ++ self ++ keccak256 (payload 0).
  Definition D := digest keccak256 dom (signers_hash keccak256 W) (data_hash keccak256 CMD_APPROVE batch).
  Definition sg (k : bytes) := k ++ k.
  Definition vfo (key msg sig : bytes) : bool := bytes_eqb msg D && bytes_eqb sig (sg key).
  Definition proof_bytes (sigs : list (option bytes)) : bytes :=
    enc_wsigners W ++ enc_u32 (Nlen sigs) ++ concat (map (fun o => match o with None => [x00] | Some s => x01 :: s end) sigs).
  Definition g0 := match gw_init keccak256 100 2 dom 10 (be_enc 32 1) [enc_wsigners W] with Some (g, _) => g | None => empty_gw end.
  Definition w1 : gworld := {| w_gw := g0; w_gov := w_gov w0; w_led := []; w_pend := []; w_next := 0 |}.
  Definition ops : list vop :=
    [VGateway (GApprove {| c_caller := relayer; c_owner := be_enc 32 1; c_now := 200 |} batch (proof_bytes [None; Some (sg k2); Some (sg k3)]))].
End E2E.
Example c12_end_to_end_nonvacuous :
  mst (w_gw E2E.w1) (Refuted.chain, str "m1") = None /\
  match gov_execute keccak256 true (vrun keccak256 E2E.vfo true E2E.w1 E2E.ops) (Refuted.cx 300) Refuted.chain (str "m1") Refuted.gaddr (Refuted.payload 0) with
  | Some (w', _) => mst (w_gw w') (Refuted.chain, str "m1") = Some MExecuted /\ gv_eta (w_gov w') <> []
  | None => False
  end.
Proof. vm_compute. repeat split; try reflexivity; discriminate. Qed.
Check c12_command_traces_to_batch.

Check c12_approval_changes_only_by.
Check c12_callback_restores_approval_only_in_flight.
