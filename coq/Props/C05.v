(* C05 — ITS outbound transfers conserve value and emit a faithful cross-chain message.
   Statements only; proofs in Proofs/ItsFacts.v and Proofs/ItsMore.v. *)
From Coq Require Import String List NArith Lia Bool.
From Ax Require Import Lib.Bytes Lib.Mvx Lib.SolAbi Lib.Keccak Model.Check Model.Env Model.Gateway Model.TokenManager Model.Its
     Proofs.GatewayMsgs Proofs.TMFacts Proofs.ItsFacts Proofs.ItsWorld Proofs.ItsMore Proofs.ItsOutbound Gen.Generated.
Import ListNotations.
Open Scope N_scope.

Section C05.
  Variable H : bytes -> bytes.

  (* how the attached payments split into transfer amount and gas *)
  Theorem c05_split : forall v gas tok amount gtok g,
    split_payment v gas = Some (tok, amount, gtok, g) ->
    g = gas /\
    ((cv_esdt v = [] /\ gas < cv_egld v /\ tok = EGLD /\ gtok = EGLD /\ amount = cv_egld v - gas) \/
     (exists p, cv_esdt v = [p] /\ ep_nonce p = 0 /\ gas < ep_amount p /\ tok = ep_token p /\ gtok = ep_token p /\ amount = ep_amount p - gas) \/
     (exists p q, cv_esdt v = [p; q] /\ ep_nonce p = 0 /\ ep_nonce q = 0 /\ ep_amount q = gas /\ tok = ep_token p /\ amount = ep_amount p /\
                  gtok = if bytes_eqb (ep_token q) EGLD_ESDT then EGLD else ep_token q)).
  Proof. exact split_payment_spec. Qed.

  (* the whole endpoint: not paused, non-empty destination, non-zero amount; exactly the transfer amount is taken
     by the manager of the token id; ONE gateway message carrying abi.encode(0, token id, sender, destination
     address, amount, data) to the routed destination; the gas value goes to the gas service *)
  Theorem c05_effect : forall w c token_id dchain daddr metadata gas w' ev,
    interchain_transfer H w c token_id dchain daddr metadata gas = Some (w', ev) ->
    i_paused (iw_its w) = false /\ daddr <> [] /\
    exists tok amount gtok w1 data payload dc da p',
      split_payment (ic_value c) gas = Some (tok, amount, gtok, gas) /\ amount <> 0 /\
      call_tm_take w c token_id tok amount = Some w1 /\
      decode_metadata metadata = Some data /\
      enc_impl [TUint MT_TRANSFER; TBytes32 token_id; TBytes (ic_caller c); TBytes daddr; TUint amount; TBytes data] = Some payload /\
      route_out (iw_its w1) dchain payload = Some (dc, da, p') /\
      call_contract H w1 c dc da p' gtok gas = Some (w', ev).
  Proof. exact (interchain_transfer_spec H). Qed.
  (* the take: payment moved from the service to the manager, whose takeToken requires the right token *)
  Theorem c05_take : forall w c token_id tok amount w', call_tm_take w c token_id tok amount = Some w' ->
    let tma := tm_addr (iw_its w) token_id in
    tma <> [] /\ exists t l1 t' l' rets logs v, get_tm w tma = Some t /\
      pay_in (iw_led w) (ic_self c) tma v = Some l1 /\
      egld_or_single_fungible v = Some (tok, amount) /\
      take_token t l1 (tm_ctx c tma v) = Some (t', l', rets, logs) /\ w' = w_led_ (w_tm w tma t') l'.
  Proof. exact call_tm_take_spec. Qed.
  (* the message and the gas payment: exactly one contract-call event with payload hash H payload; iff gas > 0 exactly
     one gas-paid event for the same destination and payload hash, refund address = sender, gas moved to the gas service *)
  Theorem c05_message : forall w c dchain daddr payload gtok gas w' ev,
    call_contract H w c dchain daddr payload gtok gas = Some (w', ev) ->
    daddr <> [] /\ iw_its w' = iw_its w /\ iw_gw w' = iw_gw w /\ iw_tms w' = iw_tms w /\ iw_pend w' = iw_pend w /\ iw_next w' = iw_next w /\
    (gas = 0 -> iw_led w' = iw_led w /\ ev = [lg (i_gateway (iw_its w)) [str "contract_call_event"; ic_self c; dchain; daddr; H payload] payload]) /\
    (gas <> 0 -> transfer (iw_led w) (ic_self c) (i_gas (iw_its w)) gtok gas = Some (iw_led w') /\
       exists gl, ev = [gl; lg (i_gateway (iw_its w)) [str "contract_call_event"; ic_self c; dchain; daddr; H payload] payload] /\
         lg_addr gl = i_gas (iw_its w) /\
         gl = (if bytes_eqb gtok EGLD
               then lg (i_gas (iw_its w)) [str "native_gas_paid_for_contract_call_event"; ic_self c; dchain; daddr] (H payload ++ enc_big gas ++ ic_caller c)
               else lg (i_gas (iw_its w)) [str "gas_paid_for_contract_call_event"; ic_self c; dchain; daddr] (H payload ++ enc_buf gtok ++ enc_big gas ++ ic_caller c))).
  Proof. exact (call_contract_spec H). Qed.
  (* the payload is byte-exact Solidity abi.encode (C06) *)
  Theorem c05_payload_abi : forall toks, Forall wf_token toks -> spec_size toks < 2 ^ 32 -> enc_impl toks = enc_spec toks.
  Proof. exact Proofs.SolAbiEnc.enc_impl_eq_spec. Qed.

  (* the whole transaction at the level of the world (Proofs/ItsOutbound.v): a successful outbound transfer leaves
     every balance of the service unchanged: what the caller attached (recv) is exactly what goes on to the token
     manager (transfer amount) and the gas service (gas value) *)
  Variable verify : bytes -> bytes -> bytes -> bool.
  Theorem c05_split_accounts_for_everything : forall v gas tok amount gtok g x, no_egld_alias v ->
    split_payment v gas = Some (tok, amount, gtok, g) ->
    g = gas /\ recv v x = (if bytes_eqb tok x then amount else 0) + (if bytes_eqb gtok x then gas else 0).
  Proof. exact split_payment_recv. Qed.
  Theorem c05_service_balances_unchanged : forall w o c token_id,
    (exists dc da md gas, o = ITransfer c token_id dc da md gas) \/ (exists dc da d gas, o = ICallContract c token_id dc da d gas) ->
    io_ok (snd (istep H verify w o)) = true ->
    no_egld_alias (ic_value c) ->
    ic_caller c <> ic_self c -> tm_addr (iw_its w) token_id <> ic_self c -> i_gas (iw_its w) <> ic_self c ->
    forall x, bal (iw_led (fst (istep H verify w o))) (ic_self c) x = bal (iw_led w) (ic_self c) x.
  Proof. exact (outbound_keeps_service_balances H verify). Qed.
End C05.
Print Assumptions c05_effect.
Print Assumptions c05_message.
Print Assumptions c05_split.
Print Assumptions c05_service_balances_unchanged.

(* non-vacuity: in the world of Proofs/ItsMore.v (Findings.w08) a user sends 10 TOK with 3 of them as gas:
   the call succeeds, 7 go to the manager, 3 to the gas service, the service keeps nothing *)
Example c05_service_balances_nonvacuous :
  let o := ITransfer (Findings.cx Findings.user (Findings.esdt 10)) Findings.tid (str "ethereum") (str "0xdead") [] 3 in
  let r := istep keccak256 Findings.vf Findings.w08 o in
  io_ok (snd r) = true /\ bal (iw_led (fst r)) Findings.self Findings.tok = 0 /\
  bal (iw_led (fst r)) Findings.tma Findings.tok = 107 /\ bal (iw_led (fst r)) Findings.gasa Findings.tok = 3 /\
  bal (iw_led (fst r)) Findings.user Findings.tok = 90.
Proof. vm_compute. repeat split; reflexivity. Qed.
Example pin_egld_esdt : gen_its_ESDT_EGLD_IDENTIFIER = EGLD_ESDT := eq_refl.
Example pin_metadata_version : gen_its_LATEST_METADATA_VERSION = 0 := eq_refl.
Check c05_effect.
Check c05_service_balances_unchanged.
