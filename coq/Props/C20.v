(* C20 — ITS pause and privileged operations are effective and correctly gated.
   Statements only; proofs in Proofs/ItsFacts.v (repaired source: fixed F-C20-1, F-C20-2). *)
From Coq Require Import String List NArith Lia Bool.
From Ax Require Import Lib.Bytes Lib.Mvx Lib.SolAbi Lib.Keccak Model.Check Model.Env Model.Gateway Model.TokenManager Model.Its
     Proofs.GatewayMsgs Proofs.TMFacts Proofs.ItsFacts Proofs.ItsWorld Proofs.ItsMore Proofs.ItsRoles Proofs.ItsConfig Gen.Generated.
Import ListNotations.
Open Scope N_scope.

Section C20.
  Variable H : bytes -> bytes.
  Variable verify : bytes -> bytes -> bytes -> bool.

  (* while paused, every inbound / transfer / registration / creation / issuance / remote-deployment /
     link endpoint fails: the transaction reverts and istep returns the unchanged world (no state, no value moves) *)
  Theorem c20_paused_frame : forall w o, i_paused (iw_its w) = true ->
    match o with
    | IExecute _ _ _ _ _ | ITransfer _ _ _ _ _ _ | ICallContract _ _ _ _ _ _ | IDeployToken _ _ _ _ _ _ _
    | IDeployRemote _ _ _ _ _ | IRegisterCanonical _ _ | IDeployRemoteCanonical _ _ _ | IRegisterCustom _ _ _ _ _ | ILinkToken _ _ _ _ _ _ =>
        istep H verify w o = (w, ifail)
    | _ => True
    end.
  Proof. exact (paused_frame H verify). Qed.

  (* pause / unpause: owner only; they flip the flag and nothing else, so after unpausing behaviour is as before *)
  Theorem c20_pause_owner_only : forall w c b w' ev, pause_ep w c b = Some (w', ev) ->
    ic_caller c = ic_owner c /\ w' = w_its w (set_paused (iw_its w) b) /\ ev = [].
  Proof. exact pause_spec. Qed.
  Theorem c20_unpause_restores : forall s, set_paused (set_paused s true) (i_paused s) = s.
  Proof. exact unpause_restores. Qed.
  Theorem c20_trusted_owner_only : forall w c chain a w' ev, set_trusted_address w c chain a = Some (w', ev) -> ic_caller c = ic_owner c.
  Proof. exact set_trusted_owner_only. Qed.
  Theorem c20_remove_trusted_owner_only : forall w c chain w' ev, remove_trusted_address w c chain = Some (w', ev) -> ic_caller c = ic_owner c.
  Proof. exact remove_trusted_owner_only. Qed.
  Theorem c20_flow_limits_operator_only : forall w c ids ls w' ev, set_flow_limits w c ids ls = Some (w', ev) ->
    intersects (iroles (iw_its w) (ic_caller c)) OPERATOR = true.
  Proof. exact set_flow_limits_operator_only. Qed.

  (* over EVERY operation of the world (all 25 kinds, asynchronous steps included): an account that does not hold the
     service's operator role comes to hold it only because a holder transfers it to that account, or because the account
     accepts a proposal a holder made to exactly it; nothing else touches the role table (Proofs/ItsRoles.v: istep_roles_frame) *)
  Theorem c20_operator_gain : forall w o a,
    is_op (iw_its (fst (istep H verify w o))) a = true -> is_op (iw_its w) a = false ->
    (exists c, o = ITransferOp c a /\ is_op (iw_its w) (ic_caller c) = true) \/
    (exists c from, o = IAcceptOp c from /\ ic_caller c = a /\ iproposed (iw_its w) from a = OPERATOR /\ is_op (iw_its w) from = true).
  Proof. exact (operator_gain H verify). Qed.
  Theorem c20_roles_frame : forall w o,
    match o with
    | ITransferOp _ _ | IProposeOp _ _ | IAcceptOp _ _ => True
    | _ => rs w (fst (istep H verify w o))
    end.
  Proof. exact (istep_roles_frame H verify). Qed.
  (* the pause flag is flipped by no operation other than the owner's pause / unpause; the trusted-address table by none
     other than the owner's set / remove (all 25 kinds) *)
  Theorem c20_config_frame : forall w o,
    match o with
    | ISetTrusted _ _ _ | IRemoveTrusted _ _ | IPause _ _ => True
    | _ => cfg w (fst (istep H verify w o))
    end.
  Proof. exact (istep_config_frame H verify). Qed.
  Theorem c20_pause_flag_owner_only : forall w o,
    i_paused (iw_its (fst (istep H verify w o))) <> i_paused (iw_its w) -> exists c b, o = IPause c b /\ ic_caller c = ic_owner c.
  Proof. exact (paused_changes_owner_only H verify). Qed.
End C20.
Print Assumptions c20_paused_frame.
Print Assumptions c20_pause_owner_only.
Print Assumptions c20_flow_limits_operator_only.
Print Assumptions c20_operator_gain.
Print Assumptions c20_roles_frame.
Print Assumptions c20_config_frame.
Print Assumptions c20_pause_flag_owner_only.

(* the endpoint table regenerated from the sources: a new or re-annotated endpoint breaks this pin *)
Example pin_its_endpoints : gen_its_endpoints =
  [("setFlowLimits", "", false); ("execute", "EGLD", false); ("registerTokenMetadata", "EGLD", false); ("interchainTransfer", "*", false);
   ("callContractWithInterchainToken", "*", false); ("deployInterchainToken", "EGLD", false); ("approveDeployRemoteInterchainToken", "", false);
   ("revokeDeployRemoteInterchainToken", "", false); ("deployRemoteInterchainToken", "EGLD", false); ("deployRemoteInterchainTokenWithMinter", "EGLD", false);
   ("registerCanonicalInterchainToken", "", false); ("deployRemoteCanonicalInterchainToken", "EGLD", false); ("registerCustomToken", "", false);
   ("linkToken", "EGLD", false); ("setTrustedAddress", "", true); ("removeTrustedAddress", "", true)]%string := eq_refl.
(* the functions that call require_not_paused directly (every gated endpoint reaches one of them first) *)
Example pin_pause_gates : gen_its_pause_gated_fns = ["call_contract_with_interchain_token"; "deploy_interchain_token"; "deploy_interchain_token_raw";
   "deploy_remote_interchain_token_raw"; "execute"; "interchain_transfer"; "link_token_raw"; "register_custom_token_raw"]%string := eq_refl.
Check c20_paused_frame.
Check c20_operator_gain.
