(* C07 — ITS ABI decoder: round-trip, canonical acceptance, no misread on arbitrary bytes.
   Property theorems only; proofs are in Proofs/SolAbiDec.v. *)
From Coq Require Import String List NArith Lia.
From Ax Require Import Lib.Bytes Lib.SolAbi Model.ItsPayloads Proofs.SolAbiEnc Proofs.SolAbiDec Proofs.SolAbiSize Gen.Generated.
Import ListNotations.
Open Scope N_scope.

(* for ALL byte strings the implemented decoder (absolute offsets, checked slices,
   take_usize / take_u8) returns exactly what the ABI layout assigns, or rejects *)
Theorem c07_decode_exact : forall tys data, dec_impl tys data = dec_spec tys data.
Proof. exact dec_impl_eq_spec. Qed.
Print Assumptions c07_decode_exact.

(* round trip, any arity, and every canonical encoding is accepted *)
Theorem c07_roundtrip : forall toks out,
  Forall wf_token toks -> spec_size toks < 2 ^ 32 ->
  enc_impl toks = Some out -> dec_impl (map type_of toks) out = Some toks.
Proof. exact dec_impl_enc_impl. Qed.
Print Assumptions c07_roundtrip.

(* no misread, at the level of a whole message and for ALL byte strings: whatever the decoder accepts has exactly the
   requested field types, every field well-formed, and is a value the encoder itself would accept *)
Theorem c07_decode_sound : forall tys data toks,
  dec_impl tys data = Some toks ->
  map type_of toks = tys /\ Forall wf_token toks /\ enc_spec toks <> None.
Proof. exact dec_impl_sound. Qed.
Print Assumptions c07_decode_sound.

(* consequence of the round trip: two well-formed messages of one shape never share their wire bytes *)
Theorem c07_encoding_injective : forall toks1 toks2 out,
  Forall wf_token toks1 -> Forall wf_token toks2 ->
  spec_size toks1 < 2 ^ 32 -> spec_size toks2 < 2 ^ 32 ->
  map type_of toks1 = map type_of toks2 ->
  enc_impl toks1 = Some out -> enc_impl toks2 = Some out -> toks1 = toks2.
Proof. exact enc_impl_injective. Qed.
Print Assumptions c07_encoding_injective.

Theorem c07_canonical_accepted : forall toks out,
  Forall wf_token toks -> spec_size toks < 2 ^ 32 ->
  enc_spec toks = Some out -> dec_impl (map type_of toks) out = Some toks.
Proof. intros. rewrite dec_impl_eq_spec. apply dec_spec_enc_spec; assumption. Qed.
Print Assumptions c07_canonical_accepted.

Theorem c07_canonical_accepted_with_trailing : forall toks out extra,
  Forall wf_token toks -> spec_size toks < 2 ^ 32 ->
  enc_spec toks = Some out -> dec_impl (map type_of toks) (out ++ extra) = Some toks.
Proof. intros. rewrite dec_impl_eq_spec. apply dec_spec_enc_spec_extended; assumption. Qed.

(* an accepted field was read from inside the buffer, at the place the layout says,
   with offsets and lengths below 2^32 and uint8 words below 256 *)
Theorem c07_field_sound : forall ty data i t,
  spec_field ty data i = Some t ->
  type_of t = ty /\ wf_token t /\ fits256 t = true /\
  exists w, slice data (32 * i) 32 = Some w /\
    match t with
    | TUint n => w = word n
    | TBytes32 b => w = b
    | TUint8 n => w = word n
    | TBytes d | TString d =>
        exists o, w = word o /\ o < 2 ^ 32 /\ slice data o 32 = Some (word (Nlen d)) /\
                  slice data (o + 32) (Nlen d) = Some d
    end.
Proof. exact spec_field_sound. Qed.
Print Assumptions c07_field_sound.

Theorem c07_slice_in_bounds : forall data off len r, slice data off len = Some r -> off + len <= Nlen data.
Proof. exact slice_in_bounds. Qed.

Theorem c07_rejects_u8 : forall data i w,
  slice data (32 * i) 32 = Some w -> 256 <= be_dec w -> spec_field PUint8 data i = None.
Proof. exact spec_field_rejects_u8. Qed.
Theorem c07_rejects_offset : forall data i w,
  slice data (32 * i) 32 = Some w -> 2 ^ 32 <= be_dec w -> spec_dynamic data i = None.
Proof. exact spec_dynamic_rejects_offset. Qed.
Theorem c07_rejects_length : forall data i w lw,
  slice data (32 * i) 32 = Some w -> slice data (be_dec w) 32 = Some lw ->
  2 ^ 32 <= be_dec lw -> spec_dynamic data i = None.
Proof. exact spec_dynamic_rejects_length. Qed.
Theorem c07_rejects_truncated_head : forall tys data i,
  tys <> [] -> Nlen data < 32 * (i + Nlen tys) -> spec_fields tys data i = None.
Proof. exact spec_fields_truncated. Qed.

(* struct level: the five message types, manager type above 4 rejected *)
Theorem c07_struct_exact : forall k data, dec_struct k data = dec_struct_spec k data.
Proof. intros. unfold dec_struct, dec_struct_spec. rewrite dec_impl_eq_spec. reflexivity. Qed.
Print Assumptions c07_struct_exact.

Theorem c07_struct_roundtrip : forall k toks out,
  Forall wf_token toks -> spec_size toks < 2 ^ 32 -> struct_post k toks = true ->
  enc_struct k toks = Some out -> dec_struct k out = Some toks.
Proof.
  intros k toks out Hwf Hsz Hpost. unfold enc_struct, dec_struct.
  destruct (ptypes_eqb (map type_of toks) (ptypes k)) eqn:E; [|discriminate].
  intro He.
  assert (ptypes k = map type_of toks) as ->.
  { clear -E. revert E. generalize (ptypes k) as l. generalize (map type_of toks) as m.
    induction m as [|x m IH]; intros [|y l]; cbn; intro H; try discriminate; [reflexivity|].
    apply andb_prop in H as [H1 H2]. f_equal; [destruct x, y; cbn in H1; congruence | apply IH; exact H2]. }
  rewrite (dec_impl_enc_impl toks out Hwf Hsz He), Hpost. reflexivity.
Qed.
Print Assumptions c07_struct_roundtrip.

Example pin_transfer_dec : gen_InterchainTransferPayload_dec = ptypes KTransfer := eq_refl.
Example pin_deploy_dec : gen_DeployInterchainTokenPayload_dec = ptypes KDeploy := eq_refl.
Example pin_hub_dec : gen_SendToHubPayload_dec = ptypes KHub := eq_refl.
Example pin_meta_dec : gen_RegisterTokenMetadataPayload_dec = ptypes KMeta := eq_refl.
Example pin_link_dec : gen_LinkTokenPayload_dec = ptypes KLink := eq_refl.
Example pin_offsets : [gen_InterchainTransferPayload_dec_offset; gen_DeployInterchainTokenPayload_dec_offset;
   gen_SendToHubPayload_dec_offset; gen_RegisterTokenMetadataPayload_dec_offset; gen_LinkTokenPayload_dec_offset] = [0;0;0;0;0] := eq_refl.
(* tokens are popped in exactly reverse field order *)
Example pin_transfer_pops : gen_InterchainTransferPayload_pops = rev gen_InterchainTransferPayload_fields := eq_refl.
Example pin_deploy_pops : gen_DeployInterchainTokenPayload_pops = rev gen_DeployInterchainTokenPayload_fields := eq_refl.
Example pin_hub_pops : gen_SendToHubPayload_pops = rev gen_SendToHubPayload_fields := eq_refl.
Example pin_meta_pops : gen_RegisterTokenMetadataPayload_pops = ["decimals"; "token_address"; "message_type"]%string := eq_refl.
Example pin_link_pops : gen_LinkTokenPayload_pops = rev gen_LinkTokenPayload_fields := eq_refl.
Example pin_take_usize : gen_take_usize_prefix = 28 := eq_refl.
Example pin_take_u8 : gen_take_u8_prefix = 31 := eq_refl.
Example pin_tm_from_u8 : map fst gen_tm_from_u8 = [0; 1; 2; 3; 4] /\ map snd gen_tm_from_u8 = gen_tm_variants := conj eq_refl eq_refl.

Example c07_vectors : forallb (fun v => match dec_struct (fst v) (snd v) with Some _ => true | None => false end) gen_struct_vectors = true.
Proof. vm_compute. reflexivity. Qed.

Example c07_nonvacuous :
  let toks := [TUint 5; TBytes32 (zeros 32); TUint8 4; TBytes (str "TOK-123456"); TBytes (zeros 65); TBytes []] in
  Forall wf_token toks /\ spec_size toks < 2 ^ 32 /\ struct_post KLink toks = true /\
  exists out, enc_struct KLink toks = Some out /\ dec_struct KLink out = Some toks.
Proof.
  cbv zeta. split; [repeat constructor; vm_compute; reflexivity|]. split; [vm_compute; reflexivity|].
  split; [reflexivity|]. eexists. split; vm_compute; reflexivity.
Qed.

Check c07_decode_exact : forall tys data, dec_impl tys data = dec_spec tys data.
Check c07_roundtrip : forall toks out, Forall wf_token toks -> spec_size toks < 2 ^ 32 ->
  enc_impl toks = Some out -> dec_impl (map type_of toks) out = Some toks.
Check c07_struct_exact : forall k data, dec_struct k data = dec_struct_spec k data.
Check c07_encoding_injective : forall toks1 toks2 out, Forall wf_token toks1 -> Forall wf_token toks2 ->
  spec_size toks1 < 2 ^ 32 -> spec_size toks2 < 2 ^ 32 -> map type_of toks1 = map type_of toks2 ->
  enc_impl toks1 = Some out -> enc_impl toks2 = Some out -> toks1 = toks2.
Check c07_decode_sound : forall tys data toks, dec_impl tys data = Some toks ->
  map type_of toks = tys /\ Forall wf_token toks /\ enc_spec toks <> None.
