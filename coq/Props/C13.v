(* C13 — ITS accepts and sends messages only along trusted routes, hub wrapping included.
   Statements only; proofs in Proofs/ItsFacts.v. *)
From Coq Require Import String List NArith Lia Bool.
From Ax Require Import Lib.Bytes Lib.Mvx Lib.SolAbi Lib.Keccak Model.Check Model.Env Model.Gateway Model.TokenManager Model.Its
     Proofs.GatewayMsgs Proofs.TMFacts Proofs.ItsFacts Proofs.ItsWorld Proofs.ItsMore Proofs.ItsConfig Gen.Generated.
Import ListNotations.
Open Scope N_scope.

Section C13.
  Variable H : bytes -> bytes.

  (* outbound: the destination is the trusted address of the chain, or — when that entry is "hub" — the
     hub's trusted address on the hub chain with the payload wrapped as (3, destination chain, payload) *)
  Theorem c13_route_out : forall s dest p dc da p',
    route_out s dest p = Some (dc, da, p') ->
    dest <> HUB_CHAIN /\ trusted s dest <> [] /\
    ((trusted s dest <> HUB_ID /\ dc = dest /\ da = trusted s dest /\ p' = p) \/
     (trusted s dest = HUB_ID /\ dc = HUB_CHAIN /\ da = trusted s HUB_CHAIN /\ da <> [] /\
      enc_impl [TUint MT_SEND_TO_HUB; TString dest; TBytes p] = Some p')).
  Proof. exact route_out_spec. Qed.
  Theorem c13_refuses_hub_chain : forall s p, route_out s HUB_CHAIN p = None.
  Proof. exact route_out_refuses_hub. Qed.
  Theorem c13_refuses_untrusted : forall s dest p, trusted s dest = [] -> route_out s dest p = None.
  Proof. exact route_out_refuses_untrusted. Qed.
  Theorem c13_refuses_hub_unset : forall s dest p, trusted s dest = HUB_ID -> trusted s HUB_CHAIN = [] -> route_out s dest p = None.
  Proof. exact route_out_refuses_hub_unset. Qed.

  (* inbound: a wrapper is opened only from the hub chain and only for an original chain configured as
     hub-routed; an unwrapped message claiming the hub chain is rejected *)
  Theorem c13_route_in : forall s chain payload mt orig p,
    route_in s chain payload = Some (mt, orig, p) ->
    exists outer, msg_type payload = Some outer /\
      ((outer <> MT_RECEIVE_FROM_HUB /\ chain <> HUB_CHAIN /\ mt = outer /\ orig = chain /\ p = payload) \/
       (outer = MT_RECEIVE_FROM_HUB /\ chain = HUB_CHAIN /\ is_trusted s orig HUB_ID = true /\ msg_type p = Some mt /\
        exists ty, dec_impl [PUint; PString; PBytes] payload = Some [TUint ty; TString orig; TBytes p])).
  Proof. exact route_in_spec. Qed.

  (* every message handed to the gateway names exactly the routed destination and payload; gas goes to
     the gas service for that same destination and payload *)
  Theorem c13_route_message : forall w c dest payload gtok gas w' ev,
    route_message H w c dest payload gtok gas = Some (w', ev) ->
    exists dc da p', route_out (iw_its w) dest payload = Some (dc, da, p') /\ call_contract H w c dc da p' gtok gas = Some (w', ev).
  Proof. exact (route_message_spec H). Qed.

  (* a message is processed only from the trusted address of its source chain *)
  Theorem c13_execute_requires_trusted : forall w c chain id src payload w' ev,
    its_execute H w c chain id src payload = Some (w', ev) -> is_trusted (iw_its w) chain src = true.
  Proof.
    intros w c chain id src payload w' ev R. unfold its_execute in R.
    destruct (negb (has_no_esdt _)); [discriminate|]. destruct (i_paused _); [discriminate|].
    destruct (is_trusted (iw_its w) chain src); [reflexivity | discriminate].
  Qed.
  Theorem c13_trusted_owner_only : forall w c chain a w' ev, set_trusted_address w c chain a = Some (w', ev) -> ic_caller c = ic_owner c.
  Proof. exact set_trusted_owner_only. Qed.

  (* ---- world level, every operation (Proofs/ItsConfig.v): the routes themselves are stable ----
     the trusted-address table is changed by no operation of the world (all 25 kinds, asynchronous steps included)
     other than setTrustedAddress / removeTrustedAddress called by the owner *)
  Variable verify : bytes -> bytes -> bytes -> bool.
  Theorem c13_trusted_table_owner_only : forall w o,
    i_trusted (iw_its (fst (istep H verify w o))) <> i_trusted (iw_its w) ->
    exists c, ic_caller c = ic_owner c /\ ((exists chain a, o = ISetTrusted c chain a) \/ (exists chain, o = IRemoveTrusted c chain)).
  Proof. exact (trusted_changes_owner_only H verify). Qed.
End C13.
Print Assumptions c13_route_out.
Print Assumptions c13_route_in.
Print Assumptions c13_route_message.
Print Assumptions c13_execute_requires_trusted.
Print Assumptions c13_trusted_table_owner_only.
Example pin_hub : gen_its_ITS_HUB_CHAIN_NAME = HUB_CHAIN /\ gen_its_ITS_HUB_ROUTING_IDENTIFIER = HUB_ID := conj eq_refl eq_refl.
Example pin_msg_types : [gen_its_MESSAGE_TYPE_INTERCHAIN_TRANSFER; gen_its_MESSAGE_TYPE_DEPLOY_INTERCHAIN_TOKEN; gen_its_MESSAGE_TYPE_SEND_TO_HUB;
  gen_its_MESSAGE_TYPE_RECEIVE_FROM_HUB; gen_its_MESSAGE_TYPE_LINK_TOKEN; gen_its_MESSAGE_TYPE_REGISTER_TOKEN_METADATA]
  = [MT_TRANSFER; MT_DEPLOY; MT_SEND_TO_HUB; MT_RECEIVE_FROM_HUB; MT_LINK; MT_REGISTER_METADATA] := eq_refl.
Check c13_route_out.
Check c13_route_in.
