(* C06 — ITS ABI encoder is byte-exact Solidity abi.encode for every message type.
   Property theorems only; proofs are in Proofs/SolAbiEnc.v. *)
From Coq Require Import String List NArith Lia.
From Ax Require Import Lib.Bytes Lib.SolAbi Model.ItsPayloads Proofs.SolAbiEnc Proofs.SolAbiDec Proofs.SolAbiSize Gen.Generated.
Import ListNotations.
Open Scope N_scope.

(* the implemented encoder (control flow of raw_abi_encode) equals the encoder
   written from the ABI specification, for every token list — any arity, any
   field lengths — whose encoding is below 2^32 bytes; rejections included *)
Theorem c06_encode_exact : forall toks,
  Forall wf_token toks -> spec_size toks < 2 ^ 32 -> enc_impl toks = enc_spec toks.
Proof. exact enc_impl_eq_spec. Qed.
Print Assumptions c06_encode_exact.

(* rejected exactly when some uint256 does not fit 256 bits: never truncated *)
Theorem c06_reject_iff : forall toks,
  enc_spec toks = None <-> exists v, In (TUint v) toks /\ 2 ^ 256 <= v.
Proof. exact enc_spec_none_iff. Qed.
Print Assumptions c06_reject_iff.

(* layout: one 32-byte head per field, total a multiple of 32 *)
Theorem c06_length_mult32 : forall toks out,
  Forall wf_token toks -> enc_spec toks = Some out -> exists q, Nlen out = 32 * q.
Proof. exact enc_spec_length_mult32. Qed.
Print Assumptions c06_length_mult32.

(* the size bound in the hypotheses above is nothing but the length of the
   output: [spec_size] is exactly the number of bytes produced, so the
   theorems cover every payload below 4 GiB and restrict nothing else *)
Theorem c06_size_is_output_length : forall toks out,
  Forall wf_token toks -> enc_spec toks = Some out -> Nlen out = spec_size toks.
Proof. exact enc_spec_length_eq_size. Qed.
Print Assumptions c06_size_is_output_length.

(* the same for the implemented encoder, inside the range it can address *)
Theorem c06_impl_output_length : forall toks out,
  Forall wf_token toks -> spec_size toks < 2 ^ 32 -> enc_impl toks = Some out -> Nlen out = spec_size toks.
Proof. exact enc_impl_length_eq_size. Qed.
Print Assumptions c06_impl_output_length.

Theorem c06_heads_size : forall k toks earlier,
  Forall wf_token toks -> Nlen (spec_heads k earlier toks) = 32 * Nlen toks.
Proof. exact spec_heads_length. Qed.

(* dynamic tails are length-prefixed and zero-right-padded to a 32 multiple *)
Theorem c06_tail_shape : forall d,
  spec_tail (TBytes d) = word (Nlen d) ++ d ++ zeros (Nat.modulo (32 - Nat.modulo (length d) 32) 32).
Proof. reflexivity. Qed.

(* struct level, all five message types *)
Theorem c06_struct_exact : forall k toks,
  Forall wf_token toks -> spec_size toks < 2 ^ 32 ->
  enc_struct k toks = enc_struct_spec k toks.
Proof.
  intros k toks Hwf Hsz. unfold enc_struct, enc_struct_spec.
  destruct (ptypes_eqb (map type_of toks) (ptypes k)); [apply enc_impl_eq_spec; assumption | reflexivity].
Qed.
Print Assumptions c06_struct_exact.

(* pins: the field lists regenerated from abi_types.rs are the Solidity tuples of the model *)
Example pin_transfer_enc : gen_InterchainTransferPayload_enc = ptypes KTransfer := eq_refl.
Example pin_deploy_enc : gen_DeployInterchainTokenPayload_enc = ptypes KDeploy := eq_refl.
Example pin_hub_enc : gen_SendToHubPayload_enc = ptypes KHub := eq_refl.
Example pin_meta_enc : gen_RegisterTokenMetadataPayload_enc = ptypes KMeta := eq_refl.
Example pin_link_enc : gen_LinkTokenPayload_enc = ptypes KLink := eq_refl.
(* encoded in declaration order (the harness passes fields in that order) *)
Example pin_transfer_order : gen_InterchainTransferPayload_enc_fields = gen_InterchainTransferPayload_fields := eq_refl.
Example pin_deploy_order : gen_DeployInterchainTokenPayload_enc_fields = gen_DeployInterchainTokenPayload_fields := eq_refl.
Example pin_hub_order : gen_SendToHubPayload_enc_fields = gen_SendToHubPayload_fields := eq_refl.
Example pin_meta_order : gen_RegisterTokenMetadataPayload_enc_fields = gen_RegisterTokenMetadataPayload_fields := eq_refl.
Example pin_link_order : gen_LinkTokenPayload_enc_fields = gen_LinkTokenPayload_fields := eq_refl.
Example pin_pad_consts : gen_pad_bytes_len_consts = [31; 32; 1] := eq_refl.
Example pin_pad_u32 : gen_pad_u32_range = [28; 32] := eq_refl.
Example pin_tm_to_u8 : map snd gen_tm_to_u8 = [0; 1; 2; 3; 4] := eq_refl.

(* the repository's own Solidity-produced vectors: the specification decoder accepts
   them and the specification encoder reproduces them byte for byte *)
Definition vector_ok (v : pkind * bytes) : bool :=
  match dec_struct_spec (fst v) (snd v) with
  | Some toks => opt_bytes_eqb (enc_struct_spec (fst v) toks) (Some (snd v))
  | None => false
  end.
Example c06_vectors : forallb vector_ok gen_struct_vectors = true /\ (length gen_struct_vectors >= 6)%nat.
Proof. split; [vm_compute; reflexivity | vm_compute; lia]. Qed.

(* non-vacuity: a concrete non-trivial value meets the hypotheses *)
Example c06_nonvacuous :
  let toks := [TUint 0; TBytes32 (zeros 32); TBytes (str "0xabc"); TBytes (zeros 33); TUint (2 ^ 255); TBytes []] in
  Forall wf_token toks /\ spec_size toks < 2 ^ 32 /\ exists out, enc_spec toks = Some out /\ Nlen out = 384.
Proof.
  cbv zeta. split; [repeat constructor; vm_compute; reflexivity|]. split; [vm_compute; reflexivity|].
  eexists. split; [vm_compute; reflexivity | vm_compute; reflexivity].
Qed.

Check c06_encode_exact : forall toks, Forall wf_token toks -> spec_size toks < 2 ^ 32 -> enc_impl toks = enc_spec toks.
Check c06_reject_iff : forall toks, enc_spec toks = None <-> exists v, In (TUint v) toks /\ 2 ^ 256 <= v.
Check c06_struct_exact : forall k toks, Forall wf_token toks -> spec_size toks < 2 ^ 32 -> enc_struct k toks = enc_struct_spec k toks.
Check c06_size_is_output_length : forall toks out, Forall wf_token toks -> enc_spec toks = Some out -> Nlen out = spec_size toks.
Check c06_impl_output_length : forall toks out, Forall wf_token toks -> spec_size toks < 2 ^ 32 -> enc_impl toks = Some out -> Nlen out = spec_size toks.
