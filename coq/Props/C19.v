(* C19 — ITS remote deploy with a custom minter needs an exact, single-use approval.
   Statements only; proofs in Proofs/ItsFacts.v. *)
From Coq Require Import String List NArith Lia Bool.
From Ax Require Import Lib.Bytes Lib.Mvx Lib.SolAbi Lib.Keccak Model.Check Model.Env Model.Gateway Model.TokenManager Model.Its
     Proofs.GatewayMsgs Proofs.TMFacts Proofs.ItsFacts Proofs.ItsWorld Proofs.ItsMore Proofs.ItsApprovals Proofs.ItsApprovalCount Gen.Generated.
Import ListNotations.
Open Scope N_scope.

Section C19.
  Variable H : bytes -> bytes.

  Theorem c19_approve : forall w c deployer salt dchain dminter w' ev,
    approve_remote H w c deployer salt dchain dminter = Some (w', ev) ->
    let token_id := interchain_token_id H (iw_its w) deployer salt in
    check_token_minter w c token_id (ic_caller c) = true /\ trusted (iw_its w) dchain <> [] /\
    w' = w_its w (set_approval (iw_its w) (approval_key H (ic_caller c) token_id dchain) (H dminter)).
  Proof. exact (approve_remote_spec H). Qed.
  Theorem c19_minter_check : forall w c token_id m, check_token_minter w c token_id m = true ->
    tm_addr (iw_its w) token_id <> [] /\ is_minter_of w (tm_addr (iw_its w) token_id) m = true /\ m <> ic_self c.
  Proof. exact check_token_minter_spec. Qed.
  (* revocation by its author (the key contains the caller as minter) *)
  Theorem c19_revoke : forall w c deployer salt dchain w' ev,
    revoke_remote H w c deployer salt dchain = Some (w', ev) ->
    w' = w_its w (set_approval (iw_its w) (approval_key H (ic_caller c) (interchain_token_id H (iw_its w) deployer salt) dchain) []).
  Proof. exact (revoke_remote_spec H). Qed.
  (* deployment: a destination minter needs the CURRENT minter's stored approval of exactly that
     (minter, token id of the caller's salt, destination chain) key and exactly that hash; it is consumed;
     without a local minter none can be supplied; the service itself is never accepted as minter *)
  Theorem c19_deploy : forall w c salt minter dchain dm w' rets ev,
    deploy_remote_with_minter H w c salt minter dchain dm = Some (w', rets, ev) ->
    let ds := interchain_salt H (iw_its w) (ic_caller c) salt in
    let token_id := token_id_raw H ds in
    (minter = zero32 -> dm = None /\ remote_raw H w c ds dchain [] = Some (w', rets, ev)) /\
    (minter <> zero32 ->
       check_token_minter w c token_id minter = true /\
       match dm with
       | None => remote_raw H w c ds dchain minter = Some (w', rets, ev)
       | Some d =>
           let key := approval_key H minter token_id dchain in
           bget (i_approvals (iw_its w)) key = H d /\ H d <> [] /\
           remote_raw H (w_its w (set_approval (iw_its w) key [])) c ds dchain d = Some (w', rets, ev)
       end).
  Proof. exact (deploy_remote_with_minter_spec H). Qed.
  Theorem c19_single_use : forall s key, bget (i_approvals (set_approval s key [])) key = [].
  Proof. exact approval_consumed. Qed.
  (* the key binds minter, token id and destination chain (32 + 32 + length-prefixed): equal preimages force equal tuples *)
  Theorem c19_key_preimage_inj : forall (p m t d p' m' t' d' : bytes),
    length p = 32%nat -> length p' = 32%nat -> length m = 32%nat -> length m' = 32%nat -> length t = 32%nat -> length t' = 32%nat ->
    p ++ m ++ t ++ d = p' ++ m' ++ t' ++ d' -> p = p' /\ m = m' /\ t = t' /\ d = d'.
  Proof. exact salt_preimage_inj. Qed.

  (* ---- world level, every operation (Proofs/ItsApprovals.v) ----
     no operation other than approve / revoke / deploy-with-minter touches the approvals table (all 25 kinds), and a
     non-empty approval that appears or changes was written by approveDeployRemoteInterchainToken, called by an
     account holding the minter role of that token's manager at that moment, under exactly the key
     (caller, token id of (deployer, salt), destination chain) with the hash of the named destination minter;
     revocation and use only ever empty a slot *)
  Variable verify : bytes -> bytes -> bytes -> bool.
  Theorem c19_approvals_frame : forall w o,
    match o with
    | IApproveRemote _ _ _ _ _ | IRevokeRemote _ _ _ _ | IDeployRemote _ _ _ _ _ => True
    | _ => aps w (fst (istep H verify w o))
    end.
  Proof. exact (istep_approvals_frame H verify). Qed.
  Theorem c19_approval_origin : forall w o key w', w' = fst (istep H verify w o) ->
    appr w' key <> [] -> appr w' key <> appr w key ->
    exists c deployer salt dchain dminter l1,
      o = IApproveRemote c deployer salt dchain dminter /\
      let token_id := interchain_token_id H (iw_its w) deployer salt in
      key = approval_key H (ic_caller c) token_id dchain /\
      appr w' key = H dminter /\
      check_token_minter (w_led_ w l1) c token_id (ic_caller c) = true.
  Proof. exact (approval_origin H verify). Qed.
  (* ---- whole histories (Proofs/ItsApprovalCount.v) ----
     per step, over all 25 operation kinds, for every key and every non-empty hash h:
        [this step is a successful deployment under key naming a minter with hash h] + [slot holds h afterwards]
          <=  [slot held h before] + [this step is a successful approval of exactly (key, h)]
     summed over any history: the deployments naming hash h under a key never outnumber the approvals of exactly
     (key, h); a replaced, revoked or used approval authorises nothing *)
  Theorem c19_approval_step : forall w o key h, h <> [] ->
    use_hit H verify key h w o + holds (fst (istep H verify w o)) key h <= holds w key h + approve_hit H verify key h w o.
  Proof. exact (approval_step H verify). Qed.
  Theorem c19_approval_history : forall ops w key h, h <> [] ->
    total H verify (use_hit H verify key h) w ops + holds (irun H verify w ops) key h <= holds w key h + total H verify (approve_hit H verify key h) w ops.
  Proof. exact (approval_history H verify). Qed.
  Theorem c19_uses_bounded_by_approvals : forall ops w key h, h <> [] -> appr w key <> h ->
    total H verify (use_hit H verify key h) w ops <= total H verify (approve_hit H verify key h) w ops.
  Proof. exact (uses_bounded_by_approvals H verify). Qed.
End C19.
Print Assumptions c19_approve.
Print Assumptions c19_deploy.
Print Assumptions c19_single_use.
Print Assumptions c19_approvals_frame.
Print Assumptions c19_approval_origin.
Print Assumptions c19_approval_history.
Print Assumptions c19_uses_bounded_by_approvals.

(* non-vacuity: the minter approves (deployer, salt, ethereum, "0xremoteminter"), replaces it by "0xother", the deployer
   then names the first minter (refused), the second (accepted) and the second again (refused): one approval of each
   hash, no use of the first, exactly one use of the second *)
Module NV.
  Import Findings.
  Definition minterA := A 5.  Definition deployer := A 6.  Definition salt := be_enc 32 99.
  Definition s0 := its0 [(str "ethereum", str "0xITS"); (str "axelar", str "axelar1hub")] false.
  Definition ntid := interchain_token_id keccak256 s0 deployer salt.
  Definition w0 : iworld :=
    {| iw_gw := gw0 [];
       iw_its := {| i_gateway := i_gateway s0; i_gas := i_gas s0; i_tm_impl := i_tm_impl s0; i_chain := i_chain s0; i_chain_hash := i_chain_hash s0;
                    i_paused := false; i_trusted := i_trusted s0; i_tms := [(ntid, tma)]; i_locks := []; i_approvals := []; i_roles := []; i_proposed := [] |};
       iw_tms := [(tma, {| tm_service := self; tm_type := T_NATIVE; tm_tid := ntid; tm_token := str "MTK-abcdef"; tm_roles := [(minterA, 1)]; tm_proposed := [];
                           tm_limit := 0; tm_in := []; tm_out := []; tm_pending := 0 |})];
       iw_led := []; iw_pend := []; iw_next := 0 |}.
  Definition key := approval_key keccak256 minterA ntid (str "ethereum").
  Definition h1 := keccak256 (str "0xremoteminter").  Definition h2 := keccak256 (str "0xother").
  Definition ops : list iop :=
    [ IApproveRemote (cx minterA no_value) deployer salt (str "ethereum") (str "0xremoteminter");
      IApproveRemote (cx minterA no_value) deployer salt (str "ethereum") (str "0xother");
      IDeployRemote (cx deployer no_value) salt minterA (str "ethereum") (Some (str "0xremoteminter"));
      IDeployRemote (cx deployer no_value) salt minterA (str "ethereum") (Some (str "0xother"));
      IDeployRemote (cx deployer no_value) salt minterA (str "ethereum") (Some (str "0xother")) ].
End NV.
Example c19_history_nonvacuous :
  total keccak256 Findings.vf (approve_hit keccak256 Findings.vf NV.key NV.h1) NV.w0 NV.ops = 1 /\
  total keccak256 Findings.vf (use_hit keccak256 Findings.vf NV.key NV.h1) NV.w0 NV.ops = 0 /\
  total keccak256 Findings.vf (approve_hit keccak256 Findings.vf NV.key NV.h2) NV.w0 NV.ops = 1 /\
  total keccak256 Findings.vf (use_hit keccak256 Findings.vf NV.key NV.h2) NV.w0 NV.ops = 1 /\
  NV.h1 <> [] /\ NV.h2 <> [] /\ appr NV.w0 NV.key = [].
Proof. vm_compute. repeat split; try reflexivity; discriminate. Qed.

Example pin_approval_fields : gen_its_DeployApproval_fields = ["minter"; "token_id"; "destination_chain"]%string := eq_refl.
Example pin_approval_prefix : gen_its_PREFIX_DEPLOY_APPROVAL = PREFIX_APPROVAL := eq_refl.
Check c19_deploy.
Check c19_approval_origin.
Check c19_approval_history.
Check c19_uses_bounded_by_approvals.
