(* C01 — Gateway approves messages only under a valid weighted-signer quorum proof.
   Statements only; proofs in Proofs/GatewayAuth.v.  H (hash) and verify (ed25519)
   are arbitrary functions: every theorem holds for all of them. *)
From Coq Require Import String List NArith Lia.
From Coq Require Import Init.Byte.
From Ax Require Import Lib.Bytes Lib.Mvx Lib.Keccak Model.Check Model.Gateway Model.GatewayCheck Proofs.AListFacts Proofs.GatewayMsgs Proofs.GatewayAuth Model.GatewayCheck Model.GWUpgrade Proofs.GWUpgradeFacts Gen.Generated.
Import ListNotations.
Open Scope N_scope.

Section C01.
  Variable H : bytes -> bytes.
  Variable verify : bytes -> bytes -> bytes -> bool.

  (* soundness: an accepted approval carries a proof whose signer set this gateway registered
     (epoch e, hash stored at e) no more than `retention` rotations ago, with signatures that
     verify under the members' keys over exactly D = digest(domain, signers hash,
     H(approve-tag ++ exact batch bytes)) and whose combined weight reaches the threshold;
     and it changes nothing but the states of the ids in the batch *)
  Theorem c01_sound : forall g m p g' ev,
    Inv g -> approve_messages H verify g m p = Some (g', ev) ->
    exists pr ms,
      dec_proof_top p = Some pr /\ dec_messages_top m = Some ms /\ ms <> [] /\
      let w := pf_signers pr in
      let sh := signers_hash H w in
      let e := epoch_of g sh in
      let D := digest H (g_domain g) sh (data_hash H CMD_APPROVE m) in
      1 <= e <= g_epoch g /\ alookup N.eqb e (g_hash_by_epoch g) = Some sh /\ g_epoch g - e <= g_retention g /\
      length (ws_signers w) = length (pf_sigs pr) /\
      ws_threshold w <= valid_weight verify D (ws_signers w) (pf_sigs pr) /\
      g' = fst (approve_all H g ms) /\ same_config g g' /\
      (forall k, (forall m0, In m0 ms -> mkey m0 <> k) -> mst g' k = mst g k).
  Proof. exact (approve_sound H verify). Qed.

  (* completeness: well-formed non-empty batch, registered set inside the window, aligned
     signature vector in which every supplied signature is valid and the supplied weight
     reaches the (positive) threshold: accepted *)
  Theorem c01_complete : forall g m p pr ms,
    dec_proof_top p = Some pr -> dec_messages_top m = Some ms -> ms <> [] ->
    let w := pf_signers pr in
    let sh := signers_hash H w in
    let e := epoch_of g sh in
    let D := digest H (g_domain g) sh (data_hash H CMD_APPROVE m) in
    0 < e -> g_epoch g - e <= g_retention g ->
    length (ws_signers w) = length (pf_sigs pr) -> pf_sigs pr <> [] ->
    all_valid verify D (ws_signers w) (pf_sigs pr) ->
    0 < ws_threshold w -> ws_threshold w <= supplied_weight (ws_signers w) (pf_sigs pr) ->
    approve_messages H verify g m p = Some (approve_all H g ms).
  Proof. exact (approve_complete H verify). Qed.

  (* a set that was never registered or has aged out of the window authorises nothing *)
  Theorem c01_out_of_window : forall g m p pr,
    dec_proof_top p = Some pr ->
    (let e := epoch_of g (signers_hash H (pf_signers pr)) in e = 0 \/ g_retention g < g_epoch g - e) ->
    approve_messages H verify g m p = None.
  Proof. exact (approve_out_of_window H verify). Qed.

  (* the digest binds domain separator, signer set encoding, command tag and batch bytes:
     equal digests force equal components unless one of the three named hash collisions occurs *)
  Theorem c01_digest_binding : forall dom w cmd raw dom' w' cmd' raw',
    length dom = 32%nat -> length dom' = 32%nat -> cmd < 256 -> cmd' < 256 ->
    (forall x, length (H x) = 32%nat) ->
    let P := SIGNED_PREFIX ++ dom ++ signers_hash H w ++ data_hash H cmd raw in
    let P' := SIGNED_PREFIX ++ dom' ++ signers_hash H w' ++ data_hash H cmd' raw' in
    (H P = H P' -> P = P') ->
    (H (enc_wsigners w) = H (enc_wsigners w') -> enc_wsigners w = enc_wsigners w') ->
    (H (byte_of_N cmd :: raw) = H (byte_of_N cmd' :: raw') -> byte_of_N cmd :: raw = byte_of_N cmd' :: raw') ->
    digest H dom (signers_hash H w) (data_hash H cmd raw) = digest H dom' (signers_hash H w') (data_hash H cmd' raw') ->
    dom = dom' /\ enc_wsigners w = enc_wsigners w' /\ cmd = cmd' /\ raw = raw'.
  Proof. exact (digest_binding H). Qed.

  (* the invariant used above holds in every reachable state *)
  Theorem c01_inv_reachable : forall now ret dom md op srs g ev ops,
    gw_init H now ret dom md op srs = Some (g, ev) -> Inv (grun H verify g ops).
  Proof. intros. apply grun_Inv. eapply init_Inv. eassumption. Qed.
End C01.

Print Assumptions c01_sound.
Print Assumptions c01_complete.
Print Assumptions c01_out_of_window.
Print Assumptions c01_digest_binding.
Print Assumptions c01_inv_reachable.

(* histories that also contain UPGRADE transactions (Model/GWUpgrade.v: the owner re-runs the second half of `init`): the invariant
   behind c01_sound holds in every state reachable through endpoint calls and upgrades in any order; the configuration bound into
   every proof (domain separator, retention, minimum delay) is what deployment stored, forever; an upgrade approves nothing *)
Section C01U.
  Variable H : bytes -> bytes.
  Variable verify : bytes -> bytes -> bytes -> bool.
  Theorem c01_inv_reachable_with_upgrades : forall now ret dom md op srs g ev ops,
    gw_init H now ret dom md op srs = Some (g, ev) -> Inv (ugrun H verify g ops).
  Proof. intros. apply ugrun_Inv. eapply init_Inv. eassumption. Qed.
  Theorem c01_settings_forever_with_upgrades : forall g ops,
    let g' := ugrun H verify g ops in
    g_retention g' = g_retention g /\ g_domain g' = g_domain g /\ g_min_delay g' = g_min_delay g.
  Proof. exact (ugrun_keeps_settings H verify). Qed.
  Theorem c01_upgrade_approves_nothing : forall g c op srs k,
    mst (fst (ugstep H verify g (inr (GUpgrade c op srs)))) k = mst g k.
  Proof. exact (upgrade_approves_nothing H verify). Qed.
End C01U.
Print Assumptions c01_inv_reachable_with_upgrades.
Print Assumptions c01_settings_forever_with_upgrades.
Print Assumptions c01_upgrade_approves_nothing.

(* pins of regenerated constants *)
Example pin_prefix : gen_gw_signed_prefix = SIGNED_PREFIX := eq_refl.
Example pin_prefix_text : SIGNED_PREFIX = Byte.x19 :: str "MultiversX Signed Message:" ++ [Byte.x0a] := eq_refl.
Example pin_commands : gen_gw_command_types = ["ApproveMessages"; "RotateSigners"]%string /\ CMD_APPROVE = 0 /\ CMD_ROTATE = 1 := conj eq_refl (conj eq_refl eq_refl).
Example pin_message_fields : gen_gw_Message_fields = ["source_chain"; "message_id"; "source_address"; "contract_address"; "payload_hash"]%string := eq_refl.
Example pin_signers_fields : gen_gw_WeightedSigners_fields = ["signers"; "threshold"; "nonce"]%string /\ gen_gw_WeightedSigner_fields = ["signer"; "weight"]%string
  /\ gen_gw_Proof_fields = ["signers"; "signatures"]%string := conj eq_refl (conj eq_refl eq_refl).

(* non-vacuity: with keccak-256 and an oracle verifier, a 3-of-(1,2,3) set with threshold 4 is
   registered and an approval signed by members 2 and 3 is accepted; weight 3 alone is not *)
Module NonVacuous.
  Definition k1 := be_enc 32 11. Definition k2 := be_enc 32 22. Definition k3 := be_enc 32 33.
  Definition W : wsigners := {| ws_signers := [ {| s_key := k1; s_weight := 1 |}; {| s_key := k2; s_weight := 2 |}; {| s_key := k3; s_weight := 3 |} ];
                                ws_threshold := 4; ws_nonce := zeros 32 |}.
  Definition dom := be_enc 32 7.
  Definition batch : bytes := enc_buf (str "ethereum") ++ enc_buf (str "id-1") ++ enc_buf (str "0xsrc") ++ be_enc 32 5 ++ be_enc 32 9.
  Definition D := digest keccak256 dom (signers_hash keccak256 W) (data_hash keccak256 CMD_APPROVE batch).
  Definition sg (k : bytes) := k ++ k.       (* oracle: "signature of key k over D" *)
  Definition vf (key msg sig : bytes) : bool := bytes_eqb msg D && bytes_eqb sig (sg key).
  Definition proof_bytes (sigs : list (option bytes)) : bytes :=
    enc_wsigners W ++ enc_u32 (Nlen sigs) ++ concat (map (fun o => match o with None => [x00] | Some s => x01 :: s end) sigs).
  Definition g0 := match gw_init keccak256 100 2 dom 10 (be_enc 32 1) [enc_wsigners W] with Some (g, _) => g | None => empty_gw end.
  Example accepted : match approve_messages keccak256 vf g0 batch (proof_bytes [None; Some (sg k2); Some (sg k3)]) with
                     | Some (g', ev) => is_approved_with keccak256 g' (str "ethereum") (str "id-1") (str "0xsrc") (be_enc 32 5) (be_enc 32 9) = true
                     | None => False end.
  Proof. vm_compute. reflexivity. Qed.
  Example below_threshold_rejected : approve_messages keccak256 vf g0 batch (proof_bytes [None; None; Some (sg k3)]) = None.
  Proof. vm_compute. reflexivity. Qed.
  Example inv_holds : Inv g0.
  Proof. eapply (init_Inv keccak256 100 2 dom 10 (be_enc 32 1) [enc_wsigners W] g0). vm_compute. reflexivity. Qed.
End NonVacuous.

Check c01_sound : forall H verify g m p g' ev, Inv g -> approve_messages H verify g m p = Some (g', ev) ->
    exists pr ms, dec_proof_top p = Some pr /\ dec_messages_top m = Some ms /\ ms <> [] /\
      let w := pf_signers pr in let sh := signers_hash H w in let e := epoch_of g sh in
      let D := digest H (g_domain g) sh (data_hash H CMD_APPROVE m) in
      1 <= e <= g_epoch g /\ alookup N.eqb e (g_hash_by_epoch g) = Some sh /\ g_epoch g - e <= g_retention g /\
      length (ws_signers w) = length (pf_sigs pr) /\
      ws_threshold w <= valid_weight verify D (ws_signers w) (pf_sigs pr) /\
      g' = fst (approve_all H g ms) /\ same_config g g' /\
      (forall k, (forall m0, In m0 ms -> mkey m0 <> k) -> mst g' k = mst g k).

Check c01_inv_reachable_with_upgrades : forall H verify now ret dom md op srs g ev ops,
    gw_init H now ret dom md op srs = Some (g, ev) -> Inv (ugrun H verify g ops).
