(* C08 — ITS transfer-with-data is atomic and single-shot across its asynchronous steps.
   Statements only; proofs in Proofs/ItsFacts.v and Proofs/ItsMore.v.
   Known finding F-C08-1 (known_findings.json): when the failure callback cannot return the tokens to the
   manager (flow limit reached by transfers placed in the window) it fails, leaving the tokens in the
   service and the lock set; c08_flow_limit_strands is that history on the model. *)
From Coq Require Import String List NArith Lia Bool.
From Ax Require Import Lib.Bytes Lib.Mvx Lib.SolAbi Lib.Keccak Model.Check Model.Env Model.Gateway Model.TokenManager Model.Its
     Proofs.GatewayMsgs Proofs.TMFacts Proofs.ItsFacts Proofs.ItsWorld Proofs.ItsMore Proofs.ItsLocks Gen.Generated.
Import ListNotations.
Open Scope N_scope.

Section C08.
  Variable H : bytes -> bytes.

  (* step 1: approval checked but not consumed; lock must be free and is taken; tokens go to the service;
     exactly one promise carrying (message, token, amount, destination) *)
  Theorem c08_start : forall w c orig chain id src ph payload w' ev token_id osrc dest amount data ty,
    dec_impl [PUint; PBytes32; PBytes; PBytes; PUint; PBytes] payload = Some [TUint ty; TBytes32 token_id; TBytes osrc; TBytes dest; TUint amount; TBytes data] ->
    data <> [] ->
    process_transfer H w c orig chain id src ph payload = Some (w', ev) ->
    is_approved_with H (iw_gw w) chain id src (ic_self c) ph = true /\ ev = [] /\
    exists w1 tok, call_tm_give w c token_id (ic_self c) amount = Some (w1, tok) /\
      lock_of (iw_its w1) chain id = 0 /\
      w' = w_push (w_its w1 (set_lock (iw_its w1) chain id 1)) (PTransfer chain id src ph token_id tok amount dest orig osrc data).
  Proof. exact (process_transfer_data_spec H). Qed.
  (* while a delivery is in flight (lock set) the same message cannot start another one *)
  Theorem c08_lock_excludes : forall w c orig chain id src ph payload,
    (forall token_id dest amount w1 tok, call_tm_give w c token_id dest amount = Some (w1, tok) -> lock_of (iw_its w1) chain id <> 0) ->
    forall w' ev token_id osrc dest amount data ty,
    dec_impl [PUint; PBytes32; PBytes; PBytes; PUint; PBytes] payload = Some [TUint ty; TBytes32 token_id; TBytes osrc; TBytes dest; TUint amount; TBytes data] ->
    data <> [] -> process_transfer H w c orig chain id src ph payload = Some (w', ev) -> False.
  Proof. exact (locked_refuses H). Qed.
  Theorem c08_give_keeps_lock : forall w c token_id dest amount w' tok, call_tm_give w c token_id dest amount = Some (w', tok) ->
    iw_its w' = iw_its w /\ iw_gw w' = iw_gw w /\ iw_pend w' = iw_pend w.
  Proof. exact call_tm_give_its. Qed.
  (* step 3: the callback clears the lock; on success the (still approved) message becomes executed and nothing else
     moves; on failure the gateway is untouched (message stays approved, retry possible) and the tokens are taken back
     by the manager through takeToken (flow-out accounting) *)
  Theorem c08_callback : forall w c chain id src ph token_id tok amount ok w' ev,
    transfer_callback H w c chain id src ph token_id tok amount ok = Some (w', ev) ->
    lock_of (iw_its w') chain id = 0 /\
    (ok = true ->
       (is_approved_with H (iw_gw w) chain id src (ic_self c) ph = true -> mst (iw_gw w') (chain, id) = Some MExecuted) /\
       iw_led w' = iw_led w /\ iw_tms w' = iw_tms w) /\
    (ok = false ->
       iw_gw w' = iw_gw w /\
       call_tm_take (w_its w (set_lock (iw_its w) chain id 0)) c token_id tok amount = Some w').
  Proof. exact (transfer_callback_spec H). Qed.
  (* once executed the message can neither be delivered again nor release tokens *)
  Theorem c08_no_double : forall w c orig chain id src ph payload,
    mst (iw_gw w) (chain, id) = Some MExecuted -> process_transfer H w c orig chain id src ph payload = None.
  Proof. exact (process_transfer_after_executed H). Qed.

  (* ---- world level, every history: single-shot ----
     LockInv w: (1) every delivery in flight (a pending PTransfer entry, whatever its stage) has its message's lock set,
     and (2) no two deliveries in flight belong to the same (source chain, message id).
     It holds in every world without pending work and is preserved by EVERY operation of the ITS world -- all 25 kinds,
     all callers, the environment's delivery / callback / lookup / issuance steps in any order -- hence in every
     reachable world: at any time at most one delivery of a message is in flight. *)
  Variable verify : bytes -> bytes -> bytes -> bool.
  Theorem c08_inv_init : forall w, iw_pend w = [] -> LockInv w.
  Proof. intros w E. unfold LockInv. rewrite E. split; [intros ? ? [] | constructor]. Qed.
  Theorem c08_inv_step : forall w o, LockInv w -> LockInv (fst (istep H verify w o)).
  Proof. exact (istep_lockinv H verify). Qed.
  Theorem c08_inv_reachable : forall ops w, LockInv w -> LockInv (irun H verify w ops).
  Proof. exact (irun_lockinv H verify). Qed.
  (* readable consequences *)
  Theorem c08_in_flight_locked : forall w p chain id src ph tid tok amt dest oc os data, LockInv w -> In p (iw_pend w) ->
    ip_kind p = PTransfer chain id src ph tid tok amt dest oc os data -> lock_of (iw_its w) chain id <> 0.
  Proof.
    intros w p chain id src ph tid tok amt dest oc os data [A _] Hin K. apply A. unfold tkeys. apply in_flat_map. exists p.
    split; [exact Hin | unfold tkey; rewrite K; left; reflexivity].
  Qed.
End C08.
Print Assumptions c08_start.
Print Assumptions c08_callback.
Print Assumptions c08_lock_excludes.
Print Assumptions c08_inv_step.
Print Assumptions c08_inv_reachable.
Print Assumptions c08_in_flight_locked.

(* the known finding, on the model: a failing failure-callback leaves 10 tokens in the service and the lock set *)
Example c08_refuted_flow_limit :
  let w := irun keccak256 Findings.vf Findings.w08 Findings.h08 in
  let r := istep keccak256 Findings.vf w (ICallback (Findings.cx Findings.user no_value) 0) in
  io_ok (snd r) = false /\ bal (iw_led (fst r)) Findings.self Findings.tok = 10 /\ lock_of (iw_its (fst r)) (str "ethereum") (str "id-1") = 1.
Proof. destruct Findings.c08_flow_limit_strands as (A & B & C & _). auto. Qed.
Check c08_callback.
Check c08_inv_reachable.

(* non-vacuity: the world of the known-finding history (one delivery in flight, lock set) satisfies the invariant *)
Example c08_inv_nonvacuous :
  let w := irun keccak256 Findings.vf Findings.w08 Findings.h08 in
  iw_pend w <> [] /\ LockInv w.
Proof. split; [vm_compute; discriminate|]. apply c08_inv_reachable. apply c08_inv_init. reflexivity. Qed.
