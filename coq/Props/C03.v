(* C03 — Gateway signer rotation: unique epochs, well-formed sets, latest-set and delay.
   Statements only; proofs in Proofs/GatewayAuth.v. *)
From Coq Require Import String List NArith Lia.
From Ax Require Import Lib.Bytes Lib.Mvx Model.Gateway Proofs.AListFacts Proofs.GatewayMsgs Proofs.GatewayAuth Gen.Generated.
Import ListNotations.
Open Scope N_scope.

Section C03.
  Variable H : bytes -> bytes.
  Variable verify : bytes -> bytes -> bytes -> bool.

  (* a successful rotation: authorised by a registered set inside the window with a quorum over the
     rotate-tagged digest; a non-operator needs the latest set and the minimum delay; the new set is
     well-formed and was never registered; epoch + 1; both tables extended at exactly that point *)
  Theorem c03_rotate_sound : forall g c s p g' ev,
    Inv g -> rotate_signers H verify g c s p = Some (g', ev) ->
    exists pr w,
      dec_proof_top p = Some pr /\ dec_wsigners_top s = Some w /\
      let sh := signers_hash H (pf_signers pr) in
      let e := epoch_of g sh in
      let D := digest H (g_domain g) sh (data_hash H CMD_ROTATE s) in
      1 <= e <= g_epoch g /\ g_epoch g - e <= g_retention g /\
      ws_threshold (pf_signers pr) <= valid_weight verify D (ws_signers (pf_signers pr)) (pf_sigs pr) /\
      (c_caller c <> g_operator g -> e = g_epoch g /\ g_min_delay g <= c_now c - g_last_rot g) /\
      validate_signers w = true /\
      alookup bytes_eqb (signers_hash H w) (g_epoch_by_hash g) = None /\
      g_epoch g' = g_epoch g + 1 /\
      alookup N.eqb (g_epoch g + 1) (g_hash_by_epoch g') = Some (signers_hash H w) /\
      alookup bytes_eqb (signers_hash H w) (g_epoch_by_hash g') = Some (g_epoch g + 1) /\
      g_last_rot g' = c_now c /\ g_operator g' = g_operator g /\ g_messages g' = g_messages g /\
      g_retention g' = g_retention g /\ g_domain g' = g_domain g /\ g_min_delay g' = g_min_delay g.
  Proof. exact (rotate_sound H verify). Qed.

  (* exactly which candidate sets are accepted *)
  Theorem c03_validate_signers_spec : forall w,
    validate_signers w = true <->
    ws_signers w <> [] /\ increasing 0 (ws_signers w) /\ weights_pos (ws_signers w) /\
    0 < ws_threshold w /\ ws_threshold w <= total_weight (ws_signers w).
  Proof. exact validate_signers_spec. Qed.
  Theorem c03_rejects_empty : forall w, ws_signers w = [] -> validate_signers w = false.
  Proof. exact validate_signers_rejects_empty. Qed.
  Theorem c03_rejects_unsorted : forall w a b l1 l2,
    ws_signers w = l1 ++ a :: b :: l2 -> be_dec (s_key b) <= be_dec (s_key a) -> validate_signers w = false.
  Proof. exact validate_signers_rejects_unsorted. Qed.
  Theorem c03_rejects_zero_weight : forall w s, In s (ws_signers w) -> s_weight s = 0 -> validate_signers w = false.
  Proof. exact validate_signers_rejects_zero_weight. Qed.
  Theorem c03_rejects_zero_threshold : forall w, ws_threshold w = 0 -> validate_signers w = false.
  Proof. exact validate_signers_rejects_zero_threshold. Qed.
  Theorem c03_rejects_high_threshold : forall w, total_weight (ws_signers w) < ws_threshold w -> validate_signers w = false.
  Proof. exact validate_signers_rejects_high_threshold. Qed.

  (* the epoch <-> hash tables are mutually inverse on 1..epoch in every reachable state, and a
     registered set keeps its epoch forever: hence "never registered before" above is about the whole history *)
  Theorem c03_bijection_reachable : forall now ret dom md op srs g ev ops,
    gw_init H now ret dom md op srs = Some (g, ev) -> Inv (grun H verify g ops).
  Proof. intros. apply grun_Inv. eapply init_Inv. eassumption. Qed.
  Theorem c03_registered_forever : forall g ops h e,
    alookup bytes_eqb h (g_epoch_by_hash g) = Some e ->
    alookup bytes_eqb h (g_epoch_by_hash (grun H verify g ops)) = Some e.
  Proof. exact (grun_registered_mono H verify). Qed.

  (* the operator may use any set still inside the window and skips the delay *)
  Theorem c03_operator_complete : forall g c s p pr w l,
    g_operator g <> [] -> c_caller c = g_operator g ->
    dec_proof_top p = Some pr -> dec_wsigners_top s = Some w ->
    validate_proof H verify g (data_hash H CMD_ROTATE s) pr = Some l ->
    validate_signers w = true ->
    alookup bytes_eqb (signers_hash H w) (g_epoch_by_hash g) = None ->
    exists g' ev, rotate_signers H verify g c s p = Some (g', ev).
  Proof. exact (rotate_operator_complete H verify). Qed.

  (* outside the window: rejected for every command *)
  Theorem c03_out_of_window_rotate : forall g c s p pr,
    dec_proof_top p = Some pr ->
    (let e := epoch_of g (signers_hash H (pf_signers pr)) in e = 0 \/ g_retention g < g_epoch g - e) ->
    rotate_signers H verify g c s p = None.
  Proof. exact (rotate_out_of_window H verify). Qed.
  Theorem c03_out_of_window_approve : forall g m p pr,
    dec_proof_top p = Some pr ->
    (let e := epoch_of g (signers_hash H (pf_signers pr)) in e = 0 \/ g_retention g < g_epoch g - e) ->
    approve_messages H verify g m p = None.
  Proof. exact (approve_out_of_window H verify). Qed.

  (* operatorship changes only by transferOperatorship called by the operator or the owner *)
  Theorem c03_operatorship : forall g o,
    g_operator (fst (gstep H verify g o)) <> g_operator g ->
    exists c a, o = GTransferOp c a /\ (c_caller c = g_operator g \/ c_caller c = c_owner c) /\
                a <> zero_addr /\ g_operator (fst (gstep H verify g o)) = a.
  Proof. exact (operator_changes_only_by_transfer H verify). Qed.
End C03.

Print Assumptions c03_rotate_sound.
Print Assumptions c03_validate_signers_spec.
Print Assumptions c03_bijection_reachable.
Print Assumptions c03_registered_forever.
Print Assumptions c03_operator_complete.
Print Assumptions c03_operatorship.

Example pin_storage : gen_gw_storage = ["domain_separator"; "epoch"; "epoch_by_signer_hash"; "last_rotation_timestamp"; "messages";
   "minimum_rotation_delay"; "operator"; "previous_signers_retention"; "signer_hash_by_epoch"]%string := eq_refl.

Check c03_rotate_sound.
Check c03_operatorship : forall H verify g o,
    g_operator (fst (gstep H verify g o)) <> g_operator g ->
    exists c a, o = GTransferOp c a /\ (c_caller c = g_operator g \/ c_caller c = c_owner c) /\
                a <> zero_addr /\ g_operator (fst (gstep H verify g o)) = a.
