(* C03 — Gateway signer rotation: unique epochs, well-formed sets, latest-set and delay.
   Statements only; proofs in Proofs/GatewayAuth.v. *)
From Coq Require Import String List NArith Lia.
From Ax Require Import Lib.Bytes Lib.Mvx Model.Gateway Proofs.AListFacts Proofs.GatewayMsgs Proofs.GatewayAuth Model.GatewayCheck Model.GWUpgrade Proofs.GWUpgradeFacts Lib.Keccak Gen.Generated.
Import ListNotations.
Open Scope N_scope.

Section C03.
  Variable H : bytes -> bytes.
  Variable verify : bytes -> bytes -> bytes -> bool.

  (* a successful rotation: authorised by a registered set inside the window with a quorum over the
     rotate-tagged digest; a non-operator needs the latest set and the minimum delay; the new set is
     well-formed and was never registered; epoch + 1; both tables extended at exactly that point *)
  Theorem c03_rotate_sound : forall g c s p g' ev,
    Inv g -> rotate_signers H verify g c s p = Some (g', ev) ->
    exists pr w,
      dec_proof_top p = Some pr /\ dec_wsigners_top s = Some w /\
      let sh := signers_hash H (pf_signers pr) in
      let e := epoch_of g sh in
      let D := digest H (g_domain g) sh (data_hash H CMD_ROTATE s) in
      1 <= e <= g_epoch g /\ g_epoch g - e <= g_retention g /\
      ws_threshold (pf_signers pr) <= valid_weight verify D (ws_signers (pf_signers pr)) (pf_sigs pr) /\
      (c_caller c <> g_operator g -> e = g_epoch g /\ g_min_delay g <= c_now c - g_last_rot g) /\
      validate_signers w = true /\
      alookup bytes_eqb (signers_hash H w) (g_epoch_by_hash g) = None /\
      g_epoch g' = g_epoch g + 1 /\
      alookup N.eqb (g_epoch g + 1) (g_hash_by_epoch g') = Some (signers_hash H w) /\
      alookup bytes_eqb (signers_hash H w) (g_epoch_by_hash g') = Some (g_epoch g + 1) /\
      g_last_rot g' = c_now c /\ g_operator g' = g_operator g /\ g_messages g' = g_messages g /\
      g_retention g' = g_retention g /\ g_domain g' = g_domain g /\ g_min_delay g' = g_min_delay g.
  Proof. exact (rotate_sound H verify). Qed.

  (* exactly which candidate sets are accepted *)
  Theorem c03_validate_signers_spec : forall w,
    validate_signers w = true <->
    ws_signers w <> [] /\ increasing 0 (ws_signers w) /\ weights_pos (ws_signers w) /\
    0 < ws_threshold w /\ ws_threshold w <= total_weight (ws_signers w).
  Proof. exact validate_signers_spec. Qed.
  Theorem c03_rejects_empty : forall w, ws_signers w = [] -> validate_signers w = false.
  Proof. exact validate_signers_rejects_empty. Qed.
  Theorem c03_rejects_unsorted : forall w a b l1 l2,
    ws_signers w = l1 ++ a :: b :: l2 -> be_dec (s_key b) <= be_dec (s_key a) -> validate_signers w = false.
  Proof. exact validate_signers_rejects_unsorted. Qed.
  Theorem c03_rejects_zero_weight : forall w s, In s (ws_signers w) -> s_weight s = 0 -> validate_signers w = false.
  Proof. exact validate_signers_rejects_zero_weight. Qed.
  Theorem c03_rejects_zero_threshold : forall w, ws_threshold w = 0 -> validate_signers w = false.
  Proof. exact validate_signers_rejects_zero_threshold. Qed.
  Theorem c03_rejects_high_threshold : forall w, total_weight (ws_signers w) < ws_threshold w -> validate_signers w = false.
  Proof. exact validate_signers_rejects_high_threshold. Qed.

  (* the epoch <-> hash tables are mutually inverse on 1..epoch in every reachable state, and a
     registered set keeps its epoch forever: hence "never registered before" above is about the whole history *)
  Theorem c03_bijection_reachable : forall now ret dom md op srs g ev ops,
    gw_init H now ret dom md op srs = Some (g, ev) -> Inv (grun H verify g ops).
  Proof. intros. apply grun_Inv. eapply init_Inv. eassumption. Qed.
  Theorem c03_registered_forever : forall g ops h e,
    alookup bytes_eqb h (g_epoch_by_hash g) = Some e ->
    alookup bytes_eqb h (g_epoch_by_hash (grun H verify g ops)) = Some e.
  Proof. exact (grun_registered_mono H verify). Qed.

  (* the operator may use any set still inside the window and skips the delay *)
  Theorem c03_operator_complete : forall g c s p pr w l,
    g_operator g <> [] -> c_caller c = g_operator g ->
    dec_proof_top p = Some pr -> dec_wsigners_top s = Some w ->
    validate_proof H verify g (data_hash H CMD_ROTATE s) pr = Some l ->
    validate_signers w = true ->
    alookup bytes_eqb (signers_hash H w) (g_epoch_by_hash g) = None ->
    exists g' ev, rotate_signers H verify g c s p = Some (g', ev).
  Proof. exact (rotate_operator_complete H verify). Qed.

  (* outside the window: rejected for every command *)
  Theorem c03_out_of_window_rotate : forall g c s p pr,
    dec_proof_top p = Some pr ->
    (let e := epoch_of g (signers_hash H (pf_signers pr)) in e = 0 \/ g_retention g < g_epoch g - e) ->
    rotate_signers H verify g c s p = None.
  Proof. exact (rotate_out_of_window H verify). Qed.
  Theorem c03_out_of_window_approve : forall g m p pr,
    dec_proof_top p = Some pr ->
    (let e := epoch_of g (signers_hash H (pf_signers pr)) in e = 0 \/ g_retention g < g_epoch g - e) ->
    approve_messages H verify g m p = None.
  Proof. exact (approve_out_of_window H verify). Qed.

  (* operatorship changes only by transferOperatorship called by the operator or the owner *)
  Theorem c03_operatorship : forall g o,
    g_operator (fst (gstep H verify g o)) <> g_operator g ->
    exists c a, o = GTransferOp c a /\ (c_caller c = g_operator g \/ c_caller c = c_owner c) /\
                a <> zero_addr /\ g_operator (fst (gstep H verify g o)) = a.
  Proof. exact (operator_changes_only_by_transfer H verify). Qed.
End C03.

Print Assumptions c03_rotate_sound.
Print Assumptions c03_validate_signers_spec.
Print Assumptions c03_bijection_reachable.
Print Assumptions c03_registered_forever.
Print Assumptions c03_operator_complete.
Print Assumptions c03_operatorship.

(* the UPGRADE path (Model/GWUpgrade.v).  `init` ends by calling `upgrade(operator, signers)`, and an upgrade transaction -- which the
   protocol accepts from the contract's owner only -- runs it again on the existing gateway: the listed sets are registered
   through the same `rotate_signers_raw` as every rotation, without a proof and with the delay not enforced.  So "every successful
   rotation advances the epoch by exactly one and registers a set never registered before; malformed sets are always rejected"
   holds there too, the bijection and "registered forever" hold along histories with upgrades, and the operator changes only
   through the operator's / owner's transferOperatorship or the owner's upgrade *)
Section C03U.
  Variable H : bytes -> bytes.
  Variable verify : bytes -> bytes -> bytes -> bool.
  Theorem c03_upgrade_spec : forall g now op srs g' ev,
    gw_upgrade H g now op srs = Some (g', ev) ->
    exists ws, decode_sets srs = Some ws /\
      g_messages g' = g_messages g /\ g_retention g' = g_retention g /\ g_domain g' = g_domain g /\ g_min_delay g' = g_min_delay g /\
      g_operator g' = (if bytes_eqb op zero_addr then g_operator g else op) /\
      g_epoch g' = g_epoch g + N.of_nat (length ws) /\
      (ws <> [] -> g_last_rot g' = now) /\
      (ws = [] -> g_last_rot g' = g_last_rot g /\ g_hash_by_epoch g' = g_hash_by_epoch g /\ g_epoch_by_hash g' = g_epoch_by_hash g) /\
      Forall (fun w => validate_signers w = true /\
                       alookup bytes_eqb (signers_hash H w) (g_epoch_by_hash g) = None /\
                       exists e, g_epoch g < e <= g_epoch g' /\ registered g' (signers_hash H w) e) ws.
  Proof. exact (upgrade_spec H). Qed.
  Theorem c03_upgrade_rejects : forall g now op srs ws w,
    decode_sets srs = Some ws -> In w ws ->
    validate_signers w = false \/ (exists e, registered g (signers_hash H w) e) ->
    gw_upgrade H g now op srs = None.
  Proof. exact (upgrade_rejects H). Qed.
  Theorem c03_bijection_reachable_with_upgrades : forall now ret dom md op srs g ev ops,
    gw_init H now ret dom md op srs = Some (g, ev) -> Inv (ugrun H verify g ops).
  Proof. intros. apply ugrun_Inv. eapply init_Inv. eassumption. Qed.
  Theorem c03_registered_forever_with_upgrades : forall g ops h e,
    registered g h e -> registered (ugrun H verify g ops) h e.
  Proof. exact (ugrun_registered_mono H verify). Qed.
  Theorem c03_epoch_monotone_with_upgrades : forall g o, g_epoch g <= g_epoch (fst (ugstep H verify g o)).
  Proof. exact (ugstep_epoch_mono H verify). Qed.
  Theorem c03_operatorship_with_upgrades : forall g o,
    g_operator (fst (ugstep H verify g o)) <> g_operator g ->
    (exists c a, o = inl (GTransferOp c a) /\ (c_caller c = g_operator g \/ c_caller c = c_owner c) /\
                 a <> zero_addr /\ g_operator (fst (ugstep H verify g o)) = a) \/
    (exists c a srs, o = inr (GUpgrade c a srs) /\ a <> zero_addr /\ length a = 32%nat /\ g_operator (fst (ugstep H verify g o)) = a).
  Proof. exact (operator_changes_with_upgrades H verify). Qed.
End C03U.
Print Assumptions c03_upgrade_spec.
Print Assumptions c03_upgrade_rejects.
Print Assumptions c03_bijection_reachable_with_upgrades.
Print Assumptions c03_registered_forever_with_upgrades.
Print Assumptions c03_operatorship_with_upgrades.

(* non-vacuity (keccak-256): a gateway deployed with one set accepts an upgrade that registers a second set at epoch 2 and installs
   a new operator; the same upgrade again is refused (the set is registered now), as is one carrying a set with a zero weight *)
Module UpgradeNonVacuous.
  Definition k1 := be_enc 32 11. Definition k2 := be_enc 32 22.
  Definition W1 : wsigners := {| ws_signers := [ {| s_key := k1; s_weight := 1 |}; {| s_key := k2; s_weight := 2 |} ]; ws_threshold := 2; ws_nonce := zeros 32 |}.
  Definition W2 : wsigners := {| ws_signers := [ {| s_key := k1; s_weight := 1 |}; {| s_key := k2; s_weight := 2 |} ]; ws_threshold := 3; ws_nonce := zeros 32 |}.
  Definition W0 : wsigners := {| ws_signers := [ {| s_key := k1; s_weight := 0 |} ]; ws_threshold := 1; ws_nonce := zeros 32 |}.
  Definition g0 := match gw_init keccak256 100 2 (be_enc 32 7) 10 (be_enc 32 1) [enc_wsigners W1] with Some (g, _) => g | None => empty_gw end.
  Definition newop := be_enc 32 5.
  Example upgrade_registers : match gw_upgrade keccak256 g0 105 newop [enc_wsigners W2] with
                              | Some (g', _) => g_epoch g0 = 1 /\ g_epoch g' = 2 /\ g_operator g' = newop /\ g_last_rot g' = 105 /\
                                                registered g' (signers_hash keccak256 W2) 2 /\ registered g' (signers_hash keccak256 W1) 1 /\
                                                gw_upgrade keccak256 g' 106 zero_addr [enc_wsigners W2] = None
                              | None => False end.
  Proof. vm_compute. repeat split; reflexivity. Qed.
  Example upgrade_refuses_malformed : gw_upgrade keccak256 g0 105 newop [enc_wsigners W2; enc_wsigners W0] = None.
  Proof. vm_compute. reflexivity. Qed.
End UpgradeNonVacuous.

Example pin_storage : gen_gw_storage = ["domain_separator"; "epoch"; "epoch_by_signer_hash"; "last_rotation_timestamp"; "messages";
   "minimum_rotation_delay"; "operator"; "previous_signers_retention"; "signer_hash_by_epoch"]%string := eq_refl.

Check c03_rotate_sound.
Check c03_operatorship : forall H verify g o,
    g_operator (fst (gstep H verify g o)) <> g_operator g ->
    exists c a, o = GTransferOp c a /\ (c_caller c = g_operator g \/ c_caller c = c_owner c) /\
                a <> zero_addr /\ g_operator (fst (gstep H verify g o)) = a.

Check c03_operatorship_with_upgrades : forall H verify g o,
    g_operator (fst (ugstep H verify g o)) <> g_operator g ->
    (exists c a, o = inl (GTransferOp c a) /\ (c_caller c = g_operator g \/ c_caller c = c_owner c) /\
                 a <> zero_addr /\ g_operator (fst (ugstep H verify g o)) = a) \/
    (exists c a srs, o = inr (GUpgrade c a srs) /\ a <> zero_addr /\ length a = 32%nat /\ g_operator (fst (ugstep H verify g o)) = a).
Check c03_registered_forever_with_upgrades : forall H verify g ops h e,
    registered g h e -> registered (ugrun H verify g ops) h e.
