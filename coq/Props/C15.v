(* C15 — Gas service custody: exact receipts, collector-only withdrawal, conservation.
   Statements only; proofs in Proofs/GasFacts.v.  H is an arbitrary hash function. *)
From Coq Require Import String List NArith Lia.
From Ax Require Import Lib.Bytes Lib.Mvx Model.Check Model.Env Model.GasService Proofs.TMFacts Proofs.GasFacts Proofs.GasConserve Gen.Generated.
Import ListNotations.
Open Scope N_scope.

Section C15.
  Variable H : bytes -> bytes.

  (* a payment is accepted only as exactly one payment of the accepted kind with a non-zero amount *)
  Theorem c15_received : forall native v tok amt,
    received native v = Some (tok, amt) ->
    0 < amt /\
    (native = true -> tok = EGLD /\ amt = cv_egld v /\ cv_esdt v = []) /\
    (native = false -> cv_egld v = 0 /\ exists p, cv_esdt v = [p] /\ ep_token p = tok /\ ep_nonce p = 0 /\ ep_amount p = amt).
  Proof. exact received_spec. Qed.

  (* exactly one event whose fields are the call's arguments, hash of the payload, and what was received *)
  Theorem c15_pay_event : forall kind c sender chain daddr payload rf ev,
    pay_gas H kind c sender chain daddr payload rf = Some ev ->
    exists tok amt, received (is_native kind) (gc_value c) = Some (tok, amt) /\ 0 < amt /\
      ev = [gev (gc_self c) [pay_event_name kind; sender; chain; daddr]
                (if is_native kind then H payload ++ enc_big amt ++ rf else H payload ++ enc_buf tok ++ enc_big amt ++ rf)].
  Proof. exact (pay_gas_spec H). Qed.
  Theorem c15_add_event : forall kind c txhash logidx rf ev,
    add_gas kind c txhash logidx rf = Some ev ->
    exists tok amt, received (is_native kind) (gc_value c) = Some (tok, amt) /\ 0 < amt /\
      ev = [gev (gc_self c) [add_event_name kind; txhash; be_min logidx]
                (if is_native kind then enc_big amt ++ rf else enc_buf tok ++ enc_big amt ++ rf)].
  Proof. exact (add_gas_spec H). Qed.
  Theorem c15_zero_rejected : forall kind c sender chain daddr payload rf,
    has_no_value (gc_value c) = true -> pay_gas H kind c sender chain daddr payload rf = None.
  Proof. exact (pay_requires_value H). Qed.

  (* the received amount, and nothing else, moves from the payer to the service *)
  Theorem c15_pay_ledger : forall s l kind c sender chain daddr payload rf,
    go_ok (snd (gsstep H s l (GSPay kind c sender chain daddr payload rf))) = true ->
    exists tok amt, received (is_native kind) (gc_value c) = Some (tok, amt) /\
      transfer l (gc_caller c) (gc_self c) tok amt = Some (snd (fst (gsstep H s l (GSPay kind c sender chain daddr payload rf)))).
  Proof. exact (pay_step_ledger H). Qed.

  (* refund: collector only, non-zero receiver, exactly the requested amount *)
  Theorem c15_refund : forall s l c txhash logidx receiver token amount l' ev,
    refund s l c txhash logidx receiver token amount = Some (l', ev) ->
    gc_caller c = gs_collector s /\ receiver <> zero32 /\
    transfer l (gc_self c) receiver token amount = Some l' /\
    ev = [gev (gc_self c) [str "refunded_event"; txhash; be_min logidx] (receiver ++ enc_buf token ++ enc_big amount)].
  Proof. exact refund_spec. Qed.

  (* collectFees: collector only, non-zero receiver, equal lengths; each entry is either skipped because it
     exceeds the CURRENT balance or transferred exactly; a zero amount rejects the whole call *)
  Theorem c15_collect : forall s l c receiver tokens amounts l',
    collect_fees s l c receiver tokens amounts = Some l' ->
    gc_caller c = gs_collector s /\ receiver <> zero32 /\ length tokens = length amounts /\
    Collected (gc_self c) receiver l (combine tokens amounts) l'.
  Proof. exact collect_fees_spec. Qed.
  Theorem c15_collect_zero : forall l self receiver items tok, In (tok, 0) items -> collect_loop l self receiver items = None.
  Proof. exact collect_loop_zero. Qed.

  (* for every operation by every caller: the service's balance of any token decreases only in
     collectFees / refund called by the current collector *)
  Theorem c15_outflow : forall s l o tok,
    let c := gsop_ctx o in
    gc_caller c <> gc_self c ->
    bal (snd (fst (gsstep H s l o))) (gc_self c) tok < bal l (gc_self c) tok ->
    gc_caller c = gs_collector s /\ ((exists r tk am, o = GSCollect c r tk am) \/ (exists th li r tk am, o = GSRefund c th li r tk am)).
  Proof. exact (outflow_only_by_collector H). Qed.

  Theorem c15_collector : forall s l o,
    gs_collector (fst (fst (gsstep H s l o))) <> gs_collector s ->
    exists c a, o = GSSetCollector c a /\ (gc_caller c = gs_collector s \/ gc_caller c = gc_owner c) /\
                gs_collector (fst (fst (gsstep H s l o))) = a.
  Proof. exact (collector_changes_only_by_collector_or_owner H). Qed.

  (* conservation.  One call (any operation, any caller other than the service, not paying out to the
     service itself): the service's balance plus what the receiver of a collection / refund gained equals
     the old balance plus the receipt of an accepted payment *)
  Theorem c15_conserve_step : forall g s l o tok, gs_wf g o ->
    bal (snd (fst (gsstep H s l o))) g tok + gs_out_of H s l o tok = bal l g tok + gs_in_of H s l o tok.
  Proof. exact (gs_conserve_step H). Qed.
  (* every history: balance = initial balance + all receipts - all collections and refunds *)
  Theorem c15_conservation : forall g os s l tok, Forall (gs_wf g) os ->
    bal (snd (gsrun H s l os)) g tok + gs_outflows H s l os tok = bal l g tok + gs_receipts H s l os tok.
  Proof. exact (gs_conservation H). Qed.
  Theorem c15_out_needs_collector : forall g s l o tok, gs_wf g o -> 0 < gs_out_of H s l o tok ->
    gc_caller (gsop_ctx o) = gs_collector s /\ go_ok (snd (gsstep H s l o)) = true.
  Proof. exact (gs_out_needs_collector H). Qed.
End C15.

Print Assumptions c15_pay_event.
Print Assumptions c15_pay_ledger.
Print Assumptions c15_collect.
Print Assumptions c15_outflow.
Print Assumptions c15_collector.
Print Assumptions c15_conservation.
Print Assumptions c15_out_needs_collector.

(* non-vacuity: a user pays 10 EGLD of gas, the collector collects 4 to a third account, then refunds 5:
   balance 1 = 0 + 10 - (4 + 5) *)
Example c15_conservation_nonvacuous :
  let g := be_enc 32 32 in let u := be_enc 32 7 in let col := be_enc 32 9 in let r := be_enc 32 11 in
  let c who v := {| gc_self := g; gc_caller := who; gc_owner := col; gc_value := v |} in
  let os := [GSPay 1 (c u {| cv_egld := 10; cv_esdt := [] |}) u (str "eth") (str "0xabc") (str "payload") u;
             GSCollect (c col no_value) r [EGLD] [4];
             GSRefund (c col no_value) (zeros 32) 0 u EGLD 5] in
  let s := {| gs_collector := col |} in let l := [((u, EGLD), 100)] in
  let H := fun b : bytes => b in
  Forall (gs_wf g) os /\ gs_receipts H s l os EGLD = 10 /\ gs_outflows H s l os EGLD = 9 /\ bal (snd (gsrun H s l os)) g EGLD = 1.
Proof.
  cbv zeta. split; [|vm_compute; repeat split; reflexivity].
  repeat constructor; cbn; try (intro E; apply (f_equal (fun b => nth 31 b Byte.x00)) in E; vm_compute in E; discriminate); discriminate.
Qed.

Example pin_gas_endpoints : gen_gas_endpoints =
  [("payGasForContractCall", "*"); ("payNativeGasForContractCall", "EGLD"); ("payGasForExpressCall", "*"); ("payNativeGasForExpressCall", "EGLD");
   ("addGas", "*"); ("addNativeGas", "EGLD"); ("addExpressGas", "*"); ("addNativeExpressGas", "EGLD");
   ("collectFees", ""); ("refund", ""); ("setGasCollector", "")]%string := eq_refl.
Example pin_gas_events : map bytes_of_string gen_gas_events =
  [pay_event_name 0; pay_event_name 1; pay_event_name 2; pay_event_name 3; add_event_name 0; add_event_name 1; add_event_name 2; add_event_name 3; str "refunded_event"] := eq_refl.
Example pin_gas_fields : gen_gas_GasPaidForContractCallData_fields = ["hash"; "gas_token"; "gas_fee_amount"; "refund_address"]%string
  /\ gen_gas_NativeGasPaidForContractCallData_fields = ["hash"; "value"; "refund_address"]%string
  /\ gen_gas_AddGasData_fields = ["gas_token"; "gas_fee_amount"; "refund_address"]%string
  /\ gen_gas_AddNativeGasData_fields = ["value"; "refund_address"]%string
  /\ gen_gas_RefundedData_fields = ["receiver"; "token"; "amount"]%string := conj eq_refl (conj eq_refl (conj eq_refl (conj eq_refl eq_refl))).
Example pin_gas_nonzero : gen_gas_nonzero_checks = 8 := eq_refl.
Example pin_gas_storage : gen_gas_storage = ["gas_collector"]%string := eq_refl.

Check c15_outflow.
Check c15_collector.
Check c15_conservation.
