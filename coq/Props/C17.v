(* C17 — ITS never strands user value when an asynchronous step does not go through.
   Statements only; proofs in Proofs/ItsMore.v.
   Known findings (known_findings.json): when the CALLBACK of the token-properties lookup fails — hub
   address unset/removed (registerTokenMetadata), or service paused / destination untrusted, removed, own
   chain or empty at callback time (remote deployments) — the attached EGLD stays in the service.  The
   theorems state what happens whenever the callback completes; the Examples are the failing histories. *)
From Coq Require Import String List NArith Lia Bool.
From Ax Require Import Lib.Bytes Lib.Mvx Lib.SolAbi Lib.Keccak Model.Check Model.Env Model.Gateway Model.TokenManager Model.Its
     Proofs.GatewayMsgs Proofs.TMFacts Proofs.ItsFacts Proofs.ItsWorld Proofs.ItsMore Gen.Generated.
Import ListNotations.
Open Scope N_scope.

Section C17.
  Variable H : bytes -> bytes.

  (* registerTokenMetadata: whenever the callback completes the whole attached value is either returned to the
     caller (lookup error, non-fungible) or paid to the gas service together with one gateway message to the hub *)
  Theorem c17_metadata_callback : forall w c tok gas caller res w' ev,
    metadata_callback H w c tok gas caller res = Some (w', ev) ->
    iw_its w' = iw_its w /\
    ((ev = [] /\ (gas = 0 -> iw_led w' = iw_led w) /\ (gas <> 0 -> transfer (iw_led w) (ic_self c) caller EGLD gas = Some (iw_led w'))) \/
     (exists name dbuf dec payload, res = Some (name, FUNGIBLE, dbuf) /\ props_decimals dbuf = Some dec /\
        enc_impl [TUint MT_REGISTER_METADATA; TBytes tok; TUint8 dec] = Some payload /\ trusted (iw_its w) HUB_CHAIN <> [] /\
        (gas <> 0 -> transfer (iw_led w) (ic_self c) (i_gas (iw_its w)) EGLD gas = Some (iw_led w')) /\
        In (lg (i_gateway (iw_its w)) [str "contract_call_event"; ic_self c; HUB_CHAIN; trusted (iw_its w) HUB_CHAIN; H payload] payload) ev)).
  Proof. exact (metadata_callback_spec H). Qed.
  (* remote deployments: refund, or the pause-gated routed deployment message with the gas value *)
  Theorem c17_remote_callback : forall w c ds dc sym m gas caller res w' ev,
    remote_callback H w c ds dc sym m gas caller res = Some (w', ev) ->
    (ev = [] /\ iw_its w' = iw_its w /\ (gas = 0 -> iw_led w' = iw_led w) /\ (gas <> 0 -> transfer (iw_led w) (ic_self c) caller EGLD gas = Some (iw_led w'))) \/
    (exists name dbuf dec, res = Some (name, FUNGIBLE, dbuf) /\ props_decimals dbuf = Some dec /\
       deploy_token_raw H w c ds dc name sym dec m gas = Some (w', ev)).
  Proof. exact (remote_callback_spec H). Qed.
  (* every synchronous payable endpoint forwards or rejects within its own transaction: the outbound
     message moves exactly the gas value from the service to the gas service *)
  Theorem c17_sync_forward : forall w c dchain daddr payload gtok gas w' ev,
    call_contract H w c dchain daddr payload gtok gas = Some (w', ev) -> gas <> 0 ->
    transfer (iw_led w) (ic_self c) (i_gas (iw_its w)) gtok gas = Some (iw_led w').
  Proof. intros w c dchain daddr payload gtok gas w' ev R NZ. apply call_contract_spec in R as (_ & _ & _ & _ & _ & _ & _ & K). destruct (K NZ) as (T & _). exact T. Qed.
End C17.
Print Assumptions c17_metadata_callback.
Print Assumptions c17_remote_callback.

(* known findings, on the model *)
Example c17_refuted_hub_unset :
  let r := istep keccak256 Findings.vf (Findings.w17 false [(str "ethereum", str "0xITS")]) (IProps (Findings.cx (Findings.A 99) no_value) 0 Findings.good_props) in
  io_ok (snd r) = false /\ bal (iw_led (fst r)) Findings.self EGLD = 777 /\ iw_pend (fst r) = [].
Proof. exact Findings.c17_hub_unset_strands. Qed.
Example c17_refuted_paused_at_callback :
  let r := istep keccak256 Findings.vf (Findings.w17r true [(str "ethereum", str "0xITS")]) (IProps (Findings.cx (Findings.A 99) no_value) 0 Findings.good_props) in
  io_ok (snd r) = false /\ bal (iw_led (fst r)) Findings.self EGLD = 333.
Proof. exact Findings.c17_paused_at_callback_strands. Qed.
Example c17_refuted_untrusted_at_callback :
  let r := istep keccak256 Findings.vf (Findings.w17r false []) (IProps (Findings.cx (Findings.A 99) no_value) 0 Findings.good_props) in
  io_ok (snd r) = false /\ bal (iw_led (fst r)) Findings.self EGLD = 333.
Proof. exact Findings.c17_untrusted_at_callback_strands. Qed.
(* and the good cases are not vacuous *)
Example c17_forwards_when_hub_set :
  let r := istep keccak256 Findings.vf (Findings.w17 false [(str "ethereum", str "0xITS"); (str "axelar", str "axelar1hub")]) (IProps (Findings.cx (Findings.A 99) no_value) 0 Findings.good_props) in
  io_ok (snd r) = true /\ bal (iw_led (fst r)) Findings.self EGLD = 0 /\ bal (iw_led (fst r)) Findings.gasa EGLD = 777.
Proof. exact Findings.c17_hub_set_forwards. Qed.
Example c17_error_refunds :
  let r := istep keccak256 Findings.vf (Findings.w17r true []) (IProps (Findings.cx (Findings.A 99) no_value) 0 None) in
  io_ok (snd r) = true /\ bal (iw_led (fst r)) Findings.self EGLD = 0 /\ bal (iw_led (fst r)) Findings.user EGLD = 333.
Proof. exact Findings.c17_error_refunds. Qed.
Check c17_metadata_callback.
