(* C17 — ITS never strands user value when an asynchronous step does not go through.
   Statements only; proofs in Proofs/ItsMore.v.
   Known findings (known_findings.json): when the CALLBACK of the token-properties lookup fails — hub
   address unset/removed (registerTokenMetadata), or service paused / destination untrusted, removed, own
   chain or empty at callback time (remote deployments) — the attached EGLD stays in the service.  The
   theorems state what happens whenever the callback completes; the Examples are the failing histories. *)
From Coq Require Import String List NArith Lia Bool.
From Ax Require Import Lib.Bytes Lib.Mvx Lib.SolAbi Lib.Keccak Model.Check Model.Env Model.Gateway Model.TokenManager Model.Its
     Proofs.GatewayMsgs Proofs.TMFacts Proofs.ItsFacts Proofs.ItsWorld Proofs.ItsMore Proofs.ItsOutbound Proofs.ItsCustody Proofs.ItsIds Proofs.ItsCustodyRun Gen.Generated.
Import ListNotations.
Open Scope N_scope.

Section C17.
  Variable H : bytes -> bytes.

  (* registerTokenMetadata: whenever the callback completes the whole attached value is either returned to the
     caller (lookup error, non-fungible) or paid to the gas service together with one gateway message to the hub *)
  Theorem c17_metadata_callback : forall w c tok gas caller res w' ev,
    metadata_callback H w c tok gas caller res = Some (w', ev) ->
    iw_its w' = iw_its w /\
    ((ev = [] /\ (gas = 0 -> iw_led w' = iw_led w) /\ (gas <> 0 -> transfer (iw_led w) (ic_self c) caller EGLD gas = Some (iw_led w'))) \/
     (exists name dbuf dec payload, res = Some (name, FUNGIBLE, dbuf) /\ props_decimals dbuf = Some dec /\
        enc_impl [TUint MT_REGISTER_METADATA; TBytes tok; TUint8 dec] = Some payload /\ trusted (iw_its w) HUB_CHAIN <> [] /\
        (gas <> 0 -> transfer (iw_led w) (ic_self c) (i_gas (iw_its w)) EGLD gas = Some (iw_led w')) /\
        In (lg (i_gateway (iw_its w)) [str "contract_call_event"; ic_self c; HUB_CHAIN; trusted (iw_its w) HUB_CHAIN; H payload] payload) ev)).
  Proof. exact (metadata_callback_spec H). Qed.
  (* remote deployments: refund, or the pause-gated routed deployment message with the gas value *)
  Theorem c17_remote_callback : forall w c ds dc sym m gas caller res w' ev,
    remote_callback H w c ds dc sym m gas caller res = Some (w', ev) ->
    (ev = [] /\ iw_its w' = iw_its w /\ (gas = 0 -> iw_led w' = iw_led w) /\ (gas <> 0 -> transfer (iw_led w) (ic_self c) caller EGLD gas = Some (iw_led w'))) \/
    (exists name dbuf dec, res = Some (name, FUNGIBLE, dbuf) /\ props_decimals dbuf = Some dec /\
       deploy_token_raw H w c ds dc name sym dec m gas = Some (w', ev)).
  Proof. exact (remote_callback_spec H). Qed.
  (* every synchronous payable endpoint forwards or rejects within its own transaction: the outbound
     message moves exactly the gas value from the service to the gas service *)
  Theorem c17_sync_forward : forall w c dchain daddr payload gtok gas w' ev,
    call_contract H w c dchain daddr payload gtok gas = Some (w', ev) -> gas <> 0 ->
    transfer (iw_led w) (ic_self c) (i_gas (iw_its w)) gtok gas = Some (iw_led w').
  Proof. intros w c dchain daddr payload gtok gas w' ev R NZ. apply call_contract_spec in R as (_ & _ & _ & _ & _ & _ & _ & K). destruct (K NZ) as (T & _). exact T. Qed.

  (* ---------- the custody equation of the service at the level of the world (Proofs/ItsCustody.v) ----------
     S is the service's address, x ANY ledger token.  sb = the service's balance of x; HP = what the pending
     asynchronous work holds there: a pending lookup (metadata registration, remote deployment) holds the EGLD
     attached for cross-chain gas, a delivery in flight holds the transfer amount until it is delivered. *)
  Variable verify : bytes -> bytes -> bytes -> bool.
  Variable S x : bytes.

  (* every one of the 19 synchronous endpoints, successful or not, with its attached payments: the service's
     balance moves by exactly what the pending work created by this very transaction holds *)
  Theorem c17_sync_custody : forall w o c, sync_ctx o = Some c -> sep S w c -> no_egld_alias (ic_value c) -> op_no_gift S w o ->
    sb S x (fst (istep H verify w o)) + HP x w = sb S x w + HP x (fst (istep H verify w o)).
  Proof. exact (sync_custody H verify S x). Qed.
  (* hence a call that leaves no new pending work behind leaves the service with none of the attached value *)
  Theorem c17_sync_nothing_kept : forall w o c, sync_ctx o = Some c -> sep S w c -> no_egld_alias (ic_value c) -> op_no_gift S w o ->
    iw_pend (fst (istep H verify w o)) = iw_pend w -> sb S x (fst (istep H verify w o)) = sb S x w.
  Proof. exact (sync_nothing_kept H verify S x). Qed.
  (* the destination call of a transfer with data: on success exactly the parked amount leaves *)
  Theorem c17_deliver_custody : forall w id ok p, find_ip id (iw_pend w) = Some p ->
    (forall chain mid src ph tid tok amount dest oc os data, ip_kind p = PTransfer chain mid src ph tid tok amount dest oc os data -> dest <> S) ->
    sb S x (fst (istep H verify w (IDeliver S id ok))) + HP x w = sb S x w + HP x (fst (istep H verify w (IDeliver S id ok))).
  Proof. exact (deliver_custody H verify S x). Qed.
  (* its callback, and the callback of the token-properties lookup: if the callback SUCCEEDS nothing is stranded; if it
     FAILS the pending work is consumed and exactly what it held stays in the service — these failures are the
     recorded findings F-C08-1 and F-C17-1..4 (the fifth, the empty destination chain, is excluded by props_sep) *)
  Theorem c17_callback_custody : forall w c id p, ic_self c = S -> (forall tid, tm_addr (iw_its w) tid <> S) ->
    NoDup (map ip_id (iw_pend w)) -> find_ip id (iw_pend w) = Some p ->
    let r := istep H verify w (ICallback c id) in
    (io_ok (snd r) = true -> sb S x (fst r) + HP x w = sb S x w + HP x (fst r)) /\
    (io_ok (snd r) = false -> fst r = w \/ (sb S x (fst r) = sb S x w /\ HP x w = HP x (fst r) + held x p)).
  Proof. exact (callback_custody H verify S x). Qed.
  Theorem c17_props_custody : forall w c id res p, ic_self c = S -> i_gas (iw_its w) <> S -> (forall tid, tm_addr (iw_its w) tid <> S) ->
    NoDup (map ip_id (iw_pend w)) -> find_ip id (iw_pend w) = Some p -> props_sep S w p ->
    let r := istep H verify w (IProps c id res) in
    (io_ok (snd r) = true -> sb S x (fst r) + HP x w = sb S x w + HP x (fst r)) /\
    (io_ok (snd r) = false -> fst r = w \/ (sb S x (fst r) = sb S x w /\ HP x w = HP x (fst r) + held x p)).
  Proof. exact (props_custody H verify S x). Qed.
  (* the NoDup hypothesis holds in every reachable world (Proofs/ItsIds.v: pending ids are pairwise distinct and below the
     counter — invariant over all 25 operation kinds) *)
  Theorem c17_ids_distinct_reachable : forall w0 ops, iw_pend w0 = [] -> NoDup (map ip_id (iw_pend (irun H verify w0 ops))).
  Proof. exact (reachable_ids_distinct H verify). Qed.
  Theorem c17_props_custody_reachable : forall w0 ops c id res p, iw_pend w0 = [] ->
    let w := irun H verify w0 ops in
    ic_self c = S -> i_gas (iw_its w) <> S -> (forall tid, tm_addr (iw_its w) tid <> S) ->
    find_ip id (iw_pend w) = Some p -> props_sep S w p ->
    let r := istep H verify w (IProps c id res) in
    (io_ok (snd r) = true -> sb S x (fst r) + HP x w = sb S x w + HP x (fst r)) /\
    (io_ok (snd r) = false -> fst r = w \/ (sb S x (fst r) = sb S x w /\ HP x w = HP x (fst r) + held x p)).
  Proof.
    intros w0 ops c id res p E w Es ng nt F PS.
    exact (props_custody H verify S x w c id res p Es ng nt (reachable_ids_distinct H verify w0 ops E) F PS).
  Qed.
  (* whole histories (Proofs/ItsCustodyRun.v): along any history whose steps are synchronous endpoint calls, gateway
     operations, deliveries and callbacks that succeed, the equation telescopes; hence the property as stated: an
     operation that has run to completion (no pending work before, none after) without a failing callback leaves the
     service with exactly what it held before *)
  Theorem c17_history_custody : forall ops w, IdInv w -> GoodRun H verify S w ops ->
    sb S x (irun H verify w ops) + HP x w = sb S x w + HP x (irun H verify w ops).
  Proof. exact (history_custody H verify S x). Qed.
  Theorem c17_completed_history_keeps_nothing : forall ops w, iw_pend w = [] -> GoodRun H verify S w ops ->
    iw_pend (irun H verify w ops) = [] -> sb S x (irun H verify w ops) = sb S x w.
  Proof. exact (completed_history_keeps_nothing H verify S x). Qed.
End C17.
Print Assumptions c17_metadata_callback.
Print Assumptions c17_remote_callback.
Print Assumptions c17_sync_custody.
Print Assumptions c17_callback_custody.
Print Assumptions c17_props_custody.
Print Assumptions c17_props_custody_reachable.
Print Assumptions c17_completed_history_keeps_nothing.

(* non-vacuity of the custody equation: registerTokenMetadata with 777 EGLD in the world of Proofs/ItsMore.v:
   the premises hold, the service's EGLD balance grows by 777 and the new lookup holds exactly 777 *)
Example c17_sync_custody_nonvacuous :
  let w := Findings.w08 in let c := Findings.cx Findings.user {| cv_egld := 777; cv_esdt := [] |} in
  let w0 := {| iw_gw := iw_gw w; iw_its := iw_its w; iw_tms := iw_tms w; iw_led := ((Findings.user, EGLD), 1000) :: iw_led w; iw_pend := []; iw_next := 0 |} in
  let o := IRegisterMetadata c Findings.tok in
  sync_ctx o = Some c /\ io_ok (snd (istep keccak256 Findings.vf w0 o)) = true /\
  sb Findings.self EGLD (fst (istep keccak256 Findings.vf w0 o)) = 777 /\ HP EGLD (fst (istep keccak256 Findings.vf w0 o)) = 777 /\ HP EGLD w0 = 0.
Proof. vm_compute. repeat split; reflexivity. Qed.

(* known findings, on the model *)
Example c17_refuted_hub_unset :
  let r := istep keccak256 Findings.vf (Findings.w17 false [(str "ethereum", str "0xITS")]) (IProps (Findings.cx (Findings.A 99) no_value) 0 Findings.good_props) in
  io_ok (snd r) = false /\ bal (iw_led (fst r)) Findings.self EGLD = 777 /\ iw_pend (fst r) = [].
Proof. exact Findings.c17_hub_unset_strands. Qed.
Example c17_refuted_paused_at_callback :
  let r := istep keccak256 Findings.vf (Findings.w17r true [(str "ethereum", str "0xITS")]) (IProps (Findings.cx (Findings.A 99) no_value) 0 Findings.good_props) in
  io_ok (snd r) = false /\ bal (iw_led (fst r)) Findings.self EGLD = 333.
Proof. exact Findings.c17_paused_at_callback_strands. Qed.
Example c17_refuted_untrusted_at_callback :
  let r := istep keccak256 Findings.vf (Findings.w17r false []) (IProps (Findings.cx (Findings.A 99) no_value) 0 Findings.good_props) in
  io_ok (snd r) = false /\ bal (iw_led (fst r)) Findings.self EGLD = 333.
Proof. exact Findings.c17_untrusted_at_callback_strands. Qed.
(* and the good cases are not vacuous *)
Example c17_forwards_when_hub_set :
  let r := istep keccak256 Findings.vf (Findings.w17 false [(str "ethereum", str "0xITS"); (str "axelar", str "axelar1hub")]) (IProps (Findings.cx (Findings.A 99) no_value) 0 Findings.good_props) in
  io_ok (snd r) = true /\ bal (iw_led (fst r)) Findings.self EGLD = 0 /\ bal (iw_led (fst r)) Findings.gasa EGLD = 777.
Proof. exact Findings.c17_hub_set_forwards. Qed.
Example c17_error_refunds :
  let r := istep keccak256 Findings.vf (Findings.w17r true []) (IProps (Findings.cx (Findings.A 99) no_value) 0 None) in
  io_ok (snd r) = true /\ bal (iw_led (fst r)) Findings.self EGLD = 0 /\ bal (iw_led (fst r)) Findings.user EGLD = 333.
Proof. exact Findings.c17_error_refunds. Qed.
(* a completed history: registerTokenMetadata with 777 EGLD, then the lookup callback succeeds with the hub's address set:
   nothing pending, the service holds nothing, the gas service holds the 777 *)
Example c17_completed_history_nonvacuous :
  let w0 := {| iw_gw := Findings.gw0 []; iw_its := Findings.its0 [(str "ethereum", str "0xITS"); (str "axelar", str "axelar1hub")] false;
               iw_tms := [(Findings.tma, Findings.tm0 0)]; iw_led := [((Findings.user, EGLD), 1000)]; iw_pend := []; iw_next := 0 |} in
  let ops := [IRegisterMetadata (Findings.cx Findings.user {| cv_egld := 777; cv_esdt := [] |}) Findings.tok;
              IProps (Findings.cx (Findings.A 99) no_value) 0 Findings.good_props] in
  let w := irun keccak256 Findings.vf w0 ops in
  iw_pend w = [] /\ sb Findings.self EGLD w = 0 /\ bal (iw_led w) Findings.gasa EGLD = 777 /\ bal (iw_led w) Findings.user EGLD = 223 /\
  HP EGLD (fst (istep keccak256 Findings.vf w0 (hd (IGateway (GTransferOp {| c_caller := []; c_owner := []; c_now := 0 |} [])) ops))) = 777.
Proof. vm_compute. repeat split; reflexivity. Qed.

Check c17_metadata_callback.
Check c17_completed_history_keeps_nothing.
Check c17_sync_custody.
Check c17_props_custody.
