(* The gateway's message table inside the ITS world: every operation of the world moves every message
   only forward (unknown -> approved -> executed), so an executed message stays executed in every later world
   and a released inbound transfer can never be released again (C04; C02 lifted to the ITS world). *)
From Coq Require Import String List Arith NArith Lia Bool.
From Ax Require Import Lib.Bytes Lib.Mvx Lib.SolAbi Lib.Keccak Model.Check Model.Env Model.Gateway Model.TokenManager Model.Its
     Proofs.AListFacts Proofs.GatewayMsgs Proofs.TMFacts Proofs.ItsFacts Proofs.ItsWorld.
Import ListNotations.
Open Scope N_scope.

Section P.
  Variable H : bytes -> bytes.
  Variable verify : bytes -> bytes -> bytes -> bool.

  (* the lifecycle rank of every message is non-decreasing *)
  Definition gm (w w' : iworld) : Prop := forall k, (rank (mst (iw_gw w) k) <= rank (mst (iw_gw w') k))%nat.

  Lemma gm_refl w : gm w w.
  Proof. intro k. reflexivity. Qed.
  Lemma gm_trans a b c : gm a b -> gm b c -> gm a c.
  Proof. intros A B k. eapply Nat.le_trans; [apply A | apply B]. Qed.
  Lemma gm_same w w' : iw_gw w' = iw_gw w -> gm w w'.
  Proof. intros E k. rewrite E. reflexivity. Qed.
  Lemma gm_gstep w o : gm w (w_gw_ w (fst (gstep H verify (iw_gw w) o))).
  Proof. intro k. cbn [iw_gw w_gw_ wset]. apply (grun_rank_monotone H verify (iw_gw w) [o] k). Qed.
  Lemma gm_executed w w' k : gm w w' -> mst (iw_gw w) k = Some MExecuted -> mst (iw_gw w') k = Some MExecuted.
  Proof.
    intros G E. specialize (G k). rewrite E in G. cbn [rank] in G.
    destruct (mst (iw_gw w') k) as [[h|]|]; cbn [rank] in G; try lia. reflexivity.
  Qed.

  Lemma call_contract_gm w c dc da p gt g w' ev : call_contract H w c dc da p gt g = Some (w', ev) -> gm w w'.
  Proof. intro R. apply call_contract_spec in R as (_ & _ & E & _). apply gm_same; assumption. Qed.
  Lemma route_message_gm w c d p gt g w' ev : route_message H w c d p gt g = Some (w', ev) -> gm w w'.
  Proof. intro R. apply route_message_spec in R as (dc & da & p' & _ & R). eapply call_contract_gm; eauto. Qed.
  Lemma tm_call_gm w c tma f w' : tm_call w c tma f = Some w' -> gm w w'.
  Proof. unfold tm_call. intro R. inv_some R. destruct p as [[[t' l'] rets] logs]. inversion R; subst. apply gm_same; reflexivity. Qed.
  Lemma call_tm_deploy_token_gm w c id m n s w' : call_tm_deploy_token w c id m n s = Some w' -> gm w w'.
  Proof. unfold call_tm_deploy_token. intro R. inv_some R. destruct p as [[[t' l'] rets] logs]. inversion R; subst. apply gm_same; reflexivity. Qed.
  Lemma gw_validate_gm w c chain id src ph w' b ev : gw_validate H w c chain id src ph = Some (w', b, ev) -> gm w w'.
  Proof.
    unfold gw_validate. intro V.
    destruct (validate_message H (iw_gw w) _ chain id src ph) as [[[g' b'] ev']|] eqn:E; [|discriminate]. inversion V; subst.
    pose proof (gm_gstep w (GValidate {| c_caller := ic_self c; c_owner := []; c_now := ic_now c |} chain id src ph)) as G.
    cbn [gstep] in G. rewrite E in G. exact G.
  Qed.
  Lemma call_tm_give_gm w c token_id dest amount w' tok : call_tm_give w c token_id dest amount = Some (w', tok) -> gm w w'.
  Proof. intro G. apply call_tm_give_its in G as (_ & E & _). apply gm_same; assumption. Qed.
  Lemma call_tm_take_gm w c token_id tok amount w' : call_tm_take w c token_id tok amount = Some w' -> gm w w'.
  Proof. intro G. apply call_tm_take_its in G as (_ & E & _). apply gm_same; assumption. Qed.
  Lemma set_limits_gm items : forall w c w', set_limits w c items = Some w' -> gm w w'.
  Proof.
    induction items as [|[id l] r IH]; intros w c w' R; cbn [set_limits] in R; [inversion R; apply gm_refl|].
    inv_some R. apply IH in R. eapply gm_trans; [eapply tm_call_gm; eauto | exact R].
  Qed.
  Lemma deploy_tm_gm w c token_id ty token operator w' : deploy_tm w c token_id ty token operator = Some w' -> gm w w'.
  Proof. intro D. apply deploy_tm_spec in D as (_ & _ & t & ev & _ & ->). apply gm_same; reflexivity. Qed.

  Ltac gms :=
    repeat match goal with
    | Hx : call_contract _ _ _ _ _ _ _ _ = Some _ |- _ => apply call_contract_gm in Hx
    | Hx : route_message _ _ _ _ _ _ _ = Some _ |- _ => apply route_message_gm in Hx
    | Hx : tm_call _ _ _ _ = Some _ |- _ => apply tm_call_gm in Hx
    | Hx : call_tm_deploy_token _ _ _ _ _ _ = Some _ |- _ => apply call_tm_deploy_token_gm in Hx
    | Hx : gw_validate _ _ _ _ _ _ _ = Some _ |- _ => apply gw_validate_gm in Hx
    | Hx : call_tm_give _ _ _ _ _ = Some _ |- _ => apply call_tm_give_gm in Hx
    | Hx : call_tm_take _ _ _ _ _ = Some _ |- _ => apply call_tm_take_gm in Hx
    | Hx : set_limits _ _ _ = Some _ |- _ => apply set_limits_gm in Hx
    | Hx : deploy_tm _ _ _ _ _ _ = Some _ |- _ => apply deploy_tm_gm in Hx
    end.
  Ltac gmstep := first
    [ apply gm_refl
    | eassumption
    | match goal with |- gm _ (w_push ?x _) => eapply (gm_trans _ x); [|apply gm_same; reflexivity] end
    | match goal with |- gm _ (w_its ?x _) => eapply (gm_trans _ x); [|apply gm_same; reflexivity] end
    | match goal with |- gm _ (w_led_ ?x _) => eapply (gm_trans _ x); [|apply gm_same; reflexivity] end
    | match goal with |- gm _ (w_tm ?x _ _) => eapply (gm_trans _ x); [|apply gm_same; reflexivity] end
    | match goal with |- gm _ (w_pend_ ?x _) => eapply (gm_trans _ x); [|apply gm_same; reflexivity] end
    | match goal with Hx : gm ?a ?b |- gm _ ?b => eapply gm_trans; [|exact Hx] end ].
  Ltac gmgo := gms; repeat gmstep.

  Lemma transmit_gm w c t dc da a gt g d w' ev : transmit H w c t dc da a gt g d = Some (w', ev) -> gm w w'.
  Proof. unfold transmit. intro R. inv_some R. gmgo. Qed.
  Lemma deploy_token_raw_gm w c ds dest n sy d m e w' ev : deploy_token_raw H w c ds dest n sy d m e = Some (w', ev) -> gm w w'.
  Proof. unfold deploy_token_raw, remote_base. intro R. inv_some R; inversion R; subst; gmgo. Qed.
  Lemma process_transfer_gm w c orig chain id src ph payload w' ev : process_transfer H w c orig chain id src ph payload = Some (w', ev) -> gm w w'.
  Proof. unfold process_transfer. intro R. inv_some R; inversion R; subst; gmgo. Qed.
  Lemma process_deploy_gm w c chain id src ph payload w' ev : process_deploy H w c chain id src ph payload = Some (w', ev) -> gm w w'.
  Proof. unfold process_deploy. intro R. inv_some R; inversion R; subst; gmgo. Qed.
  Lemma process_link_gm w c payload w' : process_link w c payload = Some w' -> gm w w'.
  Proof. unfold process_link. intro R. inv_some R. gmgo. Qed.
  Lemma its_execute_gm w c chain id src payload w' ev : its_execute H w c chain id src payload = Some (w', ev) -> gm w w'.
  Proof.
    unfold its_execute. intro R. inv_some R.
    - eapply process_transfer_gm; eauto.
    - eapply process_deploy_gm; eauto.
    - inversion R; subst. match goal with L : process_link _ _ _ = Some _ |- _ => apply process_link_gm in L end. gmgo.
  Qed.
  Lemma remote_raw_gm w c ds dc dm w' rets ev : remote_raw H w c ds dc dm = Some (w', rets, ev) -> gm w w'.
  Proof.
    unfold remote_raw. intro R. inv_some R; inversion R; subst.
    - match goal with D : deploy_token_raw _ _ _ _ _ _ _ _ _ _ = Some _ |- _ => apply deploy_token_raw_gm in D; exact D end.
    - gmgo.
  Qed.
  Lemma register_custom_raw_gm w c ds tok ty lp w' rets ev : register_custom_raw H w c ds tok ty lp = Some (w', rets, ev) -> gm w w'.
  Proof. unfold register_custom_raw. intro R. inv_some R. inversion R; subst. gmgo. Qed.
  Lemma metadata_callback_gm w c tok gas caller res w' ev : metadata_callback H w c tok gas caller res = Some (w', ev) -> gm w w'.
  Proof. unfold metadata_callback. intro T. inv_some T; try (inversion T; subst); gmgo. Qed.
  Lemma remote_callback_gm w c ds dc sym m gas caller res w' ev : remote_callback H w c ds dc sym m gas caller res = Some (w', ev) -> gm w w'.
  Proof.
    unfold remote_callback. intro T. inv_some T; try (inversion T; subst; gmgo).
    all: try (apply deploy_token_raw_gm in T; gmgo).
  Qed.

  (* every operation of every caller, and every asynchronous step *)
  Theorem istep_gm w o : gm w (fst (istep H verify w o)).
  Proof.
    assert (ITX : forall c f, (forall w1 w2 rets ev, f w1 = Some (w2, rets, ev) -> gm w1 w2) -> gm w (fst (itx w c f))).
    { intros c f Hf. unfold itx. destruct (pay_in _ _ _ _) as [l1|]; [|apply gm_refl].
      destruct (f (w_led_ w l1)) as [[[w2 rets] ev]|] eqn:F; [|apply gm_refl]. cbn [fst].
      eapply gm_trans; [|eapply Hf; exact F]. apply gm_same; reflexivity. }
    destruct o; cbn [istep]; try (apply ITX; intros w1 w2 rets ev F; unfold norets in F).
    - destruct (gstep H verify (iw_gw w) o) as [g' r] eqn:G. cbn [fst].
      pose proof (gm_gstep w o) as M. rewrite G in M. exact M.
    - destruct (its_execute H w1 c chain id src payload) as [[w3 ev3]|] eqn:X; inversion F; subst. eapply its_execute_gm; eauto.
    - destruct (interchain_transfer H w1 c token_id dest_chain dest_addr metadata gas) as [[w3 ev3]|] eqn:X; inversion F; subst.
      unfold interchain_transfer in X. inv_some X. apply transmit_gm in X. gmgo.
    - destruct (call_contract_with_token H w1 c token_id dest_chain dest_addr data gas) as [[w3 ev3]|] eqn:X; inversion F; subst.
      unfold call_contract_with_token in X. inv_some X. apply transmit_gm in X. gmgo.
    - destruct (register_token_metadata w1 c token) as [[w3 ev3]|] eqn:X; inversion F; subst.
      unfold register_token_metadata in X. inv_some X. inversion X; subst. gmgo.
    - unfold deploy_interchain_token_ep in F. inv_some F; inversion F; subst.
      all: try (match goal with D : deploy_token_raw _ _ _ _ _ _ _ _ _ _ = Some _ |- _ => apply deploy_token_raw_gm in D end).
      all: gmgo.
    - destruct (approve_remote H w1 c deployer salt dest_chain dest_minter) as [[w3 ev3]|] eqn:X; inversion F; subst.
      apply approve_remote_spec in X as (_ & _ & ->). gmgo.
    - destruct (revoke_remote H w1 c deployer salt dest_chain) as [[w3 ev3]|] eqn:X; inversion F; subst.
      apply revoke_remote_spec in X. subst. gmgo.
    - unfold deploy_remote_with_minter in F. inv_some F; apply remote_raw_gm in F; gmgo.
    - unfold register_canonical in F. inv_some F. apply register_custom_raw_gm in F. exact F.
    - unfold deploy_remote_canonical in F. inv_some F. apply remote_raw_gm in F. exact F.
    - unfold register_custom_token in F. inv_some F. apply register_custom_raw_gm in F. exact F.
    - unfold link_token in F. inv_some F. inversion F; subst. gmgo.
    - destruct (set_flow_limits w1 c ids limits) as [[w3 ev3]|] eqn:X; inversion F; subst.
      unfold set_flow_limits in X. inv_some X. inversion X; subst. gmgo.
    - destruct (set_trusted_address w1 c chain a) as [[w3 ev3]|] eqn:X; inversion F; subst.
      unfold set_trusted_address in X. inv_some X. inversion X; subst. gmgo.
    - destruct (remove_trusted_address w1 c chain) as [[w3 ev3]|] eqn:X; inversion F; subst.
      unfold remove_trusted_address in X. inv_some X. inversion X; subst. gmgo.
    - destruct (pause_ep w1 c b) as [[w3 ev3]|] eqn:X; inversion F; subst.
      apply pause_spec in X as (_ & -> & _). gmgo.
    - destruct (its_transfer_operatorship w1 c a) as [[w3 ev3]|] eqn:X; inversion F; subst.
      unfold its_transfer_operatorship in X. inv_some X. inversion X; subst. gmgo.
    - destruct (its_propose_operatorship w1 c a) as [[w3 ev3]|] eqn:X; inversion F; subst.
      unfold its_propose_operatorship in X. inv_some X. inversion X; subst. gmgo.
    - destruct (its_accept_operatorship w1 c from) as [[w3 ev3]|] eqn:X; inversion F; subst.
      unfold its_accept_operatorship in X. inv_some X. inversion X; subst. gmgo.
    - destruct (get_tm w tma) as [t|]; [|apply gm_refl].
      destruct o; try apply gm_refl; destruct (tstep t (iw_led w) _) as [[t' l'] out]; cbn [fst]; try solve [gmgo].
      destruct (to_ok out); gmgo.
    - destruct (find_ip id (iw_pend w)) as [p|]; [|apply gm_refl].
      destruct (ip_kind p); try apply gm_refl. destruct (ip_stage p); try apply gm_refl.
      destruct (if ok then _ else _); [|apply gm_refl]. cbn [fst]. gmgo.
    - destruct (find_ip id (iw_pend w)) as [p|]; [|apply gm_refl].
      destruct (ip_kind p); try apply gm_refl. destruct (ip_stage p) as [|ok]; try apply gm_refl.
      destruct (transfer_callback H _ c chain id0 src ph token_id tok amount ok) as [[w1 ev1]|] eqn:T; cbn [fst]; [|gmgo].
      unfold transfer_callback in T. destruct ok; inv_some T; inversion T; subst; gmgo.
    - destruct (find_ip id (iw_pend w)) as [p|]; [|apply gm_refl].
      destruct (ip_kind p); try apply gm_refl.
      + destruct (metadata_callback H _ c tok gas caller res) as [[w1 ev1]|] eqn:T; cbn [fst]; [|gmgo].
        apply metadata_callback_gm in T. gmgo.
      + destruct (remote_callback H _ c deploy_salt dest_chain symbol minter gas caller res) as [[w1 ev1]|] eqn:T; cbn [fst]; [|gmgo].
        apply remote_callback_gm in T. gmgo.
    - destruct (find_ip id (iw_pend w)) as [p|]; [|apply gm_refl].
      destruct (ip_kind p); try apply gm_refl. destruct (get_tm w tm) as [t|]; [|apply gm_refl].
      destruct (tstep t (iw_led w) _) as [[t' l'] out]. cbn [fst]. gmgo.
  Qed.

  Theorem irun_gm ops : forall w, gm w (irun H verify w ops).
  Proof.
    induction ops as [|o r IH]; intro w; [apply gm_refl|].
    change (irun H verify w (o :: r)) with (irun H verify (fst (istep H verify w o)) r).
    eapply gm_trans; [apply istep_gm | apply IH].
  Qed.

  (* an executed message stays executed in every later world ... *)
  Theorem irun_executed_final ops w k : mst (iw_gw w) k = Some MExecuted -> mst (iw_gw (irun H verify w ops)) k = Some MExecuted.
  Proof. intro E. eapply gm_executed; [apply irun_gm | exact E]. Qed.

  (* ... hence an inbound transfer that was released is never released again, whatever happens in between *)
  Theorem released_once_forever w c orig chain id src ph payload w' ev :
    process_transfer H w c orig chain id src ph payload = Some (w', ev) ->
    (exists ty tid osrc dest amount, dec_impl [PUint; PBytes32; PBytes; PBytes; PUint; PBytes] payload = Some [TUint ty; TBytes32 tid; TBytes osrc; TBytes dest; TUint amount; TBytes []]) ->
    forall ops c2 orig2 src2 ph2 payload2,
      process_transfer H (irun H verify w' ops) c2 orig2 chain id src2 ph2 payload2 = None.
  Proof.
    intros R (ty & tid & osrc & dest & amount & D) ops c2 orig2 src2 ph2 payload2.
    apply (process_transfer_nodata_spec H _ _ _ _ _ _ _ _ _ _ _ _ _ _ _ D) in R as (_ & _ & E & _).
    apply process_transfer_after_executed. apply irun_executed_final. exact E.
  Qed.
End P.
