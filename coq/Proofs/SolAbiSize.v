(* C05/C06/C07 support: the size bound in the hypotheses of the encoder and
   round-trip theorems ([spec_size toks < 2^32]) is exactly a bound on the
   length of the encoded output - it is not an extra restriction on the
   tokens themselves. *)
From Coq Require Import String Ascii.
From Coq Require Import List Arith NArith Lia Bool.
From Coq Require Import Init.Byte Strings.Byte.
From Ax Require Import Lib.Bytes Lib.SolAbi Proofs.SolAbiEnc Proofs.SolAbiDec.
Import ListNotations.
Open Scope N_scope.

Theorem enc_spec_length_eq_size toks out :
  Forall wf_token toks -> enc_spec toks = Some out -> Nlen out = spec_size toks.
Proof.
  unfold enc_spec, spec_size. intros Hwf.
  destruct (forallb fits256 toks); [|discriminate].
  intro E; inversion E; subst; clear E.
  rewrite Nlen_app, spec_heads_length by exact Hwf. reflexivity.
Qed.

(* the implemented encoder produces exactly [spec_size] bytes whenever it
   is inside the range the implementation can address *)
Corollary enc_impl_length_eq_size toks out :
  Forall wf_token toks -> spec_size toks < 2 ^ 32 ->
  enc_impl toks = Some out -> Nlen out = spec_size toks.
Proof.
  intros Hwf Hsz E. rewrite (enc_impl_eq_spec toks Hwf Hsz) in E.
  exact (enc_spec_length_eq_size toks out Hwf E).
Qed.

(* the head region is always a whole number of words, so the first byte
   of the first tail sits at offset 32 * (number of parameters) *)
Corollary enc_spec_size_lower toks out :
  Forall wf_token toks -> enc_spec toks = Some out -> 32 * Nlen toks <= Nlen out.
Proof.
  intros Hwf E. rewrite (enc_spec_length_eq_size toks out Hwf E).
  unfold spec_size. lia.
Qed.

(* two messages of the same shape never share their wire bytes: the
   implemented encoder is injective on well-formed token lists of one type
   list (a consequence of the round trip, stated for the implementation) *)
Theorem enc_impl_injective toks1 toks2 out :
  Forall wf_token toks1 -> Forall wf_token toks2 ->
  spec_size toks1 < 2 ^ 32 -> spec_size toks2 < 2 ^ 32 ->
  map type_of toks1 = map type_of toks2 ->
  enc_impl toks1 = Some out -> enc_impl toks2 = Some out -> toks1 = toks2.
Proof.
  intros Hwf1 Hwf2 Hs1 Hs2 Hty E1 E2.
  pose proof (dec_impl_enc_impl toks1 out Hwf1 Hs1 E1) as D1.
  pose proof (dec_impl_enc_impl toks2 out Hwf2 Hs2 E2) as D2.
  rewrite Hty in D1. rewrite D1 in D2. inversion D2. reflexivity.
Qed.

(* list-level soundness on ARBITRARY bytes: whatever the decoder accepts has
   exactly the requested types, is well-formed, and fits 256 bits - so it
   is never a value the encoder would refuse or a field of another kind *)
Lemma spec_fields_sound tys data : forall i toks,
  spec_fields tys data i = Some toks ->
  map type_of toks = tys /\ Forall wf_token toks /\ forallb fits256 toks = true.
Proof.
  induction tys as [|ty r IH]; intros i toks; cbn [spec_fields].
  - intro E; inversion E; subst. repeat split; constructor.
  - destruct (spec_field ty data i) as [t|] eqn:Ef; [|discriminate].
    destruct (spec_fields r data (i + 1)) as [ts|] eqn:Er; [|discriminate].
    intro E; inversion E; subst; clear E.
    destruct (spec_field_sound ty data i t Ef) as (Hty & Hwf & Hfit & _).
    destruct (IH (i + 1) ts Er) as (Htys & Hwfs & Hfits).
    split; [cbn [map]; rewrite Hty, Htys; reflexivity|].
    split; [constructor; assumption|].
    cbn [forallb]. rewrite Hfit, Hfits. reflexivity.
Qed.

Theorem dec_impl_sound tys data toks :
  dec_impl tys data = Some toks ->
  map type_of toks = tys /\ Forall wf_token toks /\ enc_spec toks <> None.
Proof.
  rewrite dec_impl_eq_spec. unfold dec_spec. intro E.
  destruct (spec_fields_sound tys data 0 toks E) as (Hty & Hwf & Hfit).
  split; [exact Hty|]. split; [exact Hwf|].
  unfold enc_spec. rewrite Hfit. discriminate.
Qed.

Print Assumptions enc_spec_length_eq_size.
Print Assumptions dec_impl_sound.
Print Assumptions enc_impl_injective.
Print Assumptions enc_impl_length_eq_size.
