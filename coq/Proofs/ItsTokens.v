(* C18, world level: the token recorded by a token manager is never replaced, whatever operations of the ITS world run
   (all 25 kinds, asynchronous steps included).  The only assumption is about the environment: the address at which an
   operation may deploy a NEW manager is not the address of the manager we are watching (deployment addresses are fresh). *)
From Coq Require Import String List NArith Lia Bool.
From Ax Require Import Lib.Bytes Lib.Mvx Lib.SolAbi Lib.Keccak Model.Check Model.Env Model.Gateway Model.TokenManager Model.Its
     Proofs.AListFacts Proofs.GatewayMsgs Proofs.TMFacts Proofs.TMCustody Proofs.TMToken Proofs.ItsFacts Proofs.ItsWorld.
Import ListNotations.
Open Scope N_scope.

Section P.
  Variable H : bytes -> bytes.
  Variable verify : bytes -> bytes -> bytes -> bool.
  Variable a : bytes.        (* the manager we watch *)

  Definition tka (w w' : iworld) : Prop :=
    forall t, get_tm w a = Some t -> tm_token t <> [] -> exists t', get_tm w' a = Some t' /\ tm_token t' = tm_token t.

  Lemma tka_refl w : tka w w.
  Proof. intros t G _. eauto. Qed.
  Lemma tka_trans x y z : tka x y -> tka y z -> tka x z.
  Proof. intros A B t G Hne. destruct (A t G Hne) as (t1 & G1 & E1). destruct (B t1 G1) as (t2 & G2 & E2); [congruence|]. exists t2. split; [exact G2 | congruence]. Qed.
  Lemma tka_same w w' : iw_tms w' = iw_tms w -> tka w w'.
  Proof. intros E t G _. exists t. unfold get_tm in *. rewrite E. auto. Qed.
  Lemma get_tm_wtm w b t x : get_tm (w_tm w b t) x = if bytes_eqb x b then Some t else get_tm w x.
  Proof. unfold get_tm, w_tm. cbn [iw_tms wset]. rewrite (alookup_aset bytes_eqb bytes_eqb_eq). reflexivity. Qed.
  (* writing a manager: at another address, or at the watched address with the recorded token kept *)
  Lemma tka_wtm_other w b t : b <> a -> tka w (w_tm w b t).
  Proof. intros Hne t0 G _. exists t0. rewrite get_tm_wtm. destruct (bytes_eqb a b) eqn:E; [apply bytes_eqb_eq in E; congruence | auto]. Qed.
  Lemma tka_wtm_keep w b t0 t : get_tm w b = Some t0 -> (tm_token t0 <> [] -> tm_token t = tm_token t0) -> tka w (w_tm w b t).
  Proof.
    intros G0 K t1 G1 Hne. rewrite get_tm_wtm. destruct (bytes_eqb a b) eqn:E.
    - apply bytes_eqb_eq in E. subst b. rewrite G0 in G1. inversion G1; subst. exists t. split; [reflexivity | apply K; exact Hne].
    - exists t1. auto.
  Qed.

  Definition tokpres (f : tm -> ledger -> tctx -> tres) : Prop := forall t l x t' l' r e, f t l x = Some (t', l', r, e) -> tm_token t' = tm_token t.
  Lemma tm_call_tka w c tma f w' : tokpres f -> tm_call w c tma f = Some w' -> tka w w'.
  Proof.
    intros Pf. unfold tm_call. intro R. destruct (get_tm w tma) as [t|] eqn:G; [|discriminate].
    destruct (f t (iw_led w) _) as [[[[t' l'] rets] logs]|] eqn:F; [|discriminate]. inversion R; subst.
    eapply tka_trans; [eapply tka_wtm_keep; [exact G | intros _; eapply Pf; exact F] | apply tka_same; reflexivity].
  Qed.
  Lemma call_tm_give_tka w c token_id dest amount w' tok : call_tm_give w c token_id dest amount = Some (w', tok) -> tka w w'.
  Proof.
    intro R. apply call_tm_give_spec in R as (_ & t & t' & l' & rets & logs & G & _ & F & ->).
    eapply tka_trans; [eapply tka_wtm_keep; [exact G | intros _; eapply (run_endpoint_token t _ (TGive _ dest amount)); exact F] | apply tka_same; reflexivity].
  Qed.
  Lemma call_tm_take_tka w c token_id tok amount w' : call_tm_take w c token_id tok amount = Some w' -> tka w w'.
  Proof.
    unfold call_tm_take. intro R. destruct (bytes_eqb _ []); [discriminate|]. destruct (get_tm w _) as [t|] eqn:G; [|discriminate].
    destruct (pay_in _ _ _ _) as [l1|]; [|discriminate]. destruct (take_token t l1 _) as [[[[t' l'] rets] logs]|] eqn:F; [|discriminate]. inversion R; subst.
    eapply tka_trans; [eapply tka_wtm_keep; [exact G | intros _; eapply (run_endpoint_token t _ (TTake _)); exact F] | apply tka_same; reflexivity].
  Qed.
  Lemma call_tm_deploy_token_tka w c id m n s w' : call_tm_deploy_token w c id m n s = Some w' -> tka w w'.
  Proof.
    unfold call_tm_deploy_token. intro R. destruct (bytes_eqb _ []); [discriminate|]. destruct (get_tm w _) as [t|] eqn:G; [|discriminate].
    destruct (pay_in _ _ _ _) as [l1|]; [|discriminate]. destruct (deploy_interchain_token t l1 _ m n s) as [[[[t' l'] rets] logs]|] eqn:F; [|discriminate]. inversion R; subst.
    eapply tka_trans; [eapply tka_wtm_keep; [exact G | intros _; eapply (run_endpoint_token t _ (TDeployToken _ m n s)); exact F] | apply tka_same; reflexivity].
  Qed.
  Lemma call_contract_tka w c dc da p gt g w' ev : call_contract H w c dc da p gt g = Some (w', ev) -> tka w w'.
  Proof. intro R. apply call_contract_spec in R as (_ & _ & _ & E & _). apply tka_same; assumption. Qed.
  Lemma route_message_tka w c d p gt g w' ev : route_message H w c d p gt g = Some (w', ev) -> tka w w'.
  Proof. intro R. apply route_message_spec in R as (dc & da & p' & _ & R). eapply call_contract_tka; eauto. Qed.
  Lemma gw_validate_tka w c chain id src ph w' b ev : gw_validate H w c chain id src ph = Some (w', b, ev) -> tka w w'.
  Proof. intro V. apply gw_validate_spec in V as (_ & _ & E & _). apply tka_same; assumption. Qed.
  Lemma set_limits_tka items : forall w c w', set_limits w c items = Some w' -> tka w w'.
  Proof.
    induction items as [|[id l] r IH]; intros w c w' R; cbn [set_limits] in R; [inversion R; apply tka_refl|].
    inv_some R. apply IH in R. eapply tka_trans; [|exact R].
    eapply tm_call_tka; [|eassumption]. intros t l0 x t' l' r0 e F. eapply (run_endpoint_token t l0 (TSetLimit x l)); exact F.
  Qed.
  (* a new manager is deployed at the context's fresh address, which is not the watched one *)
  Lemma deploy_tm_tka w c token_id ty token operator w' : ic_newtm c <> a -> deploy_tm w c token_id ty token operator = Some w' -> tka w w'.
  Proof.
    intros Hn D. apply deploy_tm_spec in D as (_ & _ & t & ev & _ & ->).
    eapply tka_trans; [apply tka_wtm_other; exact Hn | apply tka_same; reflexivity].
  Qed.

  Ltac tokpres_tac :=
    intros ?t ?l0 ?x ?t' ?l' ?r0 ?e ?F;
    first [ eapply (run_endpoint_token _ _ (TMint _ _ _)); eassumption
          | eapply (run_endpoint_token _ _ (TTransferMint _ _)); eassumption
          | eapply (run_endpoint_token _ _ (TRemoveFL _ _)); eassumption
          | eapply (run_endpoint_token _ _ (TAddFL _ _)); eassumption
          | eapply (run_endpoint_token _ _ (TTransferOp _ _)); eassumption
          | eapply (run_endpoint_token _ _ (TSetLimit _ _)); eassumption ].

  Section WithCtx.
  Variable c : ictx.
  Hypothesis Hn : ic_newtm c <> a.

  Ltac tks :=
    repeat match goal with
    | Hx : call_contract _ _ _ _ _ _ _ _ = Some _ |- _ => apply call_contract_tka in Hx
    | Hx : route_message _ _ _ _ _ _ _ = Some _ |- _ => apply route_message_tka in Hx
    | Hx : tm_call _ _ _ _ = Some _ |- _ => apply tm_call_tka in Hx; [|tokpres_tac]
    | Hx : call_tm_deploy_token _ _ _ _ _ _ = Some _ |- _ => apply call_tm_deploy_token_tka in Hx
    | Hx : gw_validate _ _ _ _ _ _ _ = Some _ |- _ => apply gw_validate_tka in Hx
    | Hx : call_tm_give _ _ _ _ _ = Some _ |- _ => apply call_tm_give_tka in Hx
    | Hx : call_tm_take _ _ _ _ _ = Some _ |- _ => apply call_tm_take_tka in Hx
    | Hx : set_limits _ _ _ = Some _ |- _ => apply set_limits_tka in Hx
    | Hx : deploy_tm _ c _ _ _ _ = Some _ |- _ => apply (deploy_tm_tka _ _ _ _ _ _ _ Hn) in Hx
    end.
  Ltac tkstep := first
    [ apply tka_refl
    | eassumption
    | match goal with |- tka _ (w_push ?x _) => eapply (tka_trans _ x); [|apply tka_same; reflexivity] end
    | match goal with |- tka _ (w_its ?x _) => eapply (tka_trans _ x); [|apply tka_same; reflexivity] end
    | match goal with |- tka _ (w_led_ ?x _) => eapply (tka_trans _ x); [|apply tka_same; reflexivity] end
    | match goal with |- tka _ (w_pend_ ?x _) => eapply (tka_trans _ x); [|apply tka_same; reflexivity] end
    | match goal with Hx : tka ?p ?q |- tka _ ?q => eapply tka_trans; [|exact Hx] end ].
  Ltac tkgo := tks; repeat tkstep.

  Lemma transmit_tka w t dc da am gt g d w' ev : transmit H w c t dc da am gt g d = Some (w', ev) -> tka w w'.
  Proof. unfold transmit. intro R. inv_some R. tkgo. Qed.
  Lemma deploy_token_raw_tka w ds dest n sy d m e w' ev : deploy_token_raw H w c ds dest n sy d m e = Some (w', ev) -> tka w w'.
  Proof. unfold deploy_token_raw, remote_base. intro R. inv_some R; inversion R; subst; tkgo. Qed.
  Lemma process_transfer_tka w orig chain id src ph payload w' ev : process_transfer H w c orig chain id src ph payload = Some (w', ev) -> tka w w'.
  Proof. unfold process_transfer. intro R. inv_some R; inversion R; subst; tkgo. Qed.
  Lemma process_deploy_tka w chain id src ph payload w' ev : process_deploy H w c chain id src ph payload = Some (w', ev) -> tka w w'.
  Proof. unfold process_deploy. intro R. inv_some R; inversion R; subst; tkgo. Qed.
  Lemma process_link_tka w payload w' : process_link w c payload = Some w' -> tka w w'.
  Proof. unfold process_link. intro R. inv_some R. tkgo. Qed.
  Lemma its_execute_tka w chain id src payload w' ev : its_execute H w c chain id src payload = Some (w', ev) -> tka w w'.
  Proof.
    unfold its_execute. intro R. inv_some R.
    - eapply process_transfer_tka; eauto.
    - eapply process_deploy_tka; eauto.
    - inversion R; subst. match goal with L : process_link _ _ _ = Some _ |- _ => apply process_link_tka in L end. tkgo.
  Qed.
  Lemma remote_raw_tka w ds dc dm w' rets ev : remote_raw H w c ds dc dm = Some (w', rets, ev) -> tka w w'.
  Proof.
    unfold remote_raw. intro R. inv_some R; inversion R; subst.
    - match goal with D : deploy_token_raw _ _ _ _ _ _ _ _ _ _ = Some _ |- _ => apply deploy_token_raw_tka in D; exact D end.
    - tkgo.
  Qed.
  Lemma register_custom_raw_tka w ds tok ty lp w' rets ev : register_custom_raw H w c ds tok ty lp = Some (w', rets, ev) -> tka w w'.
  Proof. unfold register_custom_raw. intro R. inv_some R. inversion R; subst. tkgo. Qed.
  Lemma metadata_callback_tka w tok gas caller res w' ev : metadata_callback H w c tok gas caller res = Some (w', ev) -> tka w w'.
  Proof. unfold metadata_callback. intro T. inv_some T; try (inversion T; subst); tkgo. Qed.
  Lemma remote_callback_tka w ds dc sym m gas caller res w' ev : remote_callback H w c ds dc sym m gas caller res = Some (w', ev) -> tka w w'.
  Proof.
    unfold remote_callback. intro T. inv_some T; try (inversion T; subst; tkgo).
    all: try (apply deploy_token_raw_tka in T; tkgo).
  Qed.
  End WithCtx.

  Definition iop_ctx (o : iop) : option ictx :=
    match o with
    | IExecute c _ _ _ _ | ITransfer c _ _ _ _ _ | ICallContract c _ _ _ _ _ | IRegisterMetadata c _ | IDeployToken c _ _ _ _ _ _
    | IApproveRemote c _ _ _ _ | IRevokeRemote c _ _ _ | IDeployRemote c _ _ _ _ | IRegisterCanonical c _ | IDeployRemoteCanonical c _ _
    | IRegisterCustom c _ _ _ _ | ILinkToken c _ _ _ _ _ | ISetFlowLimits c _ _ | ISetTrusted c _ _ | IRemoveTrusted c _ | IPause c _
    | ITransferOp c _ | IProposeOp c _ | IAcceptOp c _ | ICallback c _ | IProps c _ _ => Some c
    | IGateway _ | ITm _ _ | IDeliver _ _ _ | IIssue _ _ => None
    end.

  Ltac tkstep0 := first
    [ apply tka_refl
    | eassumption
    | match goal with |- tka _ (w_push ?x _) => eapply (tka_trans _ x); [|apply tka_same; reflexivity] end
    | match goal with |- tka _ (w_its ?x _) => eapply (tka_trans _ x); [|apply tka_same; reflexivity] end
    | match goal with |- tka _ (w_led_ ?x _) => eapply (tka_trans _ x); [|apply tka_same; reflexivity] end
    | match goal with |- tka _ (w_pend_ ?x _) => eapply (tka_trans _ x); [|apply tka_same; reflexivity] end
    | match goal with |- tka _ (w_gw_ ?x _) => eapply (tka_trans _ x); [|apply tka_same; reflexivity] end
    | match goal with Hx : tka ?p ?q |- tka _ ?q => eapply tka_trans; [|exact Hx] end ].
  Ltac tks0 :=
    repeat match goal with
    | Hx : call_contract _ _ _ _ _ _ _ _ = Some _ |- _ => apply call_contract_tka in Hx
    | Hx : route_message _ _ _ _ _ _ _ = Some _ |- _ => apply route_message_tka in Hx
    | Hx : tm_call _ _ _ _ = Some _ |- _ => apply tm_call_tka in Hx; [|tokpres_tac]
    | Hx : call_tm_deploy_token _ _ _ _ _ _ = Some _ |- _ => apply call_tm_deploy_token_tka in Hx
    | Hx : gw_validate _ _ _ _ _ _ _ = Some _ |- _ => apply gw_validate_tka in Hx
    | Hx : call_tm_give _ _ _ _ _ = Some _ |- _ => apply call_tm_give_tka in Hx
    | Hx : call_tm_take _ _ _ _ _ = Some _ |- _ => apply call_tm_take_tka in Hx
    | Hx : set_limits _ _ _ = Some _ |- _ => apply set_limits_tka in Hx
    end.
  Ltac tkgo0 := tks0; repeat tkstep0.

  (* THE RECORDED TOKEN OF THE WATCHED MANAGER SURVIVES EVERY OPERATION *)
  Theorem istep_token_forever w o : (forall c, iop_ctx o = Some c -> ic_newtm c <> a) -> tka w (fst (istep H verify w o)).
  Proof.
    intro Hc.
    assert (ITX : forall c f, (forall w1 w2 rets ev, f w1 = Some (w2, rets, ev) -> tka w1 w2) -> tka w (fst (itx w c f))).
    { intros c f Hf. unfold itx. destruct (pay_in _ _ _ _) as [l1|]; [|apply tka_refl].
      destruct (f (w_led_ w l1)) as [[[w2 rets] ev]|] eqn:F; [|apply tka_refl]. cbn [fst].
      eapply tka_trans; [|eapply Hf; exact F]. apply tka_same; reflexivity. }
    destruct o; cbn [istep]; try (pose proof (Hc c eq_refl) as Hn); try (apply ITX; intros w1 w2 rets ev F; unfold norets in F).
    - destruct (gstep H verify (iw_gw w) o) as [g' r]. cbn [fst]. apply tka_same; reflexivity.
    - destruct (its_execute H w1 c chain id src payload) as [[w3 ev3]|] eqn:X; inversion F; subst. eapply its_execute_tka; eauto.
    - destruct (interchain_transfer H w1 c token_id dest_chain dest_addr metadata gas) as [[w3 ev3]|] eqn:X; inversion F; subst.
      unfold interchain_transfer in X. inv_some X. apply (transmit_tka c) in X. tkgo0.
    - destruct (call_contract_with_token H w1 c token_id dest_chain dest_addr data gas) as [[w3 ev3]|] eqn:X; inversion F; subst.
      unfold call_contract_with_token in X. inv_some X. apply (transmit_tka c) in X. tkgo0.
    - destruct (register_token_metadata w1 c token) as [[w3 ev3]|] eqn:X; inversion F; subst.
      unfold register_token_metadata in X. inv_some X. inversion X; subst. tkgo0.
    - unfold deploy_interchain_token_ep in F. inv_some F; inversion F; subst.
      all: try (match goal with D : deploy_token_raw _ _ _ _ _ _ _ _ _ _ = Some _ |- _ => apply (deploy_token_raw_tka c Hn) in D end).
      all: tkgo0.
    - destruct (approve_remote H w1 c deployer salt dest_chain dest_minter) as [[w3 ev3]|] eqn:X; inversion F; subst.
      apply approve_remote_spec in X as (_ & _ & ->). tkgo0.
    - destruct (revoke_remote H w1 c deployer salt dest_chain) as [[w3 ev3]|] eqn:X; inversion F; subst.
      apply revoke_remote_spec in X. subst. tkgo0.
    - unfold deploy_remote_with_minter in F. inv_some F; apply (remote_raw_tka c Hn) in F; tkgo0.
    - unfold register_canonical in F. inv_some F. apply (register_custom_raw_tka c Hn) in F. exact F.
    - unfold deploy_remote_canonical in F. inv_some F. apply (remote_raw_tka c Hn) in F. exact F.
    - unfold register_custom_token in F. inv_some F. apply (register_custom_raw_tka c Hn) in F. exact F.
    - unfold link_token in F. inv_some F. inversion F; subst. tkgo0.
    - destruct (set_flow_limits w1 c ids limits) as [[w3 ev3]|] eqn:X; inversion F; subst.
      unfold set_flow_limits in X. inv_some X. inversion X; subst. tkgo0.
    - destruct (set_trusted_address w1 c chain a0) as [[w3 ev3]|] eqn:X; inversion F; subst.
      unfold set_trusted_address in X. inv_some X. inversion X; subst. tkgo0.
    - destruct (remove_trusted_address w1 c chain) as [[w3 ev3]|] eqn:X; inversion F; subst.
      unfold remove_trusted_address in X. inv_some X. inversion X; subst. tkgo0.
    - destruct (pause_ep w1 c b) as [[w3 ev3]|] eqn:X; inversion F; subst.
      apply pause_spec in X as (_ & -> & _). tkgo0.
    - destruct (its_transfer_operatorship w1 c a0) as [[w3 ev3]|] eqn:X; inversion F; subst.
      unfold its_transfer_operatorship in X. inv_some X. inversion X; subst. tkgo0.
    - destruct (its_propose_operatorship w1 c a0) as [[w3 ev3]|] eqn:X; inversion F; subst.
      unfold its_propose_operatorship in X. inv_some X. inversion X; subst. tkgo0.
    - destruct (its_accept_operatorship w1 c from) as [[w3 ev3]|] eqn:X; inversion F; subst.
      unfold its_accept_operatorship in X. inv_some X. inversion X; subst. tkgo0.
    - (* direct call into a manager *)
      destruct (get_tm w tma) as [t|] eqn:G; [|apply tka_refl].
      assert (K : forall o', tka w (w_led_ (w_tm w tma (fst (fst (tstep t (iw_led w) o')))) (snd (fst (tstep t (iw_led w) o'))))).
      { intro o'. eapply tka_trans; [eapply tka_wtm_keep; [exact G | intro Hne; apply tstep_token; exact Hne] | apply tka_same; reflexivity]. }
      destruct o; try apply tka_refl;
        match goal with |- context [tstep t (iw_led w) ?oo] => pose proof (K oo) as K1; destruct (tstep t (iw_led w) oo) as [[t' l'] out] end;
        cbn [fst snd] in K1 |- *; try exact K1.
      destruct (to_ok out); [eapply tka_trans; [exact K1 | apply tka_same; reflexivity] | exact K1].
    - destruct (find_ip id (iw_pend w)) as [p|]; [|apply tka_refl].
      destruct (ip_kind p); try apply tka_refl. destruct (ip_stage p); try apply tka_refl.
      destruct (if ok then _ else _); [|apply tka_refl]. cbn [fst]. tkgo0.
    - destruct (find_ip id (iw_pend w)) as [p|]; [|apply tka_refl].
      destruct (ip_kind p); try apply tka_refl. destruct (ip_stage p) as [|ok]; try apply tka_refl.
      destruct (transfer_callback H _ c chain id0 src ph token_id tok amount ok) as [[w1 ev1]|] eqn:T; cbn [fst]; [|tkgo0].
      unfold transfer_callback in T. destruct ok; inv_some T; inversion T; subst; tkgo0.
    - destruct (find_ip id (iw_pend w)) as [p|]; [|apply tka_refl].
      destruct (ip_kind p); try apply tka_refl.
      + destruct (metadata_callback H _ c tok gas caller res) as [[w1 ev1]|] eqn:T; cbn [fst]; [|tkgo0].
        apply (metadata_callback_tka c) in T. tkgo0.
      + destruct (remote_callback H _ c deploy_salt dest_chain symbol minter gas caller res) as [[w1 ev1]|] eqn:T; cbn [fst]; [|tkgo0].
        apply (remote_callback_tka c Hn) in T. tkgo0.
    - (* issuance result: the callback records a token only into an empty slot *)
      destruct (find_ip id (iw_pend w)) as [p|]; [|apply tka_refl].
      destruct (ip_kind p); try apply tka_refl. destruct (get_tm w tm) as [t|] eqn:G; [|apply tka_refl].
      pose proof (tstep_token t (iw_led w) (TIssueCallback tm res)) as K.
      destruct (tstep t (iw_led w) _) as [[t' l'] out]. cbn [fst] in K |- *.
      eapply tka_trans; [eapply tka_wtm_keep; [exact G | exact K] | apply tka_same; reflexivity].
  Qed.

  Theorem irun_token_forever ops : forall w, Forall (fun o => forall c, iop_ctx o = Some c -> ic_newtm c <> a) ops -> tka w (irun H verify w ops).
  Proof.
    induction ops as [|o r IH]; intros w F; [apply tka_refl|]. inversion F as [|? ? Ho Fr]; subst.
    change (irun H verify w (o :: r)) with (irun H verify (fst (istep H verify w o)) r).
    eapply tka_trans; [apply istep_token_forever; exact Ho | apply IH; exact Fr].
  Qed.
End P.
