(* C10: "a proposal accepted by the proposed account for exactly the proposed roles (usable once)" -- counted over whole histories.
   The table of pending role proposals is touched by four of the sixteen operations only (the two propose and the two accept endpoints),
   and for every key (from, to) and role r <> 0 a potential argument over all sixteen operations gives

       #successful accepts by `to` of role r from `from`   <=   #successful proposals of exactly r by `from` to `to`
                                                                 + [the slot (from, to) held r at the start]

   in every history: a replaced or used proposal authorises nothing, an accepted proposal cannot be replayed. *)
From Coq Require Import String List NArith Lia Bool.
From Ax Require Import Lib.Bytes Lib.Mvx Model.Check Model.Env Model.TokenManager Proofs.AListFacts Proofs.TMFacts Proofs.TMCustody.
Import ListNotations.
Open Scope N_scope.

Definition b2n (b : bool) : N := if b then 1 else 0.

Lemma bytes_eqb_sym a b : bytes_eqb a b = bytes_eqb b a.
Proof.
  destruct (bytes_eqb a b) eqn:E.
  - apply bytes_eqb_eq in E. subst. symmetry. apply bytes_eqb_refl.
  - destruct (bytes_eqb b a) eqn:E2; [|reflexivity]. apply bytes_eqb_eq in E2. subst. rewrite bytes_eqb_refl in E. discriminate.
Qed.

Lemma add_flow_in_proposed t now a t' : add_flow_in t now a = Some t' -> tm_proposed t' = tm_proposed t.
Proof. unfold add_flow_in. destruct (tm_limit t =? 0); [intro E; inversion E; reflexivity|]. destruct (add_flow _ _ _ _); intro E; inversion E; reflexivity. Qed.
Lemma add_flow_out_proposed t now a t' : add_flow_out t now a = Some t' -> tm_proposed t' = tm_proposed t.
Proof. unfold add_flow_out. destruct (tm_limit t =? 0); [intro E; inversion E; reflexivity|]. destruct (add_flow _ _ _ _); intro E; inversion E; reflexivity. Qed.

Lemma propose_role_proposed self t f to r t' e :
  propose_role self t f to r = Some (t', e) -> tm_proposed t' = aset pair_eqb (f, to) r (tm_proposed t).
Proof. unfold propose_role. destruct (contains _ _); [|discriminate]. intro E; inversion E; subst. reflexivity. Qed.

Lemma accept_role_proposed self t f to r t' e :
  accept_role self t f to r = Some (t', e) ->
  proposed_of t f to = r /\ r <> 0 /\ tm_proposed t' = aset pair_eqb (f, to) 0 (tm_proposed t).
Proof.
  intro A. pose proof (accept_role_spec _ _ _ _ _ _ _ A) as (P & NZ & _ & _).
  split; [exact P|]. split; [exact NZ|].
  unfold accept_role in A. destruct (_ && _); [|discriminate].
  apply transfer_role_spec in A as (_ & _ & _ & _ & TP). rewrite TP. reflexivity.
Qed.

(* how each of the sixteen operations can change the table of pending proposals *)
Inductive pchange (t t' : tm) (o : top) : Prop :=
| PcSame : tm_proposed t' = tm_proposed t ->
           match o with TProposeOp _ _ | TProposeMint _ _ | TAcceptOp _ _ | TAcceptMint _ _ => False | _ => True end -> pchange t t' o
| PcPropose c a r : (o = TProposeOp c a /\ r = OPERATOR \/ o = TProposeMint c a /\ r = MINTER) ->
           tm_proposed t' = aset pair_eqb (t_caller c, a) r (tm_proposed t) -> pchange t t' o
| PcAccept c f r : (o = TAcceptOp c f /\ r = OPERATOR \/ o = TAcceptMint c f /\ r = MINTER) ->
           proposed_of t f (t_caller c) = r -> r <> 0 ->
           tm_proposed t' = aset pair_eqb (f, t_caller c) 0 (tm_proposed t) -> pchange t t' o.

Theorem run_endpoint_pchange t l o t' l' r e : run_endpoint t l o = Some (t', l', r, e) -> pchange t t' o.
Proof.
  destruct o as [c d a|c|c v|c a|c a|c f to|c a|c a|c f|c a|c a|c f|c a v|c|c m n s|self result]; cbn [run_endpoint]; intro G.
  - apply PcSame; [|exact I]. unfold give_token in G. destruct (_ || _); [discriminate|]. destruct (negb _); [discriminate|].
    destruct (add_flow_in t (t_now c) a) as [t1|] eqn:A; [|discriminate]. apply add_flow_in_proposed in A.
    destruct (is_mint_type _).
    + destruct (_ || _); [discriminate|]. destruct (transfer _ _ _ _ _); inversion G; subst. exact A.
    + destruct (bytes_eqb _ _); [discriminate|]. destruct (transfer _ _ _ _ _); inversion G; subst. exact A.
  - apply PcSame; [|exact I]. unfold take_token in G. destruct (negb _); [discriminate|]. destruct (egld_or_single_fungible _) as [[tok amt]|]; [|discriminate].
    destruct (negb _); [discriminate|]. destruct (add_flow_out t (t_now c) amt) as [t1|] eqn:A; [|discriminate]. apply add_flow_out_proposed in A.
    destruct (is_mint_type _).
    + destruct (bytes_eqb tok EGLD); [discriminate|]. destruct (debit _ _ _ _); inversion G; subst. exact A.
    + inversion G; subst. exact A.
  - apply PcSame; [|exact I]. unfold set_flow_limit in G. destruct (negb _); [discriminate|]. destruct (only_role _ _ _); inversion G; subst. reflexivity.
  - apply PcSame; [|exact I]. unfold add_flow_limiter in G. apply nonpay_some in G as [_ G]. destruct (_ && _); [|discriminate]. apply wrap_some in G as [_ G]. inversion G; subst. reflexivity.
  - apply PcSame; [|exact I]. unfold remove_flow_limiter in G. apply nonpay_some in G as [_ G]. destruct (_ && _); [|discriminate]. apply wrap_some in G as [_ G]. inversion G; subst. reflexivity.
  - apply PcSame; [|exact I]. unfold transfer_flow_limiter in G. apply nonpay_some in G as [_ G]. destruct (_ && _); [|discriminate]. apply wrap_some in G as [_ G]. apply transfer_role_spec in G. apply G.
  - apply PcSame; [|exact I]. unfold transfer_operatorship in G. apply nonpay_some in G as [_ G]. destruct (_ && _); [|discriminate]. apply wrap_some in G as [_ G]. apply transfer_role_spec in G. apply G.
  - unfold propose_operatorship in G. apply nonpay_some in G as [_ G]. destruct (_ && _); [|discriminate]. apply wrap_some in G as [_ G].
    apply propose_role_proposed in G. eapply (PcPropose _ _ _ c a OPERATOR); [left; auto | exact G].
  - unfold accept_operatorship in G. apply nonpay_some in G as [_ G]. destruct (addr_ok f); [|discriminate]. apply wrap_some in G as [_ G].
    apply accept_role_proposed in G as (P & NZ & TP). eapply (PcAccept _ _ _ c f OPERATOR); [left; auto | exact P | exact NZ | exact TP].
  - apply PcSame; [|exact I]. unfold transfer_mintership in G. apply nonpay_some in G as [_ G]. destruct (_ && _); [|discriminate]. apply wrap_some in G as [_ G]. apply transfer_role_spec in G. apply G.
  - unfold propose_mintership in G. apply nonpay_some in G as [_ G]. destruct (_ && _); [|discriminate]. apply wrap_some in G as [_ G].
    apply propose_role_proposed in G. eapply (PcPropose _ _ _ c a MINTER); [right; auto | exact G].
  - unfold accept_mintership in G. apply nonpay_some in G as [_ G]. destruct (addr_ok f); [|discriminate]. apply wrap_some in G as [_ G].
    apply accept_role_proposed in G as (P & NZ & TP). eapply (PcAccept _ _ _ c f MINTER); [right; auto | exact P | exact NZ | exact TP].
  - apply PcSame; [|exact I]. unfold tm_mint in G. apply nonpay_some in G as [_ G]. destruct (_ || _); [discriminate|]. destruct (transfer _ _ _ _ _); inversion G; subst. reflexivity.
  - apply PcSame; [|exact I]. unfold tm_burn in G. destruct (_ || _); [discriminate|]. destruct (egld_or_single_fungible _) as [[tok amt]|]; [|discriminate].
    destruct (negb _); [discriminate|]. destruct (debit _ _ _ _); inversion G; subst. reflexivity.
  - apply PcSame; [|exact I]. unfold deploy_interchain_token in G. destruct (negb _); [discriminate|]. destruct (_ || _); [discriminate|]. destruct (negb _); [discriminate|].
    destruct (_ || _); [discriminate|]. inversion G; subst. reflexivity.
  - discriminate.
Qed.

(* a step either succeeds through run_endpoint, or is the issuance callback, or leaves the manager as it is *)
Lemma tstep_cases t l o :
  (exists l1 t' l' r e, run_endpoint t l1 o = Some (t', l', r, e) /\ tstep t l o = (t', l', {| to_ok := true; to_rets := r; to_logs := e |})) \/
  (tm_proposed (fst (fst (tstep t l o))) = tm_proposed t /\
   (to_ok (snd (tstep t l o)) = false \/ exists s res, o = TIssueCallback s res)).
Proof.
  unfold tstep. destruct o as [c d a|c|c v|c a|c a|c f to|c a|c a|c f|c a|c a|c f|c a v|c|c m n s|self result].
  16:{ right. destruct (tm_pending t =? 0); [cbn; auto|].
       unfold deploy_token_callback. destruct result as [tok|]; [destruct (bytes_eqb (tm_token t) [])|]; cbn; split; eauto. }
  all: cbn [top_ctx]; destruct (pay_in _ _ _ _) as [l1|]; [|right; cbn; auto].
  all: match goal with |- context [run_endpoint ?tt ?ll ?o] => destruct (run_endpoint tt ll o) as [[[[t1 l2] r] e]|] eqn:G; [|right; cbn; auto] end.
  all: left; exists l1, t1, l2, r, e; split; [exact G | reflexivity].
Qed.

Section Count.
  Variables (f to : bytes) (r : N).
  Hypothesis r_nz : r <> 0.

  Definition holds (t : tm) : N := b2n (proposed_of t f to =? r).

  (* the operation is a proposal of exactly r by f to `to` / an accept of r by `to` from f *)
  Definition is_propose (o : top) : bool :=
    match o with
    | TProposeOp c a => bytes_eqb (t_caller c) f && bytes_eqb a to && (r =? OPERATOR)
    | TProposeMint c a => bytes_eqb (t_caller c) f && bytes_eqb a to && (r =? MINTER)
    | _ => false
    end.
  Definition is_accept (o : top) : bool :=
    match o with
    | TAcceptOp c from => bytes_eqb from f && bytes_eqb (t_caller c) to && (r =? OPERATOR)
    | TAcceptMint c from => bytes_eqb from f && bytes_eqb (t_caller c) to && (r =? MINTER)
    | _ => false
    end.
  Definition proposed_ok (t : tm) (l : ledger) (o : top) : N := b2n (is_propose o && to_ok (snd (tstep t l o))).
  Definition accepted_ok (t : tm) (l : ledger) (o : top) : N := b2n (is_accept o && to_ok (snd (tstep t l o))).

  Lemma proposed_of_aset t t' k v : tm_proposed t' = aset pair_eqb k v (tm_proposed t) ->
    proposed_of t' f to = if pair_eqb (f, to) k then v else proposed_of t f to.
  Proof. intro E. unfold proposed_of. rewrite E, (alookup_aset pair_eqb pair_eqb_spec). destruct (pair_eqb (f, to) k); reflexivity. Qed.

  Lemma pair_eqb_split a b c d : pair_eqb (a, b) (c, d) = bytes_eqb a c && bytes_eqb b d.
  Proof.
    destruct (pair_eqb (a, b) (c, d)) eqn:E.
    - apply pair_eqb_spec in E. inversion E; subst. rewrite !bytes_eqb_refl. reflexivity.
    - destruct (bytes_eqb a c) eqn:E1; [|reflexivity]. destruct (bytes_eqb b d) eqn:E2; [|reflexivity].
      apply bytes_eqb_eq in E1. apply bytes_eqb_eq in E2. subst.
      assert (pair_eqb (c, d) (c, d) = true) by (apply pair_eqb_spec; reflexivity). congruence.
  Qed.

  Lemma holds_le1 t : holds t <= 1.  Proof. unfold holds, b2n. destruct (_ =? _); lia. Qed.

  (* the potential: one step of any of the sixteen kinds *)
  Theorem proposal_step t l o :
    accepted_ok t l o + holds (fst (fst (tstep t l o))) <= holds t + proposed_ok t l o.
  Proof.
    unfold accepted_ok, proposed_ok.
    destruct (tstep_cases t l o) as [(l1 & t' & l' & rr & e & G & St) | (Same & Why)].
    - rewrite St. cbn [fst snd to_ok]. rewrite !andb_true_r.
      apply run_endpoint_pchange in G. destruct G as [Same Kind | c a r0 Which Tp | c f0 r0 Which P NZ Tp].
      + assert (is_propose o = false) as -> by (destruct o; try reflexivity; contradiction).
        assert (is_accept o = false) as -> by (destruct o; try reflexivity; contradiction).
        unfold holds, proposed_of. rewrite Same. cbn [b2n]. lia.
      + (* a proposal: the slot (caller, a) now holds r0 *)
        assert (is_accept o = false) as -> by (destruct Which as [[-> _]|[-> _]]; reflexivity). cbn [b2n].
        unfold holds. rewrite (proposed_of_aset t t' _ _ Tp), pair_eqb_split.
        assert (Ip : is_propose o = bytes_eqb (t_caller c) f && bytes_eqb a to && (r =? r0)).
        { destruct Which as [[-> ->]|[-> ->]]; reflexivity. }
        rewrite Ip. rewrite (bytes_eqb_sym f), (bytes_eqb_sym to).
        destruct (bytes_eqb (t_caller c) f && bytes_eqb a to); cbn [andb].
        * rewrite (N.eqb_sym r0 r). destruct (r =? r0); cbn [b2n]; lia.
        * cbn [b2n]. lia.
      + (* an accept: the slot (f0, caller) held r0 <> 0 and is cleared *)
        assert (is_propose o = false) as -> by (destruct Which as [[-> _]|[-> _]]; reflexivity). cbn [b2n].
        unfold holds. rewrite (proposed_of_aset t t' _ _ Tp), pair_eqb_split.
        assert (Ia : is_accept o = bytes_eqb f0 f && bytes_eqb (t_caller c) to && (r =? r0)).
        { destruct Which as [[-> ->]|[-> ->]]; reflexivity. }
        rewrite Ia. rewrite (bytes_eqb_sym f), (bytes_eqb_sym to).
        destruct (bytes_eqb f0 f) eqn:E1; cbn [andb]; [|cbn [b2n]; lia].
        destruct (bytes_eqb (t_caller c) to) eqn:E2; cbn [andb]; [|cbn [b2n]; lia].
        apply bytes_eqb_eq in E1. apply bytes_eqb_eq in E2. subst f0. rewrite E2 in P. rewrite P.
        destruct (N.eqb_spec 0 r) as [Z|_]; [congruence|]. rewrite (N.eqb_sym r0 r). destruct (r =? r0); cbn [b2n]; lia.
    - unfold holds, proposed_of. rewrite Same. destruct Why as [F | (s & res & ->)].
      + rewrite F, !andb_false_r. cbn [b2n]. lia.
      + cbn [is_accept is_propose andb b2n]. lia.
  Qed.

  (* whole histories *)
  Fixpoint total (ev : tm -> ledger -> top -> N) (t : tm) (l : ledger) (ops : list top) : N :=
    match ops with
    | [] => 0
    | o :: rest => ev t l o + total ev (fst (fst (tstep t l o))) (snd (fst (tstep t l o))) rest
    end.

  Theorem accepts_bounded_by_proposals ops : forall t l,
    total accepted_ok t l ops + holds (fst (trun t l ops)) <= holds t + total proposed_ok t l ops.
  Proof.
    induction ops as [|o rest IH]; intros t l; cbn [total].
    - unfold trun. cbn [fold_left fst]. lia.
    - pose proof (proposal_step t l o) as S1.
      specialize (IH (fst (fst (tstep t l o))) (snd (fst (tstep t l o)))).
      assert (E : trun t l (o :: rest) = trun (fst (fst (tstep t l o))) (snd (fst (tstep t l o))) rest).
      { unfold trun. cbn [fold_left fst snd]. destruct (tstep t l o) as [[t1 l1] out]. reflexivity. }
      rewrite E. lia.
  Qed.

  Corollary accepts_never_outnumber_proposals ops t l :
    total accepted_ok t l ops <= holds t + total proposed_ok t l ops.
  Proof. pose proof (accepts_bounded_by_proposals ops t l). lia. Qed.
End Count.
