(* Facts about association lists with a boolean key equality that reflects Leibniz equality. *)
From Coq Require Import List Arith NArith Lia Bool.
From Ax Require Import Lib.Bytes Lib.Mvx.
Import ListNotations.

Section Facts.
  Context {K V : Type}.
  Variable keqb : K -> K -> bool.
  Hypothesis keqb_spec : forall a b, keqb a b = true <-> a = b.

  Lemma keqb_refl a : keqb a a = true.
  Proof. apply keqb_spec. reflexivity. Qed.

  Lemma keqb_neq a b : a <> b -> keqb a b = false.
  Proof. intro H. destruct (keqb a b) eqn:E; [apply keqb_spec in E; contradiction | reflexivity]. Qed.

  Lemma alookup_aremove_same k (l : list (K * V)) : alookup keqb k (aremove keqb k l) = None.
  Proof.
    induction l as [|[k' v] r IH]; cbn [aremove alookup]; [reflexivity|].
    destruct (keqb k k') eqn:E; [exact IH|]. cbn [alookup]. rewrite E. exact IH.
  Qed.

  Lemma alookup_aremove_other k k' (l : list (K * V)) : k <> k' ->
    alookup keqb k (aremove keqb k' l) = alookup keqb k l.
  Proof.
    intro Hne. induction l as [|[k2 v] r IH]; cbn [aremove alookup]; [reflexivity|].
    destruct (keqb k' k2) eqn:E.
    - apply keqb_spec in E. subst k2. rewrite (keqb_neq k k' Hne). exact IH.
    - cbn [alookup]. destruct (keqb k k2); [reflexivity | exact IH].
  Qed.

  Lemma alookup_aset_same k v (l : list (K * V)) : alookup keqb k (aset keqb k v l) = Some v.
  Proof. unfold aset. cbn [alookup]. rewrite keqb_refl. reflexivity. Qed.

  Lemma alookup_aset_other k k' v (l : list (K * V)) : k <> k' ->
    alookup keqb k (aset keqb k' v l) = alookup keqb k l.
  Proof.
    intro Hne. unfold aset. cbn [alookup]. rewrite (keqb_neq k k' Hne).
    apply alookup_aremove_other. exact Hne.
  Qed.

  Lemma alookup_aset k k' v (l : list (K * V)) :
    alookup keqb k (aset keqb k' v l) = if keqb k k' then Some v else alookup keqb k l.
  Proof.
    destruct (keqb k k') eqn:E.
    - apply keqb_spec in E. subst. apply alookup_aset_same.
    - apply alookup_aset_other. intro H. subst. rewrite keqb_refl in E. discriminate.
  Qed.
End Facts.

Lemma pair_eqb_spec (a b : bytes * bytes) : pair_eqb a b = true <-> a = b.
Proof.
  destruct a as [a1 a2], b as [b1 b2]. unfold pair_eqb. cbn [fst snd].
  rewrite andb_true_iff, !bytes_eqb_eq. split; [intros [-> ->]; reflexivity | intro H; inversion H; auto].
Qed.

Lemma Neqb_spec (a b : N) : N.eqb a b = true <-> a = b.
Proof. apply N.eqb_eq. Qed.
