(* C06: the implemented encoder equals the ABI-specification encoder. *)
From Coq Require Import String Ascii.
From Coq Require Import List Arith NArith Lia Bool.
From Coq Require Import Init.Byte Strings.Byte.
From Ax Require Import Lib.Bytes Lib.SolAbi.
Import ListNotations.
Open Scope N_scope.

(* ---------- fixed_bytes_append = right padding ---------- *)

Lemma firstn_skipn_len {A} (l : list A) n : (n <= length l)%nat -> length (firstn n l) = n.
Proof. intro H. rewrite firstn_length. lia. Qed.

Lemma pad_right32_short d : (length d <= 32)%nat -> d <> [] ->
  pad_right32 d = if Nat.eqb (length d mod 32) 0 then d else d ++ zeros (32 - length d mod 32).
Proof.
  intros Hl Hne. unfold pad_right32.
  destruct (Nat.eqb_spec (length d mod 32) 0) as [E|E].
  - rewrite E. cbn. rewrite app_nil_r. reflexivity.
  - f_equal. f_equal. apply Nat.mod_small.
    pose proof (Nat.mod_upper_bound (length d) 32 ltac:(lia)). lia.
Qed.

Lemma pad_right32_cons_block b r : length b = 32%nat -> pad_right32 (b ++ r) = b ++ pad_right32 r.
Proof.
  intro H. unfold pad_right32. rewrite <- app_assoc. f_equal. f_equal. f_equal.
  rewrite app_length, H.
  replace (32 + length r)%nat with (length r + 1 * 32)%nat by lia.
  rewrite Nat.mod_add by lia. reflexivity.
Qed.

Lemma fixed_bytes_append_f_spec fuel : forall d, (length d <= fuel)%nat ->
  fixed_bytes_append_f fuel d = pad_right32 d.
Proof.
  induction fuel as [|f IH]; intros d Hd.
  - destruct d; [reflexivity | cbn in Hd; lia].
  - cbn [fixed_bytes_append_f]. destruct d as [|x d']; [reflexivity|].
    set (d := x :: d') in *.
    destruct (skipn 32 d) as [|y rest] eqn:Es.
    + assert (Hlen : (length d <= 32)%nat).
      { pose proof (skipn_length 32 d) as HL. rewrite Es in HL. cbn [length] in HL. lia. }
      rewrite firstn_all2 by exact Hlen.
      rewrite pad_right32_short; [reflexivity | exact Hlen | discriminate].
    + assert (Hlen : (32 < length d)%nat).
      { pose proof (skipn_length 32 d) as HL. rewrite Es in HL. cbn [length] in HL. lia. }
      rewrite <- (firstn_skipn 32 d) at 2. rewrite Es.
      rewrite pad_right32_cons_block by (apply firstn_skipn_len; lia).
      f_equal. apply IH.
      pose proof (skipn_length 32 d) as HL. rewrite Es in HL. lia.
Qed.

Lemma fixed_bytes_append_spec d : fixed_bytes_append d = pad_right32 d.
Proof. unfold fixed_bytes_append. apply fixed_bytes_append_f_spec. lia. Qed.

Lemma pad_right32_len32 d : length d = 32%nat -> pad_right32 d = d.
Proof. intro H. unfold pad_right32. rewrite H. cbn. apply app_nil_r. Qed.

Lemma pad_right32_length d :
  Nlen (pad_right32 d) = (Nlen d + 31) / 32 * 32.
Proof.
  unfold pad_right32, Nlen. rewrite app_length, zeros_length.
  set (n := length d).
  pose proof (Nat.div_mod n 32 ltac:(lia)) as Hdm.
  pose proof (Nat.mod_upper_bound n 32 ltac:(lia)) as Hm.
  set (q := (n / 32)%nat) in *. set (r := (n mod 32)%nat) in *.
  destruct (Nat.eq_dec r 0) as [E|E].
  - rewrite E in *. replace ((32 - 0) mod 32)%nat with 0%nat by reflexivity.
    replace (N.of_nat n + 31) with (N.of_nat q * 32 + 31) by lia.
    rewrite N.div_add_l by lia. replace (31 / 32) with 0 by reflexivity. lia.
  - rewrite (Nat.mod_small (32 - r) 32) by lia.
    replace (N.of_nat n + 31) with ((N.of_nat q + 1) * 32 + (N.of_nat r - 1)) by lia.
    rewrite N.div_add_l by lia. rewrite (N.div_small (N.of_nat r - 1) 32) by lia. lia.
Qed.

(* ---------- words ---------- *)

Lemma pad_u32_word v : v < 2 ^ 32 -> pad_u32 v = word v.
Proof.
  intro H. unfold pad_u32, word. rewrite N.mod_small by exact H.
  symmetry. apply (be_enc_small_prefix 28 4). exact H.
Qed.

Lemma word_length n : length (word n) = 32%nat.
Proof. apply be_enc_length. Qed.

Lemma byte_len_le32 v : (byte_len v <= 32)%nat <-> v < 2 ^ 256.
Proof.
  unfold byte_len. split; intro H.
  - assert (Hs : N.size v <= 256).
    { assert ((N.size v + 7) / 8 <= 32) as H1 by lia.
      pose proof (N.div_mod (N.size v + 7) 8 ltac:(lia)).
      pose proof (N.mod_upper_bound (N.size v + 7) 8 ltac:(lia)). lia. }
    eapply N.lt_le_trans; [apply size_pow_bound|].
    apply N.pow_le_mono_r; lia.
  - assert (Hs : N.size v <= 256).
    { destruct (N.le_gt_cases (N.size v) 256) as [L|G]; [exact L|exfalso].
      destruct v as [|p]; [cbn in G; lia|].
      pose proof (N.size_le (N.pos p)) as HL.
      assert (2 ^ 257 <= 2 ^ N.size (N.pos p)) by (apply N.pow_le_mono_r; lia).
      assert (N.succ_double (N.pos p) = 2 * N.pos p + 1) as E by (rewrite N.succ_double_spec; reflexivity).
      rewrite E in HL.
      replace (2 ^ 257) with (2 * 2 ^ 256) in H0 by reflexivity. lia. }
    assert ((N.size v + 7) / 8 < 33).
    { apply N.div_lt_upper_bound; lia. }
    lia.
Qed.

Lemma pad_biguint_spec v :
  pad_biguint v = if v <? 2 ^ 256 then Some (word v) else None.
Proof.
  unfold pad_biguint. rewrite be_min_length.
  destruct (N.ltb_spec v (2 ^ 256)) as [L|G].
  - apply byte_len_le32 in L. rewrite (proj2 (Nat.leb_le _ _) L).
    f_equal. unfold word, be_min.
    rewrite <- (be_enc_small_prefix (32 - byte_len v) (byte_len v) v) by apply byte_len_bound.
    f_equal. lia.
  - destruct (Nat.leb_spec (byte_len v) 32) as [L|_]; [|reflexivity].
    apply byte_len_le32 in L. lia.
Qed.

(* ---------- tails ---------- *)

Lemma tail_append_spec t : wf_token t -> tail_append t = spec_tail t.
Proof.
  destruct t as [n|b|b|b|n]; cbn [tail_append spec_tail wf_token]; intro H; try reflexivity;
    rewrite fixed_bytes_append_spec, pad_u32_word by exact H; reflexivity.
Qed.

Lemma spec_tail_length t : Nlen (spec_tail t) = tail_len t.
Proof.
  destruct t as [n|b|b|b|n]; cbn [spec_tail tail_len]; try reflexivity;
    unfold Nlen at 1; rewrite app_length, word_length;
    pose proof (pad_right32_length b) as HP; unfold Nlen in HP at 1; lia.
Qed.

Lemma tails_spec toks : Forall wf_token toks ->
  map tail_append toks = map spec_tail toks.
Proof.
  induction 1 as [|t r Ht _ IH]; [reflexivity|]. cbn [map]. rewrite tail_append_spec, IH by exact Ht. reflexivity.
Qed.

(* ---------- heads ---------- *)

Lemma Nlen_app {A} (a b : list A) : Nlen (a ++ b) = Nlen a + Nlen b.
Proof. unfold Nlen. rewrite app_length. lia. Qed.

Lemma Nlen_cons {A} (x : A) l : Nlen (x :: l) = 1 + Nlen l.
Proof. unfold Nlen. cbn [length]. lia. Qed.

Lemma heads_impl_spec k : forall toks earlier,
  Forall wf_token toks ->
  32 * k + earlier + Nlen (concat (map spec_tail toks)) < 2 ^ 32 ->
  heads_impl toks (32 * k + earlier) =
    if forallb fits256 toks then Some (spec_heads k earlier toks) else None.
Proof.
  induction toks as [|t r IH]; intros earlier Hwf Hsz; [reflexivity|].
  inversion Hwf as [|? ? Ht Hr]; subst.
  cbn [heads_impl spec_heads forallb map concat] in *.
  rewrite Nlen_app in Hsz.
  replace (32 * k + earlier + tail_len t) with (32 * k + (earlier + tail_len t)) by lia.
  rewrite <- spec_tail_length.
  rewrite IH by (try exact Hr; lia).
  destruct t as [n|b|b|b|n]; cbn [head_append fits256 is_dynamic spec_static_head andb].
  - rewrite pad_biguint_spec. destruct (n <? 2 ^ 256); [|reflexivity].
    destruct (forallb fits256 r); reflexivity.
  - cbn in Ht. rewrite fixed_bytes_append_spec, pad_right32_len32 by exact Ht.
    destruct (forallb fits256 r); reflexivity.
  - rewrite pad_u32_word by lia. destruct (forallb fits256 r); reflexivity.
  - rewrite pad_u32_word by lia. destruct (forallb fits256 r); reflexivity.
  - cbn in Ht. rewrite pad_u32_word by lia. destruct (forallb fits256 r); reflexivity.
Qed.

(* ---------- main theorem ---------- *)

Theorem enc_impl_eq_spec toks :
  Forall wf_token toks -> spec_size toks < 2 ^ 32 ->
  enc_impl toks = enc_spec toks.
Proof.
  intros Hwf Hsz. unfold enc_impl, enc_spec, spec_size in *.
  replace (32 * Nlen toks) with (32 * Nlen toks + 0) by lia.
  rewrite heads_impl_spec by (try exact Hwf; lia).
  rewrite tails_spec by exact Hwf.
  destruct (forallb fits256 toks); reflexivity.
Qed.

(* rejection is exactly "some uint256 does not fit 256 bits" *)
Theorem enc_spec_none_iff toks :
  enc_spec toks = None <-> exists v, In (TUint v) toks /\ 2 ^ 256 <= v.
Proof.
  unfold enc_spec. destruct (forallb fits256 toks) eqn:E; split; intro H; try discriminate.
  - destruct H as (v & Hin & Hv). rewrite forallb_forall in E. specialize (E _ Hin).
    cbn in E. apply N.ltb_lt in E. lia.
  - clear H. induction toks as [|t r IH]; [discriminate|]. cbn [forallb] in E.
    apply andb_false_iff in E as [E|E].
    + destruct t as [n|b|b|b|n]; try discriminate. cbn in E. apply N.ltb_ge in E.
      exists n. split; [left; reflexivity | exact E].
    + destruct (IH E) as (v & Hin & Hv). exists v. split; [right; exact Hin | exact Hv].
  - reflexivity.
Qed.

(* ---------- layout facts ---------- *)

Lemma spec_heads_length k : forall toks earlier,
  Forall wf_token toks -> Nlen (spec_heads k earlier toks) = 32 * Nlen toks.
Proof.
  induction toks as [|t r IH]; intros earlier Hwf; [reflexivity|].
  inversion Hwf as [|? ? Ht Hr]; subst. cbn [spec_heads].
  rewrite Nlen_app, IH, Nlen_cons by exact Hr.
  destruct t as [n|b|b|b|n]; cbn [is_dynamic spec_static_head];
    unfold Nlen at 1; rewrite ?word_length; try lia.
  cbn in Ht. rewrite Ht. lia.
Qed.

Lemma spec_tail_mult32 t : exists q, Nlen (spec_tail t) = 32 * q.
Proof.
  rewrite spec_tail_length. destruct t; cbn [tail_len]; try (exists 0; lia).
  all: eexists; rewrite N.mul_comm; reflexivity.
Qed.

Theorem enc_spec_length_mult32 toks out :
  Forall wf_token toks -> enc_spec toks = Some out -> exists q, Nlen out = 32 * q.
Proof.
  unfold enc_spec. intros Hwf. destruct (forallb fits256 toks); [|discriminate].
  intro E; inversion E; subst; clear E.
  rewrite Nlen_app, spec_heads_length by exact Hwf.
  assert (exists q, Nlen (concat (map spec_tail toks)) = 32 * q) as [q Hq].
  { clear Hwf. induction toks as [|t r [q IH]]; [exists 0; reflexivity|].
    cbn [map concat]. rewrite Nlen_app, IH. destruct (spec_tail_mult32 t) as [q' ->].
    exists (q' + q). lia. }
  rewrite Hq. exists (Nlen toks + q). lia.
Qed.
