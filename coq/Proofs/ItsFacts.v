(* ITS: routing (C13), pause and privileged gates (C20), custom-minter approvals (C19),
   inbound release conditions (C04), outbound message (C05), deployment steps (C18). *)
From Coq Require Import String Ascii.
From Coq Require Import List Arith NArith Lia Bool.
From Coq Require Import Init.Byte Strings.Byte.
From Ax Require Import Lib.Bytes Lib.Mvx Lib.SolAbi Model.Check Model.Env Model.Gateway Model.TokenManager Model.Its
     Proofs.SolAbiEnc Proofs.SolAbiDec Proofs.AListFacts Proofs.GatewayMsgs Proofs.TMFacts.
Import ListNotations.
Open Scope N_scope.

(* invert "… = Some _" through the option-returning control flow of the model *)
Ltac inv_some H :=
  repeat (match type of H with
          | (if ?b then _ else _) = Some _ => let E := fresh "E" in destruct b eqn:E; try discriminate H
          | match ?x with _ => _ end = Some _ => let E := fresh "E" in destruct x eqn:E; try discriminate H
          end).

Lemma bget_aset m k v k' : bget (aset bytes_eqb k v m) k' = if bytes_eqb k' k then v else bget m k'.
Proof. unfold bget. rewrite (alookup_aset bytes_eqb bytes_eqb_eq). destruct (bytes_eqb k' k); reflexivity. Qed.

Section P.
  Variable H : bytes -> bytes.

  (* ================= C13: routes ================= *)
  Theorem route_out_spec s dest p dc da p' :
    route_out s dest p = Some (dc, da, p') ->
    dest <> HUB_CHAIN /\ trusted s dest <> [] /\
    ((trusted s dest <> HUB_ID /\ dc = dest /\ da = trusted s dest /\ p' = p) \/
     (trusted s dest = HUB_ID /\ dc = HUB_CHAIN /\ da = trusted s HUB_CHAIN /\ da <> [] /\
      enc_impl [TUint MT_SEND_TO_HUB; TString dest; TBytes p] = Some p')).
  Proof.
    unfold route_out. intro R. inv_some R.
    - apply bytes_eqb_neq in E, E0, E2. apply bytes_eqb_eq in E1. inversion R; subst.
      split; [exact E|]. split; [exact E0|]. right. auto.
    - apply bytes_eqb_neq in E, E0, E1. inversion R; subst. split; [exact E|]. split; [exact E0|]. left. auto.
  Qed.

  Theorem route_out_refuses_hub s p : route_out s HUB_CHAIN p = None.
  Proof. unfold route_out. rewrite bytes_eqb_refl. reflexivity. Qed.
  Theorem route_out_refuses_untrusted s dest p : trusted s dest = [] -> route_out s dest p = None.
  Proof. intro E. unfold route_out. destruct (bytes_eqb dest HUB_CHAIN); [reflexivity|]. rewrite E. reflexivity. Qed.
  Theorem route_out_refuses_hub_unset s dest p : trusted s dest = HUB_ID -> trusted s HUB_CHAIN = [] -> route_out s dest p = None.
  Proof. intros E1 E2. unfold route_out. destruct (bytes_eqb dest HUB_CHAIN); [reflexivity|]. rewrite E1, E2. reflexivity. Qed.

  Theorem route_in_spec s chain payload mt orig p :
    route_in s chain payload = Some (mt, orig, p) ->
    exists outer, msg_type payload = Some outer /\
      ((outer <> MT_RECEIVE_FROM_HUB /\ chain <> HUB_CHAIN /\ mt = outer /\ orig = chain /\ p = payload) \/
       (outer = MT_RECEIVE_FROM_HUB /\ chain = HUB_CHAIN /\ is_trusted s orig HUB_ID = true /\ msg_type p = Some mt /\
        exists ty, dec_impl [PUint; PString; PBytes] payload = Some [TUint ty; TString orig; TBytes p])).
  Proof.
    unfold route_in. intro R. destruct (msg_type payload) as [outer|] eqn:M; [|discriminate]. exists outer. split; [reflexivity|].
    destruct (N.eqb_spec outer MT_RECEIVE_FROM_HUB) as [Eo|No].
    - right. inv_some R. inversion R; subst. apply negb_false_iff in E. apply bytes_eqb_eq in E. eauto 10.
    - left. inv_some R. inversion R; subst. apply bytes_eqb_neq in E. auto.
  Qed.

  (* the gateway log of call_contract names exactly the given destination and payload *)
  Theorem call_contract_spec w c dchain daddr payload gtok gas w' ev :
    call_contract H w c dchain daddr payload gtok gas = Some (w', ev) ->
    daddr <> [] /\ iw_its w' = iw_its w /\ iw_gw w' = iw_gw w /\ iw_tms w' = iw_tms w /\ iw_pend w' = iw_pend w /\ iw_next w' = iw_next w /\
    (gas = 0 -> iw_led w' = iw_led w /\ ev = [lg (i_gateway (iw_its w)) [str "contract_call_event"; ic_self c; dchain; daddr; H payload] payload]) /\
    (gas <> 0 -> transfer (iw_led w) (ic_self c) (i_gas (iw_its w)) gtok gas = Some (iw_led w') /\
       exists gl, ev = [gl; lg (i_gateway (iw_its w)) [str "contract_call_event"; ic_self c; dchain; daddr; H payload] payload] /\
         lg_addr gl = i_gas (iw_its w) /\
         gl = (if bytes_eqb gtok EGLD
               then lg (i_gas (iw_its w)) [str "native_gas_paid_for_contract_call_event"; ic_self c; dchain; daddr] (H payload ++ enc_big gas ++ ic_caller c)
               else lg (i_gas (iw_its w)) [str "gas_paid_for_contract_call_event"; ic_self c; dchain; daddr] (H payload ++ enc_buf gtok ++ enc_big gas ++ ic_caller c))).
  Proof.
    unfold call_contract. intro R. destruct (bytes_eqb daddr []) eqn:Ed; [discriminate|]. apply bytes_eqb_neq in Ed.
    destruct (N.eqb_spec gas 0) as [Z|NZ].
    - inversion R; subst. cbn. repeat (split; [reflexivity || exact Ed|]). split; [auto | intro; contradiction].
    - destruct (transfer (iw_led w) (ic_self c) (i_gas (iw_its w)) gtok gas) as [l'|] eqn:T; [|discriminate].
      inversion R; subst. cbn [iw_its iw_gw iw_tms iw_pend iw_next iw_led w_led_ wset app].
      repeat (split; [reflexivity || exact Ed|]). split; [intro; contradiction|]. intros _. split; [reflexivity|].
      eexists. split; [reflexivity|]. split; [destruct (bytes_eqb gtok EGLD); reflexivity | reflexivity].
  Qed.

  Theorem route_message_spec w c dest payload gtok gas w' ev :
    route_message H w c dest payload gtok gas = Some (w', ev) ->
    exists dc da p', route_out (iw_its w) dest payload = Some (dc, da, p') /\ call_contract H w c dc da p' gtok gas = Some (w', ev).
  Proof. unfold route_message. destruct (route_out (iw_its w) dest payload) as [[[dc da] p']|]; [|discriminate]. eauto. Qed.

  (* ================= C20: pause and privileged operations ================= *)
  Section Paused.
    Variable w : iworld.
    Hypothesis Hp : i_paused (iw_its w) = true.
    Theorem paused_execute c chain id src payload : its_execute H w c chain id src payload = None.
    Proof. unfold its_execute. destruct (negb _); [reflexivity|]. rewrite Hp. reflexivity. Qed.
    Theorem paused_transfer c t dc da md g : interchain_transfer H w c t dc da md g = None.
    Proof. unfold interchain_transfer. destruct (negb _); [reflexivity|]. rewrite Hp. reflexivity. Qed.
    Theorem paused_call_contract c t dc da d g : call_contract_with_token H w c t dc da d g = None.
    Proof. unfold call_contract_with_token. destruct (negb _); [reflexivity|]. rewrite Hp. reflexivity. Qed.
    Theorem paused_deploy_token c salt n sy d sup m : deploy_interchain_token_ep H w c salt n sy d sup m = None.
    Proof. unfold deploy_interchain_token_ep. destruct (_ || _); [reflexivity|]. rewrite Hp. reflexivity. Qed.
    Theorem paused_remote_raw c ds dc dm : remote_raw H w c ds dc dm = None.
    Proof. unfold remote_raw. rewrite Hp. reflexivity. Qed.
    Theorem paused_deploy_remote c s m dc dm : deploy_remote_with_minter H w c s m dc dm = None.
    Proof.
      unfold deploy_remote_with_minter. destruct (_ || _); [reflexivity|].
      destruct (negb (bytes_eqb m zero32)).
      - destruct (negb _); [reflexivity|]. destruct dm as [d|].
        + destruct (_ || _); [reflexivity|]. unfold remote_raw. cbn [iw_its w_its wset i_paused set_approval iupd]. rewrite Hp. reflexivity.
        + apply paused_remote_raw.
      - destruct dm; [reflexivity | apply paused_remote_raw].
    Qed.
    Theorem paused_register_canonical c t : register_canonical H w c t = None.
    Proof. unfold register_canonical, register_custom_raw. destruct (negb _); [reflexivity|]. destruct (negb _); [reflexivity|]. rewrite Hp. reflexivity. Qed.
    Theorem paused_deploy_remote_canonical c t dc : deploy_remote_canonical H w c t dc = None.
    Proof. unfold deploy_remote_canonical. destruct (negb _); [reflexivity|]. destruct (negb _); [reflexivity|]. apply paused_remote_raw. Qed.
    Theorem paused_register_custom c s t ty op : register_custom_token H w c s t ty op = None.
    Proof. unfold register_custom_token, register_custom_raw. destruct (_ || _); [reflexivity|]. destruct (negb _); [reflexivity|]. rewrite Hp. reflexivity. Qed.
    Theorem paused_link_token c s dc dt ty p : link_token H w c s dc dt ty p = None.
    Proof. unfold link_token. destruct (_ || _); [reflexivity|]. rewrite Hp. reflexivity. Qed.
  End Paused.

  (* a rejected transaction changes nothing: itx returns the original world *)
  Theorem itx_none w c f : (forall w1, f w1 = None) -> itx w c f = (w, ifail).
  Proof. intro Hf. unfold itx. destruct (pay_in _ _ _ _); [rewrite Hf|]; reflexivity. Qed.

  Theorem itx_none_led w c f : (forall l1, f (w_led_ w l1) = None) -> itx w c f = (w, ifail).
  Proof. intro Hf. unfold itx. destruct (pay_in _ _ _ _) as [l1|]; [rewrite Hf|]; reflexivity. Qed.

  (* while paused, every gated endpoint fails and the transaction changes nothing *)
  Theorem paused_frame verify w o : i_paused (iw_its w) = true ->
    match o with
    | IExecute _ _ _ _ _ | ITransfer _ _ _ _ _ _ | ICallContract _ _ _ _ _ _ | IDeployToken _ _ _ _ _ _ _
    | IDeployRemote _ _ _ _ _ | IRegisterCanonical _ _ | IDeployRemoteCanonical _ _ _ | IRegisterCustom _ _ _ _ _ | ILinkToken _ _ _ _ _ _ =>
        istep H verify w o = (w, ifail)
    | _ => True
    end.
  Proof.
    intro Hp. destruct o; try exact I; cbn [istep]; apply itx_none_led; intro l1; unfold norets.
    - rewrite paused_execute; [reflexivity | exact Hp].
    - rewrite paused_transfer; [reflexivity | exact Hp].
    - rewrite paused_call_contract; [reflexivity | exact Hp].
    - apply paused_deploy_token. exact Hp.
    - apply paused_deploy_remote. exact Hp.
    - apply paused_register_canonical. exact Hp.
    - apply paused_deploy_remote_canonical. exact Hp.
    - apply paused_register_custom. exact Hp.
    - apply paused_link_token. exact Hp.
  Qed.

  (* pause / unpause only flips the flag *)
  Theorem pause_spec w c b w' ev : pause_ep w c b = Some (w', ev) ->
    ic_caller c = ic_owner c /\ w' = w_its w (set_paused (iw_its w) b) /\ ev = [].
  Proof. unfold pause_ep. intro R. inv_some R. apply negb_false_iff in E0. apply bytes_eqb_eq in E0. inversion R; subst. auto. Qed.
  Theorem unpause_restores s : set_paused (set_paused s true) (i_paused s) = s.
  Proof. destruct s. reflexivity. Qed.
  Theorem set_trusted_owner_only w c chain a w' ev : set_trusted_address w c chain a = Some (w', ev) -> ic_caller c = ic_owner c.
  Proof. unfold set_trusted_address. intro R. inv_some R. apply negb_false_iff in E0. apply bytes_eqb_eq in E0. exact E0. Qed.
  Theorem remove_trusted_owner_only w c chain w' ev : remove_trusted_address w c chain = Some (w', ev) -> ic_caller c = ic_owner c.
  Proof. unfold remove_trusted_address. intro R. inv_some R. apply negb_false_iff in E0. apply bytes_eqb_eq in E0. exact E0. Qed.
  Theorem set_flow_limits_operator_only w c ids ls w' ev : set_flow_limits w c ids ls = Some (w', ev) ->
    intersects (iroles (iw_its w) (ic_caller c)) OPERATOR = true.
  Proof. unfold set_flow_limits. intro R. inv_some R. apply negb_false_iff in E0. exact E0. Qed.

  (* ================= C19: custom destination minter ================= *)
  Theorem approve_remote_spec w c deployer salt dchain dminter w' ev :
    approve_remote H w c deployer salt dchain dminter = Some (w', ev) ->
    let token_id := interchain_token_id H (iw_its w) deployer salt in
    check_token_minter w c token_id (ic_caller c) = true /\ trusted (iw_its w) dchain <> [] /\
    w' = w_its w (set_approval (iw_its w) (approval_key H (ic_caller c) token_id dchain) (H dminter)).
  Proof.
    unfold approve_remote. intro R. inv_some R. inversion R; subst. cbv zeta.
    apply negb_false_iff in E0. apply bytes_eqb_neq in E1. auto.
  Qed.

  Theorem check_token_minter_spec w c token_id m : check_token_minter w c token_id m = true ->
    tm_addr (iw_its w) token_id <> [] /\ is_minter_of w (tm_addr (iw_its w) token_id) m = true /\ m <> ic_self c.
  Proof.
    unfold check_token_minter. intro E. apply andb_true_iff in E as [E E3]. apply andb_true_iff in E as [E1 E2].
    apply negb_true_iff in E1, E3. apply bytes_eqb_neq in E1, E3. auto.
  Qed.

  Theorem revoke_remote_spec w c deployer salt dchain w' ev :
    revoke_remote H w c deployer salt dchain = Some (w', ev) ->
    w' = w_its w (set_approval (iw_its w) (approval_key H (ic_caller c) (interchain_token_id H (iw_its w) deployer salt) dchain) []).
  Proof. unfold revoke_remote. intro R. inv_some R. inversion R; subst. reflexivity. Qed.

  (* a destination minter is accepted only with the current minter's stored approval of exactly that
     hash, which is consumed; without a local minter none can be supplied; the service is never the minter *)
  Theorem deploy_remote_with_minter_spec w c salt minter dchain dm w' rets ev :
    deploy_remote_with_minter H w c salt minter dchain dm = Some (w', rets, ev) ->
    let ds := interchain_salt H (iw_its w) (ic_caller c) salt in
    let token_id := token_id_raw H ds in
    (minter = zero32 -> dm = None /\ remote_raw H w c ds dchain [] = Some (w', rets, ev)) /\
    (minter <> zero32 ->
       check_token_minter w c token_id minter = true /\
       match dm with
       | None => remote_raw H w c ds dchain minter = Some (w', rets, ev)
       | Some d =>
           let key := approval_key H minter token_id dchain in
           bget (i_approvals (iw_its w)) key = H d /\ H d <> [] /\
           remote_raw H (w_its w (set_approval (iw_its w) key [])) c ds dchain d = Some (w', rets, ev)
       end).
  Proof.
    unfold deploy_remote_with_minter. intro R. destruct (_ || _); [discriminate|]. cbv zeta.
    destruct (bytes_eqb minter zero32) eqn:Z; cbn [negb] in R.
    - apply bytes_eqb_eq in Z. split; [|intro; contradiction]. intros _. destruct dm; [discriminate|]. auto.
    - apply bytes_eqb_neq in Z. split; [intro; contradiction|]. intros _.
      destruct (check_token_minter w c _ minter) eqn:C; [|discriminate]. cbn [negb] in R. split; [reflexivity|].
      destruct dm as [d|]; [|exact R].
      destruct (bytes_eqb (bget (i_approvals (iw_its w)) _) []) eqn:E1; [discriminate|]. cbn [orb] in R.
      destruct (bytes_eqb (bget (i_approvals (iw_its w)) _) (H d)) eqn:E2; [|discriminate]. cbn [negb] in R.
      apply bytes_eqb_eq in E2. apply bytes_eqb_neq in E1. cbv zeta. rewrite <- E2. auto.
  Qed.

  (* the approval is single-use: right after a successful use the same request is refused *)
  Theorem approval_consumed s key : bget (i_approvals (set_approval s key [])) key = [].
  Proof. unfold set_approval. cbn [i_approvals iupd]. rewrite bget_aset, bytes_eqb_refl. reflexivity. Qed.

  (* ================= C04 / C08: inbound transfers ================= *)
  Lemma gw_validate_spec w c chain id src ph w' b ev : gw_validate H w c chain id src ph = Some (w', b, ev) ->
    b = is_approved_with H (iw_gw w) chain id src (ic_self c) ph /\
    iw_its w' = iw_its w /\ iw_tms w' = iw_tms w /\ iw_led w' = iw_led w /\ iw_pend w' = iw_pend w /\ iw_next w' = iw_next w /\
    (b = true -> mst (iw_gw w') (chain, id) = Some MExecuted) /\ (b = false -> iw_gw w' = iw_gw w).
  Proof.
    unfold gw_validate. destruct (validate_message H (iw_gw w) _ chain id src ph) as [[[g' b'] ev']|] eqn:V; [|discriminate].
    intro R; inversion R; subst. apply validate_message_inv in V as (_ & Hb & Ht & Hf). cbn [c_caller] in Hb.
    split; [exact Hb|]. cbn. repeat (split; [reflexivity|]). split.
    - intro T. destruct (Ht T) as [-> _]. rewrite mst_set_messages. apply (alookup_aset_same pair_eqb pair_eqb_spec).
    - intro F. destruct (Hf F) as [-> _]. reflexivity.
  Qed.

  (* a transfer without data releases tokens only under a live gateway approval for exactly this message,
     which the same step consumes; exactly the payload amount of the payload's token id goes to the payload's recipient *)
  Theorem process_transfer_nodata_spec w c orig chain id src ph payload w' ev token_id osrc dest amount ty :
    dec_impl [PUint; PBytes32; PBytes; PBytes; PUint; PBytes] payload = Some [TUint ty; TBytes32 token_id; TBytes osrc; TBytes dest; TUint amount; TBytes []] ->
    process_transfer H w c orig chain id src ph payload = Some (w', ev) ->
    length dest = 32%nat /\
    is_approved_with H (iw_gw w) chain id src (ic_self c) ph = true /\
    mst (iw_gw w') (chain, id) = Some MExecuted /\
    exists w1 tok, gw_validate H w c chain id src ph = Some (w1, true, ev) /\ call_tm_give w1 c token_id dest amount = Some (w', tok).
  Proof.
    intros D R. unfold process_transfer in R. rewrite D in R.
    destruct (Nat.eqb_spec (length dest) 32) as [L|]; [|discriminate]. cbn [negb bytes_eqb] in R.
    destruct (gw_validate H w c chain id src ph) as [[[w1 b] ev1]|] eqn:V; [|discriminate].
    destruct b; [|discriminate].
    destruct (call_tm_give w1 c token_id dest amount) as [[w2 tok]|] eqn:G; [|discriminate].
    inversion R; subst. pose proof (gw_validate_spec _ _ _ _ _ _ _ _ _ V) as (Hb & _ & _ & _ & _ & _ & Hex & _).
    split; [exact L|]. split; [symmetry; exact Hb|]. split.
    - unfold call_tm_give in G. inv_some G. inversion G; subst. cbn. apply Hex. reflexivity.
    - eauto.
  Qed.

  (* giving through the service: the manager registered for the token id, service as caller *)
  Theorem call_tm_give_spec w c token_id dest amount w' tok : call_tm_give w c token_id dest amount = Some (w', tok) ->
    let tma := tm_addr (iw_its w) token_id in
    tma <> [] /\ exists t t' l' rets logs, get_tm w tma = Some t /\ tok = tm_token t /\
      give_token t (iw_led w) (tm_ctx c tma no_value) dest amount = Some (t', l', rets, logs) /\
      w' = w_led_ (w_tm w tma t') l'.
  Proof.
    unfold call_tm_give. intro R. inv_some R. destruct p as [[[t' l'] rets] logs]. inversion R; subst. cbv zeta.
    apply bytes_eqb_neq in E. split; [exact E|]. eauto 10.
  Qed.

  (* once executed, the same message releases nothing again *)
  Theorem executed_not_approved g chain id src contract ph : mst g (chain, id) = Some MExecuted -> is_approved_with H g chain id src contract ph = false.
  Proof.
    intro E. destruct (is_approved_with H g chain id src contract ph) eqn:A; [|reflexivity].
    apply is_approved_with_spec in A. congruence.
  Qed.

  Theorem process_transfer_after_executed w c orig chain id src ph payload :
    mst (iw_gw w) (chain, id) = Some MExecuted -> process_transfer H w c orig chain id src ph payload = None.
  Proof.
    intro E. destruct (process_transfer H w c orig chain id src ph payload) as [[w' ev]|] eqn:R; [|reflexivity]. exfalso.
    unfold process_transfer in R. inv_some R.
    - match goal with V : gw_validate _ _ _ _ _ _ _ = Some _ |- _ => apply gw_validate_spec in V as (Hb & _) end.
      rewrite (executed_not_approved _ _ _ _ _ _ E) in Hb. discriminate.
    - match goal with A : negb (gw_is_approved _ _ _ _ _ _ _) = false |- _ => apply negb_false_iff in A; unfold gw_is_approved in A;
        rewrite (executed_not_approved _ _ _ _ _ _ E) in A; discriminate end.
  Qed.

  (* with data: the approval is checked but not consumed, the lock must be free and is taken, the
     tokens go to the service, one promise is registered *)
  Theorem process_transfer_data_spec w c orig chain id src ph payload w' ev token_id osrc dest amount data ty :
    dec_impl [PUint; PBytes32; PBytes; PBytes; PUint; PBytes] payload = Some [TUint ty; TBytes32 token_id; TBytes osrc; TBytes dest; TUint amount; TBytes data] ->
    data <> [] ->
    process_transfer H w c orig chain id src ph payload = Some (w', ev) ->
    is_approved_with H (iw_gw w) chain id src (ic_self c) ph = true /\ ev = [] /\
    exists w1 tok, call_tm_give w c token_id (ic_self c) amount = Some (w1, tok) /\
      lock_of (iw_its w1) chain id = 0 /\
      w' = w_push (w_its w1 (set_lock (iw_its w1) chain id 1)) (PTransfer chain id src ph token_id tok amount dest orig osrc data).
  Proof.
    intros D Hd R. unfold process_transfer in R. rewrite D in R.
    destruct (Nat.eqb_spec (length dest) 32) as [L|]; [|discriminate]. cbn [negb] in R.
    apply bytes_eqb_neq in Hd. rewrite Hd in R.
    destruct (gw_is_approved H w c chain id src ph) eqn:A; [|discriminate]. cbn [negb] in R.
    destruct (call_tm_give w c token_id (ic_self c) amount) as [[w1 tok]|] eqn:G; [|discriminate].
    destruct (N.eqb_spec (lock_of (iw_its w1) chain id) 0) as [Z|]; [|discriminate]. cbn [negb] in R.
    inversion R; subst. split; [exact A|]. split; [reflexivity|]. eauto.
  Qed.

  Theorem locked_refuses w c orig chain id src ph payload :
    (forall token_id dest amount w1 tok, call_tm_give w c token_id dest amount = Some (w1, tok) -> lock_of (iw_its w1) chain id <> 0) ->
    forall w' ev token_id osrc dest amount data ty,
    dec_impl [PUint; PBytes32; PBytes; PBytes; PUint; PBytes] payload = Some [TUint ty; TBytes32 token_id; TBytes osrc; TBytes dest; TUint amount; TBytes data] ->
    data <> [] -> process_transfer H w c orig chain id src ph payload = Some (w', ev) -> False.
  Proof.
    intros HL w' ev token_id osrc dest amount data ty D Hd R.
    apply (process_transfer_data_spec _ _ _ _ _ _ _ _ _ _ _ _ _ _ _ _ D Hd) in R as (_ & _ & w1 & tok & G & Z & _).
    exact (HL _ _ _ _ _ G Z).
  Qed.

  (* giving never touches the lock table *)
  Lemma call_tm_give_its w c token_id dest amount w' tok : call_tm_give w c token_id dest amount = Some (w', tok) -> iw_its w' = iw_its w /\ iw_gw w' = iw_gw w /\ iw_pend w' = iw_pend w.
  Proof. intro G. apply call_tm_give_spec in G as (_ & t & t' & l' & rets & logs & _ & _ & _ & ->). cbn. auto. Qed.

  Lemma call_tm_take_its w c token_id tok amount w' : call_tm_take w c token_id tok amount = Some w' -> iw_its w' = iw_its w /\ iw_gw w' = iw_gw w /\ iw_pend w' = iw_pend w.
  Proof. unfold call_tm_take. intro R. inv_some R. destruct p as [[[t' l'] rets] logs]. inversion R; subst. cbn. auto. Qed.

  (* the callback of a transfer-with-data *)
  Theorem transfer_callback_spec w c chain id src ph token_id tok amount ok w' ev :
    transfer_callback H w c chain id src ph token_id tok amount ok = Some (w', ev) ->
    lock_of (iw_its w') chain id = 0 /\
    (ok = true ->
       (is_approved_with H (iw_gw w) chain id src (ic_self c) ph = true -> mst (iw_gw w') (chain, id) = Some MExecuted) /\
       iw_led w' = iw_led w /\ iw_tms w' = iw_tms w) /\
    (ok = false ->
       iw_gw w' = iw_gw w /\
       call_tm_take (w_its w (set_lock (iw_its w) chain id 0)) c token_id tok amount = Some w').
  Proof.
    unfold transfer_callback. intro R.
    assert (L0 : lock_of (set_lock (iw_its w) chain id 0) chain id = 0).
    { unfold lock_of, set_lock. cbn [i_locks iupd]. rewrite (alookup_aset_same pair_eqb pair_eqb_spec). reflexivity. }
    destruct ok.
    - destruct (gw_validate H (w_its w (set_lock (iw_its w) chain id 0)) c chain id src ph) as [[[w1 b] ev1]|] eqn:V; [|discriminate].
      inversion R; subst. apply gw_validate_spec in V as (Hb & Hi & Ht & Hl & _ & _ & Hex & _). cbn [iw_its iw_gw iw_led iw_tms w_its wset] in *.
      split; [rewrite Hi; exact L0|]. split; [|discriminate]. intros _. split; [|auto].
      intro A. apply Hex. rewrite Hb. exact A.
    - destruct (call_tm_take (w_its w (set_lock (iw_its w) chain id 0)) c token_id tok amount) as [w1|] eqn:T; [|discriminate].
      inversion R; subst. pose proof (call_tm_take_its _ _ _ _ _ _ T) as (Hi & Hg & _). cbn [iw_its iw_gw w_its wset] in *.
      split; [rewrite Hi; exact L0|]. split; [discriminate|]. intros _. auto.
  Qed.

  (* ================= C18: deployment steps ================= *)
  (* inbound deploy message: first call needs a live approval and does not consume it; the second consumes it *)
  Theorem process_deploy_spec w c chain id src ph payload w' ev token_id name symbol dec minter ty :
    dec_impl [PUint; PBytes32; PString; PString; PUint8; PBytes] payload = Some [TUint ty; TBytes32 token_id; TString name; TString symbol; TUint8 dec; TBytes minter] ->
    process_deploy H w c chain id src ph payload = Some (w', ev) ->
    is_approved_with H (iw_gw w) chain id src (ic_self c) ph = true /\
    (tm_addr (iw_its w) token_id = [] ->
        iw_gw w' = iw_gw w /\ ev = [] /\ deploy_tm w c token_id T_NATIVE None minter = Some w') /\
    (tm_addr (iw_its w) token_id <> [] ->
        mst (iw_gw w') (chain, id) = Some MExecuted /\
        exists w1 m, gw_validate H w c chain id src ph = Some (w1, true, ev) /\ opt_addr minter = Some m /\
                     call_tm_deploy_token w1 c token_id m name symbol = Some w').
  Proof.
    intros D R. unfold process_deploy in R. rewrite D in R.
    destruct (bytes_eqb (tm_addr (iw_its w) token_id) []) eqn:E.
    - apply bytes_eqb_eq in E. inv_some R. inversion R; subst. apply negb_false_iff in E1. unfold gw_is_approved in E1.
      split; [exact E1|]. split; [|intro; contradiction]. intros _.
      unfold deploy_tm in E2. inv_some E2. inversion E2; subst. cbn. auto.
    - apply bytes_eqb_neq in E.
      destruct (gw_validate H w c chain id src ph) as [[[w1 b] ev1]|] eqn:V; [|discriminate]. destruct b; [|discriminate].
      destruct (opt_addr minter) as [m|] eqn:O; [|discriminate].
      destruct (call_tm_deploy_token w1 c token_id m name symbol) as [w2|] eqn:G; [|discriminate]. inversion R; subst.
      pose proof (gw_validate_spec _ _ _ _ _ _ _ _ _ V) as (Hb & _ & _ & _ & _ & _ & Hex & _).
      split; [symmetry; exact Hb|]. split; [intro; contradiction|]. intros _. split; [|eauto].
      unfold call_tm_deploy_token in G. inv_some G. destruct p as [[[t' l'] rets] logs]. inversion G; subst. cbn. apply Hex. reflexivity.
  Qed.

  (* a zero-supply deployment without minter, and the service itself as minter, are refused *)
  Theorem deploy_token_zero_supply_no_minter w c salt n sy d : deploy_interchain_token_ep H w c salt n sy d 0 zero32 = None.
  Proof.
    unfold deploy_interchain_token_ep. destruct (_ || _); [reflexivity|]. destruct (i_paused _); [reflexivity|].
    destruct (bytes_eqb zero32 (ic_self c)); [reflexivity|]. rewrite bytes_eqb_refl. reflexivity.
  Qed.
  Theorem deploy_token_service_minter_refused w c salt n sy d sup : deploy_interchain_token_ep H w c salt n sy d sup (ic_self c) = None.
  Proof.
    unfold deploy_interchain_token_ep. destruct (_ || _); [reflexivity|]. destruct (i_paused _); [reflexivity|].
    rewrite bytes_eqb_refl. reflexivity.
  Qed.
End P.
