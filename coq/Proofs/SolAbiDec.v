(* C07: implemented decoder = ABI-layout decoder on all byte strings; round trip. *)
From Coq Require Import String Ascii.
From Coq Require Import List Arith NArith Lia Bool.
From Coq Require Import Init.Byte Strings.Byte.
From Ax Require Import Lib.Bytes Lib.SolAbi Proofs.SolAbiEnc.
Import ListNotations.
Open Scope N_scope.

(* ---------- word-level facts ---------- *)

Lemma slice_len_nat data off len r : slice data off len = Some r -> length r = N.to_nat len.
Proof. intro H. apply slice_length in H. unfold Nlen in H. lia. Qed.

Lemma split_prefix_be_dec (w : bytes) (n : nat) :
  be_dec w = be_dec (firstn n w) * 256 ^ N.of_nat (length (skipn n w)) + be_dec (skipn n w).
Proof. rewrite <- (firstn_skipn n w) at 1. apply be_dec_app. Qed.

Lemma take_prefix_spec (w : bytes) (n m : nat) :
  length w = (n + m)%nat ->
  (if all_zero (firstn n w) then Some (be_dec (skipn n w)) else None)
  = if be_dec w <? 256 ^ N.of_nat m then Some (be_dec w) else None.
Proof.
  intro HL.
  assert (Hs : length (skipn n w) = m) by (rewrite skipn_length; lia).
  pose proof (split_prefix_be_dec w n) as E. rewrite Hs in E.
  pose proof (be_dec_bound (skipn n w)) as HB. rewrite Hs in HB.
  destruct (all_zero (firstn n w)) eqn:Z.
  - apply all_zero_be_dec in Z. rewrite Z in E.
    replace (be_dec w) with (be_dec (skipn n w)) by lia.
    destruct (N.ltb_spec (be_dec (skipn n w)) (256 ^ N.of_nat m)); [reflexivity | lia].
  - destruct (N.ltb_spec (be_dec w) (256 ^ N.of_nat m)) as [L|G]; [exfalso|reflexivity].
    assert (be_dec (firstn n w) = 0) as Z0.
    { destruct (N.eq_dec (be_dec (firstn n w)) 0) as [e|ne]; [exact e|exfalso].
      assert (1 * 256 ^ N.of_nat m <= be_dec (firstn n w) * 256 ^ N.of_nat m)
        by (apply N.mul_le_mono_r; lia). lia. }
    apply be_dec_zero_all in Z0. congruence.
Qed.

Lemma take_usize_spec w : length w = 32%nat ->
  take_usize w = if be_dec w <? 2 ^ 32 then Some (be_dec w) else None.
Proof. intro H. unfold take_usize. rewrite (take_prefix_spec w 28 4) by (rewrite H; reflexivity). reflexivity. Qed.

Lemma take_u8_spec w : length w = 32%nat ->
  take_u8 w = if be_dec w <? 256 then Some (be_dec w) else None.
Proof. intro H. unfold take_u8. rewrite (take_prefix_spec w 31 1) by (rewrite H; reflexivity). reflexivity. Qed.

Lemma peek32_length data off w : peek32 data off = Some w -> length w = 32%nat.
Proof. unfold peek32. intro H. apply slice_len_nat in H. rewrite H. reflexivity. Qed.

(* ---------- dec_impl = dec_spec, all inputs ---------- *)

Lemma dec_dynamic_spec data i : dec_dynamic data (32 * i) = spec_dynamic data i.
Proof.
  unfold dec_dynamic, spec_dynamic, spec_word, peek32.
  destruct (slice data (32 * i) 32) as [w1|] eqn:E1; [|reflexivity].
  rewrite take_usize_spec by (eapply peek32_length; exact E1).
  destruct (be_dec w1 <? 2 ^ 32); [|reflexivity].
  destruct (slice data (be_dec w1) 32) as [w2|] eqn:E2; [|reflexivity].
  rewrite take_usize_spec by (eapply peek32_length; exact E2).
  destruct (be_dec w2 <? 2 ^ 32); reflexivity.
Qed.

Lemma dec_param_spec ty data i : dec_param ty data (32 * i) = spec_field ty data i.
Proof.
  destruct ty; cbn [dec_param spec_field]; unfold spec_word, peek32;
    rewrite ?dec_dynamic_spec; try reflexivity.
  destruct (slice data (32 * i) 32) as [w|] eqn:E; [|reflexivity].
  rewrite take_u8_spec by (eapply peek32_length; exact E).
  destruct (be_dec w <? 256); reflexivity.
Qed.

Lemma dec_from_spec tys data : forall i, dec_from tys data (32 * i) = spec_fields tys data i.
Proof.
  induction tys as [|ty r IH]; intro i; [reflexivity|].
  cbn [dec_from spec_fields]. rewrite dec_param_spec.
  replace (32 * i + 32) with (32 * (i + 1)) by lia. rewrite IH.
  destruct (spec_field ty data i); [|reflexivity].
  destruct (spec_fields r data (i + 1)); reflexivity.
Qed.

Theorem dec_impl_eq_spec tys data : dec_impl tys data = dec_spec tys data.
Proof. unfold dec_impl, dec_spec. replace 0 with (32 * 0) at 1 by reflexivity. apply dec_from_spec. Qed.

(* ---------- every range read by a successful spec decode is inside the buffer ---------- *)

Definition in_buf (data : bytes) (off len : N) : Prop := off + len <= Nlen data.

Lemma spec_dynamic_bounds data i d :
  spec_dynamic data i = Some d ->
  exists o, in_buf data (32 * i) 32 /\ o < 2 ^ 32 /\ in_buf data o 32 /\ Nlen d < 2 ^ 32 /\
            in_buf data (o + 32) (Nlen d) /\
            slice data (32 * i) 32 = Some (word o) /\
            slice data o 32 = Some (word (Nlen d)) /\
            slice data (o + 32) (Nlen d) = Some d.
Proof.
  unfold spec_dynamic, spec_word.
  destruct (slice data (32 * i) 32) as [w1|] eqn:E1; [|discriminate].
  destruct (N.ltb_spec (be_dec w1) (2 ^ 32)) as [L1|]; [|discriminate].
  destruct (slice data (be_dec w1) 32) as [w2|] eqn:E2; [|discriminate].
  destruct (N.ltb_spec (be_dec w2) (2 ^ 32)) as [L2|]; [|discriminate].
  intro E3. exists (be_dec w1).
  pose proof (slice_length _ _ _ _ E3) as HL. rewrite HL.
  assert (W1 : word (be_dec w1) = w1).
  { unfold word. rewrite <- (peek32_length _ _ _ E1). apply be_enc_dec. }
  assert (W2 : word (be_dec w2) = w2).
  { unfold word. rewrite <- (peek32_length _ _ _ E2). apply be_enc_dec. }
  rewrite W1, W2.
  repeat split; try assumption; unfold in_buf; eauto using slice_in_bounds.
Qed.

(* ---------- round trip ---------- *)

Lemma be_dec_word n : n < 2 ^ 256 -> be_dec (word n) = n.
Proof. intro H. unfold word. apply be_dec_enc. exact H. Qed.

Lemma Nlen_word n : Nlen (word n) = 32.
Proof. unfold Nlen. rewrite word_length. reflexivity. Qed.

Lemma slice_at data A B C off len :
  data = A ++ B ++ C -> off = Nlen A -> len = Nlen B -> slice data off len = Some B.
Proof. intros -> -> ->. apply slice_app_mid. Qed.

Definition static_head_ok (t : token) : Prop := wf_token t /\ fits256 t = true.

Lemma spec_field_static t data i A C :
  is_dynamic t = false -> wf_token t -> fits256 t = true ->
  data = A ++ spec_static_head t ++ C -> Nlen A = 32 * i ->
  spec_field (type_of t) data i = Some t.
Proof.
  intros Hd Hwf Hf Hdata HA.
  assert (HL : Nlen (spec_static_head t) = 32).
  { destruct t; cbn in Hd; try discriminate; cbn [spec_static_head]; unfold Nlen; rewrite ?word_length; try reflexivity.
    cbn in Hwf. rewrite Hwf. reflexivity. }
  assert (HS : spec_word data i = Some (spec_static_head t)).
  { unfold spec_word. eapply slice_at; [exact Hdata | lia | lia]. }
  destruct t as [n|b|b|b|n]; cbn in Hd; try discriminate; cbn [type_of spec_field]; rewrite HS;
    cbn [spec_static_head option_map].
  - cbn in Hf. apply N.ltb_lt in Hf. rewrite be_dec_word by exact Hf. reflexivity.
  - reflexivity.
  - cbn in Hwf. rewrite be_dec_word by lia. destruct (N.ltb_spec n 256); [reflexivity | lia].
Qed.

Lemma spec_dynamic_at d data i A B C o :
  Nlen d < 2 ^ 32 -> o < 2 ^ 32 ->
  data = A ++ word o ++ B ++ (word (Nlen d) ++ pad_right32 d) ++ C ->
  Nlen A = 32 * i -> Nlen (A ++ word o ++ B) = o ->
  spec_dynamic data i = Some d.
Proof.
  intros Hd Ho Hdata HA HO.
  unfold spec_dynamic, spec_word.
  rewrite (slice_at data A (word o) (B ++ (word (Nlen d) ++ pad_right32 d) ++ C));
    [| exact Hdata | lia | rewrite Nlen_word; reflexivity].
  rewrite be_dec_word by lia.
  destruct (N.ltb_spec o (2 ^ 32)); [|lia].
  rewrite (slice_at data (A ++ word o ++ B) (word (Nlen d)) (pad_right32 d ++ C));
    [| rewrite Hdata; repeat rewrite <- app_assoc; reflexivity | lia
     | rewrite Nlen_word; reflexivity].
  rewrite be_dec_word by lia.
  destruct (N.ltb_spec (Nlen d) (2 ^ 32)); [|lia].
  unfold pad_right32 in *.
  apply (slice_at data ((A ++ word o ++ B) ++ word (Nlen d)) d (zeros ((32 - length d mod 32) mod 32) ++ C)).
  - rewrite Hdata. repeat rewrite <- app_assoc. reflexivity.
  - rewrite Nlen_app, HO, Nlen_word. reflexivity.
  - reflexivity.
Qed.

Lemma roundtrip_gen k : forall rest A T C i e data,
  Forall wf_token rest -> forallb fits256 rest = true ->
  Nlen A = 32 * i -> k = i + Nlen rest -> Nlen T = e ->
  32 * k + e + Nlen (concat (map spec_tail rest)) < 2 ^ 32 ->
  data = A ++ spec_heads k e rest ++ T ++ concat (map spec_tail rest) ++ C ->
  spec_fields (map type_of rest) data i = Some rest.
Proof.
  induction rest as [|t r IH]; intros A T C i e data Hwf Hfit HA Hk HT Hsz Hdata; [reflexivity|].
  apply Forall_cons_iff in Hwf as [Ht Hr].
  cbn [forallb] in Hfit. apply andb_true_iff in Hfit as [Hft Hfr].
  cbn [map spec_fields spec_heads concat] in *.
  rewrite Nlen_cons in Hk. rewrite Nlen_app in Hsz.
  set (h := if is_dynamic t then word (32 * k + e) else spec_static_head t) in *.
  assert (Hh : Nlen h = 32).
  { subst h. destruct t; cbn [is_dynamic spec_static_head]; unfold Nlen; rewrite ?word_length; try reflexivity.
    cbn in Ht. rewrite Ht. reflexivity. }
  (* the tail of this component and the rest *)
  rewrite (IH (A ++ h) (T ++ spec_tail t) C (i + 1) (e + Nlen (spec_tail t)) data);
    try assumption; try (rewrite Nlen_app; lia); try lia.
  2:{ rewrite Hdata. repeat rewrite <- app_assoc. reflexivity. }
  assert (Hf : spec_field (type_of t) data i = Some t); [|rewrite Hf; reflexivity].
  destruct (is_dynamic t) eqn:Hd.
  - subst h.
    assert (Hspec_heads_len : Nlen (spec_heads k (e + Nlen (spec_tail t)) r) = 32 * Nlen r)
      by (apply spec_heads_length; exact Hr).
    remember (spec_heads k (e + Nlen (spec_tail t)) r) as HR eqn:EHR. clear EHR.
    destruct t as [n|b|b|b|n]; cbn in Hd; try discriminate; cbn [type_of spec_field spec_tail] in *.
    + rewrite (spec_dynamic_at b data i A (HR ++ T) (concat (map spec_tail r) ++ C) (32 * k + e));
        [reflexivity | exact Ht | lia | | exact HA | ].
      * rewrite Hdata. repeat rewrite <- app_assoc. reflexivity.
      * rewrite !Nlen_app, Hspec_heads_len, Nlen_word. lia.
    + rewrite (spec_dynamic_at b data i A (HR ++ T) (concat (map spec_tail r) ++ C) (32 * k + e));
        [reflexivity | exact Ht | lia | | exact HA | ].
      * rewrite Hdata. repeat rewrite <- app_assoc. reflexivity.
      * rewrite !Nlen_app, Hspec_heads_len, Nlen_word. lia.
  - subst h. eapply spec_field_static; eauto.
    rewrite Hdata. repeat rewrite <- app_assoc. reflexivity.
Qed.

Theorem dec_spec_enc_spec toks out :
  Forall wf_token toks -> spec_size toks < 2 ^ 32 ->
  enc_spec toks = Some out ->
  dec_spec (map type_of toks) out = Some toks.
Proof.
  intros Hwf Hsz. unfold enc_spec, spec_size in *.
  destruct (forallb fits256 toks) eqn:Hf; [|discriminate].
  intro E; inversion E; subst out; clear E. unfold dec_spec.
  apply (roundtrip_gen (Nlen toks) toks [] [] [] 0 0); try assumption; try reflexivity; try lia.
  cbn [app]. rewrite app_nil_r. reflexivity.
Qed.

(* trailing bytes after a canonical encoding do not change the decoded value *)
Theorem dec_spec_enc_spec_extended toks out extra :
  Forall wf_token toks -> spec_size toks < 2 ^ 32 ->
  enc_spec toks = Some out ->
  dec_spec (map type_of toks) (out ++ extra) = Some toks.
Proof.
  intros Hwf Hsz. unfold enc_spec, spec_size in *.
  destruct (forallb fits256 toks) eqn:Hf; [|discriminate].
  intro E; inversion E; subst out; clear E. unfold dec_spec.
  apply (roundtrip_gen (Nlen toks) toks [] [] extra 0 0); try assumption; try reflexivity; try lia.
  cbn [app]. repeat rewrite <- app_assoc. reflexivity.
Qed.

Theorem dec_impl_enc_impl toks out :
  Forall wf_token toks -> spec_size toks < 2 ^ 32 ->
  enc_impl toks = Some out ->
  dec_impl (map type_of toks) out = Some toks.
Proof.
  intros Hwf Hsz E. rewrite enc_impl_eq_spec in E by assumption.
  rewrite dec_impl_eq_spec. apply dec_spec_enc_spec; assumption.
Qed.

(* ---------- what a successful decode says about the bytes ---------- *)

Lemma spec_field_sound ty data i t :
  spec_field ty data i = Some t ->
  type_of t = ty /\ wf_token t /\ fits256 t = true /\
  exists w, slice data (32 * i) 32 = Some w /\
    match t with
    | TUint n => w = word n
    | TBytes32 b => w = b
    | TUint8 n => w = word n
    | TBytes d | TString d =>
        exists o, w = word o /\ o < 2 ^ 32 /\ slice data o 32 = Some (word (Nlen d)) /\
                  slice data (o + 32) (Nlen d) = Some d
    end.
Proof.
  destruct ty; cbn [spec_field]; unfold spec_word.
  - destruct (slice data (32 * i) 32) as [w|] eqn:E; [|discriminate]. intro H; inversion H; subst.
    pose proof (be_dec_bound w) as HB. rewrite (peek32_length _ _ _ E) in HB.
    repeat split. { cbn. apply N.ltb_lt. exact HB. }
    exists w. split; [reflexivity|]. unfold word. rewrite <- (peek32_length _ _ _ E). symmetry. apply be_enc_dec.
  - destruct (slice data (32 * i) 32) as [w|] eqn:E; [|discriminate]. intro H; inversion H; subst.
    repeat split. { cbn. eapply peek32_length. exact E. } exists w. split; reflexivity.
  - destruct (spec_dynamic data i) as [d|] eqn:E; [|discriminate]. intro H; inversion H; subst.
    apply spec_dynamic_bounds in E as (o & _ & Ho & _ & Hd & _ & S1 & S2 & S3).
    repeat split. { exact Hd. } exists (word o). split; [exact S1|]. exists o. repeat split; assumption.
  - destruct (spec_dynamic data i) as [d|] eqn:E; [|discriminate]. intro H; inversion H; subst.
    apply spec_dynamic_bounds in E as (o & _ & Ho & _ & Hd & _ & S1 & S2 & S3).
    repeat split. { exact Hd. } exists (word o). split; [exact S1|]. exists o. repeat split; assumption.
  - destruct (slice data (32 * i) 32) as [w|] eqn:E; [|discriminate].
    destruct (N.ltb_spec (be_dec w) 256) as [L|]; [|discriminate]. intro H; inversion H; subst.
    repeat split. { exact L. }
    exists w. split; [reflexivity|]. unfold word. rewrite <- (peek32_length _ _ _ E). symmetry. apply be_enc_dec.
Qed.

(* rejections named by the property *)
Lemma spec_field_rejects_u8 data i w :
  slice data (32 * i) 32 = Some w -> 256 <= be_dec w -> spec_field PUint8 data i = None.
Proof.
  intros E H. cbn [spec_field]. unfold spec_word. rewrite E.
  destruct (N.ltb_spec (be_dec w) 256); [lia | reflexivity].
Qed.

Lemma spec_dynamic_rejects_offset data i w :
  slice data (32 * i) 32 = Some w -> 2 ^ 32 <= be_dec w -> spec_dynamic data i = None.
Proof.
  intros E H. unfold spec_dynamic, spec_word. rewrite E.
  destruct (N.ltb_spec (be_dec w) (2 ^ 32)); [lia | reflexivity].
Qed.

Lemma spec_dynamic_rejects_length data i w lw :
  slice data (32 * i) 32 = Some w -> slice data (be_dec w) 32 = Some lw ->
  2 ^ 32 <= be_dec lw -> spec_dynamic data i = None.
Proof.
  intros E E2 H. unfold spec_dynamic, spec_word. rewrite E.
  destruct (be_dec w <? 2 ^ 32); [|reflexivity]. rewrite E2.
  destruct (N.ltb_spec (be_dec lw) (2 ^ 32)); [lia | reflexivity].
Qed.

Lemma spec_fields_truncated tys data : forall i,
  tys <> [] -> Nlen data < 32 * (i + Nlen tys) -> spec_fields tys data i = None.
Proof.
  induction tys as [|ty r IH]; intros i Hne Hlen; [congruence|].
  cbn [spec_fields]. rewrite Nlen_cons in Hlen.
  destruct r as [|ty2 r'].
  - assert (spec_word data i = None) as HW.
    { unfold spec_word, slice. change (Nlen (@nil ptype)) with 0 in Hlen.
      destruct (N.leb_spec (32 * i + 32) (Nlen data)); [lia | reflexivity]. }
    destruct ty; cbn [spec_field]; unfold spec_dynamic; rewrite HW; reflexivity.
  - rewrite (IH (i + 1)); [| discriminate | lia].
    destruct (spec_field ty data i); reflexivity.
Qed.
