(* ITS: token-id derivations (C14), outbound transfer effect (C05), asynchronous callbacks (C08, C17),
   local deployment steps (C18); concrete histories for the recorded findings. *)
From Coq Require Import String Ascii.
From Coq Require Import List Arith NArith Lia Bool.
From Coq Require Import Init.Byte Strings.Byte.
From Ax Require Import Lib.Bytes Lib.Mvx Lib.SolAbi Lib.Keccak Model.Check Model.Env Model.Gateway Model.TokenManager Model.Its
     Proofs.SolAbiEnc Proofs.SolAbiDec Proofs.AListFacts Proofs.GatewayMsgs Proofs.TMFacts Proofs.ItsFacts Proofs.ItsWorld.
Import ListNotations.
Open Scope N_scope.

(* ================= C14: derivations ================= *)
Section Ids.
  Variable H : bytes -> bytes.
  Hypothesis H_len : forall x, length (H x) = 32%nat.

  (* abi.encode(bytes32, bytes32, bytes32[, bytes32]) is plain concatenation *)
  Lemma enc3 a b c : length a = 32%nat -> length b = 32%nat -> length c = 32%nat ->
    enc_spec [TBytes32 a; TBytes32 b; TBytes32 c] = Some (a ++ b ++ c).
  Proof. intros. unfold enc_spec. cbn. rewrite !app_nil_r. reflexivity. Qed.
  Lemma enc4 a b c d : enc_spec [TBytes32 a; TBytes32 b; TBytes32 c; TBytes32 d] = Some (a ++ b ++ c ++ d).
  Proof. unfold enc_spec. cbn. rewrite !app_nil_r. reflexivity. Qed.

  (* the published derivations *)
  Theorem token_id_derivation s deployer salt :
    interchain_token_id H s deployer salt =
      H (H PREFIX_TOKEN_ID ++ zero32 ++ H (H PREFIX_INTERCHAIN ++ i_chain_hash s ++ deployer ++ salt)).
  Proof. reflexivity. Qed.
  Theorem canonical_id_derivation s token :
    canonical_token_id H s token = H (H PREFIX_TOKEN_ID ++ zero32 ++ H (H PREFIX_CANONICAL ++ i_chain_hash s ++ token)).
  Proof. reflexivity. Qed.
  Theorem linked_id_derivation s deployer salt :
    linked_token_id H s deployer salt = H (H PREFIX_TOKEN_ID ++ zero32 ++ H (H PREFIX_CUSTOM ++ i_chain_hash s ++ deployer ++ salt)).
  Proof. reflexivity. Qed.

  (* preimages of the deploy salts are injective in (kind hash, chain hash, deployer, salt) *)
  Theorem salt_preimage_inj (p ch d s p' ch' d' s' : bytes) :
    length p = 32%nat -> length p' = 32%nat -> length ch = 32%nat -> length ch' = 32%nat -> length d = 32%nat -> length d' = 32%nat ->
    p ++ ch ++ d ++ s = p' ++ ch' ++ d' ++ s' -> p = p' /\ ch = ch' /\ d = d' /\ s = s'.
  Proof.
    intros L1 L2 L3 L4 L5 L6 E.
    apply app_eq_len in E as [-> E]; [|congruence]. apply app_eq_len in E as [-> E]; [|congruence].
    apply app_eq_len in E as [-> ->]; [auto|congruence].
  Qed.
  (* the kind prefix is always the first 32 bytes: different kinds never share a preimage *)
  Theorem kind_prefix_first (p r p' r' : bytes) : length p = 32%nat -> length p' = 32%nat -> p ++ r = p' ++ r' -> p = p'.
  Proof. intros L1 L2 E. apply app_eq_len in E as [-> _]; [reflexivity|congruence]. Qed.

  (* every local registration derives the id from the CALLER (never from another deployer's address) *)
  Theorem deploy_token_uses_caller w c salt n sy d sup m w' rets ev :
    deploy_interchain_token_ep H w c salt n sy d sup m = Some (w', rets, ev) ->
    rets = [interchain_token_id H (iw_its w) (ic_caller c) salt].
  Proof. unfold deploy_interchain_token_ep. intro R. inv_some R; inversion R; subst; reflexivity. Qed.
  Theorem register_custom_uses_caller w c salt tok ty op w' rets ev :
    register_custom_token H w c salt tok ty op = Some (w', rets, ev) -> rets = [linked_token_id H (iw_its w) (ic_caller c) salt] /\ ty <> T_NATIVE.
  Proof.
    unfold register_custom_token, register_custom_raw. intro R. inv_some R. inversion R; subst.
    split; [reflexivity|]. match goal with A : (ty =? T_NATIVE) = false |- _ => apply N.eqb_neq in A; exact A end.
  Qed.
End Ids.

(* the five prefix hashes are pairwise distinct for keccak-256 (by computation) *)
Example prefix_hashes_distinct :
  let hs := map keccak256 [PREFIX_TOKEN_ID; PREFIX_CANONICAL; PREFIX_INTERCHAIN; PREFIX_APPROVAL; PREFIX_CUSTOM] in
  forallb (fun i => forallb (fun j => Nat.eqb i j || negb (bytes_eqb (nth i hs []) (nth j hs []))) (seq 0 5)) (seq 0 5) = true.
Proof. vm_compute. reflexivity. Qed.

Section P.
  Variable H : bytes -> bytes.

  (* ================= C05: outbound transfers ================= *)
  Theorem split_payment_spec v gas tok amount gtok g :
    split_payment v gas = Some (tok, amount, gtok, g) ->
    g = gas /\
    ((cv_esdt v = [] /\ gas < cv_egld v /\ tok = EGLD /\ gtok = EGLD /\ amount = cv_egld v - gas) \/
     (exists p, cv_esdt v = [p] /\ ep_nonce p = 0 /\ gas < ep_amount p /\ tok = ep_token p /\ gtok = ep_token p /\ amount = ep_amount p - gas) \/
     (exists p q, cv_esdt v = [p; q] /\ ep_nonce p = 0 /\ ep_nonce q = 0 /\ ep_amount q = gas /\ tok = ep_token p /\ amount = ep_amount p /\
                  gtok = if bytes_eqb (ep_token q) EGLD_ESDT then EGLD else ep_token q)).
  Proof.
    unfold split_payment. intro R. destruct (cv_esdt v) as [|p [|q [|x r]]] eqn:E; try discriminate.
    - destruct (N.ltb_spec gas (cv_egld v)); [|discriminate]. inversion R; subst. auto 10.
    - destruct (N.eqb_spec (ep_nonce p) 0); [|discriminate]. cbn [negb] in R.
      destruct (N.ltb_spec gas (ep_amount p)); [|discriminate]. inversion R; subst. split; [reflexivity|]. right. left. exists p. auto 10.
    - destruct (N.eqb_spec (ep_nonce p) 0); [|discriminate]. destruct (N.eqb_spec (ep_nonce q) 0); [|discriminate]. cbn [negb orb] in R.
      destruct (N.eqb_spec (ep_amount q) gas); [|discriminate]. cbn [negb] in R. inversion R; subst. split; [reflexivity|]. right. right. exists p, q. auto 10.
  Qed.

  (* a successful interchainTransfer: the split of the payments, exactly the transfer amount taken by the
     manager of that token id, and ONE gateway message whose payload is the ABI encoding of
     (0, token id, sender, destination address, amount, data), routed by route_out, with the gas value
     (if any) paid to the gas service for the same destination and payload with the sender as refund address *)
  Theorem interchain_transfer_spec w c token_id dchain daddr metadata gas w' ev :
    interchain_transfer H w c token_id dchain daddr metadata gas = Some (w', ev) ->
    i_paused (iw_its w) = false /\ daddr <> [] /\
    exists tok amount gtok w1 data payload dc da p',
      split_payment (ic_value c) gas = Some (tok, amount, gtok, gas) /\ amount <> 0 /\
      call_tm_take w c token_id tok amount = Some w1 /\
      decode_metadata metadata = Some data /\
      enc_impl [TUint MT_TRANSFER; TBytes32 token_id; TBytes (ic_caller c); TBytes daddr; TUint amount; TBytes data] = Some payload /\
      route_out (iw_its w1) dchain payload = Some (dc, da, p') /\
      call_contract H w1 c dc da p' gtok gas = Some (w', ev).
  Proof.
    unfold interchain_transfer. intro R. destruct (negb (Nat.eqb _ 32)); [discriminate|].
    destruct (i_paused (iw_its w)) eqn:P; [discriminate|]. split; [reflexivity|].
    destruct (split_payment (ic_value c) gas) as [[[[tok amount] gtok] g]|] eqn:S; [|discriminate].
    pose proof (split_payment_spec _ _ _ _ _ _ S) as [-> _].
    destruct (call_tm_take w c token_id tok amount) as [w1|] eqn:T; [|discriminate].
    destruct (decode_metadata metadata) as [data|] eqn:D; [|discriminate].
    unfold transmit in R. destruct (bytes_eqb daddr []) eqn:Ea; [discriminate|]. apply bytes_eqb_neq in Ea. split; [exact Ea|].
    destruct (N.eqb_spec amount 0) as [|NZ]; [discriminate|].
    destruct (enc_impl _) as [payload|] eqn:En; [|discriminate].
    apply route_message_spec in R as (dc & da & p' & Ro & Cc). exists tok, amount, gtok, w1, data, payload, dc, da, p'. auto 10.
  Qed.

  (* takeToken through the service: payment moved from the service to the manager, then the manager's takeToken *)
  Theorem call_tm_take_spec w c token_id tok amount w' : call_tm_take w c token_id tok amount = Some w' ->
    let tma := tm_addr (iw_its w) token_id in
    tma <> [] /\ exists t l1 t' l' rets logs v, get_tm w tma = Some t /\
      pay_in (iw_led w) (ic_self c) tma v = Some l1 /\
      egld_or_single_fungible v = Some (tok, amount) /\
      take_token t l1 (tm_ctx c tma v) = Some (t', l', rets, logs) /\ w' = w_led_ (w_tm w tma t') l'.
  Proof.
    unfold call_tm_take. cbv zeta. intro R.
    destruct (bytes_eqb (tm_addr (iw_its w) token_id) []) eqn:E; [discriminate|]. apply bytes_eqb_neq in E. split; [exact E|].
    destruct (get_tm w (tm_addr (iw_its w) token_id)) as [t|] eqn:G; [|discriminate].
    set (v := if bytes_eqb tok EGLD then {| cv_egld := amount; cv_esdt := [] |}
              else {| cv_egld := 0; cv_esdt := [{| ep_token := tok; ep_nonce := 0; ep_amount := amount |}] |}) in *.
    destruct (pay_in (iw_led w) (ic_self c) (tm_addr (iw_its w) token_id) v) as [l1|] eqn:P; [|discriminate].
    destruct (take_token t l1 (tm_ctx c (tm_addr (iw_its w) token_id) v)) as [[[[t' l'] rets] logs]|] eqn:T; [|discriminate].
    inversion R; subst. exists t, l1, t', l', rets, logs, v. repeat (split; [reflexivity || assumption|]). split; [|split; [exact T | reflexivity]].
    subst v. destruct (bytes_eqb tok EGLD) eqn:Et; cbn; [apply bytes_eqb_eq in Et; subst; reflexivity | reflexivity].
  Qed.

  (* ================= C17: the asynchronous lookups ================= *)
  (* whenever the metadata callback completes, the attached EGLD is either returned to the caller
     (lookup error / non-fungible) or paid in full to the gas service together with one gateway message to the hub *)
  Theorem metadata_callback_spec w c tok gas caller res w' ev :
    metadata_callback H w c tok gas caller res = Some (w', ev) ->
    iw_its w' = iw_its w /\
    ((ev = [] /\ (gas = 0 -> iw_led w' = iw_led w) /\ (gas <> 0 -> transfer (iw_led w) (ic_self c) caller EGLD gas = Some (iw_led w'))) \/
     (exists name dbuf dec payload, res = Some (name, FUNGIBLE, dbuf) /\ props_decimals dbuf = Some dec /\
        enc_impl [TUint MT_REGISTER_METADATA; TBytes tok; TUint8 dec] = Some payload /\ trusted (iw_its w) HUB_CHAIN <> [] /\
        (gas <> 0 -> transfer (iw_led w) (ic_self c) (i_gas (iw_its w)) EGLD gas = Some (iw_led w')) /\
        In (lg (i_gateway (iw_its w)) [str "contract_call_event"; ic_self c; HUB_CHAIN; trusted (iw_its w) HUB_CHAIN; H payload] payload) ev)).
  Proof.
    unfold metadata_callback. intro R.
    assert (RF : forall w' ev, (if gas =? 0 then Some (w, @nil log)
                 else match transfer (iw_led w) (ic_self c) caller EGLD gas with Some l' => Some (w_led_ w l', @nil log) | None => None end) = Some (w', ev) ->
                 iw_its w' = iw_its w /\ ev = [] /\ (gas = 0 -> iw_led w' = iw_led w) /\ (gas <> 0 -> transfer (iw_led w) (ic_self c) caller EGLD gas = Some (iw_led w'))).
    { intros w2 ev2 X. destruct (N.eqb_spec gas 0) as [Z|NZ].
      - inversion X; subst. repeat split; auto. intro; contradiction.
      - destruct (transfer _ _ _ _ _) as [l'|] eqn:T; [|discriminate]. inversion X; subst. cbn. repeat split; auto. intro; contradiction. }
    destruct res as [[[name ty] dbuf]|].
    - destruct (bytes_eqb ty FUNGIBLE) eqn:F; cbn [negb] in R.
      + apply bytes_eqb_eq in F. subst ty. destruct (props_decimals dbuf) as [dec|] eqn:PD; [|discriminate].
        destruct (enc_impl _) as [payload|] eqn:En; [|discriminate].
        apply call_contract_spec in R as (Hd & Hi & _ & _ & _ & _ & Hz & Hnz). cbn [ic_self ic_caller] in *.
        split; [exact Hi|]. right. exists name, dbuf, dec, payload. repeat (split; [reflexivity || assumption|]).
        split.
        * intro NZ. destruct (Hnz NZ) as (T & _). exact T.
        * destruct (N.eq_dec gas 0) as [Z|NZ].
          -- destruct (Hz Z) as (_ & ->). left. reflexivity.
          -- destruct (Hnz NZ) as (_ & gl & -> & _). right. left. reflexivity.
      + apply RF in R as (A & B & C & D). split; [exact A|]. left. auto.
    - apply RF in R as (A & B & C & D). split; [exact A|]. left. auto.
  Qed.

  (* the remote-deployment callback: refund, or the (pause-gated, routed) deployment message *)
  Theorem remote_callback_spec w c ds dc sym m gas caller res w' ev :
    remote_callback H w c ds dc sym m gas caller res = Some (w', ev) ->
    (ev = [] /\ iw_its w' = iw_its w /\ (gas = 0 -> iw_led w' = iw_led w) /\ (gas <> 0 -> transfer (iw_led w) (ic_self c) caller EGLD gas = Some (iw_led w'))) \/
    (exists name dbuf dec, res = Some (name, FUNGIBLE, dbuf) /\ props_decimals dbuf = Some dec /\
       deploy_token_raw H w c ds dc name sym dec m gas = Some (w', ev)).
  Proof.
    unfold remote_callback. intro R.
    assert (RF : forall w' ev, (if gas =? 0 then Some (w, @nil log)
                 else match transfer (iw_led w) (ic_self c) caller EGLD gas with Some l' => Some (w_led_ w l', @nil log) | None => None end) = Some (w', ev) ->
                 ev = [] /\ iw_its w' = iw_its w /\ (gas = 0 -> iw_led w' = iw_led w) /\ (gas <> 0 -> transfer (iw_led w) (ic_self c) caller EGLD gas = Some (iw_led w'))).
    { intros w2 ev2 X. destruct (N.eqb_spec gas 0) as [Z|NZ].
      - inversion X; subst. repeat split; auto. intro; contradiction.
      - destruct (transfer _ _ _ _ _) as [l'|] eqn:T; [|discriminate]. inversion X; subst. cbn. repeat split; auto. intro; contradiction. }
    destruct res as [[[name ty] dbuf]|].
    - destruct (bytes_eqb ty FUNGIBLE) eqn:F; cbn [negb] in R.
      + apply bytes_eqb_eq in F. subst ty. destruct (props_decimals dbuf) as [dec|] eqn:PD; [|discriminate]. right. exists name, dbuf, dec. split; [reflexivity|]. split; [exact PD | exact R].
      + left. apply RF. exact R.
    - left. apply RF. exact R.
  Qed.

  (* ================= C18: the third local step is not repeatable ================= *)
  Lemma minter_bit_lor x r : N.testbit r 0 = false -> N.testbit (N.lor x r) 0 = N.testbit x 0.
  Proof. intro E. rewrite N.lor_spec, E. apply orb_false_r. Qed.
  Lemma minter_bit_ldiff x r : N.testbit r 0 = false -> N.testbit (N.ldiff x r) 0 = N.testbit x 0.
  Proof. intro E. rewrite N.ldiff_spec, E. apply andb_true_r. Qed.

  Definition has_minter (t : tm) (a : bytes) : bool := N.testbit (roles_of t a) 0.

  Lemma intersects_minter r : intersects r MINTER = N.testbit r 0.
  Proof.
    unfold intersects, MINTER. destruct (N.testbit r 0) eqn:T.
    - assert (N.land r 1 <> 0). { intro Z. assert (N.testbit (N.land r 1) 0 = false) by (rewrite Z; reflexivity). rewrite N.land_spec, T in H0. discriminate. }
      destruct (N.eqb_spec (N.land r 1) 0); [contradiction | reflexivity].
    - assert (N.land r 1 = 0).
      { apply N.bits_inj. intro n. rewrite N.land_spec, N.bits_0. destruct (N.eq_dec n 0) as [->|Hn]; [rewrite T; reflexivity|].
        replace (N.testbit 1 n) with false; [apply andb_false_r|]. symmetry. destruct n as [|p]; [contradiction|]. reflexivity. }
      rewrite H0. reflexivity.
  Qed.

  (* transferring mintership away: the old holder no longer has the minter bit *)
  Theorem transfer_mintership_removes t l x a t' l' rets logs :
    transfer_mintership t l x a = Some (t', l', rets, logs) -> a <> t_caller x -> has_minter t' (t_caller x) = false.
  Proof.
    unfold transfer_mintership, nonpay, wrap. intro R.
    destruct (has_no_value (t_value x)); [|discriminate]. destruct (addr_ok a && only_role t x MINTER); [|discriminate].
    destruct (transfer_role (t_self x) t (t_caller x) a MINTER) as [[t1 e1]|] eqn:TR; [|discriminate]. inversion R; subst. intro Hne.
    apply transfer_role_spec in TR as (_ & TR & _).
    unfold has_minter. specialize (TR (not_eq_sym Hne)).
    assert (B : N.testbit (N.land (roles_of t' (t_caller x)) MINTER) 0 = false) by (rewrite TR; reflexivity).
    rewrite N.land_spec in B. unfold MINTER in B. cbn in B. rewrite andb_true_r in B. exact B.
  Qed.

  (* the other hand-over calls never give the minter bit to anybody *)
  Lemma add_role_minter_frame self t a r b : N.testbit r 0 = false -> has_minter (fst (add_role self t a r)) b = has_minter t b.
  Proof.
    intro E. unfold add_role, has_minter. cbn [fst]. rewrite roles_of_with_roles.
    destruct (bytes_eqb b a) eqn:Eb; [|reflexivity]. apply bytes_eqb_eq in Eb. subst. apply minter_bit_lor. exact E.
  Qed.
  Lemma remove_role_minter_frame self t a r b : N.testbit r 0 = false -> has_minter (fst (remove_role self t a r)) b = has_minter t b.
  Proof.
    intro E. unfold remove_role, has_minter. cbn [fst]. rewrite roles_of_with_roles.
    destruct (bytes_eqb b a) eqn:Eb; [|reflexivity]. apply bytes_eqb_eq in Eb. subst. apply minter_bit_ldiff. exact E.
  Qed.
  Lemma transfer_role_minter_frame self t f a r t' e b : N.testbit r 0 = false -> transfer_role self t f a r = Some (t', e) -> has_minter t' b = has_minter t b.
  Proof.
    intros E R. unfold transfer_role in R. destruct (contains _ _); [|discriminate].
    unfold remove_role, add_role in R. inversion R; subst. clear R. unfold has_minter.
    rewrite roles_of_with_roles. destruct (bytes_eqb b a) eqn:Eb.
    - apply bytes_eqb_eq in Eb. subst b. rewrite minter_bit_lor by exact E. rewrite roles_of_with_roles.
      destruct (bytes_eqb a f) eqn:Ef; [apply bytes_eqb_eq in Ef; subst; apply minter_bit_ldiff; exact E | reflexivity].
    - rewrite roles_of_with_roles. destruct (bytes_eqb b f) eqn:Ef; [apply bytes_eqb_eq in Ef; subst; apply minter_bit_ldiff; exact E | reflexivity].
  Qed.

  (* without the minter bit the service cannot mint *)
  Theorem mint_needs_minter t l x a v : has_minter t (t_caller x) = false -> tm_mint t l x a v = None.
  Proof.
    intro E. destruct (tm_mint t l x a v) eqn:M; [|reflexivity]. apply mint_requires in M as (_ & M & _).
    rewrite intersects_minter in M. unfold has_minter in E. congruence.
  Qed.
End P.

(* ================= recorded findings: concrete histories on the model ================= *)
Module Findings.
  Definition vf (_ _ _ : bytes) : bool := true.
  Definition A (n : N) := be_enc 32 n.
  Definition self := A 20. Definition gwa := A 16. Definition gasa := A 18. Definition user := A 4. Definition dest := A 7. Definition tma := A 64.
  Definition tok := str "TOK-123456".
  Definition tid := be_enc 32 777.
  Definition its0 (trusted_ : list (bytes * bytes)) (paused : bool) : its :=
    {| i_gateway := gwa; i_gas := gasa; i_tm_impl := A 19; i_chain := str "multiversx"; i_chain_hash := keccak256 (str "multiversx");
       i_paused := paused; i_trusted := trusted_; i_tms := [(tid, tma)]; i_locks := []; i_approvals := []; i_roles := []; i_proposed := [] |}.
  Definition tm0 (limit : N) : tm :=
    {| tm_service := self; tm_type := T_LOCK_UNLOCK; tm_tid := tid; tm_token := tok; tm_roles := []; tm_proposed := [];
       tm_limit := limit; tm_in := []; tm_out := []; tm_pending := 0 |}.
  Definition gw0 (ms : list message) : gw := fst (approve_all keccak256
    {| g_epoch := 1; g_last_rot := 0; g_hash_by_epoch := []; g_epoch_by_hash := []; g_retention := 0; g_domain := zeros 32;
       g_min_delay := 0; g_operator := []; g_messages := [] |} ms).
  Definition cx (caller : bytes) (v : callvalue) : ictx := {| ic_self := self; ic_caller := caller; ic_owner := A 1; ic_now := 21600 * 5; ic_value := v; ic_newtm := [] |}.
  Definition payload : bytes :=
    match enc_impl [TUint 0; TBytes32 tid; TBytes (str "0xsender"); TBytes dest; TUint 10; TBytes (str "data")] with Some p => p | None => [] end.
  Definition m1 : message := {| m_chain := str "ethereum"; m_id := str "id-1"; m_src := str "0xITS"; m_contract := self; m_ph := keccak256 payload |}.
  Definition esdt (a : N) : callvalue := {| cv_egld := 0; cv_esdt := [{| ep_token := tok; ep_nonce := 0; ep_amount := a |}] |}.

  (* F-C08-1: flow limit 10; inbound transfer-with-data of 10 (flow in 10); two outbound transfers of 10 in the
     window (flow out 20); the destination call fails; the failure callback cannot return the tokens:
     they stay in the service and the lock stays set *)
  Definition w08 : iworld :=
    {| iw_gw := gw0 [m1]; iw_its := its0 [(str "ethereum", str "0xITS")] false; iw_tms := [(tma, tm0 10)];
       iw_led := [((tma, tok), 100); ((user, tok), 100)]; iw_pend := []; iw_next := 0 |}.
  Definition h08 : list iop :=
    [ IExecute (cx user no_value) (str "ethereum") (str "id-1") (str "0xITS") payload;
      ITransfer (cx user (esdt 10)) tid (str "ethereum") (str "0xdead") [] 0;
      ITransfer (cx user (esdt 10)) tid (str "ethereum") (str "0xdead") [] 0;
      IDeliver self 0 false ].
  Example c08_flow_limit_strands :
    let w := irun keccak256 vf w08 h08 in
    let r := istep keccak256 vf w (ICallback (cx user no_value) 0) in
    io_ok (snd r) = false /\ bal (iw_led (fst r)) self tok = 10 /\ lock_of (iw_its (fst r)) (str "ethereum") (str "id-1") = 1
    /\ forallb (fun k => io_ok (snd (istep keccak256 vf (irun keccak256 vf w08 (firstn k h08)) (nth k h08 (IDeliver [] 0 false))))) [0; 1; 2; 3]%nat = true.
  Proof. vm_compute. repeat split; reflexivity. Qed.

  (* F-C17-1: registerTokenMetadata with 777 EGLD; the hub's trusted address is not set when the lookup returns *)
  Definition w17 (paused : bool) (trusted_ : list (bytes * bytes)) : iworld :=
    {| iw_gw := gw0 []; iw_its := its0 trusted_ paused; iw_tms := [(tma, tm0 0)];
       iw_led := [((self, EGLD), 777)]; iw_pend := [{| ip_id := 0; ip_kind := PMetadata tok 777 user; ip_stage := IAwaitCall |}]; iw_next := 1 |}.
  Definition good_props : option (bytes * bytes * bytes) := Some (str "TokName", FUNGIBLE, str "NumDecimals-18").
  Example c17_hub_unset_strands :
    let r := istep keccak256 vf (w17 false [(str "ethereum", str "0xITS")]) (IProps (cx (A 99) no_value) 0 good_props) in
    io_ok (snd r) = false /\ bal (iw_led (fst r)) self EGLD = 777 /\ iw_pend (fst r) = [].
  Proof. vm_compute. repeat split; reflexivity. Qed.
  (* with the hub address set the same step forwards the whole value to the gas service *)
  Example c17_hub_set_forwards :
    let r := istep keccak256 vf (w17 false [(str "ethereum", str "0xITS"); (str "axelar", str "axelar1hub")]) (IProps (cx (A 99) no_value) 0 good_props) in
    io_ok (snd r) = true /\ bal (iw_led (fst r)) self EGLD = 0 /\ bal (iw_led (fst r)) gasa EGLD = 777.
  Proof. vm_compute. repeat split; reflexivity. Qed.

  (* F-C17-2: remote deployment lookup returns while the service is paused (or the destination is no longer trusted) *)
  Definition w17r (paused : bool) (trusted_ : list (bytes * bytes)) : iworld :=
    {| iw_gw := gw0 []; iw_its := its0 trusted_ paused; iw_tms := [(tma, tm0 0)];
       iw_led := [((self, EGLD), 333)];
       iw_pend := [{| ip_id := 0; ip_kind := PRemote (be_enc 32 5) (str "ethereum") (str "TOK") [] 333 user tok; ip_stage := IAwaitCall |}]; iw_next := 1 |}.
  Example c17_paused_at_callback_strands :
    let r := istep keccak256 vf (w17r true [(str "ethereum", str "0xITS")]) (IProps (cx (A 99) no_value) 0 good_props) in
    io_ok (snd r) = false /\ bal (iw_led (fst r)) self EGLD = 333.
  Proof. vm_compute. repeat split; reflexivity. Qed.
  Example c17_untrusted_at_callback_strands :
    let r := istep keccak256 vf (w17r false []) (IProps (cx (A 99) no_value) 0 good_props) in
    io_ok (snd r) = false /\ bal (iw_led (fst r)) self EGLD = 333.
  Proof. vm_compute. repeat split; reflexivity. Qed.
  (* lookup errors and non-fungible tokens are refunded *)
  Example c17_error_refunds :
    let r := istep keccak256 vf (w17r true []) (IProps (cx (A 99) no_value) 0 None) in
    io_ok (snd r) = true /\ bal (iw_led (fst r)) self EGLD = 0 /\ bal (iw_led (fst r)) user EGLD = 333.
  Proof. vm_compute. repeat split; reflexivity. Qed.
End Findings.
