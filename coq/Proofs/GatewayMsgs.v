(* C02: message lifecycle of the gateway model. *)
From Coq Require Import String Ascii.
From Coq Require Import List Arith NArith Lia Bool.
From Coq Require Import Init.Byte Strings.Byte.
From Ax Require Import Lib.Bytes Lib.Mvx Model.Gateway Proofs.AListFacts.
Import ListNotations.
Open Scope N_scope.

Definition mkey (m : message) : bytes * bytes := (m_chain m, m_id m).
Definition mst (g : gw) (k : bytes * bytes) : option mstate := alookup pair_eqb k (g_messages g).

(* everything except the message table *)
Definition same_config (g g' : gw) : Prop :=
  g_epoch g' = g_epoch g /\ g_last_rot g' = g_last_rot g /\ g_hash_by_epoch g' = g_hash_by_epoch g /\
  g_epoch_by_hash g' = g_epoch_by_hash g /\ g_retention g' = g_retention g /\ g_domain g' = g_domain g /\
  g_min_delay g' = g_min_delay g /\ g_operator g' = g_operator g.

Lemma same_config_refl g : same_config g g.
Proof. repeat split. Qed.

Lemma same_config_trans a b c : same_config a b -> same_config b c -> same_config a c.
Proof. unfold same_config. intuition congruence. Qed.

Section P.
  Variable H : bytes -> bytes.
  Variable verify : bytes -> bytes -> bytes -> bool.

  Definition mhash (m : message) : bytes := message_hash H (m_chain m) (m_id m) (m_src m) (m_contract m) (m_ph m).

  Lemma msg_state_mst g c i : msg_state g c i = mst g (c, i).
  Proof. reflexivity. Qed.

  Lemma mst_set_messages g ms k : mst (set_messages g ms) k = alookup pair_eqb k ms.
  Proof. reflexivity. Qed.

  (* ---------- approve_message ---------- *)
  Lemma approve_message_mst g m k :
    mst (fst (approve_message H g m)) k =
      match mst g (mkey m) with
      | Some _ => mst g k
      | None => if pair_eqb k (mkey m) then Some (MApproved (mhash m)) else mst g k
      end.
  Proof.
    unfold approve_message. rewrite msg_state_mst. fold (mkey m).
    destruct (mst g (mkey m)) eqn:E; cbn [fst]; [reflexivity|].
    rewrite mst_set_messages. rewrite (alookup_aset pair_eqb pair_eqb_spec). reflexivity.
  Qed.

  Lemma approve_message_config g m : same_config g (fst (approve_message H g m)).
  Proof.
    unfold approve_message. destruct (msg_state g (m_chain m) (m_id m)); cbn [fst]; repeat split.
  Qed.

  Lemma approve_all_cons g m r :
    fst (approve_all H g (m :: r)) = fst (approve_all H (fst (approve_message H g m)) r).
  Proof.
    cbn [approve_all]. destruct (approve_message H g m) as [g' ev]. cbn [fst].
    destruct (approve_all H g' r) as [g'' ev']. reflexivity.
  Qed.

  Lemma approve_all_config g ms : same_config g (fst (approve_all H g ms)).
  Proof.
    revert g; induction ms as [|m r IH]; intro g; [apply same_config_refl|].
    rewrite approve_all_cons. eapply same_config_trans; [apply approve_message_config | apply IH].
  Qed.

  (* an id that is already approved or executed is untouched by any batch *)
  Lemma approve_all_keeps g ms k s : mst g k = Some s -> mst (fst (approve_all H g ms)) k = Some s.
  Proof.
    revert g; induction ms as [|m r IH]; intros g Hk; [exact Hk|].
    rewrite approve_all_cons. apply IH. rewrite approve_message_mst.
    destruct (mst g (mkey m)) eqn:E; [exact Hk|].
    destruct (pair_eqb k (mkey m)) eqn:E2; [|exact Hk].
    apply pair_eqb_spec in E2. subst k. congruence.
  Qed.

  (* a fresh id takes the contents of its FIRST occurrence in the batch *)
  Lemma approve_all_fresh g ms k : mst g k = None ->
    mst (fst (approve_all H g ms)) k =
      match find (fun m => pair_eqb k (mkey m)) ms with
      | Some m => Some (MApproved (mhash m))
      | None => None
      end.
  Proof.
    revert g; induction ms as [|m r IH]; intros g Hk; [exact Hk|].
    rewrite approve_all_cons. cbn [find].
    destruct (pair_eqb k (mkey m)) eqn:E2.
    - apply pair_eqb_spec in E2. subst k.
      apply approve_all_keeps. rewrite approve_message_mst, Hk.
      rewrite (proj2 (pair_eqb_spec _ _) eq_refl). reflexivity.
    - apply IH. rewrite approve_message_mst.
      destruct (mst g (mkey m)); [exact Hk|]. rewrite E2. exact Hk.
  Qed.

  (* ids not in the batch are untouched *)
  Lemma approve_all_other g ms k : (forall m, In m ms -> mkey m <> k) ->
    mst (fst (approve_all H g ms)) k = mst g k.
  Proof.
    intro Hn. destruct (mst g k) as [s|] eqn:E.
    - apply approve_all_keeps. exact E.
    - rewrite approve_all_fresh by exact E.
      destruct (find (fun m => pair_eqb k (mkey m)) ms) as [m|] eqn:F; [|reflexivity].
      apply find_some in F as [Hin Heq]. apply pair_eqb_spec in Heq. exfalso. apply (Hn m Hin). congruence.
  Qed.

  (* ---------- one step ---------- *)
  Definition rank (o : option mstate) : nat :=
    match o with None => 0 | Some (MApproved _) => 1 | Some MExecuted => 2 end.

  Definition step_mono_at (g g' : gw) (k : bytes * bytes) : Prop :=
    match mst g k with
    | Some MExecuted => mst g' k = Some MExecuted
    | Some (MApproved h) => mst g' k = Some (MApproved h) \/ mst g' k = Some MExecuted
    | None => mst g' k = None \/ exists h, mst g' k = Some (MApproved h)
    end.

  Lemma step_mono_refl g g' k : mst g' k = mst g k -> step_mono_at g g' k.
  Proof. unfold step_mono_at. intro E. rewrite E. destruct (mst g k) as [[h|]|]; auto. Qed.

  Lemma rotate_raw_messages g now w e g' ev : rotate_raw H g now w e = Some (g', ev) -> g_messages g' = g_messages g.
  Proof.
    unfold rotate_raw. destruct (validate_signers w); [|discriminate].
    destruct (negb e || (g_min_delay g <=? now - g_last_rot g)); [|discriminate].
    destruct (alookup bytes_eqb (signers_hash H w) (g_epoch_by_hash g)); [discriminate|].
    intro E; inversion E; reflexivity.
  Qed.

  Lemma rotate_signers_messages g c s p g' ev : rotate_signers H verify g c s p = Some (g', ev) -> g_messages g' = g_messages g.
  Proof.
    unfold rotate_signers. destruct (dec_proof_top p); [|discriminate].
    destruct (dec_wsigners_top s); [|discriminate].
    destruct (bytes_eqb (g_operator g) []); [discriminate|].
    destruct (validate_proof H verify g _ _) as [l|]; [|discriminate].
    destruct (negb _ || l); [|discriminate]. apply rotate_raw_messages.
  Qed.

  Lemma approve_messages_inv g m p g' ev : approve_messages H verify g m p = Some (g', ev) ->
    exists pr ms, dec_proof_top p = Some pr /\ dec_messages_top m = Some ms /\ ms <> [] /\
      validate_proof H verify g (data_hash H CMD_APPROVE m) pr <> None /\ (g', ev) = approve_all H g ms.
  Proof.
    unfold approve_messages. destruct (dec_proof_top p) as [pr|]; [|discriminate].
    destruct (dec_messages_top m) as [[|m0 ms]|]; try discriminate.
    destruct (validate_proof H verify g _ pr) eqn:V; [|discriminate].
    intro E; inversion E. exists pr, (m0 :: ms). repeat split; try congruence.
  Qed.

  Lemma validate_message_inv g c chain id src ph g' b ev :
    validate_message H g c chain id src ph = Some (g', b, ev) ->
    length ph = 32%nat /\
    b = is_approved_with H g chain id src (c_caller c) ph /\
    (b = true -> g' = set_messages g (aset pair_eqb (chain, id) MExecuted (g_messages g)) /\ ev = [ev_executed chain id]) /\
    (b = false -> g' = g /\ ev = []).
  Proof.
    unfold validate_message. destruct (Nat.eqb_spec (length ph) 32) as [L|L]; cbn [negb]; [|discriminate].
    destruct (is_approved_with H g chain id src (c_caller c) ph) eqn:A; intro E; inversion E; subst;
      repeat split; auto; discriminate.
  Qed.

  Lemma is_approved_with_spec g chain id src contract ph :
    is_approved_with H g chain id src contract ph = true <->
    mst g (chain, id) = Some (MApproved (message_hash H chain id src contract ph)).
  Proof.
    unfold is_approved_with. rewrite msg_state_mst.
    destruct (mst g (chain, id)) as [[h|]|]; split; intro E; try discriminate.
    - apply bytes_eqb_eq in E. subst. reflexivity.
    - inversion E. apply bytes_eqb_refl.
  Qed.

  Theorem gstep_mono g o k : step_mono_at g (fst (gstep H verify g o)) k.
  Proof.
    destruct o as [c m p|c s p|c chain id src ph|c a|c chain addr payload|c chain id src contract ph|c chain id]; cbn [gstep].
    - destruct (approve_messages H verify g m p) as [[g' ev]|] eqn:E; cbn [fst]; [|apply step_mono_refl; reflexivity].
      apply approve_messages_inv in E as (pr & ms & _ & _ & _ & _ & E).
      assert (g' = fst (approve_all H g ms)) as -> by (rewrite <- E; reflexivity).
      unfold step_mono_at. destruct (mst g k) as [[h|]|] eqn:Ek.
      + left. apply approve_all_keeps. exact Ek.
      + apply approve_all_keeps. exact Ek.
      + rewrite approve_all_fresh by exact Ek. destruct (find _ ms); [right; eauto | left; reflexivity].
    - destruct (rotate_signers H verify g c s p) as [[g' ev]|] eqn:E; cbn [fst]; apply step_mono_refl; [|reflexivity].
      unfold mst. rewrite (rotate_signers_messages _ _ _ _ _ _ E). reflexivity.
    - destruct (validate_message H g c chain id src ph) as [[[g' b] ev]|] eqn:E; cbn [fst]; [|apply step_mono_refl; reflexivity].
      apply validate_message_inv in E as (_ & Hb & Ht & Hf).
      destruct b.
      + destruct (Ht eq_refl) as [-> _]. symmetry in Hb. apply is_approved_with_spec in Hb.
        unfold step_mono_at. rewrite mst_set_messages, (alookup_aset pair_eqb pair_eqb_spec).
        destruct (pair_eqb k (chain, id)) eqn:Ek.
        * apply pair_eqb_spec in Ek. subst k. rewrite Hb. right. reflexivity.
        * fold (mst g k). destruct (mst g k) as [[h|]|]; auto.
      + destruct (Hf eq_refl) as [-> _]. apply step_mono_refl. reflexivity.
    - destruct (transfer_operatorship g c a) as [[g' ev]|] eqn:E; cbn [fst]; apply step_mono_refl; [|reflexivity].
      unfold transfer_operatorship in E. destruct (negb _ || _); [discriminate|].
      destruct (_ || _); [|discriminate]. destruct (bytes_eqb a zero_addr); [discriminate|]. inversion E. reflexivity.
    - apply step_mono_refl. reflexivity.
    - destruct (is_message_approved H g chain id src contract ph); apply step_mono_refl; reflexivity.
    - apply step_mono_refl. reflexivity.
  Qed.

  (* ---------- histories ---------- *)
  Lemma grun_cons g o r : grun H verify g (o :: r) = grun H verify (fst (gstep H verify g o)) r.
  Proof. reflexivity. Qed.

  Theorem grun_executed_final g ops k : mst g k = Some MExecuted -> mst (grun H verify g ops) k = Some MExecuted.
  Proof.
    revert g; induction ops as [|o r IH]; intros g E; [exact E|].
    rewrite grun_cons. apply IH. pose proof (gstep_mono g o k) as M. unfold step_mono_at in M. rewrite E in M. exact M.
  Qed.

  Theorem grun_approved_stays g ops k h : mst g k = Some (MApproved h) ->
    mst (grun H verify g ops) k = Some (MApproved h) \/ mst (grun H verify g ops) k = Some MExecuted.
  Proof.
    revert g; induction ops as [|o r IH]; intros g E; [left; exact E|].
    rewrite grun_cons. pose proof (gstep_mono g o k) as M. unfold step_mono_at in M. rewrite E in M.
    destruct M as [M|M]; [apply IH; exact M | right; apply grun_executed_final; exact M].
  Qed.

  Theorem grun_rank_monotone g ops k : (rank (mst g k) <= rank (mst (grun H verify g ops) k))%nat.
  Proof.
    revert g; induction ops as [|o r IH]; intros g; [reflexivity|].
    rewrite grun_cons. eapply Nat.le_trans; [|apply IH].
    pose proof (gstep_mono g o k) as M. unfold step_mono_at in M.
    destruct (mst g k) as [[h|]|].
    - destruct M as [-> | ->]; cbn; lia.
    - rewrite M. reflexivity.
    - destruct M as [-> | [h ->]]; cbn; lia.
  Qed.

  (* ---------- validation returns true at most once per id ---------- *)
  Definition validates_true (g : gw) (o : gop) (k : bytes * bytes) : bool :=
    match o with
    | GValidate c chain id src ph =>
        pair_eqb (chain, id) k &&
        match validate_message H g c chain id src ph with Some (_, true, _) => true | _ => false end
    | _ => false
    end.

  Fixpoint count_true (g : gw) (ops : list gop) (k : bytes * bytes) : nat :=
    match ops with
    | [] => 0
    | o :: r => (if validates_true g o k then 1 else 0) + count_true (fst (gstep H verify g o)) r k
    end.

  Lemma validates_true_executes g o k : validates_true g o k = true ->
    mst (fst (gstep H verify g o)) k = Some MExecuted /\ exists h, mst g k = Some (MApproved h).
  Proof.
    destruct o as [c m p|c s p|c chain id src ph|c a|c chain addr payload|c chain id src contract ph|c chain id]; cbn [validates_true]; try discriminate.
    intro E. apply andb_true_iff in E as [Ek Ev]. apply pair_eqb_spec in Ek. subst k.
    cbn [gstep]. destruct (validate_message H g c chain id src ph) as [[[g' b] ev]|] eqn:V; [|discriminate].
    destruct b; [|discriminate]. cbn [fst].
    apply validate_message_inv in V as (_ & Hb & Ht & _). destruct (Ht eq_refl) as [-> _].
    split.
    - rewrite mst_set_messages. apply (alookup_aset_same pair_eqb pair_eqb_spec).
    - symmetry in Hb. apply is_approved_with_spec in Hb. eauto.
  Qed.

  Lemma executed_never_validates g o k : mst g k = Some MExecuted -> validates_true g o k = false.
  Proof.
    intro E. destruct (validates_true g o k) eqn:V; [|reflexivity].
    apply validates_true_executes in V as [_ [h Hh]]. congruence.
  Qed.

  Lemma count_true_executed g ops k : mst g k = Some MExecuted -> count_true g ops k = 0%nat.
  Proof.
    revert g; induction ops as [|o r IH]; intros g E; [reflexivity|].
    cbn [count_true]. rewrite executed_never_validates by exact E.
    rewrite IH; [reflexivity|].
    pose proof (gstep_mono g o k) as M. unfold step_mono_at in M. rewrite E in M. exact M.
  Qed.

  Theorem validate_at_most_once g ops k : (count_true g ops k <= 1)%nat.
  Proof.
    revert g; induction ops as [|o r IH]; intros g; [cbn; lia|].
    cbn [count_true]. destruct (validates_true g o k) eqn:V.
    - apply validates_true_executes in V as [E _]. rewrite (count_true_executed _ r k E). lia.
    - specialize (IH (fst (gstep H verify g o))). lia.
  Qed.

  (* ---------- origin of approvals; binding ---------- *)
  (* messages of all accepted batches of a history *)
  Fixpoint batch_msgs (g : gw) (ops : list gop) : list message :=
    match ops with
    | [] => []
    | o :: r =>
        (match o with
         | GApprove c m p =>
             match approve_messages H verify g m p, dec_messages_top m with
             | Some _, Some ms => ms
             | _, _ => []
             end
         | _ => []
         end) ++ batch_msgs (fst (gstep H verify g o)) r
    end.

  Lemma gstep_new_approval g o k h :
    mst g k = None -> mst (fst (gstep H verify g o)) k = Some (MApproved h) ->
    exists m, In m (batch_msgs g [o]) /\ mkey m = k /\ h = mhash m.
  Proof.
    intros E0 E1.
    destruct o as [c m p|c s p|c chain id src ph|c a|c chain addr payload|c chain id src contract ph|c chain id];
      cbn [gstep batch_msgs] in *.
    - destruct (approve_messages H verify g m p) as [[g' ev]|] eqn:E; cbn [fst] in E1; [|congruence].
      apply approve_messages_inv in E as (pr & ms & _ & Dm & _ & _ & E).
      assert (g' = fst (approve_all H g ms)) as -> by (rewrite <- E; reflexivity).
      rewrite Dm. rewrite approve_all_fresh in E1 by exact E0.
      destruct (find (fun m0 => pair_eqb k (mkey m0)) ms) as [m0|] eqn:F; [|discriminate].
      apply find_some in F as [Hin Heq]. apply pair_eqb_spec in Heq. inversion E1.
      exists m0. rewrite app_nil_r. repeat split; auto.
    - exfalso. pose proof (gstep_mono g (GRotate c s p) k) as M. unfold step_mono_at in M. rewrite E0 in M. cbn [gstep] in M.
      destruct (rotate_signers H verify g c s p) as [[g' ev]|] eqn:E; cbn [fst] in *; [|congruence].
      unfold mst in E1. rewrite (rotate_signers_messages _ _ _ _ _ _ E) in E1. fold (mst g k) in E1. congruence.
    - exfalso. destruct (validate_message H g c chain id src ph) as [[[g' b] ev]|] eqn:E; cbn [fst] in E1; [|congruence].
      apply validate_message_inv in E as (_ & Hb & Ht & Hf). destruct b.
      + destruct (Ht eq_refl) as [-> _]. rewrite mst_set_messages, (alookup_aset pair_eqb pair_eqb_spec) in E1.
        destruct (pair_eqb k (chain, id)); [discriminate|]. fold (mst g k) in E1. congruence.
      + destruct (Hf eq_refl) as [-> _]. congruence.
    - exfalso. destruct (transfer_operatorship g c a) as [[g' ev]|] eqn:E; cbn [fst] in E1; [|congruence].
      unfold transfer_operatorship in E. destruct (negb _ || _); [discriminate|].
      destruct (_ || _); [|discriminate]. destruct (bytes_eqb a zero_addr); [discriminate|]. inversion E; subst. unfold mst in E1. cbn in E1. unfold mst in E0. congruence.
    - cbn [fst] in E1. congruence.
    - destruct (is_message_approved H g chain id src contract ph); cbn [fst] in E1; congruence.
    - cbn [fst] in E1. congruence.
  Qed.

  Theorem approval_origin ops : forall g k h,
    mst (grun H verify g ops) k = Some (MApproved h) ->
    mst g k = Some (MApproved h) \/ exists m, In m (batch_msgs g ops) /\ mkey m = k /\ h = mhash m.
  Proof.
    induction ops as [|o r IH]; intros g k h E; [left; exact E|].
    rewrite grun_cons in E. apply IH in E as [E|(m & Hin & Hk & Hh)].
    - destruct (mst g k) as [[h0|]|] eqn:E0.
      + pose proof (gstep_mono g o k) as M. unfold step_mono_at in M. rewrite E0 in M.
        destruct M as [M|M]; [left; congruence | congruence].
      + pose proof (gstep_mono g o k) as M. unfold step_mono_at in M. rewrite E0 in M. congruence.
      + right. destruct (gstep_new_approval g o k h E0 E) as (m & Hin & Hk & Hh).
        exists m. cbn [batch_msgs] in *. rewrite app_nil_r in Hin. repeat split; auto. apply in_or_app. left. exact Hin.
    - right. exists m. repeat split; auto. cbn [batch_msgs]. apply in_or_app. right. exact Hin.
  Qed.

  (* injectivity of the hashed message encoding *)
  Lemma app_eq_len {A} (a a' b b' : list A) : length a = length a' -> a ++ b = a' ++ b' -> a = a' /\ b = b'.
  Proof.
    revert a'; induction a as [|x a IH]; intros [|y a'] HL E; cbn in *; try discriminate; [auto|].
    inversion E; subst. destruct (IH a' ltac:(lia) H2) as [-> ->]. auto.
  Qed.

  Lemma enc_buf_inj s s' r r' : Nlen s < 2 ^ 32 -> Nlen s' < 2 ^ 32 ->
    enc_buf s ++ r = enc_buf s' ++ r' -> s = s' /\ r = r'.
  Proof.
    intros L L' E. unfold enc_buf, enc_u32 in E. rewrite <- !app_assoc in E.
    apply app_eq_len in E as [E1 E2]; [|rewrite !be_enc_length; reflexivity].
    assert (Nlen s = Nlen s').
    { rewrite <- (be_dec_enc 4 (Nlen s)), <- (be_dec_enc 4 (Nlen s')) by assumption. rewrite E1. reflexivity. }
    apply app_eq_len in E2; [exact E2 | unfold Nlen in *; lia].
  Qed.

  Lemma enc_msgkey_inj c i s a p s' a' p' :
    Nlen s < 2 ^ 32 -> Nlen s' < 2 ^ 32 -> length a = 32%nat -> length a' = 32%nat ->
    enc_msgkey c i s a p = enc_msgkey c i s' a' p' -> s = s' /\ a = a' /\ p = p'.
  Proof.
    intros L L' La La' E. unfold enc_msgkey in E. rewrite <- ?app_assoc in E.
    apply app_inv_head in E. apply enc_buf_inj in E as [-> E]; try assumption.
    apply app_eq_len in E as [-> ->]; [auto | congruence].
  Qed.

  (* a successful validation names exactly the approved source address, destination and payload hash
     (given no collision between the two hashed strings) *)
  Theorem validate_binding g0 ops c chain id src ph g' ev :
    g_messages g0 = [] ->
    validate_message H (grun H verify g0 ops) c chain id src ph = Some (g', true, ev) ->
    exists m, In m (batch_msgs g0 ops) /\ m_chain m = chain /\ m_id m = id /\
      H (enc_msgkey chain id (m_src m) (m_contract m) (m_ph m)) = H (enc_msgkey chain id src (c_caller c) ph) /\
      (Nlen src < 2 ^ 32 -> Nlen (m_src m) < 2 ^ 32 -> length (c_caller c) = 32%nat -> length (m_contract m) = 32%nat ->
       (H (enc_msgkey chain id (m_src m) (m_contract m) (m_ph m)) = H (enc_msgkey chain id src (c_caller c) ph) ->
        enc_msgkey chain id (m_src m) (m_contract m) (m_ph m) = enc_msgkey chain id src (c_caller c) ph) ->
       m_src m = src /\ m_contract m = c_caller c /\ m_ph m = ph).
  Proof.
    intros Hempty V. apply validate_message_inv in V as (_ & Hb & _ & _).
    symmetry in Hb. apply is_approved_with_spec in Hb.
    apply approval_origin in Hb as [Hb|(m & Hin & Hk & Hh)].
    - unfold mst in Hb. rewrite Hempty in Hb. discriminate.
    - unfold mkey in Hk. injection Hk as Hc Hi. exists m.
      unfold mhash, message_hash in Hh. rewrite Hc, Hi in Hh.
      split; [exact Hin|]. split; [exact Hc|]. split; [exact Hi|]. split; [symmetry; exact Hh|].
      intros L1 L2 L3 L4 CR. specialize (CR (eq_sym Hh)).
      apply enc_msgkey_inj in CR; auto.
  Qed.
End P.
