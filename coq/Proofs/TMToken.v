(* C18: the token recorded by a token manager is never replaced -- by any of its sixteen operations. *)
From Coq Require Import String List NArith Lia Bool.
From Ax Require Import Lib.Bytes Lib.Mvx Model.Check Model.Env Model.TokenManager Proofs.AListFacts Proofs.TMFacts Proofs.TMCustody.
Import ListNotations.
Open Scope N_scope.

Lemma add_flow_in_token t now a t' : add_flow_in t now a = Some t' -> tm_token t' = tm_token t.
Proof. unfold add_flow_in. destruct (tm_limit t =? 0); [intro E; inversion E; reflexivity|]. destruct (add_flow _ _ _ _); intro E; inversion E; reflexivity. Qed.
Lemma add_flow_out_token t now a t' : add_flow_out t now a = Some t' -> tm_token t' = tm_token t.
Proof. unfold add_flow_out. destruct (tm_limit t =? 0); [intro E; inversion E; reflexivity|]. destruct (add_flow _ _ _ _); intro E; inversion E; reflexivity. Qed.

(* every endpoint leaves the recorded token as it is (only the issuance callback records one, and only into an empty slot) *)
Theorem run_endpoint_token t l o t' l' r e : run_endpoint t l o = Some (t', l', r, e) -> tm_token t' = tm_token t.
Proof.
  destruct o as [c d a|c|c v|c a|c a|c f to|c a|c a|c f|c a|c a|c f|c a v|c|c m n s|self result]; cbn [run_endpoint]; intro G.
  - unfold give_token in G. destruct (_ || _); [discriminate|]. destruct (negb _); [discriminate|].
    destruct (add_flow_in t (t_now c) a) as [t1|] eqn:A; [|discriminate]. apply add_flow_in_token in A.
    destruct (is_mint_type _).
    + destruct (_ || _); [discriminate|]. destruct (transfer _ _ _ _ _); inversion G; subst. exact A.
    + destruct (bytes_eqb _ _); [discriminate|]. destruct (transfer _ _ _ _ _); inversion G; subst. exact A.
  - unfold take_token in G. destruct (negb _); [discriminate|]. destruct (egld_or_single_fungible _) as [[tok amt]|]; [|discriminate].
    destruct (negb _); [discriminate|]. destruct (add_flow_out t (t_now c) amt) as [t1|] eqn:A; [|discriminate]. apply add_flow_out_token in A.
    destruct (is_mint_type _).
    + destruct (bytes_eqb tok EGLD); [discriminate|]. destruct (debit _ _ _ _); inversion G; subst. exact A.
    + inversion G; subst. exact A.
  - unfold set_flow_limit in G. destruct (negb _); [discriminate|]. destruct (only_role _ _ _); inversion G; subst. reflexivity.
  - unfold add_flow_limiter in G. apply nonpay_some in G as [_ G]. destruct (_ && _); [|discriminate]. apply wrap_some in G as [_ G]. inversion G; subst. reflexivity.
  - unfold remove_flow_limiter in G. apply nonpay_some in G as [_ G]. destruct (_ && _); [|discriminate]. apply wrap_some in G as [_ G]. inversion G; subst. reflexivity.
  - unfold transfer_flow_limiter in G. apply nonpay_some in G as [_ G]. destruct (_ && _); [|discriminate]. apply wrap_some in G as [_ G]. apply transfer_role_core in G. apply G.
  - unfold transfer_operatorship in G. apply nonpay_some in G as [_ G]. destruct (_ && _); [|discriminate]. apply wrap_some in G as [_ G]. apply transfer_role_core in G. apply G.
  - unfold propose_operatorship in G. apply nonpay_some in G as [_ G]. destruct (_ && _); [|discriminate]. apply wrap_some in G as [_ G]. apply propose_role_core in G. apply G.
  - unfold accept_operatorship in G. apply nonpay_some in G as [_ G]. destruct (addr_ok f); [|discriminate]. apply wrap_some in G as [_ G]. apply accept_role_core in G. apply G.
  - unfold transfer_mintership in G. apply nonpay_some in G as [_ G]. destruct (_ && _); [|discriminate]. apply wrap_some in G as [_ G]. apply transfer_role_core in G. apply G.
  - unfold propose_mintership in G. apply nonpay_some in G as [_ G]. destruct (_ && _); [|discriminate]. apply wrap_some in G as [_ G]. apply propose_role_core in G. apply G.
  - unfold accept_mintership in G. apply nonpay_some in G as [_ G]. destruct (addr_ok f); [|discriminate]. apply wrap_some in G as [_ G]. apply accept_role_core in G. apply G.
  - unfold tm_mint in G. apply nonpay_some in G as [_ G]. destruct (_ || _); [discriminate|]. destruct (transfer _ _ _ _ _); inversion G; subst. reflexivity.
  - unfold tm_burn in G. destruct (_ || _); [discriminate|]. destruct (egld_or_single_fungible _) as [[tok amt]|]; [|discriminate].
    destruct (negb _); [discriminate|]. destruct (debit _ _ _ _); inversion G; subst. reflexivity.
  - unfold deploy_interchain_token in G. destruct (negb _); [discriminate|]. destruct (_ || _); [discriminate|]. destruct (negb _); [discriminate|].
    destruct (_ || _); [discriminate|]. inversion G; subst. reflexivity.
  - discriminate.
Qed.

Theorem tstep_token t l o : tm_token t <> [] -> tm_token (fst (fst (tstep t l o))) = tm_token t.
Proof.
  intro Hne. unfold tstep. destruct o as [c d a|c|c v|c a|c a|c f to|c a|c a|c f|c a|c a|c f|c a v|c|c m n s|self result].
  16:{ destruct (tm_pending t =? 0); [reflexivity|].
       pose proof (callback_keeps_recorded_token t self result Hne) as K. destruct (deploy_token_callback t self result) as [t1 e]. cbn [fst] in K |- *. exact K. }
  all: cbn [top_ctx]; destruct (pay_in _ _ _ _) as [l1|]; [|reflexivity].
  all: match goal with |- context [run_endpoint ?tt ?ll ?o] => destruct (run_endpoint tt ll o) as [[[[t1 l2] r] e]|] eqn:G; [|reflexivity] end.
  all: cbn [fst]; eapply run_endpoint_token; exact G.
Qed.
