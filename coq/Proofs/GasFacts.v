(* C15: gas service custody. *)
From Coq Require Import String Ascii.
From Coq Require Import List Arith NArith Lia Bool.
From Coq Require Import Init.Byte Strings.Byte.
From Ax Require Import Lib.Bytes Lib.Mvx Model.Check Model.Env Model.GasService Proofs.AListFacts Proofs.TMFacts.
Import ListNotations.
Open Scope N_scope.

(* what counts as a received payment *)
Theorem received_spec native v tok amt :
  received native v = Some (tok, amt) ->
  0 < amt /\
  (native = true -> tok = EGLD /\ amt = cv_egld v /\ cv_esdt v = []) /\
  (native = false -> cv_egld v = 0 /\ exists p, cv_esdt v = [p] /\ ep_token p = tok /\ ep_nonce p = 0 /\ ep_amount p = amt).
Proof.
  unfold received. destruct native.
  - unfold has_no_esdt. destruct (cv_esdt v) eqn:E; [|discriminate].
    destruct (N.ltb_spec 0 (cv_egld v)); [|discriminate]. intro R; inversion R; subst.
    split; [assumption|]. split; [auto | discriminate].
  - unfold single_fungible_esdt. destruct (cv_esdt v) as [|p [|q r]] eqn:E; try discriminate.
    destruct (N.eqb_spec (ep_nonce p) 0) as [Z|]; [|discriminate].
    destruct (N.eqb_spec (cv_egld v) 0) as [Z2|]; [|discriminate]. cbn [andb].
    destruct (N.ltb_spec 0 (ep_amount p)); [|discriminate]. intro R; inversion R; subst.
    split; [assumption|]. split; [discriminate|]. intros _. split; [assumption|]. exists p. auto.
Qed.

Section P.
  Variable H : bytes -> bytes.

  (* every pay endpoint: exactly one event carrying the call's arguments and what was received *)
  Theorem pay_gas_spec kind c sender chain daddr payload rf ev :
    pay_gas H kind c sender chain daddr payload rf = Some ev ->
    exists tok amt, received (is_native kind) (gc_value c) = Some (tok, amt) /\ 0 < amt /\
      ev = [gev (gc_self c) [pay_event_name kind; sender; chain; daddr]
                (if is_native kind then H payload ++ enc_big amt ++ rf else H payload ++ enc_buf tok ++ enc_big amt ++ rf)].
  Proof.
    unfold pay_gas. destruct (negb _ || negb _); [discriminate|].
    destruct (received (is_native kind) (gc_value c)) as [[tok amt]|] eqn:R; [|discriminate].
    intro E; inversion E; subst. exists tok, amt. split; [reflexivity|]. split; [|reflexivity].
    apply received_spec in R. tauto.
  Qed.

  Theorem add_gas_spec kind c txhash logidx rf ev :
    add_gas kind c txhash logidx rf = Some ev ->
    exists tok amt, received (is_native kind) (gc_value c) = Some (tok, amt) /\ 0 < amt /\
      ev = [gev (gc_self c) [add_event_name kind; txhash; be_min logidx]
                (if is_native kind then enc_big amt ++ rf else enc_buf tok ++ enc_big amt ++ rf)].
  Proof.
    unfold add_gas. destruct (negb _); [discriminate|].
    destruct (received (is_native kind) (gc_value c)) as [[tok amt]|] eqn:R; [|discriminate].
    intro E; inversion E; subst. exists tok, amt. split; [reflexivity|]. split; [|reflexivity].
    apply received_spec in R. tauto.
  Qed.

  (* a zero or missing payment never succeeds *)
  Theorem pay_requires_value kind c sender chain daddr payload rf :
    has_no_value (gc_value c) = true -> pay_gas H kind c sender chain daddr payload rf = None.
  Proof.
    intro Z. destruct (pay_gas H kind c sender chain daddr payload rf) eqn:P; [|reflexivity].
    apply pay_gas_spec in P as (tok & amt & R & Hpos & _). apply received_spec in R as (_ & A & B).
    unfold has_no_value, has_no_esdt in Z. apply andb_true_iff in Z as [Z1 Z2]. apply N.eqb_eq in Z1.
    destruct (is_native kind).
    - destruct (A eq_refl) as (_ & -> & _). lia.
    - destruct (B eq_refl) as (_ & p & E & _). rewrite E in Z2. discriminate.
  Qed.

  (* ---------- outflows ---------- *)
  Theorem refund_spec s l c txhash logidx receiver token amount l' ev :
    refund s l c txhash logidx receiver token amount = Some (l', ev) ->
    gc_caller c = gs_collector s /\ receiver <> zero32 /\
    transfer l (gc_self c) receiver token amount = Some l' /\
    ev = [gev (gc_self c) [str "refunded_event"; txhash; be_min logidx] (receiver ++ enc_buf token ++ enc_big amount)].
  Proof.
    unfold refund. destruct (negb _ || negb _); [discriminate|].
    destruct (bytes_eqb (gc_caller c) (gs_collector s)) eqn:C; [|discriminate]. cbn [negb].
    destruct (bytes_eqb receiver zero32) eqn:Z; [discriminate|].
    destruct (transfer l (gc_self c) receiver token amount) eqn:T; [|discriminate].
    intro E; inversion E; subst. apply bytes_eqb_eq in C. apply bytes_eqb_neq in Z. auto.
  Qed.

  (* collectFees: relation between the ledgers *)
  Inductive Collected (self receiver : bytes) : ledger -> list (bytes * N) -> ledger -> Prop :=
  | CNil l : Collected self receiver l [] l
  | CSkip l tok amt r l' : amt <> 0 -> bal l self tok < amt -> Collected self receiver l r l' -> Collected self receiver l ((tok, amt) :: r) l'
  | CSend l tok amt r l1 l' : amt <> 0 -> amt <= bal l self tok -> transfer l self receiver tok amt = Some l1 ->
      Collected self receiver l1 r l' -> Collected self receiver l ((tok, amt) :: r) l'.

  Theorem collect_loop_spec self receiver items : forall l l',
    collect_loop l self receiver items = Some l' -> Collected self receiver l items l'.
  Proof.
    induction items as [|[tok amt] r IH]; intros l l' E; cbn [collect_loop] in E.
    - inversion E; subst. constructor.
    - destruct (N.eqb_spec amt 0) as [Z|NZ]; [discriminate|].
      destruct (N.leb_spec amt (bal l self tok)) as [L|L].
      + destruct (transfer l self receiver tok amt) as [l1|] eqn:T; [|discriminate].
        eapply CSend; eauto.
      + apply CSkip; auto.
  Qed.

  Theorem collect_fees_spec s l c receiver tokens amounts l' :
    collect_fees s l c receiver tokens amounts = Some l' ->
    gc_caller c = gs_collector s /\ receiver <> zero32 /\ length tokens = length amounts /\
    Collected (gc_self c) receiver l (combine tokens amounts) l'.
  Proof.
    unfold collect_fees. destruct (negb _ || negb _); [discriminate|].
    destruct (bytes_eqb (gc_caller c) (gs_collector s)) eqn:C; [|discriminate]. cbn [negb].
    destruct (bytes_eqb receiver zero32) eqn:Z; [discriminate|].
    destruct (Nat.eqb_spec (length tokens) (length amounts)) as [L|]; [|discriminate]. cbn [negb].
    intro E. apply collect_loop_spec in E. apply bytes_eqb_eq in C. apply bytes_eqb_neq in Z. auto.
  Qed.

  (* rejected: zero amount anywhere *)
  Theorem collect_loop_zero l self receiver items tok : In (tok, 0) items -> collect_loop l self receiver items = None.
  Proof.
    revert l; induction items as [|[tk a] r IH]; intros l Hin; [contradiction|]. cbn [collect_loop].
    destruct Hin as [E|Hin].
    - inversion E; subst. reflexivity.
    - destruct (a =? 0); [reflexivity|]. destruct (a <=? bal l self tk).
      + destruct (transfer l self receiver tk a); [apply IH; exact Hin | reflexivity].
      + apply IH. exact Hin.
  Qed.

  (* ---------- funds only leave through the collector ---------- *)
  Theorem outflow_only_by_collector s l o tok :
    let c := gsop_ctx o in
    gc_caller c <> gc_self c ->
    bal (snd (fst (gsstep H s l o))) (gc_self c) tok < bal l (gc_self c) tok ->
    gc_caller c = gs_collector s /\ ((exists r tk am, o = GSCollect c r tk am) \/ (exists th li r tk am, o = GSRefund c th li r tk am)).
  Proof.
    cbv zeta. intros Hne Hlt. unfold gsstep in Hlt.
    destruct (pay_in l (gc_caller (gsop_ctx o)) (gc_self (gsop_ctx o)) (gc_value (gsop_ctx o))) as [l1|] eqn:P; [|cbn in Hlt; lia].
    pose proof (pay_in_mono _ _ _ _ _ tok Hne P) as M.
    destruct o as [kind c sender chain daddr payload rf|kind c txhash logidx rf|c receiver tokens amounts|c txhash logidx receiver token amount|c a];
      cbn [gsop_ctx] in *.
    - destruct (pay_gas H kind c sender chain daddr payload rf); cbn in Hlt; lia.
    - destruct (add_gas kind c txhash logidx rf); cbn in Hlt; lia.
    - destruct (collect_fees s l1 c receiver tokens amounts) as [l'|] eqn:C; cbn in Hlt; [|lia].
      apply collect_fees_spec in C as (C & _). split; [exact C|]. left. eauto.
    - destruct (refund s l1 c txhash logidx receiver token amount) as [[l' ev]|] eqn:R; cbn in Hlt; [|lia].
      apply refund_spec in R as (C & _). split; [exact C|]. right. eauto 8.
    - destruct (set_gas_collector s c a); cbn in Hlt; lia.
  Qed.

  (* ---------- collector replacement ---------- *)
  Theorem collector_changes_only_by_collector_or_owner s l o :
    gs_collector (fst (fst (gsstep H s l o))) <> gs_collector s ->
    exists c a, o = GSSetCollector c a /\ (gc_caller c = gs_collector s \/ gc_caller c = gc_owner c) /\
                gs_collector (fst (fst (gsstep H s l o))) = a.
  Proof.
    intro Hne. unfold gsstep in *.
    destruct (pay_in l (gc_caller (gsop_ctx o)) (gc_self (gsop_ctx o)) (gc_value (gsop_ctx o))) as [l1|]; [|cbn in Hne; congruence].
    destruct o as [kind c sender chain daddr payload rf|kind c txhash logidx rf|c receiver tokens amounts|c txhash logidx receiver token amount|c a];
      cbn [gsop_ctx] in *.
    - destruct (pay_gas H kind c sender chain daddr payload rf); cbn in Hne; congruence.
    - destruct (add_gas kind c txhash logidx rf); cbn in Hne; congruence.
    - destruct (collect_fees s l1 c receiver tokens amounts); cbn in Hne; congruence.
    - destruct (refund s l1 c txhash logidx receiver token amount) as [[l' ev]|]; cbn in Hne; congruence.
    - unfold set_gas_collector in *. destruct (negb _ || negb _); [cbn in Hne; congruence|].
      destruct (bytes_eqb (gc_caller c) (gs_collector s) || bytes_eqb (gc_caller c) (gc_owner c)) eqn:A; cbn in *; [|congruence].
      exists c, a. split; [reflexivity|]. split; [|reflexivity].
      apply orb_true_iff in A as [A|A]; apply bytes_eqb_eq in A; auto.
  Qed.

  (* ---------- receipts: exact ledger effect of an accepted payment ---------- *)
  Theorem pay_step_ledger s l kind c sender chain daddr payload rf :
    go_ok (snd (gsstep H s l (GSPay kind c sender chain daddr payload rf))) = true ->
    exists tok amt, received (is_native kind) (gc_value c) = Some (tok, amt) /\
      transfer l (gc_caller c) (gc_self c) tok amt = Some (snd (fst (gsstep H s l (GSPay kind c sender chain daddr payload rf)))).
  Proof.
    unfold gsstep. cbn [gsop_ctx].
    destruct (pay_in l (gc_caller c) (gc_self c) (gc_value c)) as [l1|] eqn:P; [|discriminate].
    destruct (pay_gas H kind c sender chain daddr payload rf) as [ev|] eqn:G; [|discriminate]. intros _. cbn [fst snd].
    apply pay_gas_spec in G as (tok & amt & R & _ & _). exists tok, amt. split; [exact R|].
    pose proof (received_spec _ _ _ _ R) as (_ & A & B). unfold pay_in in P.
    destruct (is_native kind).
    - destruct (A eq_refl) as (-> & -> & E). rewrite E in P. exact P.
    - destruct (B eq_refl) as (Z & p & E & <- & Zn & <-). rewrite E, Z in P. cbn [pay_esdts] in P. rewrite Zn, ltok_0 in P. change (0 =? 0) with true in P. cbv iota in P.
      destruct (transfer l (gc_caller c) (gc_self c) (ep_token p) (ep_amount p)); [inversion P; reflexivity | discriminate].
  Qed.
End P.
