(* C19 over whole histories: every successful remote deployment that names a destination minter consumes one approval of
   exactly that (minter, token id, destination chain) key AND exactly that destination-minter hash; approvals are written
   only by successful approveDeployRemoteInterchainToken calls.  Hence, for every history of the 25 operation kinds, every key
   and every hash h:   #(successful deployments under key naming a minter with hash h)
                         <=  #(successful approvals of (key, h))  +  [the slot held h at the start].                       *)
From Coq Require Import String List NArith Lia Bool.
From Ax Require Import Lib.Bytes Lib.Mvx Lib.SolAbi Lib.Keccak Model.Check Model.Env Model.Gateway Model.TokenManager Model.Its
     Proofs.AListFacts Proofs.GatewayMsgs Proofs.TMFacts Proofs.ItsFacts Proofs.ItsWorld Proofs.ItsApprovals.
Import ListNotations.
Open Scope N_scope.

Section P.
  Variable H : bytes -> bytes.
  Variable verify : bytes -> bytes -> bytes -> bool.
  Notation istep := (istep H verify).
  Notation appr := ItsApprovals.appr.

  Definition b2n (b : bool) : N := if b then 1 else 0.
  (* the slot under key currently holds h *)
  Definition holds (w : iworld) (key h : bytes) : N := b2n (bytes_eqb (appr w key) h).

  (* this step is a successful approval of exactly (key, h) *)
  Definition approve_hit (key h : bytes) (w : iworld) (o : iop) : N :=
    match o with
    | IApproveRemote c deployer salt dchain dminter =>
        b2n (io_ok (snd (istep w o)) && bytes_eqb key (approval_key H (ic_caller c) (interchain_token_id H (iw_its w) deployer salt) dchain)
             && bytes_eqb (H dminter) h)
    | _ => 0
    end.
  (* this step is a successful remote deployment naming a destination minter with hash h under key *)
  Definition use_hit (key h : bytes) (w : iworld) (o : iop) : N :=
    match o with
    | IDeployRemote c salt minter dchain (Some d) =>
        b2n (io_ok (snd (istep w o)) && bytes_eqb key (approval_key H minter (token_id_raw H (interchain_salt H (iw_its w) (ic_caller c) salt)) dchain)
             && bytes_eqb (H d) h)
    | _ => 0
    end.

  Lemma holds_same w w' key h : appr w' key = appr w key -> holds w' key h = holds w key h.
  Proof. unfold holds. intros ->. reflexivity. Qed.

  Theorem approval_step w o key h : h <> [] ->
    use_hit key h w o + holds (fst (istep w o)) key h <= holds w key h + approve_hit key h w o.
  Proof.
    intro NE.
    assert (FR : (match o with IApproveRemote _ _ _ _ _ | IRevokeRemote _ _ _ _ | IDeployRemote _ _ _ _ _ => True | _ => aps w (fst (istep w o)) end)) by apply istep_approvals_frame.
    destruct o; try (cbn [use_hit approve_hit]; rewrite (holds_same _ _ key h (aps_appr _ _ key FR)); lia); clear FR.
    - (* approve *)
      cbn [use_hit approve_hit]. cbn [Its.istep]. unfold itx.
      destruct (pay_in _ _ _ _) as [l1|]; [|cbn [fst snd ifail io_ok andb b2n]; lia]. unfold norets.
      destruct (approve_remote H (w_led_ w l1) c deployer salt dest_chain dest_minter) as [[w2 ev]|] eqn:A; [|cbn [fst snd ifail io_ok andb b2n]; lia].
      cbn [fst snd io_ok andb]. apply approve_remote_spec in A as (_ & _ & ->). cbn [iw_its w_led_ wset].
      unfold holds. rewrite appr_set by reflexivity. change (appr (w_led_ w l1) key) with (appr w key).
      destruct (bytes_eqb key _) eqn:K; cbn [andb].
      + destruct (bytes_eqb (H dest_minter) h); destruct (bytes_eqb (appr w key) h); cbn [b2n]; lia.
      + cbn [b2n]. lia.
    - (* revoke: the slot is emptied or untouched *)
      cbn [use_hit approve_hit]. cbn [Its.istep]. unfold itx.
      destruct (pay_in _ _ _ _) as [l1|]; [|cbn [fst]; lia]. unfold norets.
      destruct (revoke_remote H (w_led_ w l1) c deployer salt dest_chain) as [[w2 ev]|] eqn:A; [|cbn [fst]; lia].
      cbn [fst]. apply revoke_remote_spec in A. subst w2. unfold holds. rewrite appr_set by reflexivity.
      change (appr (w_led_ w l1) key) with (appr w key).
      destruct (bytes_eqb key _).
      + assert (E : bytes_eqb [] h = false) by (apply bytes_eqb_neq; congruence). rewrite E. cbn [b2n]. lia.
      + lia.
    - (* deployment *)
      cbn [approve_hit]. unfold use_hit. cbn [Its.istep]. unfold itx.
      destruct (pay_in _ _ _ _) as [l1|]; [|destruct dest_minter; cbn [fst snd ifail io_ok andb b2n]; lia].
      destruct (deploy_remote_with_minter H (w_led_ w l1) c salt minter dest_chain dest_minter) as [[[w2 rets] ev]|] eqn:A;
        [|destruct dest_minter; cbn [fst snd ifail io_ok andb b2n]; lia].
      cbn [fst snd io_ok andb]. apply deploy_remote_with_minter_spec in A as [A0 A1]. cbv zeta in A0, A1.
      cbn [iw_its w_led_ wset] in A0, A1.
      destruct (bytes_eqb minter zero32) eqn:Z.
      + apply bytes_eqb_eq in Z. destruct (A0 Z) as [D R]. subst dest_minter. apply remote_raw_aps in R.
        rewrite (holds_same _ _ key h (aps_appr _ _ key R)). change (holds (w_led_ w l1) key h) with (holds w key h). lia.
      + apply bytes_eqb_neq in Z. destruct (A1 Z) as [_ R]. destruct dest_minter as [d|].
        * destruct R as (G & GN & R). apply remote_raw_aps in R. rewrite (holds_same _ _ key h (aps_appr _ _ key R)).
          unfold holds. rewrite appr_set by reflexivity. change (appr (w_led_ w l1) key) with (appr w key).
          destruct (bytes_eqb key _) eqn:K; cbn [andb].
          -- apply bytes_eqb_eq in K. subst key. unfold appr. rewrite G.
             assert (E : bytes_eqb [] h = false) by (apply bytes_eqb_neq; congruence). rewrite E.
             destruct (bytes_eqb (H d) h); cbn [b2n]; lia.
          -- cbn [b2n]. lia.
        * apply remote_raw_aps in R. rewrite (holds_same _ _ key h (aps_appr _ _ key R)). change (holds (w_led_ w l1) key h) with (holds w key h). lia.
  Qed.

  (* sums over a history *)
  Fixpoint total (f : iworld -> iop -> N) (w : iworld) (ops : list iop) : N :=
    match ops with [] => 0 | o :: r => f w o + total f (fst (istep w o)) r end.

  Theorem approval_history ops : forall w key h, h <> [] ->
    total (use_hit key h) w ops + holds (irun H verify w ops) key h <= holds w key h + total (approve_hit key h) w ops.
  Proof.
    induction ops as [|o r IH]; intros w key h NE; [cbn; lia|].
    change (irun H verify w (o :: r)) with (irun H verify (fst (istep w o)) r). cbn [total].
    pose proof (approval_step w o key h NE). pose proof (IH (fst (istep w o)) key h NE). lia.
  Qed.

  (* from a state whose slot does not hold h (in particular from deployment, where the table is empty):
     deployments naming hash h under key never outnumber the approvals of exactly (key, h) *)
  Corollary uses_bounded_by_approvals ops w key h : h <> [] -> appr w key <> h ->
    total (use_hit key h) w ops <= total (approve_hit key h) w ops.
  Proof.
    intros NE NH. pose proof (approval_history ops w key h NE).
    assert (E : holds w key h = 0) by (unfold holds; apply bytes_eqb_neq in NH; rewrite NH; reflexivity). lia.
  Qed.
End P.
