(* C11 / C12 / C16: governance time lock, authenticated commands, refund credits. *)
From Coq Require Import String Ascii.
From Coq Require Import List Arith NArith Lia Bool.
From Coq Require Import Init.Byte Strings.Byte.
From Ax Require Import Lib.Bytes Lib.Mvx Model.Check Model.Env Model.Gateway Model.Governance
     Proofs.AListFacts Proofs.GatewayMsgs Proofs.TMFacts.
Import ListNotations.
Open Scope N_scope.

Lemma bytes_eqb_sym_aux a b : bytes_eqb a b = bytes_eqb b a.
Proof.
  destruct (bytes_eqb a b) eqn:E.
  - apply bytes_eqb_eq in E. subst. symmetry. apply bytes_eqb_refl.
  - symmetry. apply bytes_eqb_neq. apply bytes_eqb_neq in E. congruence.
Qed.

Lemma getN_aset m h v h' : getN (aset bytes_eqb h v m) h' = if bytes_eqb h' h then v else getN m h'.
Proof. unfold getN. rewrite (alookup_aset bytes_eqb bytes_eqb_eq). destruct (bytes_eqb h' h); reflexivity. Qed.

Lemma rkey_eqb_spec a b : rkey_eqb a b = true <-> a = b.
Proof.
  destruct a as [u [t n]], b as [u' [t' n']]. unfold rkey_eqb. cbn [fst snd].
  rewrite !andb_true_iff, !bytes_eqb_eq, N.eqb_eq. split; [intros [[-> ->] ->]; reflexivity | intro E; inversion E; auto].
Qed.

Lemma refund_of_set g u tok n v u' tok' n' :
  refund_of (set_refund g u tok n v) u' tok' n' = if rkey_eqb (u', (tok', n')) (u, (tok, n)) then v else refund_of g u' tok' n'.
Proof.
  unfold refund_of, set_refund. cbn [gv_refunds upd]. rewrite (alookup_aset rkey_eqb rkey_eqb_spec).
  destruct (rkey_eqb (u', (tok', n')) (u, (tok, n))); reflexivity.
Qed.

Section P.
  Variable H : bytes -> bytes.
  Variable verify : bytes -> bytes -> bytes -> bool.

  Notation phash := (proposal_hash H).

  (* ================= commands ================= *)
  (* what each accepted command does to the time-lock and approval tables (repaired code) *)
  Theorem process_command_spec self g now p g' ev :
    process_command H true self g now p = Some (g', ev) ->
    let h := phash (xp_target p) (xp_call_data p) (xp_value p) in
    gv_refunds g' = gv_refunds g /\ gv_operator g' = gv_operator g /\
    (forall h', h' <> h -> getN (gv_eta g') h' = getN (gv_eta g) h' /\ getN (gv_tl_flight g') h' = getN (gv_tl_flight g) h' /\
                           getN (gv_approvals g') h' = getN (gv_approvals g) h' /\ getN (gv_op_flight g') h' = getN (gv_op_flight g) h') /\
    (if xp_cmd p =? 0 then
        (* schedule: not scheduled, not in flight; eta := max eta (now + delay) *)
        getN (gv_eta g) h = 0 /\ getN (gv_tl_flight g) h = 0 /\
        getN (gv_eta g') h = N.max (xp_eta p) (now + gv_min_delay g) /\ now + gv_min_delay g <= getN (gv_eta g') h /\
        getN (gv_tl_flight g') h = 0 /\ gv_approvals g' = gv_approvals g /\ gv_op_flight g' = gv_op_flight g
     else if xp_cmd p =? 1 then
        (* cancel: eta and in-flight marker cleared *)
        getN (gv_eta g') h = 0 /\ getN (gv_tl_flight g') h = 0 /\ gv_approvals g' = gv_approvals g /\ gv_op_flight g' = gv_op_flight g
     else if xp_cmd p =? 2 then
        getN (gv_approvals g') h = 1 /\ gv_eta g' = gv_eta g /\ gv_tl_flight g' = gv_tl_flight g /\ gv_op_flight g' = gv_op_flight g
     else
        getN (gv_approvals g') h = 0 /\ getN (gv_op_flight g') h = 0 /\ gv_eta g' = gv_eta g /\ gv_tl_flight g' = gv_tl_flight g).
  Proof.
    unfold process_command. cbv zeta. set (h := phash (xp_target p) (xp_call_data p) (xp_value p)).
    destruct (N.eqb_spec (xp_cmd p) 0) as [C0|C0].
    - destruct (N.eqb_spec (getN (gv_eta g) h) 0) as [E0|]; [|discriminate]. cbn [negb andb].
      destruct (N.eqb_spec (getN (gv_tl_flight g) h) 0) as [F0|]; [|discriminate]. cbn [negb].
      intro R; inversion R; subst; clear R. cbn [gv_refunds gv_operator gv_eta gv_tl_flight gv_approvals gv_op_flight set_eta upd].
      split; [reflexivity|]. split; [reflexivity|]. split.
      { intros h' Hne. rewrite getN_aset. apply bytes_eqb_neq in Hne. rewrite Hne. auto. }
      rewrite getN_aset, bytes_eqb_refl.
      destruct (N.ltb_spec (xp_eta p) (now + gv_min_delay g)); repeat split; auto; lia.
    - destruct (N.eqb_spec (xp_cmd p) 1) as [C1|C1].
      + intro R; inversion R; subst; clear R.
        cbn [gv_refunds gv_operator gv_eta gv_tl_flight gv_approvals gv_op_flight set_eta set_tlf upd].
        split; [reflexivity|]. split; [reflexivity|]. split.
        { intros h' Hne. rewrite !getN_aset. apply bytes_eqb_neq in Hne. rewrite Hne. auto. }
        rewrite !getN_aset, bytes_eqb_refl. auto.
      + destruct (N.eqb_spec (xp_cmd p) 2) as [C2|C2].
        * intro R; inversion R; subst; clear R.
          cbn [gv_refunds gv_operator gv_eta gv_tl_flight gv_approvals gv_op_flight set_app upd].
          split; [reflexivity|]. split; [reflexivity|]. split.
          { intros h' Hne. rewrite !getN_aset. apply bytes_eqb_neq in Hne. rewrite Hne. auto. }
          rewrite getN_aset, bytes_eqb_refl. auto.
        * intro R; inversion R; subst; clear R.
          cbn [gv_refunds gv_operator gv_eta gv_tl_flight gv_approvals gv_op_flight set_app set_opf upd].
          split; [reflexivity|]. split; [reflexivity|]. split.
          { intros h' Hne. rewrite !getN_aset. apply bytes_eqb_neq in Hne. rewrite Hne. auto. }
          rewrite !getN_aset, bytes_eqb_refl. auto.
  Qed.

  (* an accepted command: authenticated source, live gateway approval addressed to the contract for
     exactly this payload, consumed by this very step *)
  Theorem gov_execute_spec fx w c chain id src payload w' ev :
    gov_execute H fx w c chain id src payload = Some (w', ev) ->
    chain = gv_chain (w_gov w) /\ src = gv_address (w_gov w) /\
    is_approved_with H (w_gw w) chain id src (x_self c) (H payload) = true /\
    mst (w_gw w') (chain, id) = Some MExecuted /\
    w_led w' = w_led w /\ w_pend w' = w_pend w /\ w_next w' = w_next w /\
    exists p g' ev', dec_exec_payload payload = Some p /\ xp_target p <> zero32 /\
      process_command H fx (x_self c) (w_gov w) (x_now c) p = Some (g', ev') /\ w_gov w' = g'.
  Proof.
    unfold gov_execute. destruct (negb (has_no_value _)); [discriminate|].
    destruct (bytes_eqb chain (gv_chain (w_gov w)) && bytes_eqb src (gv_address (w_gov w))) eqn:S; [|discriminate]. cbn [negb].
    apply andb_true_iff in S as [S1 S2]. apply bytes_eqb_eq in S1. apply bytes_eqb_eq in S2.
    destruct (validate_message H (w_gw w) _ chain id src (H payload)) as [[[gw' b] gwev]|] eqn:V; [|discriminate].
    destruct b; [|discriminate].
    destruct (dec_exec_payload payload) as [p|] eqn:D; [|discriminate].
    destruct (bytes_eqb (xp_target p) zero32) eqn:Z; [discriminate|].
    destruct (process_command H fx (x_self c) (w_gov w) (x_now c) p) as [[g' ev']|] eqn:PC; [|discriminate].
    intro R; inversion R; subst; clear R. cbn [w_gw w_gov w_led w_pend w_next].
    apply validate_message_inv in V as (_ & Hb & Ht & _). cbn [c_caller] in Hb.
    destruct (Ht eq_refl) as [-> _].
    split; [reflexivity|]. split; [reflexivity|]. split; [symmetry; exact Hb|]. split.
    { rewrite mst_set_messages. apply (alookup_aset_same pair_eqb pair_eqb_spec). }
    repeat split; auto. exists p, g', ev'. apply bytes_eqb_neq in Z. auto.
  Qed.

  (* no replay: once consumed, the same (chain, id) is never accepted again *)
  Theorem gov_execute_no_replay fx w c chain id src payload :
    mst (w_gw w) (chain, id) = Some MExecuted -> gov_execute H fx w c chain id src payload = None.
  Proof.
    intro E. destruct (gov_execute H fx w c chain id src payload) as [[w' ev]|] eqn:G; [|reflexivity].
    apply gov_execute_spec in G as (_ & _ & A & _). apply is_approved_with_spec in A. congruence.
  Qed.

  (* ================= dispatch ================= *)
  Lemma dispatch_spec w c kind h eta g' target cd v name w' ev :
    dispatch w c kind h eta g' target cd v name = Some (w', ev) ->
    exists d, dec_call_data cd = Some d /\
      w_gov w' = g' /\ w_gw w' = w_gw w /\ w_led w' = w_led w /\ w_next w' = w_next w + 1 /\
      w_pend w' = w_pend w ++ [{| gp_id := w_next w; gp_kind := kind; gp_hash := h; gp_eta := eta; gp_caller := x_caller c; gp_pay := x_value c;
                                  gp_target := target; gp_endpoint := cd_endpoint d; gp_args := cd_args d; gp_value := v; gp_stage := AwaitCall |}].
  Proof.
    unfold dispatch. destruct (dec_call_data cd) as [d|]; [|discriminate].
    destruct (negb _); [discriminate|]. intro R; inversion R; subst. exists d. repeat split.
  Qed.

  (* a time-locked dispatch: exactly that (target, call data, value) has a stored eta that has been reached;
     the eta is consumed and the dispatch marked in flight *)
  Theorem execute_proposal_spec w c target cd v w' ev :
    execute_proposal H true w c target cd v = Some (w', ev) ->
    let h := phash target cd v in
    let eta := getN (gv_eta (w_gov w)) h in
    eta <> 0 /\ eta <= x_now c /\
    getN (gv_eta (w_gov w')) h = 0 /\ getN (gv_tl_flight (w_gov w')) h = 1 /\
    gv_approvals (w_gov w') = gv_approvals (w_gov w) /\ gv_op_flight (w_gov w') = gv_op_flight (w_gov w) /\
    gv_refunds (w_gov w') = gv_refunds (w_gov w) /\ gv_operator (w_gov w') = gv_operator (w_gov w) /\
    (forall h', h' <> h -> getN (gv_eta (w_gov w')) h' = getN (gv_eta (w_gov w)) h' /\
                           getN (gv_tl_flight (w_gov w')) h' = getN (gv_tl_flight (w_gov w)) h') /\
    exists d, dec_call_data cd = Some d /\ w_gw w' = w_gw w /\ w_led w' = w_led w /\
      w_pend w' = w_pend w ++ [{| gp_id := w_next w; gp_kind := PTimeLock; gp_hash := h; gp_eta := eta; gp_caller := x_caller c; gp_pay := x_value c;
                                  gp_target := target; gp_endpoint := cd_endpoint d; gp_args := cd_args d; gp_value := v; gp_stage := AwaitCall |}].
  Proof.
    unfold execute_proposal. cbv zeta. destruct (negb (Nat.eqb _ 32)); [discriminate|].
    set (h := phash target cd v).
    destruct (N.eqb_spec (getN (gv_eta (w_gov w)) h) 0) as [|NZ]; [discriminate|].
    destruct (N.ltb_spec (x_now c) (getN (gv_eta (w_gov w)) h)) as [|GE]; [discriminate|].
    cbn [andb]. intro D. apply dispatch_spec in D as (d & Dd & Dg & Dw & Dl & Dn & Dp).
    split; [exact NZ|]. split; [exact GE|]. rewrite Dg.
    cbn [gv_eta gv_tl_flight gv_approvals gv_op_flight gv_refunds gv_operator set_eta set_tlf upd].
    rewrite !getN_aset, bytes_eqb_refl.
    split; [reflexivity|]. split; [reflexivity|]. split; [reflexivity|]. split; [reflexivity|]. split; [reflexivity|]. split; [reflexivity|].
    split. { intros h' Hne. rewrite !getN_aset. apply bytes_eqb_neq in Hne. rewrite Hne. auto. }
    exists d. auto.
  Qed.

  Theorem execute_operator_proposal_spec w c target cd v w' ev :
    execute_operator_proposal H true w c target cd v = Some (w', ev) ->
    let h := phash target cd v in
    x_caller c = gv_operator (w_gov w) /\ getN (gv_approvals (w_gov w)) h <> 0 /\
    getN (gv_approvals (w_gov w')) h = 0 /\ getN (gv_op_flight (w_gov w')) h = 1 /\
    gv_eta (w_gov w') = gv_eta (w_gov w) /\ gv_tl_flight (w_gov w') = gv_tl_flight (w_gov w) /\
    gv_refunds (w_gov w') = gv_refunds (w_gov w) /\ gv_operator (w_gov w') = gv_operator (w_gov w) /\
    (forall h', h' <> h -> getN (gv_approvals (w_gov w')) h' = getN (gv_approvals (w_gov w)) h' /\
                           getN (gv_op_flight (w_gov w')) h' = getN (gv_op_flight (w_gov w)) h') /\
    exists d, dec_call_data cd = Some d /\ w_gw w' = w_gw w /\ w_led w' = w_led w /\
      w_pend w' = w_pend w ++ [{| gp_id := w_next w; gp_kind := POperator; gp_hash := h; gp_eta := 0; gp_caller := x_caller c; gp_pay := x_value c;
                                  gp_target := target; gp_endpoint := cd_endpoint d; gp_args := cd_args d; gp_value := v; gp_stage := AwaitCall |}].
  Proof.
    unfold execute_operator_proposal. cbv zeta. destruct (negb (Nat.eqb _ 32)); [discriminate|].
    destruct (bytes_eqb (x_caller c) (gv_operator (w_gov w))) eqn:O; [|discriminate]. cbn [negb].
    set (h := phash target cd v).
    destruct (N.eqb_spec (getN (gv_approvals (w_gov w)) h) 0) as [|NZ]; [discriminate|].
    intro D. apply dispatch_spec in D as (d & Dd & Dg & Dw & Dl & Dn & Dp).
    apply bytes_eqb_eq in O. split; [exact O|]. split; [exact NZ|]. rewrite Dg.
    cbn [gv_eta gv_tl_flight gv_approvals gv_op_flight gv_refunds gv_operator set_app set_opf upd].
    rewrite !getN_aset, bytes_eqb_refl.
    split; [reflexivity|]. split; [reflexivity|]. split; [reflexivity|]. split; [reflexivity|]. split; [reflexivity|]. split; [reflexivity|].
    split. { intros h' Hne. rewrite !getN_aset. apply bytes_eqb_neq in Hne. rewrite Hne. auto. }
    exists d. auto.
  Qed.

  (* ================= refund credits ================= *)
  Fixpoint sum_for (tok : bytes) (nonce : N) (ps : list esdt_pay) : N :=
    match ps with
    | [] => 0
    | p :: r => (if bytes_eqb (ep_token p) tok && (ep_nonce p =? nonce) then ep_amount p else 0) + sum_for tok nonce r
    end.

  Lemma credit_esdts_frame ps : forall g u,
    gv_eta (credit_esdts g u ps) = gv_eta g /\ gv_tl_flight (credit_esdts g u ps) = gv_tl_flight g /\
    gv_approvals (credit_esdts g u ps) = gv_approvals g /\ gv_op_flight (credit_esdts g u ps) = gv_op_flight g /\
    gv_operator (credit_esdts g u ps) = gv_operator g.
  Proof.
    induction ps as [|p r IH]; intros g u; cbn [credit_esdts]; [repeat split|].
    destruct (IH (set_refund g u (ep_token p) (ep_nonce p) (refund_of g u (ep_token p) (ep_nonce p) + ep_amount p)) u) as (A & B & C & D & E).
    rewrite A, B, C, D, E. repeat split.
  Qed.

  (* every attached amount is credited to the dispatching caller, additively per token; nobody else's credit moves *)
  Theorem credit_esdts_spec ps : forall g u u' tok nonce,
    refund_of (credit_esdts g u ps) u' tok nonce =
      refund_of g u' tok nonce + (if bytes_eqb u' u then sum_for tok nonce ps else 0).
  Proof.
    induction ps as [|p r IH]; intros g u u' tok nonce; cbn [credit_esdts sum_for].
    - destruct (bytes_eqb u' u); lia.
    - rewrite IH. rewrite refund_of_set. unfold rkey_eqb. cbn [fst snd].
      destruct (bytes_eqb u' u) eqn:U; cbn [andb].
      + apply bytes_eqb_eq in U. subst u'.
        rewrite (bytes_eqb_sym_aux tok (ep_token p)).
        destruct (bytes_eqb (ep_token p) tok) eqn:T; cbn [andb].
        * apply bytes_eqb_eq in T. subst tok. rewrite (N.eqb_sym nonce (ep_nonce p)).
          destruct (N.eqb_spec (ep_nonce p) nonce) as [->|]; lia.
        * lia.
      + lia.
  Qed.

  Theorem credit_failure_spec g u v u' tok nonce :
    refund_of (credit_failure g u v) u' tok nonce =
      refund_of g u' tok nonce +
      (if bytes_eqb u' u then
         match cv_esdt v with
         | [] => if bytes_eqb tok EGLD && (nonce =? 0) then cv_egld v else 0
         | ps => sum_for tok nonce ps
         end
       else 0).
  Proof.
    unfold credit_failure. destruct (cv_esdt v) as [|p r] eqn:E.
    - rewrite refund_of_set. unfold rkey_eqb. cbn [fst snd].
      destruct (bytes_eqb u' u) eqn:U; cbn [andb]; [|lia].
      apply bytes_eqb_eq in U. subst u'.
      destruct (bytes_eqb tok EGLD) eqn:T; cbn [andb]; [|lia].
      apply bytes_eqb_eq in T. subst tok. destruct (N.eqb_spec nonce 0) as [->|]; lia.
    - apply credit_esdts_spec.
  Qed.

  (* the callback of the repaired code *)
  Theorem callback_spec self g p ok rets g' ev :
    callback true self g p ok rets = (g', ev) ->
    let h := gp_hash p in
    gv_operator g' = gv_operator g /\
    (* credits: exactly the attached payments, to the dispatching caller, only on failure *)
    (forall u tok nonce, refund_of g' u tok nonce = refund_of (if ok then g else credit_failure g (gp_caller p) (gp_pay p)) u tok nonce) /\
    match gp_kind p with
    | PTimeLock =>
        gv_approvals g' = gv_approvals g /\ gv_op_flight g' = gv_op_flight g /\
        getN (gv_tl_flight g') h = 0 /\
        (forall h', h' <> h -> getN (gv_eta g') h' = getN (gv_eta g) h' /\ getN (gv_tl_flight g') h' = getN (gv_tl_flight g) h') /\
        getN (gv_eta g') h = (if ok then getN (gv_eta g) h
                              else if getN (gv_tl_flight g) h =? 0 then getN (gv_eta g) h else gp_eta p)
    | POperator =>
        gv_eta g' = gv_eta g /\ gv_tl_flight g' = gv_tl_flight g /\
        getN (gv_op_flight g') h = 0 /\
        (forall h', h' <> h -> getN (gv_approvals g') h' = getN (gv_approvals g) h' /\ getN (gv_op_flight g') h' = getN (gv_op_flight g) h') /\
        getN (gv_approvals g') h = (if ok then getN (gv_approvals g) h
                                    else if getN (gv_op_flight g) h =? 0 then getN (gv_approvals g) h else 1)
    end.
  Proof.
    unfold callback. cbv zeta. destruct (gp_kind p); destruct ok; intro R; inversion R; subst; clear R.
    - cbn [gv_operator gv_eta gv_tl_flight gv_approvals gv_op_flight gv_refunds set_tlf upd].
      split; [reflexivity|]. split; [reflexivity|]. split; [reflexivity|]. split; [reflexivity|].
      rewrite getN_aset, bytes_eqb_refl. split; [reflexivity|]. split; [|reflexivity].
      intros h' Hne. rewrite getN_aset. apply bytes_eqb_neq in Hne. rewrite Hne. auto.
    - set (g1 := credit_failure g (gp_caller p) (gp_pay p)).
      assert (F : gv_eta g1 = gv_eta g /\ gv_tl_flight g1 = gv_tl_flight g /\ gv_approvals g1 = gv_approvals g /\
                  gv_op_flight g1 = gv_op_flight g /\ gv_operator g1 = gv_operator g).
      { subst g1. unfold credit_failure. destruct (cv_esdt (gp_pay p)); [repeat split | apply credit_esdts_frame]. }
      destruct F as (F1 & F2 & F3 & F4 & F5).
      destruct (N.eqb_spec (getN (gv_tl_flight g1) (gp_hash p)) 0) as [Z|NZ].
      + rewrite F2 in Z. rewrite Z. cbn [N.eqb]. rewrite F1, F2, F3, F4, F5.
        split; [reflexivity|]. split; [reflexivity|]. split; [reflexivity|]. split; [reflexivity|]. split; [exact Z|]. split; [auto | reflexivity].
      + rewrite F2 in NZ. destruct (N.eqb_spec (getN (gv_tl_flight g) (gp_hash p)) 0) as [|_]; [contradiction|].
        cbn [gv_operator gv_eta gv_tl_flight gv_approvals gv_op_flight gv_refunds set_tlf set_eta upd].
        rewrite F1, F2, F3, F4, F5. rewrite !getN_aset, bytes_eqb_refl.
        split; [reflexivity|]. split; [reflexivity|]. split; [reflexivity|]. split; [reflexivity|]. split; [reflexivity|]. split; [|reflexivity].
        intros h' Hne. rewrite !getN_aset. apply bytes_eqb_neq in Hne. rewrite Hne. auto.
    - cbn [gv_operator gv_eta gv_tl_flight gv_approvals gv_op_flight gv_refunds set_opf upd].
      split; [reflexivity|]. split; [reflexivity|]. split; [reflexivity|]. split; [reflexivity|].
      rewrite getN_aset, bytes_eqb_refl. split; [reflexivity|]. split; [|reflexivity].
      intros h' Hne. rewrite getN_aset. apply bytes_eqb_neq in Hne. rewrite Hne. auto.
    - set (g1 := credit_failure g (gp_caller p) (gp_pay p)).
      assert (F : gv_eta g1 = gv_eta g /\ gv_tl_flight g1 = gv_tl_flight g /\ gv_approvals g1 = gv_approvals g /\
                  gv_op_flight g1 = gv_op_flight g /\ gv_operator g1 = gv_operator g).
      { subst g1. unfold credit_failure. destruct (cv_esdt (gp_pay p)); [repeat split | apply credit_esdts_frame]. }
      destruct F as (F1 & F2 & F3 & F4 & F5).
      destruct (N.eqb_spec (getN (gv_op_flight g1) (gp_hash p)) 0) as [Z|NZ].
      + rewrite F4 in Z. rewrite Z. cbn [N.eqb]. rewrite F1, F2, F3, F4, F5.
        split; [reflexivity|]. split; [reflexivity|]. split; [reflexivity|]. split; [reflexivity|]. split; [exact Z|]. split; [auto | reflexivity].
      + rewrite F4 in NZ. destruct (N.eqb_spec (getN (gv_op_flight g) (gp_hash p)) 0) as [|_]; [contradiction|].
        cbn [gv_operator gv_eta gv_tl_flight gv_approvals gv_op_flight gv_refunds set_opf set_app upd].
        rewrite F1, F2, F3, F4, F5. rewrite !getN_aset, bytes_eqb_refl.
        split; [reflexivity|]. split; [reflexivity|]. split; [reflexivity|]. split; [reflexivity|]. split; [reflexivity|]. split; [|reflexivity].
        intros h' Hne. rewrite !getN_aset. apply bytes_eqb_neq in Hne. rewrite Hne. auto.
  Qed.
End P.
