(* C08, world level: at any time there is at most ONE delivery in flight per inbound message, and while it is in
   flight the message's lock is set.  Invariant over every operation of the ITS world (all callers, all schedules). *)
From Coq Require Import String List NArith Lia Bool.
From Ax Require Import Lib.Bytes Lib.Mvx Lib.SolAbi Lib.Keccak Model.Check Model.Env Model.Gateway Model.TokenManager Model.Its
     Proofs.AListFacts Proofs.GatewayMsgs Proofs.TMFacts Proofs.ItsFacts Proofs.ItsWorld.
Import ListNotations.
Open Scope N_scope.

(* ---------- order-preserving sublists ---------- *)
Inductive subl {A : Type} : list A -> list A -> Prop :=
| subl_nil : subl [] []
| subl_skip x l m : subl l m -> subl l (x :: m)
| subl_keep x l m : subl l m -> subl (x :: l) (x :: m).

Lemma subl_refl {A} (l : list A) : subl l l.
Proof. induction l; constructor; assumption. Qed.
Lemma subl_in {A} (l m : list A) : subl l m -> forall x, In x l -> In x m.
Proof. induction 1; intros y Hy; [exact Hy | right; auto | destruct Hy as [->|Hy]; [left; reflexivity | right; auto]]. Qed.
Lemma subl_trans {A} (a b c : list A) : subl a b -> subl b c -> subl a c.
Proof.
  intros Hab Hbc. revert a Hab. induction Hbc as [|x l m Hlm IH|x l m Hlm IH]; intros a Hab.
  - exact Hab.
  - constructor. apply IH. exact Hab.
  - inversion Hab; subst; [constructor; apply IH; assumption | constructor; apply IH; assumption].
Qed.
Lemma subl_nodup {A} (l m : list A) : subl l m -> NoDup m -> NoDup l.
Proof.
  induction 1 as [|x l m Hlm IH|x l m Hlm IH]; intro N; [constructor | inversion N; auto |].
  inversion N as [|? ? Hx Hm]; subst. constructor; [|auto]. intro Hin. apply Hx. eapply subl_in; eauto.
Qed.

Lemma subl_app_skip {A} (x l m : list A) : subl l m -> subl l (x ++ m).
Proof. intro S. induction x; cbn [app]; [exact S | constructor; assumption]. Qed.
Lemma subl_app_keep {A} (x l m : list A) : subl l m -> subl (x ++ l) (x ++ m).
Proof. intro S. induction x; cbn [app]; [exact S | constructor; assumption]. Qed.

(* ---------- the (source chain, message id) keys of the deliveries in flight ---------- *)
Definition tkey (p : ipend) : list (bytes * bytes) :=
  match ip_kind p with PTransfer chain id _ _ _ _ _ _ _ _ _ => [(chain, id)] | _ => [] end.
Definition tkeys (ps : list ipend) : list (bytes * bytes) := flat_map tkey ps.

Lemma tkeys_app a b : tkeys (a ++ b) = tkeys a ++ tkeys b.
Proof. unfold tkeys. apply flat_map_app. Qed.

Lemma tkeys_remove id ps : subl (tkeys (remove_ip id ps)) (tkeys ps).
Proof.
  induction ps as [|p r IH]; cbn [remove_ip]; [constructor|].
  change (tkeys (p :: r)) with (tkey p ++ tkeys r).
  destruct (ip_id p =? id).
  - apply subl_app_skip. exact IH.
  - change (tkeys (p :: remove_ip id r)) with (tkey p ++ tkeys (remove_ip id r)). apply subl_app_keep. exact IH.
Qed.

Lemma tkeys_replace q ps : (forall p, In p ps -> ip_id p = ip_id q -> ip_kind p = ip_kind q) -> tkeys (replace_ip q ps) = tkeys ps.
Proof.
  induction ps as [|p r IH]; intro Hk; cbn [replace_ip]; [reflexivity|].
  destruct (ip_id p =? ip_id q) eqn:E.
  - apply N.eqb_eq in E. change (tkeys (q :: r)) with (tkey q ++ tkeys r). change (tkeys (p :: r)) with (tkey p ++ tkeys r).
    unfold tkey. rewrite (Hk p (or_introl eq_refl) E). reflexivity.
  - change (tkeys (p :: replace_ip q r)) with (tkey p ++ tkeys (replace_ip q r)). change (tkeys (p :: r)) with (tkey p ++ tkeys r).
    f_equal. apply IH. intros p' Hp'. apply Hk. right. exact Hp'.
Qed.

(* removing the entry of an in-flight delivery removes its key, when keys are not duplicated *)
Lemma nodup_app_r {A} (x l : list A) : NoDup (x ++ l) -> NoDup l.
Proof. induction x; cbn [app]; intro N; [exact N | inversion N; auto]. Qed.
Lemma nodup_app_disj {A} (x l : list A) k : NoDup (x ++ l) -> In k x -> In k l -> False.
Proof.
  induction x as [|a x IH]; cbn [app]; intros N Hx Hl; [destruct Hx|].
  inversion N as [|? ? Ha Hn]; subst. destruct Hx as [->|Hx]; [apply Ha; apply in_or_app; right; exact Hl | eapply IH; eauto].
Qed.

Lemma tkeys_remove_key id ps p k : In p ps -> ip_id p = id -> tkey p = [k] -> NoDup (tkeys ps) -> ~ In k (tkeys (remove_ip id ps)).
Proof.
  induction ps as [|q r IH]; intros Hin Hid Hk N; [destruct Hin|].
  change (tkeys (q :: r)) with (tkey q ++ tkeys r) in N. cbn [remove_ip]. destruct Hin as [->|Hin].
  - rewrite Hid, N.eqb_refl. rewrite Hk in N. cbn [app] in N. inversion N as [|? ? Hx _]; subst.
    intro Hc. apply Hx. eapply subl_in; [apply tkeys_remove | exact Hc].
  - pose proof (nodup_app_r _ _ N) as N2.
    destruct (ip_id q =? id).
    + apply IH; assumption.
    + change (tkeys (q :: remove_ip id r)) with (tkey q ++ tkeys (remove_ip id r)). intro Hc.
      apply in_app_or in Hc as [Hc|Hc]; [|revert Hc; apply IH; assumption].
      assert (Hkr : In k (tkeys r)). { unfold tkeys. apply in_flat_map. exists p. split; [exact Hin | rewrite Hk; left; reflexivity]. }
      eapply nodup_app_disj; eauto.
Qed.

Definition LockInv (w : iworld) : Prop :=
  (forall chain id, In (chain, id) (tkeys (iw_pend w)) -> lock_of (iw_its w) chain id <> 0) /\ NoDup (tkeys (iw_pend w)).

(* frame: the lock table is untouched and no delivery starts *)
Definition fr (w w' : iworld) : Prop :=
  i_locks (iw_its w') = i_locks (iw_its w) /\ subl (tkeys (iw_pend w')) (tkeys (iw_pend w)).
Lemma fr_refl w : fr w w.
Proof. split; [reflexivity | apply subl_refl]. Qed.
Lemma fr_trans a b c : fr a b -> fr b c -> fr a c.
Proof. intros [A1 A2] [B1 B2]. split; [congruence | eapply subl_trans; eauto]. Qed.
Lemma fr_same w w' : iw_its w' = iw_its w -> iw_pend w' = iw_pend w -> fr w w'.
Proof. intros E P. unfold fr. rewrite E, P. split; [reflexivity | apply subl_refl]. Qed.
Lemma fr_inv w w' : fr w w' -> LockInv w -> LockInv w'.
Proof.
  intros [L S] [A N]. split; [|eapply subl_nodup; eauto].
  intros chain id Hin. unfold lock_of. rewrite L. apply A. eapply subl_in; eauto.
Qed.

Section P.
  Variable H : bytes -> bytes.
  Variable verify : bytes -> bytes -> bytes -> bool.

  Lemma fr_push_other w k : tkey {| ip_id := iw_next w; ip_kind := k; ip_stage := IAwaitCall |} = [] -> fr w (w_push w k).
  Proof.
    intro Hk. split; [reflexivity|]. unfold w_push. cbn [iw_pend wset]. rewrite tkeys_app.
    change (tkeys [{| ip_id := iw_next w; ip_kind := k; ip_stage := IAwaitCall |}]) with (tkey {| ip_id := iw_next w; ip_kind := k; ip_stage := IAwaitCall |} ++ []).
    rewrite Hk, app_nil_r. apply subl_refl.
  Qed.

  Lemma call_contract_fr w c dc da p gt g w' ev : call_contract H w c dc da p gt g = Some (w', ev) -> fr w w'.
  Proof. intro R. apply call_contract_spec in R as (_ & E & _ & _ & P & _). apply fr_same; assumption. Qed.
  Lemma route_message_fr w c d p gt g w' ev : route_message H w c d p gt g = Some (w', ev) -> fr w w'.
  Proof. intro R. apply route_message_spec in R as (dc & da & p' & _ & R). eapply call_contract_fr; eauto. Qed.
  Lemma tm_call_fr w c tma f w' : tm_call w c tma f = Some w' -> fr w w'.
  Proof. unfold tm_call. intro R. inv_some R. destruct p as [[[t' l'] rets] logs]. inversion R; subst. apply fr_same; reflexivity. Qed.
  Lemma call_tm_deploy_token_fr w c id m n s w' : call_tm_deploy_token w c id m n s = Some w' -> fr w w'.
  Proof.
    unfold call_tm_deploy_token. intro R. inv_some R. destruct p as [[[t' l'] rets] logs]. inversion R; subst.
    eapply fr_trans; [|apply fr_push_other; reflexivity]. apply fr_same; reflexivity.
  Qed.
  Lemma gw_validate_fr w c chain id src ph w' b ev : gw_validate H w c chain id src ph = Some (w', b, ev) -> fr w w'.
  Proof. intro V. apply gw_validate_spec in V as (_ & E & _ & _ & P & _). apply fr_same; assumption. Qed.
  Lemma call_tm_give_fr w c token_id dest amount w' tok : call_tm_give w c token_id dest amount = Some (w', tok) -> fr w w'.
  Proof. intro G. apply call_tm_give_its in G as (E & _ & P). apply fr_same; assumption. Qed.
  Lemma call_tm_take_fr w c token_id tok amount w' : call_tm_take w c token_id tok amount = Some w' -> fr w w'.
  Proof. intro G. apply call_tm_take_its in G as (E & _ & P). apply fr_same; assumption. Qed.
  Lemma set_limits_fr items : forall w c w', set_limits w c items = Some w' -> fr w w'.
  Proof.
    induction items as [|[id l] r IH]; intros w c w' R; cbn [set_limits] in R; [inversion R; apply fr_refl|].
    inv_some R. apply IH in R. eapply fr_trans; [eapply tm_call_fr; eauto | exact R].
  Qed.
  Lemma deploy_tm_fr w c token_id ty token operator w' : deploy_tm w c token_id ty token operator = Some w' -> fr w w'.
  Proof. intro D. apply deploy_tm_spec in D as (_ & _ & t & ev & _ & ->). split; [reflexivity | apply subl_refl]. Qed.

  Lemma fr_wits w s : i_locks s = i_locks (iw_its w) -> fr w (w_its w s).
  Proof. intro E. split; [exact E | apply subl_refl]. Qed.
  Lemma fr_wled w l : fr w (w_led_ w l).
  Proof. apply fr_same; reflexivity. Qed.
  Lemma fr_wtm w a t : fr w (w_tm w a t).
  Proof. apply fr_same; reflexivity. Qed.

  Ltac frs :=
    repeat match goal with
    | Hx : call_contract _ _ _ _ _ _ _ _ = Some _ |- _ => apply call_contract_fr in Hx
    | Hx : route_message _ _ _ _ _ _ _ = Some _ |- _ => apply route_message_fr in Hx
    | Hx : tm_call _ _ _ _ = Some _ |- _ => apply tm_call_fr in Hx
    | Hx : call_tm_deploy_token _ _ _ _ _ _ = Some _ |- _ => apply call_tm_deploy_token_fr in Hx
    | Hx : gw_validate _ _ _ _ _ _ _ = Some _ |- _ => apply gw_validate_fr in Hx
    | Hx : call_tm_give _ _ _ _ _ = Some _ |- _ => apply call_tm_give_fr in Hx
    | Hx : call_tm_take _ _ _ _ _ = Some _ |- _ => apply call_tm_take_fr in Hx
    | Hx : set_limits _ _ _ = Some _ |- _ => apply set_limits_fr in Hx
    | Hx : deploy_tm _ _ _ _ _ _ = Some _ |- _ => apply deploy_tm_fr in Hx
    end.
  Ltac frstep := first
    [ apply fr_refl
    | eassumption
    | match goal with |- fr _ (w_push _ _) => eapply fr_trans; [|apply fr_push_other; reflexivity] end
    | match goal with |- fr _ (w_its _ _) => eapply fr_trans; [|apply fr_wits; reflexivity] end
    | match goal with |- fr _ (w_led_ _ _) => eapply fr_trans; [|apply fr_wled] end
    | match goal with |- fr _ (w_tm _ _ _) => eapply fr_trans; [|apply fr_wtm] end
    | match goal with Hx : fr ?a ?b |- fr _ ?b => eapply fr_trans; [|exact Hx] end ].
  Ltac frgo := frs; repeat frstep.

  Lemma transmit_fr w c t dc da a gt g d w' ev : transmit H w c t dc da a gt g d = Some (w', ev) -> fr w w'.
  Proof. unfold transmit. intro R. inv_some R. frgo. Qed.

  Lemma deploy_token_raw_fr w c ds dest n sy d m e w' ev : deploy_token_raw H w c ds dest n sy d m e = Some (w', ev) -> fr w w'.
  Proof. unfold deploy_token_raw, remote_base. intro R. inv_some R; inversion R; subst; frgo. Qed.

  Lemma process_deploy_fr w c chain id src ph payload w' ev : process_deploy H w c chain id src ph payload = Some (w', ev) -> fr w w'.
  Proof. unfold process_deploy. intro R. inv_some R; inversion R; subst; frgo. Qed.

  Lemma process_link_fr w c payload w' : process_link w c payload = Some w' -> fr w w'.
  Proof. unfold process_link. intro R. inv_some R. frgo. Qed.

  Lemma remote_raw_fr w c ds dc dm w' rets ev : remote_raw H w c ds dc dm = Some (w', rets, ev) -> fr w w'.
  Proof.
    unfold remote_raw. intro R. inv_some R; inversion R; subst.
    - match goal with D : deploy_token_raw _ _ _ _ _ _ _ _ _ _ = Some _ |- _ => apply deploy_token_raw_fr in D; exact D end.
    - frgo.
  Qed.

  Lemma register_custom_raw_fr w c ds tok ty lp w' rets ev : register_custom_raw H w c ds tok ty lp = Some (w', rets, ev) -> fr w w'.
  Proof. unfold register_custom_raw. intro R. inv_some R. inversion R; subst. frgo. Qed.

  Lemma lock_of_set s c i v c' i' : lock_of (set_lock s c i v) c' i' = if pair_eqb (c', i') (c, i) then v else lock_of s c' i'.
  Proof.
    unfold lock_of, set_lock. cbn [i_locks iupd]. rewrite (alookup_aset pair_eqb pair_eqb_spec).
    destruct (pair_eqb (c', i') (c, i)); reflexivity.
  Qed.

  Lemma nodup_snoc {A} (l : list A) k : NoDup l -> ~ In k l -> NoDup (l ++ [k]).
  Proof.
    induction l as [|a l IH]; cbn [app]; intros N Hk; [constructor; [intros []|constructor]|].
    inversion N as [|? ? Ha Hn]; subst. constructor.
    - intro Hin. apply in_app_or in Hin as [Hin|[->|[]]]; [contradiction | apply Hk; left; reflexivity].
    - apply IH; [assumption | intro Hc; apply Hk; right; exact Hc].
  Qed.

  (* starting a delivery: only when the message's lock is free, hence no second delivery of the same message *)
  Lemma start_inv w chain id k : LockInv w -> lock_of (iw_its w) chain id = 0 -> tkey {| ip_id := iw_next w; ip_kind := k; ip_stage := IAwaitCall |} = [(chain, id)] ->
    LockInv (w_push (w_its w (set_lock (iw_its w) chain id 1)) k).
  Proof.
    intros [A N] L0 Hk. unfold LockInv, w_push. cbn [iw_pend iw_its iw_next w_its wset]. rewrite tkeys_app.
    change (tkeys [{| ip_id := iw_next w; ip_kind := k; ip_stage := IAwaitCall |}]) with (tkey {| ip_id := iw_next w; ip_kind := k; ip_stage := IAwaitCall |} ++ []).
    rewrite Hk. cbn [app]. split.
    - intros c i Hin. rewrite lock_of_set. destruct (pair_eqb (c, i) (chain, id)) eqn:E; [discriminate|].
      apply in_app_or in Hin as [Hin|[Hin|[]]]; [apply A; exact Hin|]. inversion Hin; subst. rewrite (proj2 (pair_eqb_spec _ _) eq_refl) in E. discriminate.
    - apply nodup_snoc; [exact N|]. intro Hin. apply (A _ _ Hin). exact L0.
  Qed.

  (* clearing the lock of a message that has no delivery in flight *)
  Lemma clear_inv w chain id : LockInv w -> ~ In (chain, id) (tkeys (iw_pend w)) -> LockInv (w_its w (set_lock (iw_its w) chain id 0)).
  Proof.
    intros [A N] Hn. split; [|exact N]. cbn [iw_pend iw_its w_its wset]. intros c i Hin. rewrite lock_of_set.
    destruct (pair_eqb (c, i) (chain, id)) eqn:E; [|apply A; exact Hin]. apply pair_eqb_spec in E. inversion E; subst. contradiction.
  Qed.

  Lemma process_transfer_inv w c orig chain id src ph payload w' ev : LockInv w -> process_transfer H w c orig chain id src ph payload = Some (w', ev) -> LockInv w'.
  Proof.
    intros I R. unfold process_transfer in R. inv_some R; inversion R; subst.
    - eapply fr_inv; [|exact I]. frgo.
    - match goal with G : call_tm_give _ _ _ _ _ = Some (?w1, _) |- _ => apply call_tm_give_fr in G; pose proof (fr_inv _ _ G I) as I1 end.
      apply start_inv; [exact I1 | | reflexivity].
      match goal with L : negb (lock_of _ _ _ =? 0) = false |- _ => apply negb_false_iff in L; apply N.eqb_eq in L; exact L end.
  Qed.

  Lemma its_execute_inv w c chain id src payload w' ev : LockInv w -> its_execute H w c chain id src payload = Some (w', ev) -> LockInv w'.
  Proof.
    intros I R. unfold its_execute in R. inv_some R.
    - eapply process_transfer_inv; eauto.
    - eapply fr_inv; [eapply process_deploy_fr; eauto | exact I].
    - inversion R; subst. eapply fr_inv; [|exact I].
      match goal with L : process_link _ _ _ = Some _ |- _ => apply process_link_fr in L end. frgo.
  Qed.

  Lemma find_ip_in id ps p : find_ip id ps = Some p -> In p ps /\ ip_id p = id.
  Proof.
    induction ps as [|q r IH]; cbn [find_ip]; [discriminate|]. destruct (ip_id q =? id) eqn:E.
    - intro X; inversion X; subst. apply N.eqb_eq in E. split; [left; reflexivity | exact E].
    - intro X. apply IH in X as [A B]. split; [right; exact A | exact B].
  Qed.
  Lemma tkeys_replace_found q ps p : find_ip (ip_id q) ps = Some p -> ip_kind q = ip_kind p -> tkeys (replace_ip q ps) = tkeys ps.
  Proof.
    induction ps as [|a r IH]; cbn [find_ip replace_ip]; [reflexivity|]. destruct (ip_id a =? ip_id q) eqn:E.
    - intros X K. inversion X; subst. change (tkeys (q :: r)) with (tkey q ++ tkeys r). change (tkeys (p :: r)) with (tkey p ++ tkeys r).
      unfold tkey. rewrite K. reflexivity.
    - intros X K. change (tkeys (a :: replace_ip q r)) with (tkey a ++ tkeys (replace_ip q r)). change (tkeys (a :: r)) with (tkey a ++ tkeys r).
      f_equal. apply IH; assumption.
  Qed.

  Lemma fr_remove w id : fr w (w_pend_ w (remove_ip id (iw_pend w))).
  Proof. split; [reflexivity | apply tkeys_remove]. Qed.

  Lemma metadata_callback_fr w c tok gas caller res w' ev : metadata_callback H w c tok gas caller res = Some (w', ev) -> fr w w'.
  Proof. unfold metadata_callback. intro T. inv_some T; try (inversion T; subst); frgo. Qed.
  Lemma remote_callback_fr w c ds dc sym m gas caller res w' ev : remote_callback H w c ds dc sym m gas caller res = Some (w', ev) -> fr w w'.
  Proof.
    unfold remote_callback. intro T. inv_some T; try (inversion T; subst; frgo).
    all: try (apply deploy_token_raw_fr in T; frgo).
  Qed.

  (* THE INVARIANT IS INDUCTIVE over every operation of every caller and every asynchronous step *)
  Theorem istep_lockinv w o : LockInv w -> LockInv (fst (istep H verify w o)).
  Proof.
    intro I0.
    assert (ITX : forall c f, (forall w1 w2 rets ev, LockInv w1 -> f w1 = Some (w2, rets, ev) -> LockInv w2) -> LockInv (fst (itx w c f))).
    { intros c f Hf. unfold itx. destruct (pay_in _ _ _ _) as [l1|]; [|exact I0].
      destruct (f (w_led_ w l1)) as [[[w2 rets] ev]|] eqn:F; [|exact I0]. cbn [fst].
      eapply Hf; [|exact F]. eapply fr_inv; [apply fr_wled | exact I0]. }
    destruct o; cbn [istep]; try (apply ITX; intros w1 w2 rets ev I1 F; unfold norets in F).
    - destruct (gstep H verify (iw_gw w) o) as [g' r]. cbn [fst]. eapply fr_inv; [|exact I0]. apply fr_same; reflexivity.
    - destruct (its_execute H w1 c chain id src payload) as [[w3 ev3]|] eqn:X; inversion F; subst. eapply its_execute_inv; eauto.
    - destruct (interchain_transfer H w1 c token_id dest_chain dest_addr metadata gas) as [[w3 ev3]|] eqn:X; inversion F; subst.
      unfold interchain_transfer in X. inv_some X. apply transmit_fr in X. eapply fr_inv; [|exact I1]. frgo.
    - destruct (call_contract_with_token H w1 c token_id dest_chain dest_addr data gas) as [[w3 ev3]|] eqn:X; inversion F; subst.
      unfold call_contract_with_token in X. inv_some X. apply transmit_fr in X. eapply fr_inv; [|exact I1]. frgo.
    - destruct (register_token_metadata w1 c token) as [[w3 ev3]|] eqn:X; inversion F; subst.
      unfold register_token_metadata in X. inv_some X. inversion X; subst. eapply fr_inv; [|exact I1]. frgo.
    - unfold deploy_interchain_token_ep in F. inv_some F; inversion F; subst; eapply fr_inv; try exact I1.
      all: try (match goal with D : deploy_token_raw _ _ _ _ _ _ _ _ _ _ = Some _ |- _ => apply deploy_token_raw_fr in D end).
      all: frgo.
    - destruct (approve_remote H w1 c deployer salt dest_chain dest_minter) as [[w3 ev3]|] eqn:X; inversion F; subst.
      apply approve_remote_spec in X as (_ & _ & ->). eapply fr_inv; [|exact I1]. frgo.
    - destruct (revoke_remote H w1 c deployer salt dest_chain) as [[w3 ev3]|] eqn:X; inversion F; subst.
      apply revoke_remote_spec in X. subst. eapply fr_inv; [|exact I1]. frgo.
    - unfold deploy_remote_with_minter in F. inv_some F; apply remote_raw_fr in F; eapply fr_inv; try exact I1; frgo.
    - unfold register_canonical in F. inv_some F. apply register_custom_raw_fr in F. eapply fr_inv; eauto.
    - unfold deploy_remote_canonical in F. inv_some F. apply remote_raw_fr in F. eapply fr_inv; eauto.
    - unfold register_custom_token in F. inv_some F. apply register_custom_raw_fr in F. eapply fr_inv; eauto.
    - unfold link_token in F. inv_some F. inversion F; subst. eapply fr_inv; [|exact I1]. frgo.
    - destruct (set_flow_limits w1 c ids limits) as [[w3 ev3]|] eqn:X; inversion F; subst.
      unfold set_flow_limits in X. inv_some X. inversion X; subst. eapply fr_inv; [|exact I1]. frgo.
    - destruct (set_trusted_address w1 c chain a) as [[w3 ev3]|] eqn:X; inversion F; subst.
      unfold set_trusted_address in X. inv_some X. inversion X; subst. eapply fr_inv; [|exact I1]. frgo.
    - destruct (remove_trusted_address w1 c chain) as [[w3 ev3]|] eqn:X; inversion F; subst.
      unfold remove_trusted_address in X. inv_some X. inversion X; subst. eapply fr_inv; [|exact I1]. frgo.
    - destruct (pause_ep w1 c b) as [[w3 ev3]|] eqn:X; inversion F; subst.
      apply pause_spec in X as (_ & -> & _). eapply fr_inv; [|exact I1]. frgo.
    - destruct (its_transfer_operatorship w1 c a) as [[w3 ev3]|] eqn:X; inversion F; subst.
      unfold its_transfer_operatorship in X. inv_some X. inversion X; subst. eapply fr_inv; [|exact I1]. frgo.
    - destruct (its_propose_operatorship w1 c a) as [[w3 ev3]|] eqn:X; inversion F; subst.
      unfold its_propose_operatorship in X. inv_some X. inversion X; subst. eapply fr_inv; [|exact I1]. frgo.
    - destruct (its_accept_operatorship w1 c from) as [[w3 ev3]|] eqn:X; inversion F; subst.
      unfold its_accept_operatorship in X. inv_some X. inversion X; subst. eapply fr_inv; [|exact I1]. frgo.
    - (* direct call into a token manager *)
      destruct (get_tm w tma) as [t|]; [|exact I0].
      destruct o; try exact I0; destruct (tstep t (iw_led w) _) as [[t' l'] out]; cbn [fst]; try solve [eapply fr_inv; [|exact I0]; frgo].
      destruct (to_ok out); (eapply fr_inv; [|exact I0]); frgo.
    - (* destination call delivered *)
      destruct (find_ip id (iw_pend w)) as [p|] eqn:Fp; [|exact I0].
      destruct (ip_kind p) eqn:K; try exact I0. destruct (ip_stage p); try exact I0.
      destruct (if ok then _ else _) as [l'|]; [|exact I0]. cbn [fst].
      eapply fr_inv; [|exact I0]. split; [reflexivity|]. cbn [iw_pend w_pend_ w_led_ wset].
      rewrite (tkeys_replace_found _ _ p); [apply subl_refl | exact Fp | cbn [ip_kind]; symmetry; exact K].
    - (* callback of a delivery *)
      destruct (find_ip id (iw_pend w)) as [p|] eqn:Fp; [|exact I0].
      destruct (ip_kind p) eqn:K; try exact I0. destruct (ip_stage p) as [|ok]; try exact I0.
      apply find_ip_in in Fp as [Hin Hid].
      assert (I1 : LockInv (w_pend_ w (remove_ip id (iw_pend w)))) by (eapply fr_inv; [apply fr_remove | exact I0]).
      assert (Hn : ~ In (chain, id0) (tkeys (iw_pend (w_pend_ w (remove_ip id (iw_pend w)))))).
      { cbn [iw_pend w_pend_ wset]. eapply tkeys_remove_key; [exact Hin | exact Hid | unfold tkey; rewrite K; reflexivity | apply I0]. }
      destruct (transfer_callback H _ c chain id0 src ph token_id tok amount ok) as [[w1 ev1]|] eqn:T; cbn [fst]; [|exact I1].
      pose proof (clear_inv _ chain id0 I1 Hn) as I2.
      unfold transfer_callback in T. destruct ok; inv_some T; inversion T; subst; (eapply fr_inv; [|exact I2]); frgo.
    - (* lookup result *)
      destruct (find_ip id (iw_pend w)) as [p|]; [|exact I0].
      assert (I1 : LockInv (w_pend_ w (remove_ip id (iw_pend w)))) by (eapply fr_inv; [apply fr_remove | exact I0]).
      destruct (ip_kind p); try exact I0.
      + destruct (metadata_callback H _ c tok gas caller res) as [[w1 ev1]|] eqn:T; cbn [fst]; [|exact I1].
        apply metadata_callback_fr in T. eapply fr_inv; eauto.
      + destruct (remote_callback H _ c deploy_salt dest_chain symbol minter gas caller res) as [[w1 ev1]|] eqn:T; cbn [fst]; [|exact I1].
        apply remote_callback_fr in T. eapply fr_inv; eauto.
    - (* issuance result *)
      destruct (find_ip id (iw_pend w)) as [p|]; [|exact I0].
      destruct (ip_kind p); try exact I0. destruct (get_tm w tm) as [t|]; [|exact I0].
      destruct (tstep t (iw_led w) _) as [[t' l'] out]. cbn [fst].
      eapply fr_inv; [|exact I0]. split; [reflexivity | cbn [iw_pend w_pend_ w_led_ w_tm wset]; apply tkeys_remove].
  Qed.

  Theorem irun_lockinv ops : forall w, LockInv w -> LockInv (irun H verify w ops).
  Proof.
    induction ops as [|o r IH]; intros w I; [exact I|].
    change (irun H verify w (o :: r)) with (irun H verify (fst (istep H verify w o)) r). apply IH. apply istep_lockinv. exact I.
  Qed.
End P.
