(* C10: custody, mint authority and role transfers of the token manager model. *)
From Coq Require Import String Ascii.
From Coq Require Import List Arith NArith Lia Bool.
From Coq Require Import Init.Byte Strings.Byte.
From Ax Require Import Lib.Bytes Lib.Mvx Model.Check Model.Env Model.TokenManager Proofs.AListFacts.
Import ListNotations.
Open Scope N_scope.

(* ---------- ledger ---------- *)
Lemma bal_set_bal l a t v a' t' : bal (set_bal l a t v) a' t' = if pair_eqb (a', t') (a, t) then v else bal l a' t'.
Proof. unfold bal, set_bal. rewrite (alookup_aset pair_eqb pair_eqb_spec). destruct (pair_eqb (a', t') (a, t)); reflexivity. Qed.

Lemma bal_credit l a t v a' t' : bal (credit l a t v) a' t' = if pair_eqb (a', t') (a, t) then bal l a t + v else bal l a' t'.
Proof. unfold credit. apply bal_set_bal. Qed.

Lemma debit_spec l a t v l' : debit l a t v = Some l' ->
  v <= bal l a t /\ forall a' t', bal l' a' t' = if pair_eqb (a', t') (a, t) then bal l a t - v else bal l a' t'.
Proof.
  unfold debit. destruct (N.leb_spec v (bal l a t)); [|discriminate]. intro E; inversion E; subst.
  split; [assumption|]. intros. apply bal_set_bal.
Qed.

Lemma pair_eqb_refl p : pair_eqb p p = true.
Proof. apply pair_eqb_spec. reflexivity. Qed.

Lemma pair_eqb_false a t a' t' : (a', t') <> (a, t) -> pair_eqb (a', t') (a, t) = false.
Proof. intro H. destruct (pair_eqb (a', t') (a, t)) eqn:E; [apply pair_eqb_spec in E; contradiction | reflexivity]. Qed.

(* a transfer between two different accounts moves exactly v *)
Theorem transfer_spec l from to t v l' : transfer l from to t v = Some l' -> from <> to ->
  v <= bal l from t /\ bal l' from t = bal l from t - v /\ bal l' to t = bal l to t + v /\
  (forall a t', (a, t') <> (from, t) -> (a, t') <> (to, t) -> bal l' a t' = bal l a t').
Proof.
  unfold transfer. destruct (debit l from t v) as [l1|] eqn:D; [|discriminate]. intros E Hne; inversion E; subst; clear E.
  apply debit_spec in D as [Hle D]. split; [exact Hle|].
  split; [|split].
  - rewrite bal_credit, pair_eqb_false by congruence. rewrite D, pair_eqb_refl. reflexivity.
  - rewrite bal_credit, pair_eqb_refl. rewrite D, pair_eqb_false by congruence. reflexivity.
  - intros a t' N1 N2. rewrite bal_credit, pair_eqb_false by assumption. rewrite D, pair_eqb_false by assumption. reflexivity.
Qed.

(* a transfer to oneself changes nothing observable *)
Theorem transfer_self l a t v l' : transfer l a a t v = Some l' -> forall a' t', bal l' a' t' = bal l a' t'.
Proof.
  unfold transfer. destruct (debit l a t v) as [l1|] eqn:D; [|discriminate]. intro E; inversion E; subst; clear E.
  apply debit_spec in D as [Hle D]. intros a' t'. rewrite bal_credit.
  destruct (pair_eqb (a', t') (a, t)) eqn:P.
  - apply pair_eqb_spec in P. inversion P; subst. rewrite D, pair_eqb_refl. lia.
  - rewrite D, P. reflexivity.
Qed.

(* attached funds never lower the receiver's balance *)
Lemma pay_esdts_mono ps : forall l from to l1 tok, from <> to ->
  pay_esdts l from to ps = Some l1 -> bal l to tok <= bal l1 to tok.
Proof.
  induction ps as [|p r IH]; intros l from to l1 tok Hne E; cbn [pay_esdts] in E.
  - inversion E; subst. lia.
  - destruct (transfer l from to (ltok (ep_token p) (ep_nonce p)) (ep_amount p)) as [l2|] eqn:T; [|discriminate].
    apply IH with (tok := tok) in E; [|exact Hne].
    apply transfer_spec in T as (_ & _ & B & O); [|exact Hne].
    destruct (bytes_dec tok (ltok (ep_token p) (ep_nonce p))) as [->|ne].
    + lia.
    + rewrite O in E; [exact E | congruence | congruence].
Qed.

Lemma pay_in_mono l from to v l1 tok : from <> to -> pay_in l from to v = Some l1 -> bal l to tok <= bal l1 to tok.
Proof.
  intros Hne. unfold pay_in. destruct (cv_esdt v) as [|p r] eqn:E.
  - intro T. apply transfer_spec in T as (_ & _ & B & O); [|exact Hne].
    destruct (bytes_dec tok EGLD) as [->|ne]; [lia|]. rewrite O; [lia | congruence | congruence].
  - destruct (cv_egld v =? 0); [|discriminate]. apply pay_esdts_mono. exact Hne.
Qed.


(* ---------- service only ---------- *)
Theorem give_only_service t l c d a : t_caller c <> tm_service t -> give_token t l c d a = None.
Proof.
  intro H. unfold give_token. destruct (negb _ || negb _); [reflexivity|].
  unfold only_service. apply bytes_eqb_neq in H. rewrite H. reflexivity.
Qed.

Theorem take_only_service t l c : t_caller c <> tm_service t -> take_token t l c = None.
Proof. intro H. unfold take_token, only_service. apply bytes_eqb_neq in H. rewrite H. reflexivity. Qed.

(* ---------- exact custody / supply effect of give and take ---------- *)
Theorem give_lock_effect t l c d a t' l' rets logs :
  is_mint_type (tm_type t) = false -> give_token t l c d a = Some (t', l', rets, logs) ->
  t_caller c = tm_service t /\ tm_token t <> [] /\
  transfer l (t_self c) d (tm_token t) a = Some l' /\ rets = [tm_token t; be_min a].
Proof.
  intros Hty. unfold give_token. destruct (negb _ || negb _); [discriminate|].
  destruct (only_service t c) eqn:S; [|discriminate]. cbn [negb].
  destruct (add_flow_in t (t_now c) a); [|discriminate]. rewrite Hty.
  destruct (bytes_eqb (tm_token t) []) eqn:E; [discriminate|].
  destruct (transfer l (t_self c) d (tm_token t) a) eqn:T; [|discriminate].
  intro R; inversion R; subst. unfold only_service in S. apply bytes_eqb_eq in S. apply bytes_eqb_neq in E. auto.
Qed.

Theorem give_mint_effect t l c d a t' l' rets logs :
  is_mint_type (tm_type t) = true -> give_token t l c d a = Some (t', l', rets, logs) ->
  t_caller c = tm_service t /\ tm_token t <> [] /\ tm_token t <> EGLD /\
  transfer (credit l (t_self c) (tm_token t) a) (t_self c) d (tm_token t) a = Some l' /\ rets = [tm_token t; be_min a].
Proof.
  intros Hty. unfold give_token. destruct (negb _ || negb _); [discriminate|].
  destruct (only_service t c) eqn:S; [|discriminate]. cbn [negb].
  destruct (add_flow_in t (t_now c) a); [|discriminate]. rewrite Hty.
  destruct (bytes_eqb (tm_token t) []) eqn:E; [discriminate|].
  destruct (bytes_eqb (tm_token t) EGLD) eqn:E2; [discriminate|]. cbn [orb].
  destruct (transfer _ (t_self c) d (tm_token t) a) eqn:T; [|discriminate].
  intro R; inversion R; subst. unfold only_service in S. apply bytes_eqb_eq in S. apply bytes_eqb_neq in E. apply bytes_eqb_neq in E2. auto.
Qed.

(* minted-and-given: the manager's own balance is unchanged, the recipient gains exactly the amount *)
Corollary give_mint_balances t l c d a t' l' rets logs :
  is_mint_type (tm_type t) = true -> give_token t l c d a = Some (t', l', rets, logs) -> d <> t_self c ->
  bal l' (t_self c) (tm_token t) = bal l (t_self c) (tm_token t) /\ bal l' d (tm_token t) = bal l d (tm_token t) + a.
Proof.
  intros Hty G Hd. apply give_mint_effect in G as (_ & _ & _ & T & _); [|exact Hty].
  apply transfer_spec in T as (_ & A & B & _); [|congruence].
  rewrite bal_credit, pair_eqb_refl in A. rewrite bal_credit, pair_eqb_false in B by congruence. split; [lia | exact B].
Qed.

Theorem take_lock_effect t l c t' l' rets logs :
  is_mint_type (tm_type t) = false -> take_token t l c = Some (t', l', rets, logs) ->
  t_caller c = tm_service t /\ l' = l /\
  exists amount, egld_or_single_fungible (t_value c) = Some (tm_token t, amount) /\ rets = [be_min amount].
Proof.
  intros Hty. unfold take_token. destruct (only_service t c) eqn:S; [|discriminate]. cbn [negb].
  destruct (egld_or_single_fungible (t_value c)) as [[tok amt]|]; [|discriminate].
  destruct (bytes_eqb tok (tm_token t)) eqn:E; [|discriminate]. cbn [negb].
  destruct (add_flow_out t (t_now c) amt); [|discriminate]. rewrite Hty.
  intro R; inversion R; subst. unfold only_service in S. apply bytes_eqb_eq in S. apply bytes_eqb_eq in E. subst tok. eauto.
Qed.

Theorem take_mint_effect t l c t' l' rets logs :
  is_mint_type (tm_type t) = true -> take_token t l c = Some (t', l', rets, logs) ->
  t_caller c = tm_service t /\
  exists amount, egld_or_single_fungible (t_value c) = Some (tm_token t, amount) /\
                 debit l (t_self c) (tm_token t) amount = Some l' /\ rets = [be_min amount].
Proof.
  intros Hty. unfold take_token. destruct (only_service t c) eqn:S; [|discriminate]. cbn [negb].
  destruct (egld_or_single_fungible (t_value c)) as [[tok amt]|]; [|discriminate].
  destruct (bytes_eqb tok (tm_token t)) eqn:E; [|discriminate]. cbn [negb].
  destruct (add_flow_out t (t_now c) amt); [|discriminate]. rewrite Hty.
  destruct (bytes_eqb tok EGLD); [discriminate|].
  destruct (debit l (t_self c) tok amt) eqn:D; [|discriminate].
  intro R; inversion R; subst. unfold only_service in S. apply bytes_eqb_eq in S. apply bytes_eqb_eq in E. subst tok. eauto.
Qed.

(* ---------- direct mint / burn ---------- *)
Theorem mint_requires t l c a v r : tm_mint t l c a v = Some r ->
  tm_type t = T_NATIVE /\ intersects (roles_of t (t_caller c)) MINTER = true /\ tm_token t <> [].
Proof.
  unfold tm_mint, nonpay. destruct (has_no_value _); [|discriminate].
  destruct (addr_ok a); cbn [negb orb]; [|discriminate].
  destruct (N.eqb_spec (tm_type t) T_NATIVE); cbn [negb orb]; [|discriminate].
  unfold only_role. destruct (intersects _ MINTER); cbn [negb orb]; [|discriminate].
  destruct (bytes_eqb (tm_token t) []) eqn:E; [discriminate|]. intros _. apply bytes_eqb_neq in E. auto.
Qed.

Theorem burn_requires t l c r : tm_burn t l c = Some r ->
  tm_type t = T_NATIVE /\ intersects (roles_of t (t_caller c)) MINTER = true /\ tm_token t <> [].
Proof.
  unfold tm_burn.
  destruct (N.eqb_spec (tm_type t) T_NATIVE); cbn [negb orb]; [|discriminate].
  unfold only_role. destruct (intersects _ MINTER); cbn [negb orb]; [|discriminate].
  destruct (bytes_eqb (tm_token t) []) eqn:E; [discriminate|]. intros _. apply bytes_eqb_neq in E. auto.
Qed.

(* ---------- roles ---------- *)
Lemma roles_of_with_roles t a r a' : roles_of (with_roles t (aset bytes_eqb a r (tm_roles t))) a' = if bytes_eqb a' a then r else roles_of t a'.
Proof. unfold roles_of. cbn [tm_roles with_roles]. rewrite (alookup_aset bytes_eqb bytes_eqb_eq). destruct (bytes_eqb a' a); reflexivity. Qed.

Lemma land_ldiff_same x r : N.land (N.ldiff x r) r = 0.
Proof.
  apply N.bits_inj. intro n. rewrite N.land_spec, N.ldiff_spec, N.bits_0.
  destruct (N.testbit x n), (N.testbit r n); reflexivity.
Qed.

Lemma land_lor_same x r : N.land (N.lor x r) r = r.
Proof.
  apply N.bits_inj. intro n. rewrite N.land_spec, N.lor_spec.
  destruct (N.testbit x n), (N.testbit r n); reflexivity.
Qed.

(* transferring a role takes it away src the old holder and gives it dst the new one *)
Theorem transfer_role_spec self t src dst r t' e :
  transfer_role self t src dst r = Some (t', e) ->
  N.land (roles_of t src) r = r /\
  (src <> dst -> N.land (roles_of t' src) r = 0) /\
  N.land (roles_of t' dst) r = r /\
  (forall a, a <> src -> a <> dst -> roles_of t' a = roles_of t a) /\
  tm_proposed t' = tm_proposed t.
Proof.
  unfold transfer_role. destruct (contains (roles_of t src) r) eqn:C; [|discriminate].
  unfold contains in C. apply N.eqb_eq in C. cbn. intro E; inversion E; subst; clear E.
  split; [exact C|]. split; [|split; [|split]].
  - intro Hne. rewrite roles_of_with_roles. apply bytes_eqb_neq in Hne. rewrite Hne.
    rewrite roles_of_with_roles, bytes_eqb_refl. apply land_ldiff_same.
  - rewrite roles_of_with_roles, bytes_eqb_refl. apply land_lor_same.
  - intros a N1 N2. rewrite roles_of_with_roles. apply bytes_eqb_neq in N2. rewrite N2.
    rewrite roles_of_with_roles. apply bytes_eqb_neq in N1. rewrite N1. reflexivity.
  - reflexivity.
Qed.

(* a proposal is accepted only by the proposed account for exactly the proposed roles, once *)
Theorem accept_role_spec self t src dst r t' e :
  accept_role self t src dst r = Some (t', e) ->
  proposed_of t src dst = r /\ r <> 0 /\ proposed_of t' src dst = 0 /\
  accept_role self t' src dst r = None.
Proof.
  unfold accept_role at 1. destruct (negb (proposed_of t src dst =? 0)) eqn:P1; [|discriminate].
  destruct (N.eqb_spec (proposed_of t src dst) r) as [P2|]; [|discriminate]. cbn [andb].
  intro T. apply transfer_role_spec in T as (_ & _ & _ & _ & TP).
  assert (P0 : proposed_of t' src dst = 0).
  { unfold proposed_of. rewrite TP. cbn [tm_proposed with_proposed]. rewrite (alookup_aset_same pair_eqb pair_eqb_spec). reflexivity. }
  split; [exact P2|]. split.
  - intro Z. subst r. rewrite Z in P1. discriminate.
  - split; [exact P0|]. unfold accept_role. rewrite P0. reflexivity.
Qed.

Theorem accept_wrong_account self t src other r :
  proposed_of t src other = 0 -> accept_role self t src other r = None.
Proof. intro Z. unfold accept_role. rewrite Z. reflexivity. Qed.

(* who may start each role operation *)
Theorem transfer_operatorship_auth t l c a r : transfer_operatorship t l c a = Some r -> intersects (roles_of t (t_caller c)) OPERATOR = true.
Proof. unfold transfer_operatorship, nonpay, only_role. destruct (has_no_value _); [|discriminate]. destruct (addr_ok a); [|discriminate]. destruct (intersects _ _); [reflexivity | discriminate]. Qed.
Theorem transfer_mintership_auth t l c a r : transfer_mintership t l c a = Some r -> intersects (roles_of t (t_caller c)) MINTER = true.
Proof. unfold transfer_mintership, nonpay, only_role. destruct (has_no_value _); [|discriminate]. destruct (addr_ok a); [|discriminate]. destruct (intersects _ _); [reflexivity | discriminate]. Qed.
Theorem flow_limiter_ops_auth t l c a b r :
  (add_flow_limiter t l c a = Some r \/ remove_flow_limiter t l c a = Some r \/ transfer_flow_limiter t l c a b = Some r) ->
  intersects (roles_of t (t_caller c)) OPERATOR = true.
Proof.
  unfold add_flow_limiter, remove_flow_limiter, transfer_flow_limiter, nonpay, only_role.
  destruct (has_no_value _); [|intros [H|[H|H]]; discriminate].
  destruct (intersects _ _); [reflexivity|].
  rewrite !andb_false_r. intros [H|[H|H]]; discriminate.
Qed.

(* operations that never touch the role table *)
Theorem roles_frame t l o :
  match o with
  | TGive _ _ _ | TTake _ | TSetLimit _ _ | TMint _ _ _ | TBurn _ | TIssueCallback _ _ => tm_roles (fst (fst (tstep t l o))) = tm_roles t
  | _ => True
  end.
Proof.
  destruct o as [c d a|c|c v|c a|c a|c f to|c a|c a|c f|c a|c a|c f|c a v|c|c m n s|self result]; try exact I; unfold tstep; cbn [top_ctx run_endpoint].
  6:{ destruct (tm_pending t =? 0); [reflexivity|]. unfold deploy_token_callback. destruct result; [destruct (bytes_eqb (tm_token t) [])|]; reflexivity. }
  all: destruct (pay_in l (t_caller c) (t_self c) (t_value c)) as [l1|]; [|reflexivity].
  - unfold give_token. destruct (negb _ || negb _); [reflexivity|]. destruct (negb (only_service t c)); [reflexivity|].
    unfold add_flow_in. destruct (tm_limit t =? 0).
    + destruct (is_mint_type _); [destruct (_ || _); [reflexivity|] | destruct (bytes_eqb _ _); [reflexivity|]];
        destruct (transfer _ _ _ _ _); reflexivity.
    + destruct (add_flow _ _ _ _); [|reflexivity].
      destruct (is_mint_type _); [destruct (_ || _); [reflexivity|] | destruct (bytes_eqb _ _); [reflexivity|]];
        destruct (transfer _ _ _ _ _); reflexivity.
  - unfold take_token. destruct (negb (only_service t c)); [reflexivity|].
    destruct (egld_or_single_fungible _) as [[tok amt]|]; [|reflexivity].
    destruct (negb _); [reflexivity|]. unfold add_flow_out. destruct (tm_limit t =? 0).
    + destruct (is_mint_type _); [|reflexivity]. destruct (bytes_eqb tok EGLD); [reflexivity|]. destruct (debit _ _ _ _); reflexivity.
    + destruct (add_flow _ _ _ _); [|reflexivity].
      destruct (is_mint_type _); [|reflexivity]. destruct (bytes_eqb tok EGLD); [reflexivity|]. destruct (debit _ _ _ _); reflexivity.
  - unfold set_flow_limit. destruct (negb _); [reflexivity|]. destruct (only_role _ _ _); reflexivity.
  - unfold tm_mint, nonpay. destruct (has_no_value _); [|reflexivity]. destruct (_ || _); [reflexivity|]. destruct (transfer _ _ _ _ _); reflexivity.
  - unfold tm_burn. destruct (_ || _); [reflexivity|]. destruct (egld_or_single_fungible _) as [[tok amt]|]; [|reflexivity].
    destruct (negb _); [reflexivity|]. destruct (debit _ _ _ _); reflexivity.
Qed.

(* once recorded by deployment, the minter role can be granted afresh only by deployInterchainToken,
   which is refused as soon as a token is recorded *)
(* a recorded token is never replaced by an issuance callback *)
Theorem callback_keeps_recorded_token t self result : tm_token t <> [] -> tm_token (fst (deploy_token_callback t self result)) = tm_token t.
Proof.
  intro H. unfold deploy_token_callback. destruct result as [tok|]; [|reflexivity].
  apply bytes_eqb_neq in H. rewrite H. reflexivity.
Qed.

Theorem deploy_refused_when_token_set t l c m n s : tm_token t <> [] -> deploy_interchain_token t l c m n s = None.
Proof.
  intro H. unfold deploy_interchain_token. destruct (negb (has_no_esdt _)); [reflexivity|].
  apply bytes_eqb_neq in H. rewrite H. cbn. rewrite orb_true_r. reflexivity.
Qed.
