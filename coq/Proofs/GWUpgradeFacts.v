(* The gateway's upgrade path (Model/GWUpgrade.v): what an upgrade can and cannot change, and the history theorems of C01 / C02 / C03
   for histories that mix the seven endpoint operations with upgrade transactions in any order. *)
From Coq Require Import String Ascii.
From Coq Require Import List Arith NArith Lia Bool.
From Coq Require Import Init.Byte Strings.Byte.
From Ax Require Import Lib.Bytes Lib.Mvx Model.Gateway Model.GatewayCheck Model.GWUpgrade Proofs.AListFacts Proofs.GatewayMsgs Proofs.GatewayAuth.
Import ListNotations.
Open Scope N_scope.

Section P.
  Variable H : bytes -> bytes.
  Variable verify : bytes -> bytes -> bytes -> bool.

  (* ---------------- a list of rotations without proof and without delay ---------------- *)
  Definition registered (g : gw) (h : bytes) (e : N) : Prop := alookup bytes_eqb h (g_epoch_by_hash g) = Some e.

  Lemma rotate_raw_registered_mono g now w enf g' ev h e :
    rotate_raw H g now w enf = Some (g', ev) -> registered g h e -> registered g' h e.
  Proof.
    unfold registered. intros R L. apply rotate_raw_inv in R as (_ & _ & Hfresh & -> & _). cbn [g_epoch_by_hash].
    rewrite (alookup_aset bytes_eqb bytes_eqb_eq). destruct (bytes_eqb h (signers_hash H w)) eqn:Eh; [|exact L].
    apply bytes_eqb_eq in Eh. subst. congruence.
  Qed.

  Lemma rotate_all_registered_mono ws : forall g now g' ev h e,
    rotate_all H g now ws = Some (g', ev) -> registered g h e -> registered g' h e.
  Proof.
    induction ws as [|w r IH]; intros g now g' ev h e R L; cbn [rotate_all] in R.
    - inversion R; subst. exact L.
    - destruct (rotate_raw H g now w false) as [[g1 ev1]|] eqn:R1; [|discriminate].
      destruct (rotate_all H g1 now r) as [[g2 ev2]|] eqn:R2; [|discriminate].
      inversion R; subst. eapply IH; [exact R2|]. eapply rotate_raw_registered_mono; eauto.
  Qed.

  (* everything a successful list of rotations does: nothing but the signer tables, the epoch and the rotation time moves; the epoch
     advances by exactly the number of sets; every set passed `validate_signers`, was not registered when its turn came (in
     particular not before the call), and is registered afterwards at an epoch above the old one *)
  Lemma rotate_all_spec ws : forall g now g' ev,
    rotate_all H g now ws = Some (g', ev) ->
    g_messages g' = g_messages g /\ g_retention g' = g_retention g /\ g_domain g' = g_domain g /\
    g_min_delay g' = g_min_delay g /\ g_operator g' = g_operator g /\
    g_epoch g' = g_epoch g + N.of_nat (length ws) /\
    (ws <> [] -> g_last_rot g' = now) /\ (ws = [] -> g' = g) /\
    Forall (fun w => validate_signers w = true /\
                     alookup bytes_eqb (signers_hash H w) (g_epoch_by_hash g) = None /\
                     exists e, g_epoch g < e <= g_epoch g' /\ registered g' (signers_hash H w) e) ws.
  Proof.
    induction ws as [|w r IH]; intros g now g' ev R; cbn [rotate_all] in R.
    - inversion R; subst. repeat split; try reflexivity; try (cbn; lia); try congruence. constructor.
    - destruct (rotate_raw H g now w false) as [[g1 ev1]|] eqn:R1; [|discriminate].
      destruct (rotate_all H g1 now r) as [[g2 ev2]|] eqn:R2; [|discriminate].
      inversion R; subst g' ev. clear R.
      pose proof (rotate_raw_inv H g now w false g1 ev1 R1) as (V & _ & Hfresh & Eg1 & _).
      destruct (IH g1 now g2 ev2 R2) as (M & Rt & D & Md & O & Ep & Lr & _ & F).
      assert (E1 : g_epoch g1 = g_epoch g + 1) by (rewrite Eg1; reflexivity).
      assert (Reg1 : registered g1 (signers_hash H w) (g_epoch g + 1)).
      { unfold registered. rewrite Eg1. cbn [g_epoch_by_hash]. apply (alookup_aset_same bytes_eqb bytes_eqb_eq). }
      split; [rewrite M, Eg1; reflexivity|]. split; [rewrite Rt, Eg1; reflexivity|]. split; [rewrite D, Eg1; reflexivity|].
      split; [rewrite Md, Eg1; reflexivity|]. split; [rewrite O, Eg1; reflexivity|].
      split; [rewrite Ep, E1; cbn [length]; lia|].
      split; [intros _; destruct r as [|w2 r2]; [cbn [rotate_all] in R2; inversion R2; subst g2; rewrite Eg1; reflexivity | apply Lr; discriminate]|].
      split; [discriminate|].
      constructor.
      + split; [exact V|]. split; [exact Hfresh|]. exists (g_epoch g + 1). split; [rewrite Ep, E1; lia|].
        eapply rotate_all_registered_mono; eauto.
      + rewrite Forall_forall in F. apply Forall_forall. intros w' Hin. destruct (F w' Hin) as (V' & Fr' & e & Be & Re).
        split; [exact V'|]. split.
        * rewrite Eg1 in Fr'. cbn [g_epoch_by_hash] in Fr'. rewrite (alookup_aset bytes_eqb bytes_eqb_eq) in Fr'.
          destruct (bytes_eqb (signers_hash H w') (signers_hash H w)); [discriminate | exact Fr'].
        * exists e. split; [lia | exact Re].
  Qed.

  (* ---------------- one upgrade transaction ---------------- *)
  Lemma upgrade_inv g now op srs g' ev :
    gw_upgrade H g now op srs = Some (g', ev) ->
    length op = 32%nat /\
    exists ws ev2, decode_sets srs = Some ws /\
      rotate_all H (if bytes_eqb op zero_addr then g else set_operator g op) now ws = Some (g', ev2) /\
      ev = (if bytes_eqb op zero_addr then [] else [ev_operatorship op]) ++ ev2.
  Proof.
    unfold gw_upgrade. destruct (Nat.eqb (length op) 32) eqn:L; cbn [negb]; [|discriminate].
    apply Nat.eqb_eq in L. intro U. split; [exact L|].
    destruct (decode_sets srs) as [ws|]; [|destruct (bytes_eqb op zero_addr); discriminate].
    destruct (bytes_eqb op zero_addr).
    - destruct (rotate_all H g now ws) as [[g2 ev2]|] eqn:R; [|discriminate]. inversion U; subst. eauto.
    - destruct (rotate_all H (set_operator g op) now ws) as [[g2 ev2]|] eqn:R; [|discriminate]. inversion U; subst. eauto.
  Qed.

  (* what an accepted upgrade does -- and all it does *)
  Theorem upgrade_spec g now op srs g' ev :
    gw_upgrade H g now op srs = Some (g', ev) ->
    exists ws, decode_sets srs = Some ws /\
      g_messages g' = g_messages g /\ g_retention g' = g_retention g /\ g_domain g' = g_domain g /\ g_min_delay g' = g_min_delay g /\
      g_operator g' = (if bytes_eqb op zero_addr then g_operator g else op) /\
      g_epoch g' = g_epoch g + N.of_nat (length ws) /\
      (ws <> [] -> g_last_rot g' = now) /\ (ws = [] -> g_last_rot g' = g_last_rot g /\ g_hash_by_epoch g' = g_hash_by_epoch g /\ g_epoch_by_hash g' = g_epoch_by_hash g) /\
      Forall (fun w => validate_signers w = true /\
                       alookup bytes_eqb (signers_hash H w) (g_epoch_by_hash g) = None /\
                       exists e, g_epoch g < e <= g_epoch g' /\ registered g' (signers_hash H w) e) ws.
  Proof.
    intro U. apply upgrade_inv in U as (_ & ws & ev2 & D & R & _). exists ws. split; [exact D|].
    apply rotate_all_spec in R as (M & Rt & Dm & Md & O & Ep & Lr & Nil & F).
    assert (NilS : ws = [] -> g_last_rot g' = g_last_rot g /\ g_hash_by_epoch g' = g_hash_by_epoch g /\ g_epoch_by_hash g' = g_epoch_by_hash g).
    { intro E. rewrite (Nil E). destruct (bytes_eqb op zero_addr); cbn; auto. }
    destruct (bytes_eqb op zero_addr); cbn in *;
      (split; [exact M|]); (split; [exact Rt|]); (split; [exact Dm|]); (split; [exact Md|]); (split; [exact O|]);
      (split; [exact Ep|]); (split; [exact Lr|]); (split; [exact NilS | exact F]).
  Qed.

  Lemma upgrade_Inv g now op srs g' ev : Inv g -> gw_upgrade H g now op srs = Some (g', ev) -> Inv g'.
  Proof.
    intros I U. apply upgrade_inv in U as (_ & ws & ev2 & _ & R & _).
    eapply rotate_all_Inv; [|exact R]. destruct (bytes_eqb op zero_addr); [exact I | apply Inv_set_operator; exact I].
  Qed.

  Lemma upgrade_registered_mono g now op srs g' ev h e :
    gw_upgrade H g now op srs = Some (g', ev) -> registered g h e -> registered g' h e.
  Proof.
    intros U L. apply upgrade_inv in U as (_ & ws & ev2 & _ & R & _).
    eapply rotate_all_registered_mono; [exact R|]. destruct (bytes_eqb op zero_addr); exact L.
  Qed.

  Lemma upgrade_messages g now op srs g' ev : gw_upgrade H g now op srs = Some (g', ev) -> g_messages g' = g_messages g.
  Proof. intro U. apply upgrade_spec in U as (ws & _ & M & _). exact M. Qed.

  (* a malformed, or an already registered, set anywhere in the list refuses the whole upgrade (operator change included) *)
  Theorem upgrade_rejects g now op srs ws w :
    decode_sets srs = Some ws -> In w ws ->
    validate_signers w = false \/ (exists e, registered g (signers_hash H w) e) ->
    gw_upgrade H g now op srs = None.
  Proof.
    intros D Hin Bad. destruct (gw_upgrade H g now op srs) as [[g' ev]|] eqn:U; [|reflexivity]. exfalso.
    apply upgrade_spec in U as (ws' & D' & _ & _ & _ & _ & _ & _ & _ & _ & F). rewrite D in D'. inversion D'; subst ws'.
    rewrite Forall_forall in F. destruct (F w Hin) as (V & Fr & _). destruct Bad as [B|[e B]]; [congruence|]. unfold registered in B. congruence.
  Qed.

  (* ---------------- histories mixing endpoint operations and upgrades ---------------- *)
  Lemma ugrun_cons g o r : ugrun H verify g (o :: r) = ugrun H verify (fst (ugstep H verify g o)) r.
  Proof. reflexivity. Qed.

  Theorem ugstep_Inv g o : Inv g -> Inv (fst (ugstep H verify g o)).
  Proof.
    intro I. destruct o as [o|[c op srs]]; cbn [ugstep].
    - apply gstep_Inv. exact I.
    - destruct (gw_upgrade H g (c_now c) op srs) as [[g' ev]|] eqn:U; cbn [fst]; [|exact I]. eapply upgrade_Inv; eauto.
  Qed.

  Theorem ugrun_Inv g ops : Inv g -> Inv (ugrun H verify g ops).
  Proof. revert g; induction ops as [|o r IH]; intros g I; [exact I|]. rewrite ugrun_cons. apply IH. apply ugstep_Inv. exact I. Qed.

  Theorem ugstep_registered_mono g o h e : registered g h e -> registered (fst (ugstep H verify g o)) h e.
  Proof.
    intro L. destruct o as [o|[c op srs]]; cbn [ugstep].
    - apply gstep_registered_mono. exact L.
    - destruct (gw_upgrade H g (c_now c) op srs) as [[g' ev]|] eqn:U; cbn [fst]; [|exact L]. eapply upgrade_registered_mono; eauto.
  Qed.

  Theorem ugrun_registered_mono g ops h e : registered g h e -> registered (ugrun H verify g ops) h e.
  Proof. revert g; induction ops as [|o r IH]; intros g L; [exact L|]. rewrite ugrun_cons. apply IH. apply ugstep_registered_mono. exact L. Qed.

  Theorem ugstep_mono g o k : step_mono_at g (fst (ugstep H verify g o)) k.
  Proof.
    destruct o as [o|[c op srs]]; cbn [ugstep].
    - apply gstep_mono.
    - apply step_mono_refl. destruct (gw_upgrade H g (c_now c) op srs) as [[g' ev]|] eqn:U; cbn [fst]; [|reflexivity].
      unfold mst. rewrite (upgrade_messages _ _ _ _ _ _ U). reflexivity.
  Qed.

  Theorem ugrun_executed_final g ops k : mst g k = Some MExecuted -> mst (ugrun H verify g ops) k = Some MExecuted.
  Proof.
    revert g; induction ops as [|o r IH]; intros g E; [exact E|].
    rewrite ugrun_cons. apply IH. pose proof (ugstep_mono g o k) as M. unfold step_mono_at in M. rewrite E in M. exact M.
  Qed.

  Theorem ugrun_approved_stays g ops k h : mst g k = Some (MApproved h) ->
    mst (ugrun H verify g ops) k = Some (MApproved h) \/ mst (ugrun H verify g ops) k = Some MExecuted.
  Proof.
    revert g; induction ops as [|o r IH]; intros g E; [left; exact E|].
    rewrite ugrun_cons. pose proof (ugstep_mono g o k) as M. unfold step_mono_at in M. rewrite E in M.
    destruct M as [M|M]; [apply IH; exact M | right; apply ugrun_executed_final; exact M].
  Qed.

  (* validation returns true at most once per id -- along histories with upgrades *)
  Definition uvalidates_true (g : gw) (o : gop + gupg) (k : bytes * bytes) : bool :=
    match o with inl o' => validates_true H g o' k | inr _ => false end.
  Fixpoint ucount_true (g : gw) (ops : list (gop + gupg)) (k : bytes * bytes) : nat :=
    match ops with
    | [] => 0
    | o :: r => (if uvalidates_true g o k then 1 else 0) + ucount_true (fst (ugstep H verify g o)) r k
    end.

  Lemma ucount_true_executed g ops k : mst g k = Some MExecuted -> ucount_true g ops k = 0%nat.
  Proof.
    revert g; induction ops as [|o r IH]; intros g E; [reflexivity|].
    cbn [ucount_true].
    assert (uvalidates_true g o k = false) as ->.
    { destruct o as [o|u]; [|reflexivity]. cbn [uvalidates_true]. apply (executed_never_validates H verify). exact E. }
    rewrite IH; [reflexivity|].
    pose proof (ugstep_mono g o k) as M. unfold step_mono_at in M. rewrite E in M. exact M.
  Qed.

  Theorem uvalidate_at_most_once g ops k : (ucount_true g ops k <= 1)%nat.
  Proof.
    revert g; induction ops as [|o r IH]; intros g; [cbn; lia|].
    cbn [ucount_true]. destruct (uvalidates_true g o k) eqn:V.
    - destruct o as [o|u]; [|discriminate]. cbn [uvalidates_true] in V.
      apply (validates_true_executes H verify) in V as [E _].
      assert (E' : mst (fst (ugstep H verify g (inl o))) k = Some MExecuted) by exact E.
      rewrite (ucount_true_executed _ r k E'). lia.
    - specialize (IH (fst (ugstep H verify g o))). lia.
  Qed.

  (* an upgrade never creates an approval: a message that is not known before an upgrade is not known after it *)
  Theorem upgrade_approves_nothing g c op srs k : mst (fst (ugstep H verify g (inr (GUpgrade c op srs)))) k = mst g k.
  Proof.
    cbn [ugstep]. destruct (gw_upgrade H g (c_now c) op srs) as [[g' ev]|] eqn:U; cbn [fst]; [|reflexivity].
    unfold mst. rewrite (upgrade_messages _ _ _ _ _ _ U). reflexivity.
  Qed.

  (* operatorship: only transferOperatorship called by the operator or the owner, or an upgrade transaction (which the protocol
     accepts from the owner only) naming a non-zero operator *)
  Theorem operator_changes_with_upgrades g o :
    g_operator (fst (ugstep H verify g o)) <> g_operator g ->
    (exists c a, o = inl (GTransferOp c a) /\ (c_caller c = g_operator g \/ c_caller c = c_owner c) /\
                 a <> zero_addr /\ g_operator (fst (ugstep H verify g o)) = a) \/
    (exists c a srs, o = inr (GUpgrade c a srs) /\ a <> zero_addr /\ length a = 32%nat /\ g_operator (fst (ugstep H verify g o)) = a).
  Proof.
    destruct o as [o|[c op srs]]; cbn [ugstep].
    - intro Hne. left. destruct (operator_changes_only_by_transfer H verify g o Hne) as (c & a & -> & A & B & C). exists c, a. auto.
    - destruct (gw_upgrade H g (c_now c) op srs) as [[g' ev]|] eqn:U; cbn [fst]; [|congruence].
      intro Hne. right. exists c, op, srs. pose proof (upgrade_inv _ _ _ _ _ _ U) as (L & _).
      apply upgrade_spec in U as (ws & _ & _ & _ & _ & _ & O & _).
      destruct (bytes_eqb op zero_addr) eqn:Z; [congruence|]. split; [reflexivity|]. split; [apply bytes_eqb_neq; exact Z|]. split; [exact L | exact O].
  Qed.

  (* the deployment configuration bound into every proof never changes: not by any endpoint, not by an upgrade *)
  Lemma gstep_keeps_settings g o :
    let g' := fst (gstep H verify g o) in
    g_retention g' = g_retention g /\ g_domain g' = g_domain g /\ g_min_delay g' = g_min_delay g.
  Proof.
    destruct o as [c m p|c s p|c chain id src ph|c a|c chain addr payload|c chain id src contract ph|c chain id]; cbn [gstep].
    - destruct (approve_messages H verify g m p) as [[g' ev]|] eqn:E; cbn [fst]; [|auto].
      apply approve_messages_inv in E as (pr & ms & _ & _ & _ & _ & E).
      assert (g' = fst (approve_all H g ms)) as -> by (rewrite <- E; reflexivity).
      destruct (approve_all_config H g ms) as (_ & _ & _ & _ & E5 & E6 & E7 & _). auto.
    - destruct (rotate_signers H verify g c s p) as [[g' ev]|] eqn:E; cbn [fst]; [|auto].
      apply rotate_signers_inv in E as (pr & w & l & _ & _ & _ & _ & _ & R).
      apply rotate_raw_inv in R as (_ & _ & _ & -> & _). cbn. auto.
    - destruct (validate_message H g c chain id src ph) as [[[g' b] ev]|] eqn:E; cbn [fst]; [|auto].
      apply validate_message_inv in E as (_ & _ & Ht & Hf). destruct b.
      + destruct (Ht eq_refl) as [-> _]. cbn. auto.
      + destruct (Hf eq_refl) as [-> _]. auto.
    - destruct (transfer_operatorship g c a) as [[g' ev]|] eqn:E; cbn [fst]; [|auto].
      unfold transfer_operatorship in E. destruct (negb _ || _); [discriminate|].
      destruct (_ || _); [|discriminate]. destruct (bytes_eqb a zero_addr); [discriminate|]. inversion E; subst. cbn. auto.
    - cbn. auto.
    - destruct (is_message_approved H g chain id src contract ph); cbn; auto.
    - cbn. auto.
  Qed.

  Theorem ugrun_keeps_settings g ops :
    let g' := ugrun H verify g ops in
    g_retention g' = g_retention g /\ g_domain g' = g_domain g /\ g_min_delay g' = g_min_delay g.
  Proof.
    revert g; induction ops as [|o r IH]; intros g; [cbn; auto|]. cbn zeta. rewrite ugrun_cons.
    destruct (IH (fst (ugstep H verify g o))) as (A & B & C). rewrite A, B, C. clear IH A B C.
    destruct o as [o|[c op srs]]; cbn [ugstep].
    - apply gstep_keeps_settings.
    - destruct (gw_upgrade H g (c_now c) op srs) as [[g' ev]|] eqn:U; cbn [fst]; [|auto].
      apply upgrade_spec in U as (ws & _ & _ & A & B & C & _). auto.
  Qed.

  (* the epoch only grows, by one per accepted rotation and by the number of sets per accepted upgrade: in particular an
     upgrade cannot rejuvenate a set that left the retention window *)
  Theorem ugstep_epoch_mono g o : g_epoch g <= g_epoch (fst (ugstep H verify g o)).
  Proof.
    destruct o as [o|[c op srs]]; cbn [ugstep].
    - destruct o as [c m p|c s p|c chain id src ph|c a|c chain addr payload|c chain id src contract ph|c chain id]; cbn [gstep].
      + destruct (approve_messages H verify g m p) as [[g' ev]|] eqn:E; cbn [fst]; [|lia].
        apply approve_messages_inv in E as (pr & ms & _ & _ & _ & _ & E).
        assert (g' = fst (approve_all H g ms)) as -> by (rewrite <- E; reflexivity).
        destruct (approve_all_config H g ms) as (E1 & _). lia.
      + destruct (rotate_signers H verify g c s p) as [[g' ev]|] eqn:E; cbn [fst]; [|lia].
        apply rotate_signers_inv in E as (pr & w & l & _ & _ & _ & _ & _ & R).
        apply rotate_raw_inv in R as (_ & _ & _ & -> & _). cbn. lia.
      + destruct (validate_message H g c chain id src ph) as [[[g' b] ev]|] eqn:E; cbn [fst]; [|lia].
        apply validate_message_inv in E as (_ & _ & Ht & Hf). destruct b.
        * destruct (Ht eq_refl) as [-> _]. cbn. lia.
        * destruct (Hf eq_refl) as [-> _]. lia.
      + destruct (transfer_operatorship g c a) as [[g' ev]|] eqn:E; cbn [fst]; [|lia].
        unfold transfer_operatorship in E. destruct (negb _ || _); [discriminate|].
        destruct (_ || _); [|discriminate]. destruct (bytes_eqb a zero_addr); [discriminate|]. inversion E; subst. cbn. lia.
      + cbn. lia.
      + destruct (is_message_approved H g chain id src contract ph); cbn; lia.
      + cbn. lia.
    - destruct (gw_upgrade H g (c_now c) op srs) as [[g' ev]|] eqn:U; cbn [fst]; [|lia].
      apply upgrade_spec in U as (ws & _ & _ & _ & _ & _ & _ & Ep & _). lia.
  Qed.
End P.
