(* The custody equation of the token service, for every synchronous endpoint (C17 / C05 / C08 at the level
   of the ITS world): after the transaction — attached payments included — the service's balance of ANY
   ledger token x has changed by exactly what the pending work created by that transaction holds:

       bal' S x + Held(pending before) = bal S x + Held(pending after)

   where a pending token-properties lookup (metadata registration, remote deployment) holds the EGLD attached
   for cross-chain gas, and a delivery in flight holds the transfer amount until it is delivered.  A
   transaction that creates no pending work therefore leaves the service with none of the attached value.
   Hypotheses: address separation (the service is neither the caller, nor the gas service, nor a token
   manager, nor the address a new manager is deployed at), no EGLD-000000 alias among the payments, and an
   inbound transfer WITHOUT data does not name the service itself as recipient. *)
From Coq Require Import String List NArith Lia Bool.
From Ax Require Import Lib.Bytes Lib.Mvx Lib.SolAbi Model.Check Model.Env Model.Gateway Model.TokenManager Model.Its
     Proofs.TMFacts Proofs.ItsOutbound.
Import ListNotations.
Open Scope N_scope.

Definition bx (t x : bytes) (v : N) : N := if bytes_eqb t x then v else 0.

(* frames of the token-manager calls the service makes *)
Lemma give_token_bal t l c d a t' l' rets logs S x : give_token t l c d a = Some (t', l', rets, logs) -> S <> t_self c ->
  (d <> S -> bal l' S x = bal l S x) /\ (d = S -> bal l' S x = bal l S x + bx (tm_token t) x a) /\
  rets = [tm_token t; be_min a].
Proof.
  unfold give_token. destruct (negb _ || negb _); [discriminate|]. destruct (negb (only_service t c)); [discriminate|].
  destruct (add_flow_in t (t_now c) a) as [t1|]; [|discriminate].
  intros R ne.
  assert (K : forall l0, (forall y, bal l0 S y = bal l S y) -> transfer l0 (t_self c) d (tm_token t) a = Some l' ->
              (d <> S -> bal l' S x = bal l S x) /\ (d = S -> bal l' S x = bal l S x + bx (tm_token t) x a)).
  { intros l0 E T. destruct (bytes_dec (t_self c) d) as [Eq|nd].
    - subst d. split; [|congruence]. intros _. rewrite (transfer_self _ _ _ _ _ T). apply E.
    - apply (transfer_bal _ _ _ _ _ _ x nd) in T as (_ & _ & T3 & T4). unfold bx. split.
      + intro n. rewrite T4; [apply E | congruence | congruence].
      + intros ->. rewrite T3, E. reflexivity. }
  destruct (is_mint_type (tm_type t)).
  - destruct (bytes_eqb (tm_token t) [] || bytes_eqb (tm_token t) EGLD); [discriminate|].
    destruct (transfer (credit l (t_self c) (tm_token t) a) (t_self c) d (tm_token t) a) as [l2|] eqn:T; [|discriminate].
    inversion R; subst.
    assert (E : forall y, bal (credit l (t_self c) (tm_token t) a) S y = bal l S y).
    { intro y. rewrite bal_credit. rewrite pair_eqb_false; [reflexivity|]. intro Q. inversion Q. congruence. }
    destruct (K _ E T). auto.
  - destruct (bytes_eqb (tm_token t) []); [discriminate|].
    destruct (transfer l (t_self c) d (tm_token t) a) as [l2|] eqn:T; [|discriminate].
    inversion R; subst. destruct (K _ (fun y => eq_refl) T). auto.
Qed.

Lemma wrap_led l r t' l' rets logs : wrap l r = Some (t', l', rets, logs) -> l' = l.
Proof. unfold wrap. destruct r as [[t e]|]; intro R; inversion R; reflexivity. Qed.
Lemma nonpay_inv c r v : nonpay c r = Some v -> r = Some v.
Proof. unfold nonpay. destruct (has_no_value (t_value c)); [auto | discriminate]. Qed.

Lemma tm_mint_bal t l c a amount t' l' rets logs S x : tm_mint t l c a amount = Some (t', l', rets, logs) ->
  S <> t_self c -> S <> a -> bal l' S x = bal l S x.
Proof.
  intros R n1 n2. apply nonpay_inv in R. destruct (_ || _ || _ || _); [discriminate|].
  destruct (transfer (credit l (t_self c) (tm_token t) amount) (t_self c) a (tm_token t) amount) as [l2|] eqn:T; [|discriminate].
  inversion R; subst.
  destruct (bytes_dec (t_self c) a) as [Eq|nd].
  - rewrite (transfer_self _ _ _ _ _ (eq_rect _ (fun z => transfer _ _ z _ _ = _) T _ (eq_sym Eq))).
    rewrite bal_credit, pair_eqb_false by congruence. reflexivity.
  - apply (transfer_bal _ _ _ _ _ _ x nd) in T as (_ & _ & _ & T4). rewrite T4 by congruence.
    rewrite bal_credit, pair_eqb_false by congruence. reflexivity.
Qed.

Section Custody.
  Variable H : bytes -> bytes.
  Variable verify : bytes -> bytes -> bytes -> bool.
  Variable S : bytes.       (* the token service *)
  Variable x : bytes.       (* any ledger token *)

  Definition sb (w : iworld) : N := bal (iw_led w) S x.

  (* what a piece of pending work holds in the service *)
  Definition held (p : ipend) : N :=
    match ip_kind p with
    | PMetadata _ gas _ => bx EGLD x gas
    | PRemote _ _ _ _ gas _ _ => bx EGLD x gas
    | PTransfer _ _ _ _ _ tok amount _ _ _ _ => match ip_stage p with IAwaitCallback true => 0 | _ => bx tok x amount end
    | PIssue _ => 0
    end.
  Fixpoint Held (ps : list ipend) : N := match ps with [] => 0 | p :: r => held p + Held r end.
  Definition HP (w : iworld) : N := Held (iw_pend w).

  Lemma Held_app a b : Held (a ++ b) = Held a + Held b.
  Proof. induction a as [|p r IH]; cbn [app Held]; [reflexivity | rewrite IH; lia]. Qed.

  Lemma HP_push w k : HP (w_push w k) = HP w + held {| ip_id := iw_next w; ip_kind := k; ip_stage := IAwaitCall |}.
  Proof. unfold HP, w_push. cbn [iw_pend wset]. rewrite Held_app. cbn [Held]. lia. Qed.

  (* address separation *)
  Definition sep (w : iworld) (c : ictx) : Prop :=
    ic_self c = S /\ ic_caller c <> S /\ i_gas (iw_its w) <> S /\ (forall tid, tm_addr (iw_its w) tid <> S) /\ ic_newtm c <> S.

  (* ---------- helpers ---------- *)
  Lemma call_contract_c w c dc da p gt g w' ev : call_contract H w c dc da p gt g = Some (w', ev) ->
    ic_self c = S -> i_gas (iw_its w) <> S ->
    sb w' + bx gt x g = sb w /\ iw_pend w' = iw_pend w /\ iw_its w' = iw_its w.
  Proof.
    intros R Es ng. pose proof R as R2. apply (call_contract_bal H _ _ _ _ _ _ _ _ _ x) in R2 as (A & B); [|congruence].
    unfold sb, bx. rewrite <- Es. split; [lia|].
    unfold call_contract in R. cbv zeta in R. destruct (bytes_eqb da []); [discriminate|].
    destruct (if g =? 0 then _ else _) as [[l' e]|]; inversion R; subst. split; reflexivity.
  Qed.

  Lemma route_message_c w c d p gt g w' ev : route_message H w c d p gt g = Some (w', ev) ->
    ic_self c = S -> i_gas (iw_its w) <> S ->
    sb w' + bx gt x g = sb w /\ iw_pend w' = iw_pend w /\ iw_its w' = iw_its w.
  Proof.
    unfold route_message. destruct (route_out (iw_its w) d p) as [[[dc da] p']|]; [|discriminate]. apply call_contract_c.
  Qed.

  Lemma call_tm_give_c w c tid dest amt w' tok : call_tm_give w c tid dest amt = Some (w', tok) ->
    ic_self c = S -> tm_addr (iw_its w) tid <> S ->
    iw_pend w' = iw_pend w /\ iw_its w' = iw_its w /\ iw_next w' = iw_next w /\
    (dest <> S -> sb w' = sb w) /\ (dest = S -> sb w' = sb w + bx tok x amt).
  Proof.
    unfold call_tm_give. cbv zeta. destruct (bytes_eqb (tm_addr (iw_its w) tid) []); [discriminate|].
    destruct (get_tm w (tm_addr (iw_its w) tid)) as [t|]; [|discriminate].
    destruct (give_token t (iw_led w) (tm_ctx c (tm_addr (iw_its w) tid) no_value) dest amt) as [[[[t' l'] rets] logs]|] eqn:G; [|discriminate].
    intros R Es nt. inversion R; subst; clear R. cbn [iw_pend iw_its iw_next iw_led w_led_ w_tm wset]. unfold sb. cbn [iw_led w_led_ w_tm wset].
    apply (give_token_bal _ _ _ _ _ _ _ _ _ S x) in G as (A & B & _); [|cbn [t_self tm_ctx]; congruence]. auto.
  Qed.

  Lemma call_tm_take_c w c tid tok amt w' : call_tm_take w c tid tok amt = Some w' ->
    ic_self c = S -> tm_addr (iw_its w) tid <> S ->
    sb w' + bx tok x amt = sb w /\ iw_pend w' = iw_pend w /\ iw_its w' = iw_its w /\ iw_next w' = iw_next w.
  Proof.
    intros R Es nt. pose proof R as R2. apply (call_tm_take_bal _ _ _ _ _ _ x) in R2 as (A & B & C); [|congruence].
    unfold sb, bx. rewrite <- Es. split; [lia|].
    unfold call_tm_take in R. cbv zeta in R. destruct (bytes_eqb (tm_addr (iw_its w) tid) []); [discriminate|].
    destruct (get_tm w (tm_addr (iw_its w) tid)) as [t|]; [|discriminate].
    destruct (pay_in _ _ _ _) as [l1|]; [|discriminate].
    destruct (take_token _ _ _) as [[[[t' l'] rets] logs]|]; inversion R; subst. repeat split.
  Qed.

  Lemma call_tm_deploy_token_c w c tid m name sym w' : call_tm_deploy_token w c tid m name sym = Some w' ->
    ic_self c = S -> tm_addr (iw_its w) tid <> S ->
    sb w' + bx EGLD x (cv_egld (ic_value c)) = sb w /\ HP w' = HP w /\ iw_its w' = iw_its w.
  Proof.
    unfold call_tm_deploy_token. cbv zeta. destruct (bytes_eqb (tm_addr (iw_its w) tid) []); [discriminate|].
    destruct (get_tm w (tm_addr (iw_its w) tid)) as [t|]; [|discriminate].
    destruct (pay_in (iw_led w) (ic_self c) (tm_addr (iw_its w) tid) _) as [l1|] eqn:P; [|discriminate].
    destruct (deploy_interchain_token t l1 _ m name sym) as [[[[t' l'] rets] logs]|] eqn:D; [|discriminate].
    intros R Es nt. inversion R; subst; clear R.
    rewrite HP_push. cbn [held ip_kind]. unfold HP, sb. cbn [iw_pend iw_its iw_led w_push w_led_ w_tm wset].
    assert (l' = l1).
    { unfold deploy_interchain_token in D. destruct (negb _); [discriminate|]. destruct (negb _ || negb _); [discriminate|].
      destruct (negb _); [discriminate|]. destruct (_ || _); [discriminate|].
      destruct (add_role _ t _ MINTER) as [t1 e1]. destruct (add_role _ t1 _ MINTER) as [t2 e2]. inversion D; reflexivity. }
    subst l'. apply (pay_in_bal _ _ _ _ _ x) in P as (P1 & P2 & _ & _); [|congruence].
    unfold recv in P1, P2. cbn [cv_esdt cv_egld] in P1, P2. unfold bx. rewrite <- Es. split; [lia|]. split; [lia|reflexivity].
  Qed.

  Lemma deploy_tm_c w c tid ty tok op w' : deploy_tm w c tid ty tok op = Some w' ->
    iw_led w' = iw_led w /\ iw_pend w' = iw_pend w.
  Proof.
    unfold deploy_tm. destruct (negb _); [discriminate|]. destruct (negb _ && negb _); [discriminate|].
    destruct (tm_init _ _ _ _ _ _) as [[t e]|]; [|discriminate]. destruct (bytes_eqb (ic_newtm c) []); [discriminate|].
    intro R; inversion R; subst. split; reflexivity.
  Qed.

  Lemma gw_validate_c w c chain id src ph w' b ev : gw_validate H w c chain id src ph = Some (w', b, ev) ->
    iw_led w' = iw_led w /\ iw_pend w' = iw_pend w /\ iw_its w' = iw_its w /\ iw_next w' = iw_next w.
  Proof.
    unfold gw_validate. destruct (validate_message _ _ _ _ _ _ _) as [[[g' b'] e]|]; [|discriminate].
    intro R; inversion R; subst. repeat split.
  Qed.

  (* a role / limit call into a manager: no balance of the service moves *)
  Lemma tm_call_c w c tma f w' : tm_call w c tma f = Some w' ->
    (forall t l cx t' l' rets logs, f t l cx = Some (t', l', rets, logs) -> S <> t_self cx -> bal l' S x = bal l S x) ->
    tma <> S -> sb w' = sb w /\ iw_pend w' = iw_pend w /\ iw_its w' = iw_its w.
  Proof.
    unfold tm_call. destruct (get_tm w tma) as [t|]; [|discriminate].
    destruct (f t (iw_led w) (tm_ctx c tma no_value)) as [[[[t' l'] rets] logs]|] eqn:F; [|discriminate].
    intros R Hf nt. inversion R; subst. unfold sb. cbn [iw_led iw_pend iw_its w_led_ w_tm wset].
    split; [|split; reflexivity]. eapply Hf; [exact F|]. cbn [t_self tm_ctx]. congruence.
  Qed.

  Lemma role_frame (g : tm -> ledger -> tctx -> tres) :
    (forall t l cx r, g t l cx = Some r -> exists r0, Some r = nonpay cx r0 /\ (forall t' l' rets logs, r0 = Some (t', l', rets, logs) -> l' = l)) ->
    forall t l cx t' l' rets logs, g t l cx = Some (t', l', rets, logs) -> S <> t_self cx -> bal l' S x = bal l S x.
  Proof.
    intros Hg t l cx t' l' rets logs G _. destruct (Hg _ _ _ _ G) as (r0 & E & K).
    symmetry in E. apply nonpay_inv in E. rewrite (K _ _ _ _ E). reflexivity.
  Qed.

  (* ---------- the equation for the body of a transaction ---------- *)
  (* Bal d w w': the service's balance moved from w to w' by what new pending work holds, minus an outflow d *)
  Definition Bal (d : N) (w w' : iworld) : Prop := sb w' + HP w + d = sb w + HP w'.

  Lemma bx_0 t : bx t x 0 = 0.  Proof. unfold bx. destruct (bytes_eqb t x); reflexivity. Qed.

  Lemma recv_no_value v : has_no_value v = true -> recv v x = 0.
  Proof.
    unfold has_no_value, has_no_esdt, recv. intro Hv. apply andb_true_iff in Hv as [Z E]. apply N.eqb_eq in Z.
    destruct (cv_esdt v); [|discriminate]. rewrite Z. destruct (bytes_eqb EGLD x); reflexivity.
  Qed.
  Lemma recv_no_esdt v : has_no_esdt v = true -> recv v x = bx EGLD x (cv_egld v).
  Proof. unfold has_no_esdt, recv, bx. destruct (cv_esdt v); [reflexivity|discriminate]. Qed.

  Lemma same_Bal w w' : iw_led w' = iw_led w -> iw_pend w' = iw_pend w -> Bal 0 w w'.
  Proof. unfold Bal, sb, HP. intros -> ->. lia. Qed.

  Ltac inv_some Hx :=
    repeat (match type of Hx with
            | (if ?b then _ else _) = Some _ => let E := fresh "E" in destruct b eqn:E; try discriminate Hx
            | match ?y with _ => _ end = Some _ => let E := fresh "E" in destruct y eqn:E; try discriminate Hx
            end).

  (* owner / operator / approval endpoints: only the service's own tables change *)
  Lemma config_Bal (f : iworld -> option (iworld * list log)) w w' ev :
    f w = Some (w', ev) -> (forall w0 w1 e, f w0 = Some (w1, e) -> exists s', w1 = w_its w0 s') -> Bal 0 w w'.
  Proof. intros F Hf. destruct (Hf _ _ _ F) as (s' & ->). apply same_Bal; reflexivity. Qed.

  Lemma approve_remote_Bal w c d s dc dm w' ev : approve_remote H w c d s dc dm = Some (w', ev) -> Bal 0 w w'.
  Proof. unfold approve_remote. intro R. inv_some R. inversion R; subst. apply same_Bal; reflexivity. Qed.
  Lemma revoke_remote_Bal w c d s dc w' ev : revoke_remote H w c d s dc = Some (w', ev) -> Bal 0 w w'.
  Proof. unfold revoke_remote. intro R. inv_some R. inversion R; subst. apply same_Bal; reflexivity. Qed.
  Lemma set_trusted_Bal w c ch a w' ev : set_trusted_address w c ch a = Some (w', ev) -> Bal 0 w w'.
  Proof. unfold set_trusted_address. intro R. inv_some R. inversion R; subst. apply same_Bal; reflexivity. Qed.
  Lemma remove_trusted_Bal w c ch w' ev : remove_trusted_address w c ch = Some (w', ev) -> Bal 0 w w'.
  Proof. unfold remove_trusted_address. intro R. inv_some R. inversion R; subst. apply same_Bal; reflexivity. Qed.
  Lemma pause_Bal w c b w' ev : pause_ep w c b = Some (w', ev) -> Bal 0 w w'.
  Proof. unfold pause_ep. intro R. inv_some R. inversion R; subst. apply same_Bal; reflexivity. Qed.
  Lemma transfer_op_Bal w c a w' ev : its_transfer_operatorship w c a = Some (w', ev) -> Bal 0 w w'.
  Proof. unfold its_transfer_operatorship. intro R. inv_some R. inversion R; subst. apply same_Bal; reflexivity. Qed.
  Lemma propose_op_Bal w c a w' ev : its_propose_operatorship w c a = Some (w', ev) -> Bal 0 w w'.
  Proof. unfold its_propose_operatorship. intro R. inv_some R. inversion R; subst. apply same_Bal; reflexivity. Qed.
  Lemma accept_op_Bal w c a w' ev : its_accept_operatorship w c a = Some (w', ev) -> Bal 0 w w'.
  Proof. unfold its_accept_operatorship. cbv zeta. intro R. inv_some R. inversion R; subst. apply same_Bal; reflexivity. Qed.

  (* setFlowLimits *)
  Lemma set_limits_Bal c items : forall w w', set_limits w c items = Some w' -> (forall tid, tm_addr (iw_its w) tid <> S) -> Bal 0 w w'.
  Proof.
    induction items as [|[tid lim] r IH]; intros w w' R nt; cbn [set_limits] in R.
    - inversion R; subst. apply same_Bal; reflexivity.
    - destruct (bytes_eqb (tm_addr (iw_its w) tid) []); [discriminate|].
      destruct (tm_call w c (tm_addr (iw_its w) tid) (fun t l cx => set_flow_limit t l cx lim)) as [w1|] eqn:T; [|discriminate].
      apply tm_call_c in T as (A & B & C); [| |apply nt].
      2:{ intros t l cx t' l' rets logs F _. unfold set_flow_limit in F. destruct (negb _); [discriminate|].
          destruct (only_role t cx FLOW_LIMITER); inversion F; reflexivity. }
      apply IH in R; [|rewrite C; exact nt]. unfold Bal, HP in *. rewrite B in R. lia.
  Qed.
  Lemma set_flow_limits_Bal w c ids ls w' ev : set_flow_limits w c ids ls = Some (w', ev) -> (forall tid, tm_addr (iw_its w) tid <> S) -> Bal 0 w w'.
  Proof. unfold set_flow_limits. intros R nt. inv_some R. inversion R; subst. eapply set_limits_Bal; eauto. Qed.

  (* registrations: a new manager, nothing else *)
  Lemma register_custom_raw_Bal w c ds tok ty lp w' rets ev : register_custom_raw H w c ds tok ty lp = Some (w', rets, ev) -> Bal 0 w w'.
  Proof. unfold register_custom_raw. intro R. inv_some R. inversion R; subst. apply deploy_tm_c in E1 as (A & B). apply same_Bal; assumption. Qed.

  (* registerTokenMetadata: the attached EGLD is held for the lookup *)
  Lemma register_metadata_Bal w c tok w' ev : register_token_metadata w c tok = Some (w', ev) -> Bal (recv (ic_value c) x) w w'.
  Proof.
    unfold register_token_metadata. intro R. inv_some R. inversion R; subst. apply negb_false_iff in E.
    unfold Bal. rewrite HP_push, (recv_no_esdt _ E). cbn [held ip_kind]. unfold sb. cbn [iw_led w_push wset]. lia.
  Qed.

  (* deploy_interchain_token_raw with the transaction's own EGLD *)
  Lemma deploy_token_raw_Bal w c ds dest name sym dec m w' ev :
    deploy_token_raw H w c ds dest name sym dec m (cv_egld (ic_value c)) = Some (w', ev) ->
    ic_self c = S -> i_gas (iw_its w) <> S -> (forall tid, tm_addr (iw_its w) tid <> S) ->
    Bal (bx EGLD x (cv_egld (ic_value c))) w w'.
  Proof.
    unfold deploy_token_raw. cbv zeta. intros R Es ng nt. destruct (i_paused (iw_its w)); [discriminate|].
    destruct (bytes_eqb dest []).
    - destruct (bytes_eqb (tm_addr (iw_its w) (token_id_raw H ds)) []).
      + destruct (N.eqb_spec (cv_egld (ic_value c)) 0) as [Z|]; [|discriminate]. cbn [negb] in R.
        destruct (deploy_tm w c _ T_NATIVE None m) as [w1|] eqn:D; [|discriminate]. inversion R; subst.
        apply deploy_tm_c in D as (A & B). rewrite Z, bx_0. apply same_Bal; assumption.
      + destruct (opt_addr m) as [mm|]; [|discriminate].
        destruct (call_tm_deploy_token w c _ mm name sym) as [w1|] eqn:D; [|discriminate]. inversion R; subst.
        apply call_tm_deploy_token_c in D as (A & B & _); [|exact Es|apply nt]. unfold Bal. lia.
    - destruct (bytes_eqb (i_chain (iw_its w)) dest); [discriminate|].
      unfold remote_base in R. destruct (_ || _); [discriminate|]. destruct (bytes_eqb (tm_addr _ _) []); [discriminate|].
      destruct (enc_impl _) as [payload|]; [|discriminate].
      apply route_message_c in R as (A & B & _); [|exact Es|exact ng]. unfold Bal, HP. rewrite B. lia.
  Qed.

  (* remote deployments: EGLD-backed tokens are handled at once, ESDT-backed ones wait for the lookup *)
  Lemma remote_raw_Bal w c ds dc dm w' rets ev : remote_raw H w c ds dc dm = Some (w', rets, ev) ->
    ic_self c = S -> i_gas (iw_its w) <> S -> (forall tid, tm_addr (iw_its w) tid <> S) ->
    Bal (bx EGLD x (cv_egld (ic_value c))) w w'.
  Proof.
    unfold remote_raw. cbv zeta. intros R Es ng nt. destruct (i_paused (iw_its w)); [discriminate|].
    destruct (bytes_eqb (tm_addr (iw_its w) (token_id_raw H ds)) []); [discriminate|].
    destruct (bytes_eqb (tm_token_of w (tm_addr (iw_its w) (token_id_raw H ds))) EGLD).
    - destruct (deploy_token_raw H w c ds dc EGLD EGLD 18 dm (cv_egld (ic_value c))) as [[w1 e1]|] eqn:D; [|discriminate].
      inversion R; subst. eapply deploy_token_raw_Bal; eauto.
    - destruct (Nat.ltb _ 7); [discriminate|]. inversion R; subst.
      unfold Bal. rewrite HP_push. cbn [held ip_kind]. unfold sb. cbn [iw_led w_push wset]. lia.
  Qed.

  Lemma deploy_remote_with_minter_Bal w c salt m dc dm w' rets ev : deploy_remote_with_minter H w c salt m dc dm = Some (w', rets, ev) ->
    ic_self c = S -> i_gas (iw_its w) <> S -> (forall tid, tm_addr (iw_its w) tid <> S) ->
    Bal (recv (ic_value c) x) w w'.
  Proof.
    unfold deploy_remote_with_minter. cbv zeta. intros R Es ng nt.
    destruct (has_no_esdt (ic_value c)) eqn:NE; [|discriminate]. cbn [negb orb] in R. rewrite (recv_no_esdt _ NE).
    destruct (negb (Nat.eqb (length salt) 32) || negb (Nat.eqb (length m) 32)); [discriminate|].
    destruct (negb (bytes_eqb m zero32)).
    - destruct (negb (check_token_minter w c _ m)); [discriminate|].
      destruct dm as [d|].
      + destruct (_ || _); [discriminate|].
        apply remote_raw_Bal in R; [|exact Es|exact ng|exact nt].
        unfold Bal, sb, HP in *. cbn [iw_led iw_pend w_its wset] in R. exact R.
      + eapply remote_raw_Bal; eauto.
    - destruct dm; [discriminate|]. eapply remote_raw_Bal; eauto.
  Qed.

  Lemma deploy_remote_canonical_Bal w c tok dc w' rets ev : deploy_remote_canonical H w c tok dc = Some (w', rets, ev) ->
    ic_self c = S -> i_gas (iw_its w) <> S -> (forall tid, tm_addr (iw_its w) tid <> S) ->
    Bal (recv (ic_value c) x) w w'.
  Proof.
    unfold deploy_remote_canonical. intros R Es ng nt.
    destruct (has_no_esdt (ic_value c)) eqn:NE; [|discriminate]. cbn [negb] in R. rewrite (recv_no_esdt _ NE).
    destruct (negb (valid_token tok)); [discriminate|]. eapply remote_raw_Bal; eauto.
  Qed.

  Lemma link_token_Bal w c salt dc dt ty lp w' rets ev : link_token H w c salt dc dt ty lp = Some (w', rets, ev) ->
    ic_self c = S -> i_gas (iw_its w) <> S -> Bal (recv (ic_value c) x) w w'.
  Proof.
    unfold link_token. cbv zeta. intros R Es ng.
    destruct (has_no_esdt (ic_value c)) eqn:NE; [|discriminate]. cbn [negb orb] in R. rewrite (recv_no_esdt _ NE).
    inv_some R. inversion R; subst.
    match goal with X : route_message _ _ _ _ _ _ _ = Some _ |- _ => apply route_message_c in X as (A & B & _); [|exact Es|exact ng] end.
    unfold Bal, HP. rewrite B. lia.
  Qed.

  (* ---------- local deployment ---------- *)
  Lemma role_call_led (g : tm -> ledger -> tctx -> tres) :
    (forall t l cx v, g t l cx = Some v -> exists r : option (tm * list log), nonpay cx (wrap l r) = Some v \/ (exists b : bool, nonpay cx (if b then wrap l r else None) = Some v)) ->
    forall t l cx t' l' rets logs, g t l cx = Some (t', l', rets, logs) -> S <> t_self cx -> bal l' S x = bal l S x.
  Proof.
    intros Hg t l cx t' l' rets logs G _. destruct (Hg _ _ _ _ G) as (r & [E|(b & E)]); apply nonpay_inv in E.
    - apply wrap_led in E. subst. reflexivity.
    - destruct b; [|discriminate]. apply wrap_led in E. subst. reflexivity.
  Qed.

  Lemma deploy_token_ep_Bal w c salt n sy d sup m w' rets ev : deploy_interchain_token_ep H w c salt n sy d sup m = Some (w', rets, ev) ->
    ic_self c = S -> ic_caller c <> S -> i_gas (iw_its w) <> S -> (forall tid, tm_addr (iw_its w) tid <> S) ->
    Bal (recv (ic_value c) x) w w'.
  Proof.
    unfold deploy_interchain_token_ep. cbv zeta. intros R Es nc ng nt.
    destruct (has_no_esdt (ic_value c)) eqn:NE; [|discriminate]. cbn [negb orb] in R. rewrite (recv_no_esdt _ NE).
    destruct (_ || _ || _); [discriminate|]. destruct (i_paused (iw_its w)); [discriminate|].
    destruct (bytes_eqb m (ic_self c)); [discriminate|]. destruct ((sup =? 0) && bytes_eqb m zero32); [discriminate|].
    set (tid := token_id_raw H (interchain_salt H (iw_its w) (ic_caller c) salt)) in *.
    destruct (bytes_eqb (tm_addr (iw_its w) tid) [] || bytes_eqb (tm_token_of w (tm_addr (iw_its w) tid)) []).
    - destruct (bytes_eqb (tm_addr (iw_its w) tid) [] && negb (cv_egld (ic_value c) =? 0)); [discriminate|].
      assert (Eg : (if bytes_eqb (tm_addr (iw_its w) tid) [] then cv_egld (ic_value c) else cv_egld (ic_value c)) = cv_egld (ic_value c))
        by (destruct (bytes_eqb _ []); reflexivity).
      rewrite Eg in R.
      destruct (deploy_token_raw H w c _ [] n sy d _ (cv_egld (ic_value c))) as [[w1 e1]|] eqn:D; [|discriminate].
      inversion R; subst. eapply deploy_token_raw_Bal; eauto.
    - destruct (N.eqb_spec (cv_egld (ic_value c)) 0) as [Z|]; [|discriminate]. cbn [negb] in R. rewrite Z, bx_0.
      destruct (0 <? sup); [|inversion R; subst; apply same_Bal; reflexivity].
      assert (ntid : tm_addr (iw_its w) tid <> S) by apply nt.
      destruct (tm_call w c _ (fun t l cx => tm_mint t l cx (ic_caller c) sup)) as [w1|] eqn:T1; [|discriminate].
      apply tm_call_c in T1 as (A1 & B1 & C1); [| |exact ntid].
      2:{ intros t l cx t' l' r0 lg0 F ns. eapply tm_mint_bal; eauto. }
      destruct (tm_call w1 c _ (fun t l cx => transfer_mintership t l cx m)) as [w2|] eqn:T2; [|discriminate].
      apply tm_call_c in T2 as (A2 & B2 & C2); [| |exact ntid].
      2:{ apply role_call_led. intros t l cx v G. unfold transfer_mintership in G. eexists. right. eexists. exact G. }
      destruct (tm_call w2 c _ (fun t l cx => remove_flow_limiter t l cx (ic_self c))) as [w3|] eqn:T3; [|discriminate].
      apply tm_call_c in T3 as (A3 & B3 & C3); [| |exact ntid].
      2:{ apply role_call_led. intros t l cx v G. unfold remove_flow_limiter in G. eexists. right. eexists. exact G. }
      destruct (tm_call w3 c _ (fun t l cx => add_flow_limiter t l cx m)) as [w4|] eqn:T4; [|discriminate].
      apply tm_call_c in T4 as (A4 & B4 & C4); [| |exact ntid].
      2:{ apply role_call_led. intros t l cx v G. unfold add_flow_limiter in G. eexists. right. eexists. exact G. }
      destruct (tm_call w4 c _ (fun t l cx => transfer_operatorship t l cx m)) as [w5|] eqn:T5; [|discriminate].
      apply tm_call_c in T5 as (A5 & B5 & C5); [| |exact ntid].
      2:{ apply role_call_led. intros t l cx v G. unfold transfer_operatorship in G. eexists. right. eexists. exact G. }
      inversion R; subst. unfold Bal, HP. rewrite B5, B4, B3, B2, B1. lia.
  Qed.

  (* ---------- outbound transfers ---------- *)
  Lemma transmit_c w c t dc da am gt g d w' ev : transmit H w c t dc da am gt g d = Some (w', ev) ->
    ic_self c = S -> i_gas (iw_its w) <> S -> sb w' + bx gt x g = sb w /\ iw_pend w' = iw_pend w.
  Proof.
    unfold transmit. intros R Es ng. inv_some R.
    apply route_message_c in R as (A & B & _); auto.
  Qed.

  Lemma outbound_Bal w c tid gas tok amount gtok g w1 w' ev dc da d :
    no_egld_alias (ic_value c) -> split_payment (ic_value c) gas = Some (tok, amount, gtok, g) ->
    call_tm_take w c tid tok amount = Some w1 -> transmit H w1 c tid dc da amount gtok g d = Some (w', ev) ->
    ic_self c = S -> i_gas (iw_its w) <> S -> (forall t, tm_addr (iw_its w) t <> S) -> Bal (recv (ic_value c) x) w w'.
  Proof.
    intros NA Sp T X Es ng nt.
    apply (split_payment_recv _ _ _ _ _ _ x NA) in Sp as (-> & Rv).
    apply call_tm_take_c in T as (T1 & T2 & T3 & _); [|exact Es|apply nt].
    apply transmit_c in X as (X1 & X2); [|exact Es|rewrite T3; exact ng].
    unfold Bal, HP, bx in *. rewrite X2, T2, Rv. lia.
  Qed.

  Lemma interchain_transfer_Bal w c tid dc da md gas w' ev : interchain_transfer H w c tid dc da md gas = Some (w', ev) ->
    no_egld_alias (ic_value c) -> ic_self c = S -> i_gas (iw_its w) <> S -> (forall t, tm_addr (iw_its w) t <> S) -> Bal (recv (ic_value c) x) w w'.
  Proof.
    unfold interchain_transfer. intros R NA Es ng nt. destruct (negb _); [discriminate|]. destruct (i_paused _); [discriminate|].
    destruct (split_payment (ic_value c) gas) as [[[[tok amount] gtok] g]|] eqn:Sp; [|discriminate].
    destruct (call_tm_take w c tid tok amount) as [w1|] eqn:T; [|discriminate].
    destruct (decode_metadata md) as [data|]; [|discriminate]. eapply outbound_Bal; eauto.
  Qed.
  Lemma call_contract_with_token_Bal w c tid dc da d gas w' ev : call_contract_with_token H w c tid dc da d gas = Some (w', ev) ->
    no_egld_alias (ic_value c) -> ic_self c = S -> i_gas (iw_its w) <> S -> (forall t, tm_addr (iw_its w) t <> S) -> Bal (recv (ic_value c) x) w w'.
  Proof.
    unfold call_contract_with_token. intros R NA Es ng nt. destruct (negb _); [discriminate|]. destruct (i_paused _); [discriminate|].
    destruct (bytes_eqb d []); [discriminate|].
    destruct (split_payment (ic_value c) gas) as [[[[tok amount] gtok] g]|] eqn:Sp; [|discriminate].
    destruct (call_tm_take w c tid tok amount) as [w1|] eqn:T; [|discriminate]. eapply outbound_Bal; eauto.
  Qed.

  (* ---------- inbound execute ---------- *)
  (* an inbound transfer WITHOUT data does not name the service itself as its recipient *)
  Definition no_gift (w : iworld) (chain payload : bytes) : Prop :=
    forall mt orig p mtv tid osrc dest amount,
      route_in (iw_its w) chain payload = Some (mt, orig, p) ->
      dec_impl [PUint; PBytes32; PBytes; PBytes; PUint; PBytes] p = Some [TUint mtv; TBytes32 tid; TBytes osrc; TBytes dest; TUint amount; TBytes []] ->
      dest <> S.

  Lemma process_transfer_Bal w c orig chain id src ph p w' ev : process_transfer H w c orig chain id src ph p = Some (w', ev) ->
    ic_self c = S -> (forall t, tm_addr (iw_its w) t <> S) ->
    (forall mtv tid osrc dest amount, dec_impl [PUint; PBytes32; PBytes; PBytes; PUint; PBytes] p = Some [TUint mtv; TBytes32 tid; TBytes osrc; TBytes dest; TUint amount; TBytes []] -> dest <> S) ->
    Bal 0 w w'.
  Proof.
    unfold process_transfer. intros R Es nt NG. inv_some R; subst.
    - (* without data *)
      inversion R; subst.
      match goal with V : gw_validate _ _ _ _ _ _ _ = Some _ |- _ => apply gw_validate_c in V as (V1 & V2 & V3 & _) end.
      match goal with G : call_tm_give _ _ _ _ _ = Some _ |- _ => apply call_tm_give_c in G as (G1 & _ & _ & G4 & _); [|exact Es|rewrite V3; apply nt] end.
      unfold Bal, HP, sb in *. rewrite G1, V2. rewrite G4, V1; [lia|].
      match goal with E : bytes_eqb ?d [] = true |- _ => apply bytes_eqb_eq in E; subst d end.
      eapply NG. reflexivity.
    - (* with data: parked in the service, held by the new delivery *)
      inversion R; subst.
      match goal with G : call_tm_give _ _ _ _ _ = Some _ |- _ => apply call_tm_give_c in G as (G1 & _ & _ & _ & G5); [|exact Es|apply nt] end.
      unfold Bal. rewrite HP_push. cbn [held ip_kind ip_stage]. unfold HP, sb in *. cbn [iw_led iw_pend iw_next w_push w_its wset]. rewrite G1, (G5 Es). lia.
  Qed.

  Lemma process_deploy_Bal w c chain id src ph p w' ev : process_deploy H w c chain id src ph p = Some (w', ev) ->
    ic_self c = S -> (forall t, tm_addr (iw_its w) t <> S) -> Bal (bx EGLD x (cv_egld (ic_value c))) w w'.
  Proof.
    unfold process_deploy. intros R Es nt. inv_some R; subst; inversion R; subst.
    - match goal with D : deploy_tm _ _ _ _ _ _ = Some _ |- _ => apply deploy_tm_c in D as (A & B) end.
      match goal with E : negb (cv_egld (ic_value c) =? 0) = false |- _ => apply negb_false_iff, N.eqb_eq in E; rewrite E end.
      rewrite bx_0. apply same_Bal; assumption.
    - match goal with V : gw_validate _ _ _ _ _ _ _ = Some _ |- _ => apply gw_validate_c in V as (V1 & V2 & V3 & _) end.
      match goal with D : call_tm_deploy_token _ _ _ _ _ _ = Some _ |- _ => apply call_tm_deploy_token_c in D as (A & B & _); [|exact Es|rewrite V3; apply nt] end.
      unfold Bal, HP, sb in *. rewrite V1, V2 in *. lia.
  Qed.

  Lemma its_execute_Bal w c chain id src payload w' ev : its_execute H w c chain id src payload = Some (w', ev) ->
    ic_self c = S -> (forall t, tm_addr (iw_its w) t <> S) -> no_gift w chain payload -> Bal (recv (ic_value c) x) w w'.
  Proof.
    unfold its_execute. cbv zeta. intros R Es nt NG.
    destruct (has_no_esdt (ic_value c)) eqn:NE; [|discriminate]. cbn [negb] in R. rewrite (recv_no_esdt _ NE).
    destruct (i_paused (iw_its w)); [discriminate|]. destruct (negb (is_trusted _ _ _)); [discriminate|].
    destruct (route_in (iw_its w) chain payload) as [[[mt orig] p]|] eqn:RI; [|discriminate].
    destruct (mt =? MT_TRANSFER).
    - destruct (N.eqb_spec (cv_egld (ic_value c)) 0) as [Z|]; [|discriminate]. cbn [negb] in R. rewrite Z, bx_0.
      eapply process_transfer_Bal; eauto; intros mtv tid osrc dest amount D; eapply NG; eauto.
    - destruct (mt =? MT_DEPLOY); [eapply process_deploy_Bal; eauto|].
      destruct (mt =? MT_LINK); [|discriminate].
      destruct (N.eqb_spec (cv_egld (ic_value c)) 0) as [Z|]; [|discriminate]. cbn [negb] in R. rewrite Z, bx_0.
      destruct (gw_validate H w c chain id src (H payload)) as [[[w1 b] e1]|] eqn:V; [|discriminate]. destruct b; [|discriminate].
      destruct (process_link w1 c p) as [w2|] eqn:L; [|discriminate]. inversion R; subst.
      apply gw_validate_c in V as (V1 & V2 & _). unfold process_link in L. inv_some L. apply deploy_tm_c in L as (A & B).
      apply same_Bal; congruence.
  Qed.

  (* ---------- every synchronous endpoint of the service ---------- *)
  Definition sync_ctx (o : iop) : option ictx :=
    match o with
    | IExecute c _ _ _ _ | ITransfer c _ _ _ _ _ | ICallContract c _ _ _ _ _ | IRegisterMetadata c _ | IDeployToken c _ _ _ _ _ _
    | IApproveRemote c _ _ _ _ | IRevokeRemote c _ _ _ | IDeployRemote c _ _ _ _ | IRegisterCanonical c _ | IDeployRemoteCanonical c _ _
    | IRegisterCustom c _ _ _ _ | ILinkToken c _ _ _ _ _ | ISetFlowLimits c _ _ | ISetTrusted c _ _ | IRemoveTrusted c _ | IPause c _
    | ITransferOp c _ | IProposeOp c _ | IAcceptOp c _ => Some c
    | _ => None
    end.
  Definition op_no_gift (w : iworld) (o : iop) : Prop :=
    match o with IExecute c chain _ _ payload => no_gift w chain payload | _ => True end.

  Lemma itx_custody w c f : sep w c -> no_egld_alias (ic_value c) ->
    (forall w1 r, iw_its w1 = iw_its w -> f w1 = Some r -> Bal (recv (ic_value c) x) w1 (fst (fst r))) ->
    sb (fst (itx w c f)) + HP w = sb w + HP (fst (itx w c f)).
  Proof.
    intros (Es & nc & _) NA Hf. unfold itx.
    destruct (pay_in (iw_led w) (ic_caller c) (ic_self c) (ic_value c)) as [l1|] eqn:P; [|cbn [fst]; lia].
    destruct (f (w_led_ w l1)) as [[[w' rets] ev]|] eqn:F; [|cbn [fst]; lia]. cbn [fst].
    specialize (Hf (w_led_ w l1) (w', rets, ev) eq_refl F). cbn [fst] in Hf.
    apply (pay_in_bal _ _ _ _ _ x) in P as (_ & _ & P3 & _); [|congruence].
    unfold Bal, sb, HP in *. cbn [iw_led iw_pend w_led_ wset] in Hf. rewrite Es in P3. lia.
  Qed.

  Lemma has_no_value_Bal v w w' : has_no_value v = true -> Bal 0 w w' -> Bal (recv v x) w w'.
  Proof. intros Hv B. rewrite (recv_no_value _ Hv). exact B. Qed.

  Theorem sync_custody w o c : sync_ctx o = Some c -> sep w c -> no_egld_alias (ic_value c) -> op_no_gift w o ->
    sb (fst (istep H verify w o)) + HP w = sb w + HP (fst (istep H verify w o)).
  Proof.
    intros So Sp NA NG. pose proof Sp as (Es & nc & ng & nt & nn).
    destruct o; cbn [sync_ctx] in So; inversion So; subst; clear So; cbn [istep]; apply itx_custody; try assumption;
      intros w1 r Ei F; unfold norets in F;
      assert (ng1 : i_gas (iw_its w1) <> S) by (rewrite Ei; exact ng);
      assert (nt1 : forall t, tm_addr (iw_its w1) t <> S) by (rewrite Ei; exact nt).
    - (* execute *)
      destruct (its_execute H w1 c chain id src payload) as [[w' ev]|] eqn:X; inversion F; subst. cbn [fst].
      eapply its_execute_Bal; eauto. cbn [op_no_gift] in NG. unfold no_gift in *. rewrite Ei. exact NG.
    - destruct (interchain_transfer H w1 c token_id dest_chain dest_addr metadata gas) as [[w' ev]|] eqn:X; inversion F; subst. cbn [fst].
      eapply interchain_transfer_Bal; eauto.
    - destruct (call_contract_with_token H w1 c token_id dest_chain dest_addr data gas) as [[w' ev]|] eqn:X; inversion F; subst. cbn [fst].
      eapply call_contract_with_token_Bal; eauto.
    - destruct (register_token_metadata w1 c token) as [[w' ev]|] eqn:X; inversion F; subst. cbn [fst]. eapply register_metadata_Bal; eauto.
    - destruct r as [[w' rets] ev]. cbn [fst]. eapply deploy_token_ep_Bal; eauto.
    - destruct (approve_remote H w1 c deployer salt dest_chain dest_minter) as [[w' ev]|] eqn:X; inversion F; subst. cbn [fst].
      apply has_no_value_Bal; [|eapply approve_remote_Bal; eauto]. unfold approve_remote in X. destruct (has_no_value (ic_value c)); [reflexivity|discriminate].
    - destruct (revoke_remote H w1 c deployer salt dest_chain) as [[w' ev]|] eqn:X; inversion F; subst. cbn [fst].
      apply has_no_value_Bal; [|eapply revoke_remote_Bal; eauto]. unfold revoke_remote in X. destruct (has_no_value (ic_value c)); [reflexivity|discriminate].
    - destruct r as [[w' rets] ev]. cbn [fst]. eapply deploy_remote_with_minter_Bal; eauto.
    - destruct r as [[w' rets] ev]. cbn [fst]. unfold register_canonical in F.
      destruct (has_no_value (ic_value c)) eqn:V; [|discriminate]. cbn [negb] in F. destruct (negb (valid_token token)); [discriminate|].
      apply has_no_value_Bal; [exact V|]. eapply register_custom_raw_Bal; eauto.
    - destruct r as [[w' rets] ev]. cbn [fst]. eapply deploy_remote_canonical_Bal; eauto.
    - destruct r as [[w' rets] ev]. cbn [fst]. unfold register_custom_token in F.
      destruct (has_no_value (ic_value c)) eqn:V; [|discriminate]. cbn [negb orb] in F. destruct (_ || _ || _); [discriminate|].
      destruct (negb (valid_esdt_id token)); [discriminate|].
      apply has_no_value_Bal; [exact V|]. eapply register_custom_raw_Bal; eauto.
    - destruct r as [[w' rets] ev]. cbn [fst]. eapply link_token_Bal; eauto.
    - destruct (set_flow_limits w1 c ids limits) as [[w' ev]|] eqn:X; inversion F; subst. cbn [fst].
      apply has_no_value_Bal; [|eapply set_flow_limits_Bal; eauto]. unfold set_flow_limits in X. destruct (has_no_value (ic_value c)); [reflexivity|discriminate].
    - destruct (set_trusted_address w1 c chain a) as [[w' ev]|] eqn:X; inversion F; subst. cbn [fst].
      apply has_no_value_Bal; [|eapply set_trusted_Bal; eauto]. unfold set_trusted_address in X. destruct (has_no_value (ic_value c)); [reflexivity|discriminate].
    - destruct (remove_trusted_address w1 c chain) as [[w' ev]|] eqn:X; inversion F; subst. cbn [fst].
      apply has_no_value_Bal; [|eapply remove_trusted_Bal; eauto]. unfold remove_trusted_address in X. destruct (has_no_value (ic_value c)); [reflexivity|discriminate].
    - destruct (pause_ep w1 c b) as [[w' ev]|] eqn:X; inversion F; subst. cbn [fst].
      apply has_no_value_Bal; [|eapply pause_Bal; eauto]. unfold pause_ep in X. destruct (has_no_value (ic_value c)); [reflexivity|discriminate].
    - destruct (its_transfer_operatorship w1 c a) as [[w' ev]|] eqn:X; inversion F; subst. cbn [fst].
      apply has_no_value_Bal; [|eapply transfer_op_Bal; eauto]. unfold its_transfer_operatorship in X. destruct (has_no_value (ic_value c)); [reflexivity|discriminate].
    - destruct (its_propose_operatorship w1 c a) as [[w' ev]|] eqn:X; inversion F; subst. cbn [fst].
      apply has_no_value_Bal; [|eapply propose_op_Bal; eauto]. unfold its_propose_operatorship in X. destruct (has_no_value (ic_value c)); [reflexivity|discriminate].
    - destruct (its_accept_operatorship w1 c from) as [[w' ev]|] eqn:X; inversion F; subst. cbn [fst].
      apply has_no_value_Bal; [|eapply accept_op_Bal; eauto]. unfold its_accept_operatorship in X. destruct (has_no_value (ic_value c)); [reflexivity|discriminate].
  Qed.

  (* in particular: a synchronous call that leaves no new pending work behind leaves the service's balances as they were *)
  Corollary sync_nothing_kept w o c : sync_ctx o = Some c -> sep w c -> no_egld_alias (ic_value c) -> op_no_gift w o ->
    iw_pend (fst (istep H verify w o)) = iw_pend w -> sb (fst (istep H verify w o)) = sb w.
  Proof. intros So Sp NA NG Ep. pose proof (sync_custody w o c So Sp NA NG) as K. unfold HP in K. rewrite Ep in K. lia. Qed.

  (* ---------- asynchronous steps: delivery, its callback, the lookup callback ---------- *)
  Lemma find_ip_id id ps p : find_ip id ps = Some p -> ip_id p = id.
  Proof.
    induction ps as [|q r IH]; cbn [find_ip]; [discriminate|]. destruct (ip_id q =? id) eqn:E; [|exact IH].
    intro R; inversion R; subst. apply N.eqb_eq. exact E.
  Qed.
  Lemma Held_replace id ps p q : find_ip id ps = Some p -> ip_id q = id -> Held (replace_ip q ps) + held p = Held ps + held q.
  Proof.
    intros F Eq. induction ps as [|a r IH]; cbn [find_ip] in F; [discriminate|]. cbn [replace_ip]. rewrite Eq.
    destruct (ip_id a =? id) eqn:E.
    - inversion F; subst a. cbn [Held]. lia.
    - cbn [Held]. specialize (IH F). lia.
  Qed.
  Lemma remove_ip_notin id ps : ~ In id (map ip_id ps) -> remove_ip id ps = ps.
  Proof.
    induction ps as [|a r IH]; intro N; cbn [remove_ip]; [reflexivity|]. cbn [map In] in N.
    destruct (N.eqb_spec (ip_id a) id) as [E|_]; [exfalso; apply N; left; exact E|]. rewrite IH; [reflexivity|]. intro; apply N; right; assumption.
  Qed.
  Lemma Held_remove id ps p : NoDup (map ip_id ps) -> find_ip id ps = Some p -> Held (remove_ip id ps) + held p = Held ps.
  Proof.
    intros ND F. induction ps as [|a r IH]; cbn [find_ip] in F; [discriminate|]. cbn [remove_ip]. cbn [map] in ND. inversion ND as [|? ? Nin ND']; subst.
    destruct (ip_id a =? id) eqn:E.
    - inversion F; subst a. apply N.eqb_eq in E. rewrite <- E. rewrite (remove_ip_notin _ _ Nin). cbn [Held]. lia.
    - cbn [Held]. specialize (IH ND' F). lia.
  Qed.

  Lemma HP_w_pend_ w ps : HP (w_pend_ w ps) = Held ps.  Proof. reflexivity. Qed.

  (* delivery of a transfer with data: on success exactly the parked amount leaves the service *)
  Theorem deliver_custody w id ok p : find_ip id (iw_pend w) = Some p ->
    (forall chain mid src ph tid tok amount dest oc os data, ip_kind p = PTransfer chain mid src ph tid tok amount dest oc os data -> dest <> S) ->
    sb (fst (istep H verify w (IDeliver S id ok))) + HP w = sb w + HP (fst (istep H verify w (IDeliver S id ok))).
  Proof.
    intros F Hd. cbn [istep]. rewrite F.
    destruct (ip_kind p) as [chain mid src ph tid tok amount dest oc os data| | |] eqn:K; try (cbn [fst]; lia).
    destruct (ip_stage p) eqn:St; try (cbn [fst]; lia).
    specialize (Hd _ _ _ _ _ _ _ _ _ _ _ eq_refl).
    destruct ok.
    - destruct (transfer (iw_led w) S dest tok amount) as [l'|] eqn:T; [|cbn [fst]; lia]. cbn [fst].
      apply (transfer_bal _ _ _ _ _ _ x) in T as (T1 & T2 & _); [|congruence].
      unfold HP at 2. cbn [iw_pend w_pend_ w_led_ wset]. unfold sb. cbn [iw_led w_pend_ w_led_ wset].
      pose proof (Held_replace id (iw_pend w) p {| ip_id := id; ip_kind := PTransfer chain mid src ph tid tok amount dest oc os data; ip_stage := IAwaitCallback true |} F eq_refl) as R.
      unfold held at 1 2 in R. rewrite K, St in R. cbn [ip_kind ip_stage] in R. unfold HP, bx in *. lia.
    - cbn [fst]. unfold HP at 2. cbn [iw_pend w_pend_ w_led_ wset]. unfold sb. cbn [iw_led w_pend_ w_led_ wset].
      pose proof (Held_replace id (iw_pend w) p {| ip_id := id; ip_kind := PTransfer chain mid src ph tid tok amount dest oc os data; ip_stage := IAwaitCallback false |} F eq_refl) as R.
      unfold held at 1 2 in R. rewrite K, St in R. cbn [ip_kind ip_stage] in R. unfold HP in *. lia.
  Qed.

  (* the callback of a delivery: success strands nothing; a failing callback consumes the pending work and leaves exactly
     what it held in the service (recorded finding F-C08-1) *)
  Theorem callback_custody w c id p : ic_self c = S -> (forall tid, tm_addr (iw_its w) tid <> S) ->
    NoDup (map ip_id (iw_pend w)) -> find_ip id (iw_pend w) = Some p ->
    let r := istep H verify w (ICallback c id) in
    (io_ok (snd r) = true -> sb (fst r) + HP w = sb w + HP (fst r)) /\
    (io_ok (snd r) = false -> fst r = w \/ (sb (fst r) = sb w /\ HP w = HP (fst r) + held p)).
  Proof.
    intros Es nt ND F. cbv zeta. cbn [istep]. rewrite F.
    destruct (ip_kind p) as [chain mid src ph tid tok amount dest oc os data| | |] eqn:K; try (cbn [fst snd ifail io_ok]; split; [discriminate | auto]).
    destruct (ip_stage p) as [|ok] eqn:St; [cbn [fst snd ifail io_ok]; split; [discriminate | auto]|].
    pose proof (Held_remove id _ p ND F) as HR.
    set (w0 := w_pend_ w (remove_ip id (iw_pend w))).
    destruct (transfer_callback H w0 c chain mid src ph tid tok amount ok) as [[w1 ev]|] eqn:CB; cbn [fst snd ifail io_ok].
    - split; [intros _|discriminate]. unfold transfer_callback in CB. cbv zeta in CB. destruct ok.
      + destruct (gw_validate H _ c chain mid src ph) as [[[w2 b] e2]|] eqn:V; [|discriminate]. inversion CB; subst.
        apply gw_validate_c in V as (V1 & V2 & _). unfold sb, HP. rewrite V1, V2. unfold w0. cbn [iw_led iw_pend w_its w_pend_ wset].
        unfold held in HR. rewrite K, St in HR. cbv beta iota in HR. lia.
      + destruct (call_tm_take _ c tid tok amount) as [w2|] eqn:T; [|discriminate]. inversion CB; subst.
        apply call_tm_take_c in T as (T1 & T2 & _); [|exact Es|cbn [iw_its w_its wset]; apply nt].
        unfold HP. rewrite T2. unfold sb, w0 in *. cbn [iw_led iw_pend w_its w_pend_ wset] in *.
        unfold held in HR. rewrite K, St in HR. cbv beta iota in HR. lia.
    - split; [discriminate|intros _]. right. unfold sb, HP, w0. cbn [iw_led iw_pend w_pend_ wset]. split; [reflexivity|]. unfold HP. lia.
  Qed.

  (* the callback of the token-properties lookup (metadata registration / remote deployment to a named chain) *)
  Definition props_sep (w : iworld) (p : ipend) : Prop :=
    match ip_kind p with
    | PMetadata _ _ caller => caller <> S
    | PRemote _ dc _ _ _ caller _ => caller <> S /\ dc <> []
    | _ => True
    end.

  Theorem props_custody w c id res p : ic_self c = S -> i_gas (iw_its w) <> S -> (forall tid, tm_addr (iw_its w) tid <> S) ->
    NoDup (map ip_id (iw_pend w)) -> find_ip id (iw_pend w) = Some p -> props_sep w p ->
    let r := istep H verify w (IProps c id res) in
    (io_ok (snd r) = true -> sb (fst r) + HP w = sb w + HP (fst r)) /\
    (io_ok (snd r) = false -> fst r = w \/ (sb (fst r) = sb w /\ HP w = HP (fst r) + held p)).
  Proof.
    intros Es ng nt ND F PS. cbv zeta. cbn [istep]. rewrite F.
    pose proof (Held_remove id _ p ND F) as HR.
    set (w0 := w_pend_ w (remove_ip id (iw_pend w))).
    assert (Refund : forall gas caller w1 ev, caller <> S ->
              (if gas =? 0 then Some (w0, ([] : list log)) else match transfer (iw_led w0) (ic_self c) caller EGLD gas with Some l' => Some (w_led_ w0 l', ([] : list log)) | None => None end) = Some (w1, ev) ->
              sb w1 + bx EGLD x gas = sb w0 /\ iw_pend w1 = iw_pend w0).
    { intros gas caller w1 ev nc R. destruct (N.eqb_spec gas 0) as [Z|NZ].
      - inversion R; subst. rewrite bx_0. split; [lia|reflexivity].
      - destruct (transfer (iw_led w0) (ic_self c) caller EGLD gas) as [l'|] eqn:T; [|discriminate]. inversion R; subst.
        apply (transfer_bal _ _ _ _ _ _ x) in T as (T1 & T2 & _); [|congruence]. unfold sb, bx. cbn [iw_led iw_pend w_led_ wset]. rewrite <- Es. split; [lia|reflexivity]. }
    destruct (ip_kind p) as [| tok gas caller | ds dc sym m gas caller tk |] eqn:K; try (cbn [fst snd ifail io_ok]; split; [discriminate | auto]).
    - (* metadata *)
      unfold props_sep in PS. rewrite K in PS.
      destruct (metadata_callback H w0 c tok gas caller res) as [[w1 ev]|] eqn:CB; cbn [fst snd ifail io_ok].
      + split; [intros _|discriminate].
        assert (G : sb w1 + bx EGLD x gas = sb w0 /\ iw_pend w1 = iw_pend w0).
        { unfold metadata_callback in CB. cbv zeta in CB. destruct res as [[[nm ty] dbuf]|]; [|eapply Refund; eauto].
          destruct (negb (bytes_eqb ty FUNGIBLE)); [eapply Refund; eauto|].
          destruct (props_decimals dbuf) as [dec|]; [|discriminate]. destruct (enc_impl _) as [payload|]; [|discriminate].
          apply call_contract_c in CB as (A & B & _); [auto|exact Es|exact ng]. }
        destruct G as (G1 & G2). unfold HP. rewrite G2. unfold sb, w0 in *. cbn [iw_led iw_pend w_pend_ wset] in *.
        unfold held in HR. rewrite K in HR. cbv beta iota in HR. lia.
      + split; [discriminate|intros _]. right. unfold sb, HP, w0. cbn [iw_led iw_pend w_pend_ wset]. split; [reflexivity|]. unfold HP. lia.
    - (* remote deployment to a named chain *)
      unfold props_sep in PS. rewrite K in PS. destruct PS as (nc & ndc).
      destruct (remote_callback H w0 c ds dc sym m gas caller res) as [[w1 ev]|] eqn:CB; cbn [fst snd ifail io_ok].
      + split; [intros _|discriminate].
        assert (G : sb w1 + bx EGLD x gas = sb w0 /\ iw_pend w1 = iw_pend w0).
        { unfold remote_callback in CB. cbv zeta in CB. destruct res as [[[nm ty] dbuf]|]; [|eapply Refund; eauto].
          destruct (negb (bytes_eqb ty FUNGIBLE)); [eapply Refund; eauto|].
          destruct (props_decimals dbuf) as [dec|]; [|discriminate].
          unfold deploy_token_raw in CB. cbv zeta in CB. destruct (i_paused _); [discriminate|].
          destruct (bytes_eqb dc []) eqn:E; [apply bytes_eqb_eq in E; contradiction|].
          destruct (bytes_eqb (i_chain _) dc); [discriminate|].
          unfold remote_base in CB. destruct (_ || _); [discriminate|]. destruct (bytes_eqb (tm_addr _ _) []); [discriminate|].
          destruct (enc_impl _) as [payload|]; [|discriminate].
          apply route_message_c in CB as (A & B & _); [auto|exact Es|exact ng]. }
        destruct G as (G1 & G2). unfold HP. rewrite G2. unfold sb, w0 in *. cbn [iw_led iw_pend w_pend_ wset] in *.
        unfold held in HR. rewrite K in HR. cbv beta iota in HR. lia.
      + split; [discriminate|intros _]. right. unfold sb, HP, w0. cbn [iw_led iw_pend w_pend_ wset]. split; [reflexivity|]. unfold HP. lia.
  Qed.
End Custody.
