(* Conservation for the gas service over whole histories (last clause of C15):
   for every sequence of calls by accounts other than the service itself, the service's balance of every
   token equals what it held at the start, plus all receipts, minus everything that collectFees and refund
   moved to their receivers.  Receipts are read off the accepted payment (Model.GasService.received); the
   outflow of a step is measured at the RECEIVER's account, so the equation also says that nothing the
   service loses disappears and nothing a receiver gains is created. *)
From Coq Require Import String List NArith Lia Bool.
From Ax Require Import Lib.Bytes Lib.Mvx Model.Check Model.Env Model.GasService Proofs.TMFacts Proofs.GasFacts.
Import ListNotations.
Open Scope N_scope.

(* ---------- ledger facts ---------- *)
Lemma transfer_zero_bal l a b t l' : transfer l a b t 0 = Some l' -> forall x y, bal l' x y = bal l x y.
Proof.
  intros T x y. destruct (bytes_dec a b) as [->|ne].
  - eapply transfer_self; eauto.
  - apply transfer_spec in T as (_ & A & B & O); [|exact ne].
    destruct (bytes_dec y t) as [->|nt]; [|apply O; congruence].
    destruct (bytes_dec x a) as [->|na]; [lia|].
    destruct (bytes_dec x b) as [->|nb]; [lia|].
    apply O; congruence.
Qed.

Lemma pay_in_no_value l a b v l1 : has_no_value v = true -> pay_in l a b v = Some l1 -> forall x y, bal l1 x y = bal l x y.
Proof.
  unfold has_no_value, has_no_esdt, pay_in. intros Hv P.
  apply andb_true_iff in Hv as [Z E]. apply N.eqb_eq in Z.
  destruct (cv_esdt v); [|discriminate]. rewrite Z in P. eapply transfer_zero_bal; eauto.
Qed.

(* what leaves `self` in a transfer arrives at the receiver; third parties see nothing *)
Lemma transfer_pair l self r t v l' tok : self <> r -> transfer l self r t v = Some l' ->
  bal l' self tok + bal l' r tok = bal l self tok + bal l r tok /\ bal l r tok <= bal l' r tok.
Proof.
  intros ne T. apply transfer_spec in T as (Le & A & B & O); [|exact ne].
  destruct (bytes_dec tok t) as [->|nt].
  - lia.
  - rewrite (O self tok), (O r tok) by congruence. lia.
Qed.

Section GasConserve.
  Variable H : bytes -> bytes.

  Lemma collect_loop_pair self r items : self <> r -> forall l l' tok,
    collect_loop l self r items = Some l' ->
    bal l' self tok + bal l' r tok = bal l self tok + bal l r tok /\ bal l r tok <= bal l' r tok.
  Proof.
    intro ne. induction items as [|[t a] rest IH]; intros l l' tok E; cbn [collect_loop] in E.
    - inversion E; subst. lia.
    - destruct (a =? 0); [discriminate|]. destruct (a <=? bal l self t).
      + destruct (transfer l self r t a) as [l1|] eqn:T; [|discriminate].
        apply (transfer_pair _ _ _ _ _ _ tok ne) in T. apply IH with (tok := tok) in E. lia.
      + apply IH. exact E.
  Qed.

  (* the receiver of an outflow operation *)
  Definition gs_receiver (o : gsop) : option bytes :=
    match o with GSCollect _ r _ _ => Some r | GSRefund _ _ _ r _ _ => Some r | _ => None end.

  (* receipt of token tok by an accepted payment or top-up *)
  Definition gs_receipt (o : gsop) (tok : bytes) : N :=
    match o with
    | GSPay kind c _ _ _ _ _ | GSAdd kind c _ _ _ =>
        match received (is_native kind) (gc_value c) with
        | Some (t, a) => if bytes_eqb t tok then a else 0
        | None => 0
        end
    | _ => 0
    end.

  (* amounts of one step: what came in (only if the call was accepted) and what the receiver gained *)
  Definition gs_in_of (s : gs) (l : ledger) (o : gsop) (tok : bytes) : N :=
    if go_ok (snd (gsstep H s l o)) then gs_receipt o tok else 0.
  Definition gs_out_of (s : gs) (l : ledger) (o : gsop) (tok : bytes) : N :=
    match gs_receiver o with
    | Some r => bal (snd (fst (gsstep H s l o))) r tok - bal l r tok
    | None => 0
    end.

  (* well-formed call on the service g: addressed to g, not made by g, not paying out to g *)
  Definition gs_wf (g : bytes) (o : gsop) : Prop :=
    gc_self (gsop_ctx o) = g /\ gc_caller (gsop_ctx o) <> g /\ gs_receiver o <> Some g.

  Lemma received_pay_in l caller g native v tok amt l1 t : caller <> g ->
    received native v = Some (tok, amt) -> pay_in l caller g v = Some l1 ->
    bal l1 g t = bal l g t + (if bytes_eqb tok t then amt else 0).
  Proof.
    intros ne R P. pose proof (received_spec _ _ _ _ R) as (_ & A & B). unfold pay_in in P.
    assert (T : transfer l caller g tok amt = Some l1).
    { destruct native.
      - destruct (A eq_refl) as (-> & -> & E). rewrite E in P. exact P.
      - destruct (B eq_refl) as (Z & p & E & <- & Nz & <-). rewrite E, Z in P. cbn [N.eqb pay_esdts] in P.
        rewrite Nz, ltok_0 in P.
        destruct (transfer l caller g (ep_token p) (ep_amount p)) as [l2|]; [exact P|discriminate]. }
    apply transfer_spec in T as (_ & _ & B1 & O); [|exact ne].
    destruct (bytes_eqb tok t) eqn:E.
    - apply bytes_eqb_eq in E. subst. exact B1.
    - apply bytes_eqb_neq in E. rewrite O; [lia | congruence | congruence].
  Qed.

  (* one step *)
  Theorem gs_conserve_step g s l o tok : gs_wf g o ->
    bal (snd (fst (gsstep H s l o))) g tok + gs_out_of s l o tok = bal l g tok + gs_in_of s l o tok.
  Proof.
    intros (Hs & Hc & Hr). unfold gs_in_of, gs_out_of. unfold gsstep.
    destruct (pay_in l (gc_caller (gsop_ctx o)) (gc_self (gsop_ctx o)) (gc_value (gsop_ctx o))) as [l1|] eqn:P.
    2:{ cbn [fst snd go_ok gfail]. destruct (gs_receiver o); lia. }
    destruct o as [kind c sender chain daddr payload rf|kind c txhash logidx rf|c receiver tokens amounts|c txhash logidx receiver token amount|c a];
      cbn [gsop_ctx gs_receiver gs_receipt] in *.
    - destruct (pay_gas H kind c sender chain daddr payload rf) as [ev|] eqn:G; cbn [fst snd go_ok gfail]; [|lia].
      apply pay_gas_spec in G as (t & amt & R & _ & _). rewrite R. subst g.
      rewrite (received_pay_in _ _ _ _ _ _ _ _ tok Hc R P). lia.
    - destruct (add_gas kind c txhash logidx rf) as [ev|] eqn:G; cbn [fst snd go_ok gfail]; [|lia].
      apply (add_gas_spec H) in G as (t & amt & R & _ & _). rewrite R. subst g.
      rewrite (received_pay_in _ _ _ _ _ _ _ _ tok Hc R P). lia.
    - destruct (collect_fees s l1 c receiver tokens amounts) as [l'|] eqn:C; cbn [fst snd go_ok gfail]; [|lia].
      assert (ne : g <> receiver) by congruence.
      unfold collect_fees in C. destruct (has_no_value (gc_value c)) eqn:V; [|discriminate]. cbn [negb orb] in C.
      destruct (negb (Nat.eqb (length receiver) 32)); [discriminate|].
      destruct (negb (bytes_eqb (gc_caller c) (gs_collector s))); [discriminate|].
      destruct (bytes_eqb receiver zero32); [discriminate|].
      destruct (negb (Nat.eqb (length tokens) (length amounts))); [discriminate|].
      subst g. apply (collect_loop_pair _ _ _ ne _ _ tok) in C.
      rewrite !(pay_in_no_value _ _ _ _ _ V P) in C. lia.
    - destruct (refund s l1 c txhash logidx receiver token amount) as [[l' ev]|] eqn:R; cbn [fst snd go_ok gfail]; [|lia].
      assert (ne : g <> receiver) by congruence.
      unfold refund in R. destruct (has_no_value (gc_value c)) eqn:V; [|discriminate]. cbn [negb orb] in R.
      destruct (negb (Nat.eqb (length receiver) 32)); [discriminate|].
      destruct (negb (bytes_eqb (gc_caller c) (gs_collector s))); [discriminate|].
      destruct (bytes_eqb receiver zero32); [discriminate|].
      destruct (transfer l1 (gc_self c) receiver token amount) as [l2|] eqn:T; [|discriminate].
      inversion R; subst l2 ev; clear R. subst g.
      apply (transfer_pair _ _ _ _ _ _ tok ne) in T.
      rewrite !(pay_in_no_value _ _ _ _ _ V P) in T. lia.
    - destruct (set_gas_collector s c a) as [s'|] eqn:S; cbn [fst snd go_ok gfail]; [|lia].
      unfold set_gas_collector in S. destruct (has_no_value (gc_value c)) eqn:V; [|discriminate].
      rewrite (pay_in_no_value _ _ _ _ _ V P). lia.
  Qed.

  (* histories *)
  Fixpoint gsrun (s : gs) (l : ledger) (os : list gsop) : gs * ledger :=
    match os with [] => (s, l) | o :: r => gsrun (fst (fst (gsstep H s l o))) (snd (fst (gsstep H s l o))) r end.
  Fixpoint gs_receipts (s : gs) (l : ledger) (os : list gsop) (tok : bytes) : N :=
    match os with [] => 0 | o :: r => gs_in_of s l o tok + gs_receipts (fst (fst (gsstep H s l o))) (snd (fst (gsstep H s l o))) r tok end.
  Fixpoint gs_outflows (s : gs) (l : ledger) (os : list gsop) (tok : bytes) : N :=
    match os with [] => 0 | o :: r => gs_out_of s l o tok + gs_outflows (fst (fst (gsstep H s l o))) (snd (fst (gsstep H s l o))) r tok end.

  Theorem gs_conservation g os : forall s l tok, Forall (gs_wf g) os ->
    bal (snd (gsrun s l os)) g tok + gs_outflows s l os tok = bal l g tok + gs_receipts s l os tok.
  Proof.
    induction os as [|o r IH]; intros s l tok W; cbn [gsrun gs_receipts gs_outflows snd].
    - lia.
    - inversion W as [|? ? Wo Wr]; subst.
      pose proof (gs_conserve_step g s l o tok Wo) as S1.
      pose proof (IH (fst (fst (gsstep H s l o))) (snd (fst (gsstep H s l o))) tok Wr) as S2. lia.
  Qed.

  (* an outflow is only ever produced by the current collector (restates outflow_only_by_collector for the amounts) *)
  Theorem gs_out_needs_collector g s l o tok : gs_wf g o -> 0 < gs_out_of s l o tok ->
    gc_caller (gsop_ctx o) = gs_collector s /\ go_ok (snd (gsstep H s l o)) = true.
  Proof.
    intros (Hs & Hc & Hr) Pos. unfold gs_out_of in Pos.
    destruct o as [kind c sender chain daddr payload rf|kind c txhash logidx rf|c receiver tokens amounts|c txhash logidx receiver token amount|c a];
      cbn [gs_receiver gsop_ctx] in *; try lia.
    - unfold gsstep in *. cbn [gsop_ctx] in *.
      destruct (pay_in l (gc_caller c) (gc_self c) (gc_value c)) as [l1|]; [|cbn in Pos; lia].
      destruct (collect_fees s l1 c receiver tokens amounts) as [l'|] eqn:C; [|cbn in Pos; lia].
      apply collect_fees_spec in C as (C & _). cbn. auto.
    - unfold gsstep in *. cbn [gsop_ctx] in *.
      destruct (pay_in l (gc_caller c) (gc_self c) (gc_value c)) as [l1|]; [|cbn in Pos; lia].
      destruct (refund s l1 c txhash logidx receiver token amount) as [[l' ev]|] eqn:R; [|cbn in Pos; lia].
      apply refund_spec in R as (C & _). cbn. auto.
  Qed.
End GasConserve.
