(* C16 over whole histories: at any time the outstanding credit of (caller, token, nonce) equals what
   that caller attached to failed dispatches minus what that caller has withdrawn.  Every operation of
   the governance world, every schedule of deliveries and callbacks. *)
From Coq Require Import String List NArith Lia Bool.
From Ax Require Import Lib.Bytes Lib.Mvx Model.Check Model.Env Model.Gateway Model.Governance
     Proofs.GovFacts Proofs.GovWorld.
Import ListNotations.
Open Scope N_scope.

Section GovCredits.
  Variable H : bytes -> bytes.
  Variable verify : bytes -> bytes -> bytes -> bool.
  Notation step := (vstep H verify true).

  (* amount of the instance (tok, nonce) in a call value *)
  Definition attached (v : callvalue) (tok : bytes) (nonce : N) : N :=
    match cv_esdt v with
    | [] => if bytes_eqb tok EGLD && (nonce =? 0) then cv_egld v else 0
    | ps => sum_for tok nonce ps
    end.

  (* what step o credits to u: the callback of a FAILED dispatch made by u credits what u attached to it *)
  Definition credited_by (w : gworld) (o : vop) (u tok : bytes) (nonce : N) : N :=
    match o with
    | VCallback _ id =>
        match find_pending id (w_pend w) with
        | Some p => match gp_stage p with
                    | AwaitCallback false _ => if bytes_eqb u (gp_caller p) then attached (gp_pay p) tok nonce else 0
                    | _ => 0
                    end
        | None => 0
        end
    | _ => 0
    end.

  (* what step o pays out of u's credit: a successful withdrawRefund(tok, nonce) called by u takes all of it *)
  Definition withdrawn_by (w : gworld) (o : vop) (u tok : bytes) (nonce : N) : N :=
    match o with
    | VWithdrawRefund c t n =>
        if vo_ok (snd (step w o)) && rkey_eqb (u, (tok, nonce)) (x_caller c, (t, n)) then refund_of (w_gov w) u tok nonce else 0
    | _ => 0
    end.

  Lemma refund_of_ext g g' u tok nonce : gv_refunds g' = gv_refunds g -> refund_of g' u tok nonce = refund_of g u tok nonce.
  Proof. unfold refund_of. intros ->. reflexivity. Qed.

  Theorem credits_step w o u tok nonce :
    refund_of (w_gov (fst (step w o))) u tok nonce + withdrawn_by w o u tok nonce =
    refund_of (w_gov w) u tok nonce + credited_by w o u tok nonce.
  Proof.
    pose proof (refunds_frame H verify w o) as Fr.
    destruct o as [go|c chain id src payload|c t cd v|c t cd v|c r a|c a|c t n|self id ok rets|self id];
      try (cbn [credited_by withdrawn_by]; rewrite (refund_of_ext _ _ _ _ _ Fr); lia).
    - (* withdrawRefund *)
      cbn [credited_by withdrawn_by]. cbn [vstep].
      destruct (run_tx w c (fun w1 => gov_withdraw_refund w1 c t n)) as [w' out] eqn:R. cbn [fst snd].
      destruct (vo_ok out) eqn:O; cbn [andb].
      + apply run_tx_some in R as (l1 & ev & _ & F & _); [|exact O].
        apply gov_withdraw_refund_spec in F. cbv zeta in F. cbn [w_gov] in F. destruct F as (Z & Oth & _).
        destruct (rkey_eqb (u, (tok, nonce)) (x_caller c, (t, n))) eqn:K.
        * apply rkey_eqb_spec in K. inversion K; subst. rewrite Z. lia.
        * rewrite Oth; [lia|]. intro E. rewrite E in K. rewrite (proj2 (rkey_eqb_spec _ _) eq_refl) in K. discriminate.
      + apply run_tx_fail in R; [|exact O]. subst. lia.
    - (* callback *)
      cbn [credited_by withdrawn_by].
      destruct (find_pending id (w_pend w)) as [p|] eqn:F.
      2:{ cbn [vstep]. rewrite F. cbn [fst]. lia. }
      destruct (gp_stage p) as [|ok rets] eqn:S.
      { cbn [vstep]. rewrite F, S. cbn [fst]. lia. }
      rewrite (callback_step_credits H verify w self id p ok rets F S).
      destruct ok; [lia|].
      rewrite credit_failure_spec. unfold attached. lia.
  Qed.

  (* histories *)
  Fixpoint total_credited (w : gworld) (os : list vop) (u tok : bytes) (nonce : N) : N :=
    match os with [] => 0 | o :: r => credited_by w o u tok nonce + total_credited (fst (step w o)) r u tok nonce end.
  Fixpoint total_withdrawn (w : gworld) (os : list vop) (u tok : bytes) (nonce : N) : N :=
    match os with [] => 0 | o :: r => withdrawn_by w o u tok nonce + total_withdrawn (fst (step w o)) r u tok nonce end.

  Theorem credits_history os : forall w u tok nonce,
    refund_of (w_gov (vrun H verify true w os)) u tok nonce + total_withdrawn w os u tok nonce =
    refund_of (w_gov w) u tok nonce + total_credited w os u tok nonce.
  Proof.
    induction os as [|o r IH]; intros w u tok nonce.
    - cbn. lia.
    - unfold vrun. cbn [fold_left total_credited total_withdrawn].
      pose proof (credits_step w o u tok nonce) as S1.
      pose proof (IH (fst (step w o)) u tok nonce) as S2. unfold vrun in S2. lia.
  Qed.

  (* a credit is paid out only to its owner: a withdrawal by anyone else takes nothing from it *)
  Theorem withdrawn_owner_only w c t n u tok nonce : x_caller c <> u -> withdrawn_by w (VWithdrawRefund c t n) u tok nonce = 0.
  Proof.
    intro ne. unfold withdrawn_by.
    destruct (rkey_eqb (u, (tok, nonce)) (x_caller c, (t, n))) eqn:K; [|rewrite andb_false_r; reflexivity].
    apply rkey_eqb_spec in K. inversion K; subst. congruence.
  Qed.
End GovCredits.
