(* C17 over whole histories: along any history in which every step is either a synchronous endpoint call (any caller
   separated from the service), a gateway operation, a delivery, or a callback THAT SUCCEEDS, the custody equation
   telescopes:  bal_final + Held(initial pending) = bal_initial + Held(final pending).
   So when a user operation "has run to completion" — no pending work is left — and none of its callbacks failed
   (the failing callbacks are the recorded findings), the service holds exactly what it held before. *)
From Coq Require Import String List NArith Lia Bool.
From Ax Require Import Lib.Bytes Lib.Mvx Lib.SolAbi Model.Check Model.Env Model.Gateway Model.TokenManager Model.Its
     Proofs.TMFacts Proofs.ItsOutbound Proofs.ItsCustody Proofs.ItsIds.
Import ListNotations.
Open Scope N_scope.

Section Run.
  Variable H : bytes -> bytes.
  Variable verify : bytes -> bytes -> bytes -> bool.
  Variable S x : bytes.

  Definition good_step (w : iworld) (o : iop) : Prop :=
    (exists c, sync_ctx o = Some c /\ sep S w c /\ no_egld_alias (ic_value c) /\ op_no_gift S w o) \/
    (exists go, o = IGateway go) \/
    (exists id ok p, o = IDeliver S id ok /\ find_ip id (iw_pend w) = Some p /\
        (forall chain mid src ph tid tok amount dest oc os data, ip_kind p = PTransfer chain mid src ph tid tok amount dest oc os data -> dest <> S)) \/
    (exists c id p, o = ICallback c id /\ ic_self c = S /\ (forall tid, tm_addr (iw_its w) tid <> S) /\ find_ip id (iw_pend w) = Some p /\
        io_ok (snd (istep H verify w o)) = true) \/
    (exists c id res p, o = IProps c id res /\ ic_self c = S /\ i_gas (iw_its w) <> S /\ (forall tid, tm_addr (iw_its w) tid <> S) /\
        find_ip id (iw_pend w) = Some p /\ props_sep S w p /\ io_ok (snd (istep H verify w o)) = true).

  Inductive GoodRun : iworld -> list iop -> Prop :=
  | GR_nil w : GoodRun w []
  | GR_cons w o r : good_step w o -> GoodRun (fst (istep H verify w o)) r -> GoodRun w (o :: r).

  Lemma good_step_custody w o : IdInv w -> good_step w o ->
    sb S x (fst (istep H verify w o)) + HP x w = sb S x w + HP x (fst (istep H verify w o)).
  Proof.
    intros [ND _] [(c & So & Sp & NA & NG) | [(go & ->) | [(id & ok & p & -> & F & Hd) | [(c & id & p & -> & Es & nt & F & Ok) | (c & id & res & p & -> & Es & ng & nt & F & PS & Ok)]]]].
    - eapply sync_custody; eauto.
    - cbn [istep]. destruct (gstep H verify (iw_gw w) go) as [g' r]. cbn [fst]. unfold sb, HP. cbn [iw_led iw_pend w_gw_ wset]. lia.
    - eapply deliver_custody; eauto.
    - destruct (callback_custody H verify S x w c id p Es nt ND F) as (A & _). apply A. exact Ok.
    - destruct (props_custody H verify S x w c id res p Es ng nt ND F PS) as (A & _). apply A. exact Ok.
  Qed.

  Theorem history_custody ops : forall w, IdInv w -> GoodRun w ops ->
    sb S x (irun H verify w ops) + HP x w = sb S x w + HP x (irun H verify w ops).
  Proof.
    induction ops as [|o r IH]; intros w I G; [cbn; lia|].
    inversion G as [|? ? ? Gs Gr]; subst.
    change (irun H verify w (o :: r)) with (irun H verify (fst (istep H verify w o)) r).
    pose proof (good_step_custody w o I Gs) as S1.
    pose proof (IH _ (istep_idinv H verify w o I) Gr) as S2. lia.
  Qed.

  (* the property as stated: run to completion (nothing pending before, nothing pending after), no callback failed:
     the service holds none of what was attached along the way *)
  Corollary completed_history_keeps_nothing ops w : iw_pend w = [] -> GoodRun w ops -> iw_pend (irun H verify w ops) = [] ->
    sb S x (irun H verify w ops) = sb S x w.
  Proof.
    intros E G E'. pose proof (history_custody ops w (idinv_empty w E) G) as K. unfold HP in K. rewrite E, E' in K. cbn [Held] in K. lia.
  Qed.
End Run.
