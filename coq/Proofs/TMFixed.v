(* What no token-manager operation changes: the recorded service (Proofs/TMUpgradeFacts.v), token id and implementation type --
   every one of the sixteen endpoints and the issuance callback. *)
From Coq Require Import String List NArith Lia Bool.
From Ax Require Import Lib.Bytes Lib.Mvx Model.Check Model.Env Model.TokenManager
     Proofs.AListFacts Proofs.TMFacts Proofs.TMCustody Proofs.TMToken.
Import ListNotations.
Open Scope N_scope.

Lemma add_flow_in_tid t now a t' : add_flow_in t now a = Some t' -> tm_tid t' = tm_tid t.
Proof. unfold add_flow_in. destruct (tm_limit t =? 0); [intro E; inversion E; reflexivity|]. destruct (add_flow _ _ _ _); intro E; inversion E; reflexivity. Qed.
Lemma add_flow_out_tid t now a t' : add_flow_out t now a = Some t' -> tm_tid t' = tm_tid t.
Proof. unfold add_flow_out. destruct (tm_limit t =? 0); [intro E; inversion E; reflexivity|]. destruct (add_flow _ _ _ _); intro E; inversion E; reflexivity. Qed.
Lemma transfer_role_tid self t f to r t' e : transfer_role self t f to r = Some (t', e) -> tm_tid t' = tm_tid t.
Proof. unfold transfer_role. destruct (contains _ _); [|discriminate]. intro E; inversion E; subst. reflexivity. Qed.
Lemma propose_role_tid self t f to r t' e : propose_role self t f to r = Some (t', e) -> tm_tid t' = tm_tid t.
Proof. unfold propose_role. destruct (contains _ _); [|discriminate]. intro E; inversion E; subst. reflexivity. Qed.
Lemma accept_role_tid self t f to r t' e : accept_role self t f to r = Some (t', e) -> tm_tid t' = tm_tid t.
Proof. unfold accept_role. destruct (_ && _); [|discriminate]. intro E. apply transfer_role_tid in E. rewrite E. reflexivity. Qed.

Theorem run_endpoint_tid t l o t' l' r e : run_endpoint t l o = Some (t', l', r, e) -> tm_tid t' = tm_tid t.
Proof.
  destruct o as [c d a|c|c v|c a|c a|c f to|c a|c a|c f|c a|c a|c f|c a v|c|c m n s|self result]; cbn [run_endpoint]; intro G.
  - unfold give_token in G. destruct (_ || _); [discriminate|]. destruct (negb _); [discriminate|].
    destruct (add_flow_in t (t_now c) a) as [t1|] eqn:A; [|discriminate]. apply add_flow_in_tid in A.
    destruct (is_mint_type _).
    + destruct (_ || _); [discriminate|]. destruct (transfer _ _ _ _ _); inversion G; subst. exact A.
    + destruct (bytes_eqb _ _); [discriminate|]. destruct (transfer _ _ _ _ _); inversion G; subst. exact A.
  - unfold take_token in G. destruct (negb _); [discriminate|]. destruct (egld_or_single_fungible _) as [[tok amt]|]; [|discriminate].
    destruct (negb _); [discriminate|]. destruct (add_flow_out t (t_now c) amt) as [t1|] eqn:A; [|discriminate]. apply add_flow_out_tid in A.
    destruct (is_mint_type _).
    + destruct (bytes_eqb tok EGLD); [discriminate|]. destruct (debit _ _ _ _); inversion G; subst. exact A.
    + inversion G; subst. exact A.
  - unfold set_flow_limit in G. destruct (negb _); [discriminate|]. destruct (only_role _ _ _); inversion G; subst. reflexivity.
  - unfold add_flow_limiter in G. apply nonpay_some in G as [_ G]. destruct (_ && _); [|discriminate]. apply wrap_some in G as [_ G]. inversion G; subst. reflexivity.
  - unfold remove_flow_limiter in G. apply nonpay_some in G as [_ G]. destruct (_ && _); [|discriminate]. apply wrap_some in G as [_ G]. inversion G; subst. reflexivity.
  - unfold transfer_flow_limiter in G. apply nonpay_some in G as [_ G]. destruct (_ && _); [|discriminate]. apply wrap_some in G as [_ G]. eapply transfer_role_tid; exact G.
  - unfold transfer_operatorship in G. apply nonpay_some in G as [_ G]. destruct (_ && _); [|discriminate]. apply wrap_some in G as [_ G]. eapply transfer_role_tid; exact G.
  - unfold propose_operatorship in G. apply nonpay_some in G as [_ G]. destruct (_ && _); [|discriminate]. apply wrap_some in G as [_ G]. eapply propose_role_tid; exact G.
  - unfold accept_operatorship in G. apply nonpay_some in G as [_ G]. destruct (addr_ok f); [|discriminate]. apply wrap_some in G as [_ G]. eapply accept_role_tid; exact G.
  - unfold transfer_mintership in G. apply nonpay_some in G as [_ G]. destruct (_ && _); [|discriminate]. apply wrap_some in G as [_ G]. eapply transfer_role_tid; exact G.
  - unfold propose_mintership in G. apply nonpay_some in G as [_ G]. destruct (_ && _); [|discriminate]. apply wrap_some in G as [_ G]. eapply propose_role_tid; exact G.
  - unfold accept_mintership in G. apply nonpay_some in G as [_ G]. destruct (addr_ok f); [|discriminate]. apply wrap_some in G as [_ G]. eapply accept_role_tid; exact G.
  - unfold tm_mint in G. apply nonpay_some in G as [_ G]. destruct (_ || _); [discriminate|]. destruct (transfer _ _ _ _ _); inversion G; subst. reflexivity.
  - unfold tm_burn in G. destruct (_ || _); [discriminate|]. destruct (egld_or_single_fungible _) as [[tok amt]|]; [|discriminate].
    destruct (negb _); [discriminate|]. destruct (debit _ _ _ _); inversion G; subst. reflexivity.
  - unfold deploy_interchain_token in G. destruct (negb _); [discriminate|]. destruct (_ || _); [discriminate|]. destruct (negb _); [discriminate|].
    destruct (_ || _); [discriminate|]. inversion G; subst. reflexivity.
  - discriminate.
Qed.

Theorem tstep_tid t l o : tm_tid (fst (fst (tstep t l o))) = tm_tid t.
Proof.
  unfold tstep. destruct o as [c d a|c|c v|c a|c a|c f to|c a|c a|c f|c a|c a|c f|c a v|c|c m n s|self result].
  16:{ destruct (tm_pending t =? 0); [reflexivity|]. unfold deploy_token_callback.
       destruct result as [tok|]; [destruct (bytes_eqb (tm_token t) [])|]; reflexivity. }
  all: cbn [top_ctx]; destruct (pay_in _ _ _ _) as [l1|]; [|reflexivity].
  all: match goal with |- context [run_endpoint ?tt ?ll ?o] => destruct (run_endpoint tt ll o) as [[[[t1 l2] r] e]|] eqn:G; [|reflexivity] end.
  all: cbn [fst]; eapply run_endpoint_tid; exact G.
Qed.


Lemma add_flow_in_type t now a t' : add_flow_in t now a = Some t' -> tm_type t' = tm_type t.
Proof. unfold add_flow_in. destruct (tm_limit t =? 0); [intro E; inversion E; reflexivity|]. destruct (add_flow _ _ _ _); intro E; inversion E; reflexivity. Qed.
Lemma add_flow_out_type t now a t' : add_flow_out t now a = Some t' -> tm_type t' = tm_type t.
Proof. unfold add_flow_out. destruct (tm_limit t =? 0); [intro E; inversion E; reflexivity|]. destruct (add_flow _ _ _ _); intro E; inversion E; reflexivity. Qed.
Lemma transfer_role_type self t f to r t' e : transfer_role self t f to r = Some (t', e) -> tm_type t' = tm_type t.
Proof. unfold transfer_role. destruct (contains _ _); [|discriminate]. intro E; inversion E; subst. reflexivity. Qed.
Lemma propose_role_type self t f to r t' e : propose_role self t f to r = Some (t', e) -> tm_type t' = tm_type t.
Proof. unfold propose_role. destruct (contains _ _); [|discriminate]. intro E; inversion E; subst. reflexivity. Qed.
Lemma accept_role_type self t f to r t' e : accept_role self t f to r = Some (t', e) -> tm_type t' = tm_type t.
Proof. unfold accept_role. destruct (_ && _); [|discriminate]. intro E. apply transfer_role_type in E. rewrite E. reflexivity. Qed.

Theorem run_endpoint_type t l o t' l' r e : run_endpoint t l o = Some (t', l', r, e) -> tm_type t' = tm_type t.
Proof.
  destruct o as [c d a|c|c v|c a|c a|c f to|c a|c a|c f|c a|c a|c f|c a v|c|c m n s|self result]; cbn [run_endpoint]; intro G.
  - unfold give_token in G. destruct (_ || _); [discriminate|]. destruct (negb _); [discriminate|].
    destruct (add_flow_in t (t_now c) a) as [t1|] eqn:A; [|discriminate]. apply add_flow_in_type in A.
    destruct (is_mint_type _).
    + destruct (_ || _); [discriminate|]. destruct (transfer _ _ _ _ _); inversion G; subst. exact A.
    + destruct (bytes_eqb _ _); [discriminate|]. destruct (transfer _ _ _ _ _); inversion G; subst. exact A.
  - unfold take_token in G. destruct (negb _); [discriminate|]. destruct (egld_or_single_fungible _) as [[tok amt]|]; [|discriminate].
    destruct (negb _); [discriminate|]. destruct (add_flow_out t (t_now c) amt) as [t1|] eqn:A; [|discriminate]. apply add_flow_out_type in A.
    destruct (is_mint_type _).
    + destruct (bytes_eqb tok EGLD); [discriminate|]. destruct (debit _ _ _ _); inversion G; subst. exact A.
    + inversion G; subst. exact A.
  - unfold set_flow_limit in G. destruct (negb _); [discriminate|]. destruct (only_role _ _ _); inversion G; subst. reflexivity.
  - unfold add_flow_limiter in G. apply nonpay_some in G as [_ G]. destruct (_ && _); [|discriminate]. apply wrap_some in G as [_ G]. inversion G; subst. reflexivity.
  - unfold remove_flow_limiter in G. apply nonpay_some in G as [_ G]. destruct (_ && _); [|discriminate]. apply wrap_some in G as [_ G]. inversion G; subst. reflexivity.
  - unfold transfer_flow_limiter in G. apply nonpay_some in G as [_ G]. destruct (_ && _); [|discriminate]. apply wrap_some in G as [_ G]. eapply transfer_role_type; exact G.
  - unfold transfer_operatorship in G. apply nonpay_some in G as [_ G]. destruct (_ && _); [|discriminate]. apply wrap_some in G as [_ G]. eapply transfer_role_type; exact G.
  - unfold propose_operatorship in G. apply nonpay_some in G as [_ G]. destruct (_ && _); [|discriminate]. apply wrap_some in G as [_ G]. eapply propose_role_type; exact G.
  - unfold accept_operatorship in G. apply nonpay_some in G as [_ G]. destruct (addr_ok f); [|discriminate]. apply wrap_some in G as [_ G]. eapply accept_role_type; exact G.
  - unfold transfer_mintership in G. apply nonpay_some in G as [_ G]. destruct (_ && _); [|discriminate]. apply wrap_some in G as [_ G]. eapply transfer_role_type; exact G.
  - unfold propose_mintership in G. apply nonpay_some in G as [_ G]. destruct (_ && _); [|discriminate]. apply wrap_some in G as [_ G]. eapply propose_role_type; exact G.
  - unfold accept_mintership in G. apply nonpay_some in G as [_ G]. destruct (addr_ok f); [|discriminate]. apply wrap_some in G as [_ G]. eapply accept_role_type; exact G.
  - unfold tm_mint in G. apply nonpay_some in G as [_ G]. destruct (_ || _); [discriminate|]. destruct (transfer _ _ _ _ _); inversion G; subst. reflexivity.
  - unfold tm_burn in G. destruct (_ || _); [discriminate|]. destruct (egld_or_single_fungible _) as [[tok amt]|]; [|discriminate].
    destruct (negb _); [discriminate|]. destruct (debit _ _ _ _); inversion G; subst. reflexivity.
  - unfold deploy_interchain_token in G. destruct (negb _); [discriminate|]. destruct (_ || _); [discriminate|]. destruct (negb _); [discriminate|].
    destruct (_ || _); [discriminate|]. inversion G; subst. reflexivity.
  - discriminate.
Qed.

Theorem tstep_type t l o : tm_type (fst (fst (tstep t l o))) = tm_type t.
Proof.
  unfold tstep. destruct o as [c d a|c|c v|c a|c a|c f to|c a|c a|c f|c a|c a|c f|c a v|c|c m n s|self result].
  16:{ destruct (tm_pending t =? 0); [reflexivity|]. unfold deploy_token_callback.
       destruct result as [tok|]; [destruct (bytes_eqb (tm_token t) [])|]; reflexivity. }
  all: cbn [top_ctx]; destruct (pay_in _ _ _ _) as [l1|]; [|reflexivity].
  all: match goal with |- context [run_endpoint ?tt ?ll ?o] => destruct (run_endpoint tt ll o) as [[[[t1 l2] r] e]|] eqn:G; [|reflexivity] end.
  all: cbn [fst]; eapply run_endpoint_type; exact G.
Qed.


