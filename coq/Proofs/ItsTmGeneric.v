(* Token managers inside the ITS world move by token-manager operations only.  Generic form of Proofs/ItsTokens.v: for ANY preorder R on
   manager states that every endpoint call and every manager step respects, the manager at a watched address is R-related to itself
   across every operation of the ITS world (all 25 kinds, asynchronous steps included).  The only assumption is about the environment:
   the address at which an operation may deploy a NEW manager is not the watched address (deployment addresses are fresh).
   Instance below: the recorded service, token id and implementation type of a manager never change in the ITS world. *)
From Coq Require Import String List NArith Lia Bool.
From Ax Require Import Lib.Bytes Lib.Mvx Lib.SolAbi Lib.Keccak Model.Check Model.Env Model.Gateway Model.TokenManager Model.Its
     Proofs.AListFacts Proofs.GatewayMsgs Proofs.TMFacts Proofs.TMCustody Proofs.TMToken Proofs.TMUpgradeFacts Proofs.TMFixed Proofs.ItsFacts Proofs.ItsWorld Proofs.ItsTokens.
Import ListNotations.
Open Scope N_scope.

Section P.
  Variable H : bytes -> bytes.
  Variable verify : bytes -> bytes -> bytes -> bool.
  Variable a : bytes.        (* the manager we watch *)
  Variable Rel : tm -> tm -> Prop.
  Hypothesis Rel_refl : forall t, Rel t t.
  Hypothesis Rel_trans : forall x y z, Rel x y -> Rel y z -> Rel x z.
  Hypothesis Rel_ep : forall t l o t' l' r e, run_endpoint t l o = Some (t', l', r, e) -> Rel t t'.
  Hypothesis Rel_step : forall t l o, Rel t (fst (fst (tstep t l o))).

  Definition tmr (w w' : iworld) : Prop :=
    forall t, get_tm w a = Some t -> exists t', get_tm w' a = Some t' /\ Rel t t'.

  Lemma tmr_refl w : tmr w w.
  Proof. intros t G. eauto. Qed.
  Lemma tmr_trans x y z : tmr x y -> tmr y z -> tmr x z.
  Proof. intros A B t G. destruct (A t G) as (t1 & G1 & E1). destruct (B t1 G1) as (t2 & G2 & E2). exists t2. split; [exact G2 | eapply Rel_trans; eauto]. Qed.
  Lemma tmr_same w w' : iw_tms w' = iw_tms w -> tmr w w'.
  Proof. intros E t G. exists t. unfold get_tm in *. rewrite E. auto. Qed.
  Lemma get_tm_wtm w b t x : get_tm (w_tm w b t) x = if bytes_eqb x b then Some t else get_tm w x.
  Proof. unfold get_tm, w_tm. cbn [iw_tms wset]. rewrite (alookup_aset bytes_eqb bytes_eqb_eq). reflexivity. Qed.
  (* writing a manager: at another address, or at the watched address with the recorded token kept *)
  Lemma tmr_wtm_other w b t : b <> a -> tmr w (w_tm w b t).
  Proof. intros Hne t0 G. exists t0. rewrite get_tm_wtm. destruct (bytes_eqb a b) eqn:E; [apply bytes_eqb_eq in E; congruence | auto]. Qed.
  Lemma tmr_wtm_keep w b t0 t : get_tm w b = Some t0 -> Rel t0 t -> tmr w (w_tm w b t).
  Proof.
    intros G0 K t1 G1. rewrite get_tm_wtm. destruct (bytes_eqb a b) eqn:E.
    - apply bytes_eqb_eq in E. subst b. rewrite G0 in G1. inversion G1; subst. exists t. split; [reflexivity | exact K].
    - exists t1. auto.
  Qed.

  Definition tokpres (f : tm -> ledger -> tctx -> tres) : Prop := forall t l x t' l' r e, f t l x = Some (t', l', r, e) -> Rel t t'.
  Lemma tm_call_tmr w c tma f w' : tokpres f -> tm_call w c tma f = Some w' -> tmr w w'.
  Proof.
    intros Pf. unfold tm_call. intro R. destruct (get_tm w tma) as [t|] eqn:G; [|discriminate].
    destruct (f t (iw_led w) _) as [[[[t' l'] rets] logs]|] eqn:F; [|discriminate]. inversion R; subst.
    eapply tmr_trans; [eapply tmr_wtm_keep; [exact G | eapply Pf; exact F] | apply tmr_same; reflexivity].
  Qed.
  Lemma call_tm_give_tmr w c token_id dest amount w' tok : call_tm_give w c token_id dest amount = Some (w', tok) -> tmr w w'.
  Proof.
    intro R. apply call_tm_give_spec in R as (_ & t & t' & l' & rets & logs & G & _ & F & ->).
    eapply tmr_trans; [eapply tmr_wtm_keep; [exact G | eapply (Rel_ep t _ (TGive _ dest amount)); exact F] | apply tmr_same; reflexivity].
  Qed.
  Lemma call_tm_take_tmr w c token_id tok amount w' : call_tm_take w c token_id tok amount = Some w' -> tmr w w'.
  Proof.
    unfold call_tm_take. intro R. destruct (bytes_eqb _ []); [discriminate|]. destruct (get_tm w _) as [t|] eqn:G; [|discriminate].
    destruct (pay_in _ _ _ _) as [l1|]; [|discriminate]. destruct (take_token t l1 _) as [[[[t' l'] rets] logs]|] eqn:F; [|discriminate]. inversion R; subst.
    eapply tmr_trans; [eapply tmr_wtm_keep; [exact G | eapply (Rel_ep t _ (TTake _)); exact F] | apply tmr_same; reflexivity].
  Qed.
  Lemma call_tm_deploy_token_tmr w c id m n s w' : call_tm_deploy_token w c id m n s = Some w' -> tmr w w'.
  Proof.
    unfold call_tm_deploy_token. intro R. destruct (bytes_eqb _ []); [discriminate|]. destruct (get_tm w _) as [t|] eqn:G; [|discriminate].
    destruct (pay_in _ _ _ _) as [l1|]; [|discriminate]. destruct (deploy_interchain_token t l1 _ m n s) as [[[[t' l'] rets] logs]|] eqn:F; [|discriminate]. inversion R; subst.
    eapply tmr_trans; [eapply tmr_wtm_keep; [exact G | eapply (Rel_ep t _ (TDeployToken _ m n s)); exact F] | apply tmr_same; reflexivity].
  Qed.
  Lemma call_contract_tmr w c dc da p gt g w' ev : call_contract H w c dc da p gt g = Some (w', ev) -> tmr w w'.
  Proof. intro R. apply call_contract_spec in R as (_ & _ & _ & E & _). apply tmr_same; assumption. Qed.
  Lemma route_message_tmr w c d p gt g w' ev : route_message H w c d p gt g = Some (w', ev) -> tmr w w'.
  Proof. intro R. apply route_message_spec in R as (dc & da & p' & _ & R). eapply call_contract_tmr; eauto. Qed.
  Lemma gw_validate_tmr w c chain id src ph w' b ev : gw_validate H w c chain id src ph = Some (w', b, ev) -> tmr w w'.
  Proof. intro V. apply gw_validate_spec in V as (_ & _ & E & _). apply tmr_same; assumption. Qed.
  Lemma set_limits_tmr items : forall w c w', set_limits w c items = Some w' -> tmr w w'.
  Proof.
    induction items as [|[id l] r IH]; intros w c w' R; cbn [set_limits] in R; [inversion R; apply tmr_refl|].
    inv_some R. apply IH in R. eapply tmr_trans; [|exact R].
    eapply tm_call_tmr; [|eassumption]. intros t l0 x t' l' r0 e F. eapply (Rel_ep t l0 (TSetLimit x l)); exact F.
  Qed.
  (* a new manager is deployed at the context's fresh address, which is not the watched one *)
  Lemma deploy_tm_tmr w c token_id ty token operator w' : ic_newtm c <> a -> deploy_tm w c token_id ty token operator = Some w' -> tmr w w'.
  Proof.
    intros Hn D. apply deploy_tm_spec in D as (_ & _ & t & ev & _ & ->).
    eapply tmr_trans; [apply tmr_wtm_other; exact Hn | apply tmr_same; reflexivity].
  Qed.

  Ltac rpres_tac :=
    intros ?t ?l0 ?x ?t' ?l' ?r0 ?e ?F;
    first [ eapply (Rel_ep _ _ (TMint _ _ _)); eassumption
          | eapply (Rel_ep _ _ (TTransferMint _ _)); eassumption
          | eapply (Rel_ep _ _ (TRemoveFL _ _)); eassumption
          | eapply (Rel_ep _ _ (TAddFL _ _)); eassumption
          | eapply (Rel_ep _ _ (TTransferOp _ _)); eassumption
          | eapply (Rel_ep _ _ (TSetLimit _ _)); eassumption ].

  Section WithCtx.
  Variable c : ictx.
  Hypothesis Hn : ic_newtm c <> a.

  Ltac tks :=
    repeat match goal with
    | Hx : call_contract _ _ _ _ _ _ _ _ = Some _ |- _ => apply call_contract_tmr in Hx
    | Hx : route_message _ _ _ _ _ _ _ = Some _ |- _ => apply route_message_tmr in Hx
    | Hx : tm_call _ _ _ _ = Some _ |- _ => apply tm_call_tmr in Hx; [|rpres_tac]
    | Hx : call_tm_deploy_token _ _ _ _ _ _ = Some _ |- _ => apply call_tm_deploy_token_tmr in Hx
    | Hx : gw_validate _ _ _ _ _ _ _ = Some _ |- _ => apply gw_validate_tmr in Hx
    | Hx : call_tm_give _ _ _ _ _ = Some _ |- _ => apply call_tm_give_tmr in Hx
    | Hx : call_tm_take _ _ _ _ _ = Some _ |- _ => apply call_tm_take_tmr in Hx
    | Hx : set_limits _ _ _ = Some _ |- _ => apply set_limits_tmr in Hx
    | Hx : deploy_tm _ c _ _ _ _ = Some _ |- _ => apply (deploy_tm_tmr _ _ _ _ _ _ _ Hn) in Hx
    end.
  Ltac tkstep := first
    [ apply tmr_refl
    | eassumption
    | match goal with |- tmr _ (w_push ?x _) => eapply (tmr_trans _ x); [|apply tmr_same; reflexivity] end
    | match goal with |- tmr _ (w_its ?x _) => eapply (tmr_trans _ x); [|apply tmr_same; reflexivity] end
    | match goal with |- tmr _ (w_led_ ?x _) => eapply (tmr_trans _ x); [|apply tmr_same; reflexivity] end
    | match goal with |- tmr _ (w_pend_ ?x _) => eapply (tmr_trans _ x); [|apply tmr_same; reflexivity] end
    | match goal with Hx : tmr ?p ?q |- tmr _ ?q => eapply tmr_trans; [|exact Hx] end ].
  Ltac tkgo := tks; repeat tkstep.

  Lemma transmit_tmr w t dc da am gt g d w' ev : transmit H w c t dc da am gt g d = Some (w', ev) -> tmr w w'.
  Proof. unfold transmit. intro R. inv_some R. tkgo. Qed.
  Lemma deploy_token_raw_tmr w ds dest n sy d m e w' ev : deploy_token_raw H w c ds dest n sy d m e = Some (w', ev) -> tmr w w'.
  Proof. unfold deploy_token_raw, remote_base. intro R. inv_some R; inversion R; subst; tkgo. Qed.
  Lemma process_transfer_tmr w orig chain id src ph payload w' ev : process_transfer H w c orig chain id src ph payload = Some (w', ev) -> tmr w w'.
  Proof. unfold process_transfer. intro R. inv_some R; inversion R; subst; tkgo. Qed.
  Lemma process_deploy_tmr w chain id src ph payload w' ev : process_deploy H w c chain id src ph payload = Some (w', ev) -> tmr w w'.
  Proof. unfold process_deploy. intro R. inv_some R; inversion R; subst; tkgo. Qed.
  Lemma process_link_tmr w payload w' : process_link w c payload = Some w' -> tmr w w'.
  Proof. unfold process_link. intro R. inv_some R. tkgo. Qed.
  Lemma its_execute_tmr w chain id src payload w' ev : its_execute H w c chain id src payload = Some (w', ev) -> tmr w w'.
  Proof.
    unfold its_execute. intro R. inv_some R.
    - eapply process_transfer_tmr; eauto.
    - eapply process_deploy_tmr; eauto.
    - inversion R; subst. match goal with L : process_link _ _ _ = Some _ |- _ => apply process_link_tmr in L end. tkgo.
  Qed.
  Lemma remote_raw_tmr w ds dc dm w' rets ev : remote_raw H w c ds dc dm = Some (w', rets, ev) -> tmr w w'.
  Proof.
    unfold remote_raw. intro R. inv_some R; inversion R; subst.
    - match goal with D : deploy_token_raw _ _ _ _ _ _ _ _ _ _ = Some _ |- _ => apply deploy_token_raw_tmr in D; exact D end.
    - tkgo.
  Qed.
  Lemma register_custom_raw_tmr w ds tok ty lp w' rets ev : register_custom_raw H w c ds tok ty lp = Some (w', rets, ev) -> tmr w w'.
  Proof. unfold register_custom_raw. intro R. inv_some R. inversion R; subst. tkgo. Qed.
  Lemma metadata_callback_tmr w tok gas caller res w' ev : metadata_callback H w c tok gas caller res = Some (w', ev) -> tmr w w'.
  Proof. unfold metadata_callback. intro T. inv_some T; try (inversion T; subst); tkgo. Qed.
  Lemma remote_callback_tmr w ds dc sym m gas caller res w' ev : remote_callback H w c ds dc sym m gas caller res = Some (w', ev) -> tmr w w'.
  Proof.
    unfold remote_callback. intro T. inv_some T; try (inversion T; subst; tkgo).
    all: try (apply deploy_token_raw_tmr in T; tkgo).
  Qed.
  End WithCtx.

  Definition iop_ctx' (o : iop) : option ictx :=
    match o with
    | IExecute c _ _ _ _ | ITransfer c _ _ _ _ _ | ICallContract c _ _ _ _ _ | IRegisterMetadata c _ | IDeployToken c _ _ _ _ _ _
    | IApproveRemote c _ _ _ _ | IRevokeRemote c _ _ _ | IDeployRemote c _ _ _ _ | IRegisterCanonical c _ | IDeployRemoteCanonical c _ _
    | IRegisterCustom c _ _ _ _ | ILinkToken c _ _ _ _ _ | ISetFlowLimits c _ _ | ISetTrusted c _ _ | IRemoveTrusted c _ | IPause c _
    | ITransferOp c _ | IProposeOp c _ | IAcceptOp c _ | ICallback c _ | IProps c _ _ => Some c
    | IGateway _ | ITm _ _ | IDeliver _ _ _ | IIssue _ _ => None
    end.

  Ltac tkstep0 := first
    [ apply tmr_refl
    | eassumption
    | match goal with |- tmr _ (w_push ?x _) => eapply (tmr_trans _ x); [|apply tmr_same; reflexivity] end
    | match goal with |- tmr _ (w_its ?x _) => eapply (tmr_trans _ x); [|apply tmr_same; reflexivity] end
    | match goal with |- tmr _ (w_led_ ?x _) => eapply (tmr_trans _ x); [|apply tmr_same; reflexivity] end
    | match goal with |- tmr _ (w_pend_ ?x _) => eapply (tmr_trans _ x); [|apply tmr_same; reflexivity] end
    | match goal with |- tmr _ (w_gw_ ?x _) => eapply (tmr_trans _ x); [|apply tmr_same; reflexivity] end
    | match goal with Hx : tmr ?p ?q |- tmr _ ?q => eapply tmr_trans; [|exact Hx] end ].
  Ltac tks0 :=
    repeat match goal with
    | Hx : call_contract _ _ _ _ _ _ _ _ = Some _ |- _ => apply call_contract_tmr in Hx
    | Hx : route_message _ _ _ _ _ _ _ = Some _ |- _ => apply route_message_tmr in Hx
    | Hx : tm_call _ _ _ _ = Some _ |- _ => apply tm_call_tmr in Hx; [|rpres_tac]
    | Hx : call_tm_deploy_token _ _ _ _ _ _ = Some _ |- _ => apply call_tm_deploy_token_tmr in Hx
    | Hx : gw_validate _ _ _ _ _ _ _ = Some _ |- _ => apply gw_validate_tmr in Hx
    | Hx : call_tm_give _ _ _ _ _ = Some _ |- _ => apply call_tm_give_tmr in Hx
    | Hx : call_tm_take _ _ _ _ _ = Some _ |- _ => apply call_tm_take_tmr in Hx
    | Hx : set_limits _ _ _ = Some _ |- _ => apply set_limits_tmr in Hx
    end.
  Ltac tkgo0 := tks0; repeat tkstep0.

  (* THE WATCHED MANAGER IS R-RELATED TO ITSELF ACROSS EVERY OPERATION *)
  Theorem istep_tm_related w o : (forall c, iop_ctx' o = Some c -> ic_newtm c <> a) -> tmr w (fst (istep H verify w o)).
  Proof.
    intro Hc.
    assert (ITX : forall c f, (forall w1 w2 rets ev, f w1 = Some (w2, rets, ev) -> tmr w1 w2) -> tmr w (fst (itx w c f))).
    { intros c f Hf. unfold itx. destruct (pay_in _ _ _ _) as [l1|]; [|apply tmr_refl].
      destruct (f (w_led_ w l1)) as [[[w2 rets] ev]|] eqn:F; [|apply tmr_refl]. cbn [fst].
      eapply tmr_trans; [|eapply Hf; exact F]. apply tmr_same; reflexivity. }
    destruct o; cbn [istep]; try (pose proof (Hc c eq_refl) as Hn); try (apply ITX; intros w1 w2 rets ev F; unfold norets in F).
    - destruct (gstep H verify (iw_gw w) o) as [g' r]. cbn [fst]. apply tmr_same; reflexivity.
    - destruct (its_execute H w1 c chain id src payload) as [[w3 ev3]|] eqn:X; inversion F; subst. eapply its_execute_tmr; eauto.
    - destruct (interchain_transfer H w1 c token_id dest_chain dest_addr metadata gas) as [[w3 ev3]|] eqn:X; inversion F; subst.
      unfold interchain_transfer in X. inv_some X. apply (transmit_tmr c) in X. tkgo0.
    - destruct (call_contract_with_token H w1 c token_id dest_chain dest_addr data gas) as [[w3 ev3]|] eqn:X; inversion F; subst.
      unfold call_contract_with_token in X. inv_some X. apply (transmit_tmr c) in X. tkgo0.
    - destruct (register_token_metadata w1 c token) as [[w3 ev3]|] eqn:X; inversion F; subst.
      unfold register_token_metadata in X. inv_some X. inversion X; subst. tkgo0.
    - unfold deploy_interchain_token_ep in F. inv_some F; inversion F; subst.
      all: try (match goal with D : deploy_token_raw _ _ _ _ _ _ _ _ _ _ = Some _ |- _ => apply (deploy_token_raw_tmr c Hn) in D end).
      all: tkgo0.
    - destruct (approve_remote H w1 c deployer salt dest_chain dest_minter) as [[w3 ev3]|] eqn:X; inversion F; subst.
      apply approve_remote_spec in X as (_ & _ & ->). tkgo0.
    - destruct (revoke_remote H w1 c deployer salt dest_chain) as [[w3 ev3]|] eqn:X; inversion F; subst.
      apply revoke_remote_spec in X. subst. tkgo0.
    - unfold deploy_remote_with_minter in F. inv_some F; apply (remote_raw_tmr c Hn) in F; tkgo0.
    - unfold register_canonical in F. inv_some F. apply (register_custom_raw_tmr c Hn) in F. exact F.
    - unfold deploy_remote_canonical in F. inv_some F. apply (remote_raw_tmr c Hn) in F. exact F.
    - unfold register_custom_token in F. inv_some F. apply (register_custom_raw_tmr c Hn) in F. exact F.
    - unfold link_token in F. inv_some F. inversion F; subst. tkgo0.
    - destruct (set_flow_limits w1 c ids limits) as [[w3 ev3]|] eqn:X; inversion F; subst.
      unfold set_flow_limits in X. inv_some X. inversion X; subst. tkgo0.
    - destruct (set_trusted_address w1 c chain a0) as [[w3 ev3]|] eqn:X; inversion F; subst.
      unfold set_trusted_address in X. inv_some X. inversion X; subst. tkgo0.
    - destruct (remove_trusted_address w1 c chain) as [[w3 ev3]|] eqn:X; inversion F; subst.
      unfold remove_trusted_address in X. inv_some X. inversion X; subst. tkgo0.
    - destruct (pause_ep w1 c b) as [[w3 ev3]|] eqn:X; inversion F; subst.
      apply pause_spec in X as (_ & -> & _). tkgo0.
    - destruct (its_transfer_operatorship w1 c a0) as [[w3 ev3]|] eqn:X; inversion F; subst.
      unfold its_transfer_operatorship in X. inv_some X. inversion X; subst. tkgo0.
    - destruct (its_propose_operatorship w1 c a0) as [[w3 ev3]|] eqn:X; inversion F; subst.
      unfold its_propose_operatorship in X. inv_some X. inversion X; subst. tkgo0.
    - destruct (its_accept_operatorship w1 c from) as [[w3 ev3]|] eqn:X; inversion F; subst.
      unfold its_accept_operatorship in X. inv_some X. inversion X; subst. tkgo0.
    - (* direct call into a manager *)
      destruct (get_tm w tma) as [t|] eqn:G; [|apply tmr_refl].
      assert (K : forall o', tmr w (w_led_ (w_tm w tma (fst (fst (tstep t (iw_led w) o')))) (snd (fst (tstep t (iw_led w) o'))))).
      { intro o'. eapply tmr_trans; [eapply tmr_wtm_keep; [exact G | apply Rel_step] | apply tmr_same; reflexivity]. }
      destruct o; try apply tmr_refl;
        match goal with |- context [tstep t (iw_led w) ?oo] => pose proof (K oo) as K1; destruct (tstep t (iw_led w) oo) as [[t' l'] out] end;
        cbn [fst snd] in K1 |- *; try exact K1.
      destruct (to_ok out); [eapply tmr_trans; [exact K1 | apply tmr_same; reflexivity] | exact K1].
    - destruct (find_ip id (iw_pend w)) as [p|]; [|apply tmr_refl].
      destruct (ip_kind p); try apply tmr_refl. destruct (ip_stage p); try apply tmr_refl.
      destruct (if ok then _ else _); [|apply tmr_refl]. cbn [fst]. tkgo0.
    - destruct (find_ip id (iw_pend w)) as [p|]; [|apply tmr_refl].
      destruct (ip_kind p); try apply tmr_refl. destruct (ip_stage p) as [|ok]; try apply tmr_refl.
      destruct (transfer_callback H _ c chain id0 src ph token_id tok amount ok) as [[w1 ev1]|] eqn:T; cbn [fst]; [|tkgo0].
      unfold transfer_callback in T. destruct ok; inv_some T; inversion T; subst; tkgo0.
    - destruct (find_ip id (iw_pend w)) as [p|]; [|apply tmr_refl].
      destruct (ip_kind p); try apply tmr_refl.
      + destruct (metadata_callback H _ c tok gas caller res) as [[w1 ev1]|] eqn:T; cbn [fst]; [|tkgo0].
        apply (metadata_callback_tmr c) in T. tkgo0.
      + destruct (remote_callback H _ c deploy_salt dest_chain symbol minter gas caller res) as [[w1 ev1]|] eqn:T; cbn [fst]; [|tkgo0].
        apply (remote_callback_tmr c Hn) in T. tkgo0.
    - (* issuance result *)
      destruct (find_ip id (iw_pend w)) as [p|]; [|apply tmr_refl].
      destruct (ip_kind p); try apply tmr_refl. destruct (get_tm w tm) as [t|] eqn:G; [|apply tmr_refl].
      pose proof (Rel_step t (iw_led w) (TIssueCallback tm res)) as K.
      destruct (tstep t (iw_led w) _) as [[t' l'] out]. cbn [fst] in K |- *.
      eapply tmr_trans; [eapply tmr_wtm_keep; [exact G | exact K] | apply tmr_same; reflexivity].
  Qed.

  Theorem irun_tm_related ops : forall w, Forall (fun o => forall c, iop_ctx' o = Some c -> ic_newtm c <> a) ops -> tmr w (irun H verify w ops).
  Proof.
    induction ops as [|o r IH]; intros w F; [apply tmr_refl|]. inversion F as [|? ? Ho Fr]; subst.
    change (irun H verify w (o :: r)) with (irun H verify (fst (istep H verify w o)) r).
    eapply tmr_trans; [apply istep_tm_related; exact Ho | apply IH; exact Fr].
  Qed.
End P.

(* ---------- instance: the identity of a manager (recorded service, token id, implementation type) never changes ---------- *)
Definition same_identity (t t' : tm) : Prop := tm_service t' = tm_service t /\ tm_tid t' = tm_tid t /\ tm_type t' = tm_type t.

Section Identity.
  Variable H : bytes -> bytes.
  Variable verify : bytes -> bytes -> bytes -> bool.

  Lemma si_refl t : same_identity t t.
  Proof. repeat split. Qed.
  Lemma si_trans x y z : same_identity x y -> same_identity y z -> same_identity x z.
  Proof. intros (A1 & A2 & A3) (B1 & B2 & B3). repeat split; congruence. Qed.
  Lemma si_ep t l o t' l' r e : run_endpoint t l o = Some (t', l', r, e) -> same_identity t t'.
  Proof. intro G. repeat split; [eapply run_endpoint_service | eapply run_endpoint_tid | eapply run_endpoint_type]; exact G. Qed.
  Lemma si_step t l o : same_identity t (fst (fst (tstep t l o))).
  Proof. repeat split; [apply tstep_service | apply tstep_tid | apply tstep_type]. Qed.

  (* over every history of the ITS world (fresh deployment addresses): the manager at address a keeps its identity *)
  Theorem its_tm_identity_forever a ops w t :
    Forall (fun o => forall c, iop_ctx' o = Some c -> ic_newtm c <> a) ops ->
    get_tm w a = Some t -> exists t', get_tm (irun H verify w ops) a = Some t' /\ same_identity t t'.
  Proof.
    intros F G. exact (irun_tm_related H verify a same_identity si_refl si_trans si_ep si_step ops w F t G).
  Qed.

  (* C10, first sentence, in the world: whatever happened in between, the manager at a gives and takes only for the service it
     recorded at deployment *)
  Corollary its_tm_give_service_only a ops w t t' l c d x :
    Forall (fun o => forall c0, iop_ctx' o = Some c0 -> ic_newtm c0 <> a) ops ->
    get_tm w a = Some t -> get_tm (irun H verify w ops) a = Some t' ->
    t_caller c <> tm_service t -> give_token t' l c d x = None.
  Proof.
    intros F G G' NE. destruct (its_tm_identity_forever a ops w t F G) as (t2 & G2 & (S & _)).
    rewrite G' in G2. inversion G2; subst t2. apply give_only_service. rewrite S. exact NE.
  Qed.
  Corollary its_tm_take_service_only a ops w t t' l c :
    Forall (fun o => forall c0, iop_ctx' o = Some c0 -> ic_newtm c0 <> a) ops ->
    get_tm w a = Some t -> get_tm (irun H verify w ops) a = Some t' ->
    t_caller c <> tm_service t -> take_token t' l c = None.
  Proof.
    intros F G G' NE. destruct (its_tm_identity_forever a ops w t F G) as (t2 & G2 & (S & _)).
    rewrite G' in G2. inversion G2; subst t2. apply take_only_service. rewrite S. exact NE.
  Qed.
End Identity.
