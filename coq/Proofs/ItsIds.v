(* Pending asynchronous work of the ITS world carries pairwise distinct ids, all below the world's counter:
   an invariant over every operation (all 25 kinds, every caller, every schedule).  It discharges the NoDup
   hypothesis of the callback theorems of Proofs/ItsCustody.v on every reachable state. *)
From Coq Require Import String List NArith Lia Bool.
From Ax Require Import Lib.Bytes Lib.Mvx Lib.SolAbi Lib.Keccak Model.Check Model.Env Model.Gateway Model.TokenManager Model.Its
     Proofs.AListFacts Proofs.GatewayMsgs Proofs.TMFacts Proofs.ItsFacts Proofs.ItsWorld.
Import ListNotations.
Open Scope N_scope.

Definition ids (w : iworld) : list N := map ip_id (iw_pend w).
Definition IdInv (w : iworld) : Prop := NoDup (ids w) /\ (forall i, In i (ids w) -> i < iw_next w).

(* ir w w': the step from w to w' keeps the invariant *)
Definition ir (w w' : iworld) : Prop := IdInv w -> IdInv w'.
Lemma ir_refl w : ir w w.  Proof. exact (fun x => x). Qed.
Lemma ir_trans a b c : ir a b -> ir b c -> ir a c.  Proof. unfold ir. auto. Qed.
Lemma ir_same w w' : iw_pend w' = iw_pend w -> iw_next w' = iw_next w -> ir w w'.
Proof. intros P N [A B]. unfold IdInv, ids. rewrite P, N. split; assumption. Qed.
Lemma ir_inv w w' : ir w w' -> IdInv w -> IdInv w'.  Proof. exact (fun f => f). Qed.

Lemma nodup_snoc_n (l : list N) k : NoDup l -> ~ In k l -> NoDup (l ++ [k]).
Proof.
  induction l as [|a l IH]; cbn [app]; intros N Hk; [constructor; [intros []|constructor]|].
  inversion N as [|? ? Ha Hn]; subst. constructor.
  - intro Hin. apply in_app_or in Hin as [Hin|[->|[]]]; [contradiction | apply Hk; left; reflexivity].
  - apply IH; [assumption | intro Hc; apply Hk; right; exact Hc].
Qed.

Lemma ir_push w k : ir w (w_push w k).
Proof.
  intros [A B]. unfold IdInv, ids, w_push. cbn [iw_pend iw_next wset]. rewrite map_app. cbn [map ip_id]. split.
  - apply nodup_snoc_n; [exact A|]. intro Hin. apply B in Hin. lia.
  - intros i Hin. apply in_app_or in Hin as [Hin|[<-|[]]]; [apply B in Hin; lia | lia].
Qed.

Lemma ids_remove_in id ps i : In i (map ip_id (remove_ip id ps)) -> In i (map ip_id ps).
Proof.
  induction ps as [|p r IH]; cbn [remove_ip map]; [auto|]. destruct (ip_id p =? id); cbn [map In]; intro Hin; [right; auto|].
  destruct Hin as [E|Hin]; [left; exact E | right; auto].
Qed.
Lemma ids_remove_nodup id ps : NoDup (map ip_id ps) -> NoDup (map ip_id (remove_ip id ps)).
Proof.
  induction ps as [|p r IH]; cbn [remove_ip map]; intro N; [constructor|]. inversion N as [|? ? Hn Nr]; subst.
  destruct (ip_id p =? id); [auto|]. cbn [map]. constructor; [|auto]. intro Hin. apply Hn. eapply ids_remove_in; eauto.
Qed.
Lemma ir_remove w id : ir w (w_pend_ w (remove_ip id (iw_pend w))).
Proof.
  intros [A B]. unfold IdInv, ids, w_pend_. cbn [iw_pend iw_next wset]. split; [apply ids_remove_nodup; exact A|].
  intros i Hin. apply B. eapply ids_remove_in; eauto.
Qed.
Lemma ids_replace q ps p : find_ip (ip_id q) ps = Some p -> map ip_id (replace_ip q ps) = map ip_id ps.
Proof.
  induction ps as [|a r IH]; cbn [find_ip replace_ip]; [reflexivity|]. destruct (ip_id a =? ip_id q) eqn:E.
  - intros _. cbn [map]. apply N.eqb_eq in E. rewrite E. reflexivity.
  - intro X. cbn [map]. f_equal. apply IH. exact X.
Qed.

Section P.
  Variable H : bytes -> bytes.
  Variable verify : bytes -> bytes -> bytes -> bool.

  Lemma call_contract_ir w c dc da p gt g w' ev : call_contract H w c dc da p gt g = Some (w', ev) -> ir w w'.
  Proof. unfold call_contract. intro R. inv_some R. inversion R; subst. apply ir_same; reflexivity. Qed.
  Lemma route_message_ir w c d p gt g w' ev : route_message H w c d p gt g = Some (w', ev) -> ir w w'.
  Proof. unfold route_message. intro R. inv_some R. eapply call_contract_ir; eauto. Qed.
  Lemma tm_call_ir w c tma f w' : tm_call w c tma f = Some w' -> ir w w'.
  Proof. unfold tm_call. intro R. inv_some R. destruct p as [[[t' l'] rets] logs]. inversion R; subst. apply ir_same; reflexivity. Qed.
  Lemma call_tm_deploy_token_ir w c id m n s w' : call_tm_deploy_token w c id m n s = Some w' -> ir w w'.
  Proof.
    unfold call_tm_deploy_token. intro R. inv_some R. destruct p as [[[t' l'] rets] logs]. inversion R; subst.
    eapply ir_trans; [|apply ir_push]. apply ir_same; reflexivity.
  Qed.
  Lemma gw_validate_ir w c chain id src ph w' b ev : gw_validate H w c chain id src ph = Some (w', b, ev) -> ir w w'.
  Proof. unfold gw_validate. intro R. inv_some R. destruct p as [[g' b'] e]. inversion R; subst. apply ir_same; reflexivity. Qed.
  Lemma call_tm_give_ir w c token_id dest amount w' tok : call_tm_give w c token_id dest amount = Some (w', tok) -> ir w w'.
  Proof. unfold call_tm_give. intro R. inv_some R. destruct p as [[[t' l'] rets] logs]. inversion R; subst. apply ir_same; reflexivity. Qed.
  Lemma call_tm_take_ir w c token_id tok amount w' : call_tm_take w c token_id tok amount = Some w' -> ir w w'.
  Proof. unfold call_tm_take. intro R. inv_some R. destruct p as [[[t' l'] rets] logs]. inversion R; subst. apply ir_same; reflexivity. Qed.
  Lemma set_limits_ir items : forall w c w', set_limits w c items = Some w' -> ir w w'.
  Proof.
    induction items as [|[id l] r IH]; intros w c w' R; cbn [set_limits] in R; [inversion R; apply ir_refl|].
    inv_some R. apply IH in R. eapply ir_trans; [eapply tm_call_ir; eauto | exact R].
  Qed.
  Lemma deploy_tm_ir w c token_id ty token operator w' : deploy_tm w c token_id ty token operator = Some w' -> ir w w'.
  Proof. intro D. apply deploy_tm_spec in D as (_ & _ & t & ev & _ & ->). apply ir_same; reflexivity. Qed.

  Lemma ir_wits w s : ir w (w_its w s).  Proof. apply ir_same; reflexivity. Qed.
  Lemma ir_wled w l : ir w (w_led_ w l).  Proof. apply ir_same; reflexivity. Qed.
  Lemma ir_wtm w a t : ir w (w_tm w a t).  Proof. apply ir_same; reflexivity. Qed.

  Ltac irs :=
    repeat match goal with
    | Hx : call_contract _ _ _ _ _ _ _ _ = Some _ |- _ => apply call_contract_ir in Hx
    | Hx : route_message _ _ _ _ _ _ _ = Some _ |- _ => apply route_message_ir in Hx
    | Hx : tm_call _ _ _ _ = Some _ |- _ => apply tm_call_ir in Hx
    | Hx : call_tm_deploy_token _ _ _ _ _ _ = Some _ |- _ => apply call_tm_deploy_token_ir in Hx
    | Hx : gw_validate _ _ _ _ _ _ _ = Some _ |- _ => apply gw_validate_ir in Hx
    | Hx : call_tm_give _ _ _ _ _ = Some _ |- _ => apply call_tm_give_ir in Hx
    | Hx : call_tm_take _ _ _ _ _ = Some _ |- _ => apply call_tm_take_ir in Hx
    | Hx : set_limits _ _ _ = Some _ |- _ => apply set_limits_ir in Hx
    | Hx : deploy_tm _ _ _ _ _ _ = Some _ |- _ => apply deploy_tm_ir in Hx
    end.
  Ltac irstep := first
    [ apply ir_refl
    | eassumption
    | match goal with |- ir _ (w_push _ _) => eapply ir_trans; [|apply ir_push] end
    | match goal with |- ir _ (w_its _ _) => eapply ir_trans; [|apply ir_wits] end
    | match goal with |- ir _ (w_led_ _ _) => eapply ir_trans; [|apply ir_wled] end
    | match goal with |- ir _ (w_tm _ _ _) => eapply ir_trans; [|apply ir_wtm] end
    | match goal with Hx : ir ?a ?b |- ir _ ?b => eapply ir_trans; [|exact Hx] end ].
  Ltac irgo := irs; repeat irstep.

  Lemma transmit_ir w c t dc da a gt g d w' ev : transmit H w c t dc da a gt g d = Some (w', ev) -> ir w w'.
  Proof. unfold transmit. intro R. inv_some R. irgo. Qed.
  Lemma deploy_token_raw_ir w c ds dest n sy d m e w' ev : deploy_token_raw H w c ds dest n sy d m e = Some (w', ev) -> ir w w'.
  Proof. unfold deploy_token_raw, remote_base. intro R. inv_some R; inversion R; subst; irgo. Qed.
  Lemma process_transfer_ir w c orig chain id src ph payload w' ev : process_transfer H w c orig chain id src ph payload = Some (w', ev) -> ir w w'.
  Proof. unfold process_transfer. intro R. inv_some R; inversion R; subst; irgo. Qed.
  Lemma process_deploy_ir w c chain id src ph payload w' ev : process_deploy H w c chain id src ph payload = Some (w', ev) -> ir w w'.
  Proof. unfold process_deploy. intro R. inv_some R; inversion R; subst; irgo. Qed.
  Lemma process_link_ir w c payload w' : process_link w c payload = Some w' -> ir w w'.
  Proof. unfold process_link. intro R. inv_some R. irgo. Qed.
  Lemma its_execute_ir w c chain id src payload w' ev : its_execute H w c chain id src payload = Some (w', ev) -> ir w w'.
  Proof.
    unfold its_execute. intro R. inv_some R.
    - eapply process_transfer_ir; eauto.
    - eapply process_deploy_ir; eauto.
    - inversion R; subst. match goal with L : process_link _ _ _ = Some _ |- _ => apply process_link_ir in L end. irgo.
  Qed.
  Lemma remote_raw_ir w c ds dc dm w' rets ev : remote_raw H w c ds dc dm = Some (w', rets, ev) -> ir w w'.
  Proof.
    unfold remote_raw. intro R. inv_some R; inversion R; subst.
    - match goal with D : deploy_token_raw _ _ _ _ _ _ _ _ _ _ = Some _ |- _ => apply deploy_token_raw_ir in D; exact D end.
    - irgo.
  Qed.
  Lemma register_custom_raw_ir w c ds tok ty lp w' rets ev : register_custom_raw H w c ds tok ty lp = Some (w', rets, ev) -> ir w w'.
  Proof. unfold register_custom_raw. intro R. inv_some R. inversion R; subst. irgo. Qed.
  Lemma metadata_callback_ir w c tok gas caller res w' ev : metadata_callback H w c tok gas caller res = Some (w', ev) -> ir w w'.
  Proof. unfold metadata_callback. intro T. inv_some T; try (inversion T; subst); irgo. Qed.
  Lemma remote_callback_ir w c ds dc sym m gas caller res w' ev : remote_callback H w c ds dc sym m gas caller res = Some (w', ev) -> ir w w'.
  Proof.
    unfold remote_callback. intro T. inv_some T; try (inversion T; subst; irgo).
    all: try (apply deploy_token_raw_ir in T; irgo).
  Qed.

  Theorem istep_idinv w o : IdInv w -> IdInv (fst (istep H verify w o)).
  Proof.
    intro I0.
    assert (ITX : forall c f, (forall w1 w2 rets ev, IdInv w1 -> f w1 = Some (w2, rets, ev) -> IdInv w2) -> IdInv (fst (itx w c f))).
    { intros c f Hf. unfold itx. destruct (pay_in _ _ _ _) as [l1|]; [|exact I0].
      destruct (f (w_led_ w l1)) as [[[w2 rets] ev]|] eqn:F; [|exact I0]. cbn [fst].
      eapply Hf; [|exact F]. eapply ir_inv; [apply ir_wled | exact I0]. }
    destruct o; cbn [istep]; try (apply ITX; intros w1 w2 rets ev I1 F; unfold norets in F).
    - destruct (gstep H verify (iw_gw w) o) as [g' r]. cbn [fst]. eapply ir_inv; [|exact I0]. apply ir_same; reflexivity.
    - destruct (its_execute H w1 c chain id src payload) as [[w3 ev3]|] eqn:X; inversion F; subst. eapply ir_inv; [eapply its_execute_ir; eauto | exact I1].
    - destruct (interchain_transfer H w1 c token_id dest_chain dest_addr metadata gas) as [[w3 ev3]|] eqn:X; inversion F; subst.
      unfold interchain_transfer in X. inv_some X. apply transmit_ir in X. eapply ir_inv; [|exact I1]. irgo.
    - destruct (call_contract_with_token H w1 c token_id dest_chain dest_addr data gas) as [[w3 ev3]|] eqn:X; inversion F; subst.
      unfold call_contract_with_token in X. inv_some X. apply transmit_ir in X. eapply ir_inv; [|exact I1]. irgo.
    - destruct (register_token_metadata w1 c token) as [[w3 ev3]|] eqn:X; inversion F; subst.
      unfold register_token_metadata in X. inv_some X. inversion X; subst. eapply ir_inv; [|exact I1]. irgo.
    - unfold deploy_interchain_token_ep in F. inv_some F; inversion F; subst; eapply ir_inv; try exact I1.
      all: try (match goal with D : deploy_token_raw _ _ _ _ _ _ _ _ _ _ = Some _ |- _ => apply deploy_token_raw_ir in D end).
      all: irgo.
    - destruct (approve_remote H w1 c deployer salt dest_chain dest_minter) as [[w3 ev3]|] eqn:X; inversion F; subst.
      apply approve_remote_spec in X as (_ & _ & ->). eapply ir_inv; [|exact I1]. irgo.
    - destruct (revoke_remote H w1 c deployer salt dest_chain) as [[w3 ev3]|] eqn:X; inversion F; subst.
      apply revoke_remote_spec in X. subst. eapply ir_inv; [|exact I1]. irgo.
    - unfold deploy_remote_with_minter in F. inv_some F; apply remote_raw_ir in F; eapply ir_inv; try exact I1; irgo.
    - unfold register_canonical in F. inv_some F. apply register_custom_raw_ir in F. eapply ir_inv; eauto.
    - unfold deploy_remote_canonical in F. inv_some F. apply remote_raw_ir in F. eapply ir_inv; eauto.
    - unfold register_custom_token in F. inv_some F. apply register_custom_raw_ir in F. eapply ir_inv; eauto.
    - unfold link_token in F. inv_some F. inversion F; subst. eapply ir_inv; [|exact I1]. irgo.
    - destruct (set_flow_limits w1 c ids0 limits) as [[w3 ev3]|] eqn:X; inversion F; subst.
      unfold set_flow_limits in X. inv_some X. inversion X; subst. eapply ir_inv; [|exact I1]. irgo.
    - destruct (set_trusted_address w1 c chain a) as [[w3 ev3]|] eqn:X; inversion F; subst.
      unfold set_trusted_address in X. inv_some X. inversion X; subst. eapply ir_inv; [|exact I1]. irgo.
    - destruct (remove_trusted_address w1 c chain) as [[w3 ev3]|] eqn:X; inversion F; subst.
      unfold remove_trusted_address in X. inv_some X. inversion X; subst. eapply ir_inv; [|exact I1]. irgo.
    - destruct (pause_ep w1 c b) as [[w3 ev3]|] eqn:X; inversion F; subst.
      apply pause_spec in X as (_ & -> & _). eapply ir_inv; [|exact I1]. irgo.
    - destruct (its_transfer_operatorship w1 c a) as [[w3 ev3]|] eqn:X; inversion F; subst.
      unfold its_transfer_operatorship in X. inv_some X. inversion X; subst. eapply ir_inv; [|exact I1]. irgo.
    - destruct (its_propose_operatorship w1 c a) as [[w3 ev3]|] eqn:X; inversion F; subst.
      unfold its_propose_operatorship in X. inv_some X. inversion X; subst. eapply ir_inv; [|exact I1]. irgo.
    - destruct (its_accept_operatorship w1 c from) as [[w3 ev3]|] eqn:X; inversion F; subst.
      unfold its_accept_operatorship in X. inv_some X. inversion X; subst. eapply ir_inv; [|exact I1]. irgo.
    - (* direct call into a token manager *)
      destruct (get_tm w tma) as [t|]; [|exact I0].
      destruct o; try exact I0; destruct (tstep t (iw_led w) _) as [[t' l'] out]; cbn [fst]; try solve [eapply ir_inv; [|exact I0]; irgo].
      destruct (to_ok out); (eapply ir_inv; [|exact I0]); irgo.
    - (* destination call delivered *)
      destruct (find_ip id (iw_pend w)) as [p|] eqn:Fp; [|exact I0].
      destruct (ip_kind p) eqn:K; try exact I0. destruct (ip_stage p); try exact I0.
      destruct (if ok then _ else _) as [l'|]; [|exact I0]. cbn [fst].
      destruct I0 as [A B]. unfold IdInv, ids. cbn [iw_pend iw_next w_pend_ w_led_ wset].
      rewrite (ids_replace _ _ p); [split; assumption|]. cbn [ip_id]. exact Fp.
    - (* callback of a delivery *)
      destruct (find_ip id (iw_pend w)) as [p|] eqn:Fp; [|exact I0].
      destruct (ip_kind p) eqn:K; try exact I0. destruct (ip_stage p) as [|ok]; try exact I0.
      assert (I1 : IdInv (w_pend_ w (remove_ip id (iw_pend w)))) by (eapply ir_inv; [apply ir_remove | exact I0]).
      destruct (transfer_callback H _ c chain id0 src ph token_id tok amount ok) as [[w1 ev1]|] eqn:T; cbn [fst]; [|exact I1].
      unfold transfer_callback in T. destruct ok; inv_some T; inversion T; subst; (eapply ir_inv; [|exact I1]); irgo.
    - (* lookup result *)
      destruct (find_ip id (iw_pend w)) as [p|]; [|exact I0].
      assert (I1 : IdInv (w_pend_ w (remove_ip id (iw_pend w)))) by (eapply ir_inv; [apply ir_remove | exact I0]).
      destruct (ip_kind p); try exact I0.
      + destruct (metadata_callback H _ c tok gas caller res) as [[w1 ev1]|] eqn:T; cbn [fst]; [|exact I1].
        apply metadata_callback_ir in T. eapply ir_inv; eauto.
      + destruct (remote_callback H _ c deploy_salt dest_chain symbol minter gas caller res) as [[w1 ev1]|] eqn:T; cbn [fst]; [|exact I1].
        apply remote_callback_ir in T. eapply ir_inv; eauto.
    - (* issuance result *)
      destruct (find_ip id (iw_pend w)) as [p|]; [|exact I0].
      destruct (ip_kind p); try exact I0. destruct (get_tm w tm) as [t|]; [|exact I0].
      destruct (tstep t (iw_led w) _) as [[t' l'] out]. cbn [fst].
      pose proof (ir_remove w id I0) as [A B]. unfold IdInv, ids in *. cbn [iw_pend iw_next w_pend_ w_led_ w_tm wset] in *. split; assumption.
  Qed.

  Theorem irun_idinv ops : forall w, IdInv w -> IdInv (irun H verify w ops).
  Proof.
    induction ops as [|o r IH]; intros w I; [exact I|].
    change (irun H verify w (o :: r)) with (irun H verify (fst (istep H verify w o)) r). apply IH. apply istep_idinv. exact I.
  Qed.

  (* a world with no pending work satisfies the invariant; hence every world reachable from it *)
  Lemma idinv_empty w : iw_pend w = [] -> IdInv w.
  Proof. intro E. unfold IdInv, ids. rewrite E. split; [constructor | intros i []]. Qed.
  Corollary reachable_ids_distinct w ops : iw_pend w = [] -> NoDup (map ip_id (iw_pend (irun H verify w ops))).
  Proof. intro E. apply (irun_idinv ops w (idinv_empty w E)). Qed.
End P.
