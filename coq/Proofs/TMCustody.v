(* C10, history level: a lock/unlock token manager's holdings of its token are exactly
   (everything taken) - (everything given), over every sequence of the sixteen operations by any callers. *)
From Coq Require Import String List NArith Lia Bool.
From Ax Require Import Lib.Bytes Lib.Mvx Model.Check Model.Env Model.TokenManager Proofs.AListFacts Proofs.TMFacts.
Import ListNotations.
Open Scope N_scope.

(* what one transaction takes into / gives out of the manager (0 when it fails) *)
Definition taken_by (o : top) (out : tout) : N :=
  if to_ok out then match o with
                    | TTake c => match egld_or_single_fungible (t_value c) with Some (_, a) => a | None => 0 end
                    | _ => 0 end
  else 0.
Definition given_by (self : bytes) (o : top) (out : tout) : N :=
  if to_ok out then match o with TGive c d a => if bytes_eqb d self then 0 else a | _ => 0 end else 0.

Lemma transfer_zero_bal l from to t l' : transfer l from to t 0 = Some l' -> forall a t', bal l' a t' = bal l a t'.
Proof.
  unfold transfer. destruct (debit l from t 0) as [l1|] eqn:D; [|discriminate]. intro E; inversion E; subst; clear E.
  apply debit_spec in D as [_ D]. intros a t'. rewrite bal_credit.
  destruct (pair_eqb (a, t') (to, t)) eqn:E1.
  - apply pair_eqb_spec in E1. inversion E1; subst. rewrite D. destruct (pair_eqb (to, t) (from, t)) eqn:E2; [|lia].
    apply pair_eqb_spec in E2. inversion E2; subst. lia.
  - rewrite D. destruct (pair_eqb (a, t') (from, t)) eqn:E2; [|reflexivity].
    apply pair_eqb_spec in E2. inversion E2; subst. lia.
Qed.

Lemma pay_in_no_value l from to v l' : has_no_value v = true -> pay_in l from to v = Some l' -> forall a t', bal l' a t' = bal l a t'.
Proof.
  unfold has_no_value, has_no_esdt, pay_in. destruct (cv_esdt v); [|rewrite andb_false_r; discriminate].
  rewrite andb_true_r. intro Z. apply N.eqb_eq in Z. rewrite Z. apply transfer_zero_bal.
Qed.

Lemma pay_in_single l from to v l' tok amt : from <> to -> egld_or_single_fungible v = Some (tok, amt) -> pay_in l from to v = Some l' ->
  bal l' to tok = bal l to tok + amt.
Proof.
  intros Hne. unfold egld_or_single_fungible, pay_in. destruct (cv_esdt v) as [|p [|q r]]; try discriminate.
  - intro E; inversion E; subst. intro T. apply transfer_spec in T as (_ & _ & B & _); [exact B | exact Hne].
  - destruct (N.eqb_spec (ep_nonce p) 0) as [Z|]; [|discriminate]. intro E; inversion E; subst.
    destruct (cv_egld v =? 0); [|discriminate]. cbn [pay_esdts]. rewrite Z, ltok_0.
    destruct (transfer l from to (ep_token p) (ep_amount p)) as [l1|] eqn:T; [|discriminate]. intro X; inversion X; subst.
    apply transfer_spec in T as (_ & _ & B & _); [exact B | exact Hne].
Qed.

(* "core" fields untouched by role bookkeeping *)
Definition core_eq (t t' : tm) : Prop := tm_type t' = tm_type t /\ tm_token t' = tm_token t /\ tm_pending t' = tm_pending t.
Lemma core_refl t : core_eq t t. Proof. repeat split. Qed.
Lemma core_trans a b c : core_eq a b -> core_eq b c -> core_eq a c.
Proof. intros (A1 & A2 & A3) (B1 & B2 & B3). repeat split; congruence. Qed.
Lemma transfer_role_core self t f to r t' e : transfer_role self t f to r = Some (t', e) -> core_eq t t'.
Proof. unfold transfer_role. destruct (contains _ _); [|discriminate]. intro E; inversion E; subst. repeat split. Qed.
Lemma propose_role_core self t f to r t' e : propose_role self t f to r = Some (t', e) -> core_eq t t'.
Proof. unfold propose_role. destruct (contains _ _); [|discriminate]. intro E; inversion E; subst. repeat split. Qed.
Lemma accept_role_core self t f to r t' e : accept_role self t f to r = Some (t', e) -> core_eq t t'.
Proof.
  unfold accept_role. destruct (_ && _); [|discriminate]. intro E. apply transfer_role_core in E.
  eapply core_trans; [|exact E]. repeat split.
Qed.
Lemma nonpay_some c r x : nonpay c r = Some x -> has_no_value (t_value c) = true /\ r = Some x.
Proof. unfold nonpay. destruct (has_no_value (t_value c)); [auto | discriminate]. Qed.
Lemma wrap_some l r t l' rets e : wrap l r = Some (t, l', rets, e) -> l' = l /\ r = Some (t, e).
Proof. unfold wrap. destruct r as [[t0 e0]|]; [|discriminate]. intro E; inversion E; subst. auto. Qed.

Definition lockish (t : tm) (self tok : bytes) : Prop :=
  is_mint_type (tm_type t) = false /\ tm_token t = tok /\ tok <> [] /\ tm_pending t = 0.

(* one transaction of any kind by any caller other than the manager itself *)
Theorem lock_custody_step t l o self tok :
  lockish t self tok ->
  (forall c, top_ctx o = Some c -> t_self c = self /\ t_caller c <> self) ->
  (match o with TIssueCallback s _ => s = self | _ => True end) ->
  let '(t', l', out) := tstep t l o in
  lockish t' self tok /\ bal l' self tok + given_by self o out = bal l self tok + taken_by o out.
Proof.
  intros (Hty & Htok & Hne & Hp) Hc Hs.
  destruct (tstep t l o) as [[t' l'] out] eqn:S. unfold tstep in S.
  assert (FAIL : lockish t self tok /\ bal l self tok + given_by self o {| to_ok := false; to_rets := []; to_logs := [] |} = bal l self tok + taken_by o {| to_ok := false; to_rets := []; to_logs := [] |}).
  { split; [repeat split; assumption | unfold given_by, taken_by; cbn; reflexivity]. }
  destruct o as [c d a|c|c v|c a|c a|c f to|c a|c a|c f|c a|c a|c f|c a v|c|c m n s|s result]; cbn [top_ctx run_endpoint] in S.
  16:{ rewrite Hp in S. cbn in S. inversion S; subst. exact FAIL. }
  all: destruct (Hc c eq_refl) as [Hself Hcaller]; subst self; subst tok.
  all: destruct (pay_in l (t_caller c) (t_self c) (t_value c)) as [l1|] eqn:P; [|inversion S; subst; exact FAIL].
  (* every other endpoint: non-payable (or refused for this manager type), so nothing moves *)
  all: assert (FAIL2 : forall o', lockish t (t_self c) (tm_token t) /\ bal l (t_self c) (tm_token t) + given_by (t_self c) o' {| to_ok := false; to_rets := []; to_logs := [] |} = bal l (t_self c) (tm_token t) + taken_by o' {| to_ok := false; to_rets := []; to_logs := [] |})
         by (intro o'; split; [repeat split; assumption | unfold given_by, taken_by; cbn; reflexivity]).
  all: assert (K : forall o' t1 l2 rets logs, (match o' with TGive _ _ _ | TTake _ => False | _ => True end) -> has_no_value (t_value c) = true -> l2 = l1 -> core_eq t t1 ->
                lockish t1 (t_self c) (tm_token t) /\
                bal l2 (t_self c) (tm_token t) + given_by (t_self c) o' {| to_ok := true; to_rets := rets; to_logs := logs |} =
                bal l (t_self c) (tm_token t) + taken_by o' {| to_ok := true; to_rets := rets; to_logs := logs |})
         by (intros o' t0 l0 rets0 logs0 Ho NV -> (C1 & C2 & C3); split; [repeat split; congruence|];
             unfold given_by, taken_by; cbn [to_ok]; destruct o'; try contradiction; rewrite !N.add_0_r; apply (pay_in_no_value _ _ _ _ _ NV P)).
  - (* give *)
    destruct (give_token t l1 c d a) as [[[[t1 l2] rets] logs]|] eqn:G; inversion S; subst; [|exact FAIL].
    pose proof G as G0. apply (give_lock_effect _ _ _ _ _ _ _ _ _ Hty) in G as (_ & _ & T & _).
    unfold give_token in G0. destruct (negb (has_no_value (t_value c)) || _) eqn:NV; [discriminate|].
    apply orb_false_iff in NV as [NV _]. apply negb_false_iff in NV.
    pose proof (pay_in_no_value _ _ _ _ _ NV P (t_self c) (tm_token t)) as B1.
    destruct (negb (only_service t c)); [discriminate|]. destruct (add_flow_in t (t_now c) a) as [t2|] eqn:A; [|discriminate].
    rewrite Hty in G0. destruct (bytes_eqb (tm_token t) []); [discriminate|]. rewrite T in G0. inversion G0; subst.
    split.
    + unfold add_flow_in in A. destruct (tm_limit t =? 0); [inversion A; subst; repeat split; assumption|].
      destruct (add_flow _ _ _ _); inversion A; subst. repeat split; assumption.
    + unfold given_by, taken_by. cbn [to_ok]. destruct (bytes_eqb d (t_self c)) eqn:Ed.
      * apply bytes_eqb_eq in Ed. subst d. unfold transfer in T. destruct (debit l1 (t_self c) (tm_token t) a) as [l3|] eqn:D; [|discriminate].
        inversion T; subst. apply debit_spec in D as [Hle D]. rewrite bal_credit, pair_eqb_refl, D, pair_eqb_refl. rewrite B1. lia.
      * apply bytes_eqb_neq in Ed. apply transfer_spec in T as (Hle & Bf & _); [|congruence]. rewrite Bf, B1 in *. lia.
  - (* take *)
    destruct (take_token t l1 c) as [[[[t1 l2] rets] logs]|] eqn:G; inversion S; subst; [|exact FAIL].
    pose proof G as G0. apply (take_lock_effect _ _ _ _ _ _ _ Hty) in G as (_ & -> & amount & E & _).
    pose proof (pay_in_single _ _ _ _ _ _ _ Hcaller E P) as B1.
    split.
    + unfold take_token in G0. destruct (negb (only_service t c)); [discriminate|]. rewrite E in G0.
      destruct (negb (bytes_eqb (tm_token t) (tm_token t))); [discriminate|].
      destruct (add_flow_out t (t_now c) amount) as [t2|] eqn:A; [|discriminate]. rewrite Hty in G0. inversion G0; subst.
      unfold add_flow_out in A. destruct (tm_limit t =? 0); [inversion A; subst; repeat split; assumption|].
      destruct (add_flow _ _ _ _); inversion A; subst. repeat split; assumption.
    + unfold given_by, taken_by. cbn [to_ok]. rewrite E. lia.
  - destruct (set_flow_limit t l1 c v) as [[[[t1 l2] rets] logs]|] eqn:G; inversion S; subst; [|apply FAIL2].
    unfold set_flow_limit in G. destruct (negb (has_no_value (t_value c))) eqn:NV; [discriminate|]. apply negb_false_iff in NV.
    destruct (only_role t c FLOW_LIMITER); inversion G; subst. apply K; [exact I | exact NV | reflexivity | repeat split].
  - destruct (add_flow_limiter t l1 c a) as [[[[t1 l2] rets] logs]|] eqn:G; inversion S; subst; [|apply FAIL2].
    unfold add_flow_limiter in G. apply nonpay_some in G as [NV G]. destruct (_ && _); [|discriminate]. apply wrap_some in G as [-> G].
    inversion G; subst. apply K; [exact I | exact NV | reflexivity | repeat split].
  - destruct (remove_flow_limiter t l1 c a) as [[[[t1 l2] rets] logs]|] eqn:G; inversion S; subst; [|apply FAIL2].
    unfold remove_flow_limiter in G. apply nonpay_some in G as [NV G]. destruct (_ && _); [|discriminate]. apply wrap_some in G as [-> G].
    inversion G; subst. apply K; [exact I | exact NV | reflexivity | repeat split].
  - destruct (transfer_flow_limiter t l1 c f to) as [[[[t1 l2] rets] logs]|] eqn:G; inversion S; subst; [|apply FAIL2].
    unfold transfer_flow_limiter in G. apply nonpay_some in G as [NV G]. destruct (_ && _); [|discriminate]. apply wrap_some in G as [-> G].
    apply transfer_role_core in G. apply K; [exact I | exact NV | reflexivity | exact G].
  - destruct (transfer_operatorship t l1 c a) as [[[[t1 l2] rets] logs]|] eqn:G; inversion S; subst; [|apply FAIL2].
    unfold transfer_operatorship in G. apply nonpay_some in G as [NV G]. destruct (_ && _); [|discriminate]. apply wrap_some in G as [-> G].
    apply transfer_role_core in G. apply K; [exact I | exact NV | reflexivity | exact G].
  - destruct (propose_operatorship t l1 c a) as [[[[t1 l2] rets] logs]|] eqn:G; inversion S; subst; [|apply FAIL2].
    unfold propose_operatorship in G. apply nonpay_some in G as [NV G]. destruct (_ && _); [|discriminate]. apply wrap_some in G as [-> G].
    apply propose_role_core in G. apply K; [exact I | exact NV | reflexivity | exact G].
  - destruct (accept_operatorship t l1 c f) as [[[[t1 l2] rets] logs]|] eqn:G; inversion S; subst; [|apply FAIL2].
    unfold accept_operatorship in G. apply nonpay_some in G as [NV G]. destruct (addr_ok f); [|discriminate]. apply wrap_some in G as [-> G].
    apply accept_role_core in G. apply K; [exact I | exact NV | reflexivity | exact G].
  - destruct (transfer_mintership t l1 c a) as [[[[t1 l2] rets] logs]|] eqn:G; inversion S; subst; [|apply FAIL2].
    unfold transfer_mintership in G. apply nonpay_some in G as [NV G]. destruct (_ && _); [|discriminate]. apply wrap_some in G as [-> G].
    apply transfer_role_core in G. apply K; [exact I | exact NV | reflexivity | exact G].
  - destruct (propose_mintership t l1 c a) as [[[[t1 l2] rets] logs]|] eqn:G; inversion S; subst; [|apply FAIL2].
    unfold propose_mintership in G. apply nonpay_some in G as [NV G]. destruct (_ && _); [|discriminate]. apply wrap_some in G as [-> G].
    apply propose_role_core in G. apply K; [exact I | exact NV | reflexivity | exact G].
  - destruct (accept_mintership t l1 c f) as [[[[t1 l2] rets] logs]|] eqn:G; inversion S; subst; [|apply FAIL2].
    unfold accept_mintership in G. apply nonpay_some in G as [NV G]. destruct (addr_ok f); [|discriminate]. apply wrap_some in G as [-> G].
    apply accept_role_core in G. apply K; [exact I | exact NV | reflexivity | exact G].
  - destruct (tm_mint t l1 c a v) as [[[[t1 l2] rets] logs]|] eqn:G; inversion S; subst; [|apply FAIL2].
    (* mint: native managers only *)
    apply mint_requires in G as (Ty & _). unfold is_mint_type in Hty. rewrite Ty in Hty. discriminate.
  - destruct (tm_burn t l1 c) as [[[[t1 l2] rets] logs]|] eqn:G; inversion S; subst; [|apply FAIL2].
    apply burn_requires in G as (Ty & _). unfold is_mint_type in Hty. rewrite Ty in Hty. discriminate.
  - destruct (deploy_interchain_token t l1 c m n s) as [[[[t1 l2] rets] logs]|] eqn:G; inversion S; subst; [|apply FAIL2].
    unfold deploy_interchain_token in G. destruct (negb (has_no_esdt _)); [discriminate|].
    destruct (tm_type t =? T_NATIVE) eqn:Ty; [|cbn in G; discriminate]. unfold is_mint_type in Hty. rewrite Ty in Hty. discriminate.
Qed.

(* ---------- histories ---------- *)
Fixpoint trun (t : tm) (l : ledger) (ops : list top) : tm * ledger :=
  match ops with [] => (t, l) | o :: r => let '(t', l', _) := tstep t l o in trun t' l' r end.
Fixpoint total_taken (t : tm) (l : ledger) (ops : list top) : N :=
  match ops with [] => 0 | o :: r => let '(t', l', out) := tstep t l o in taken_by o out + total_taken t' l' r end.
Fixpoint total_given (self : bytes) (t : tm) (l : ledger) (ops : list top) : N :=
  match ops with [] => 0 | o :: r => let '(t', l', out) := tstep t l o in given_by self o out + total_given self t' l' r end.

Definition ops_ok (self : bytes) (ops : list top) : Prop :=
  Forall (fun o => (forall c, top_ctx o = Some c -> t_self c = self /\ t_caller c <> self) /\
                   match o with TIssueCallback s _ => s = self | _ => True end) ops.

(* holdings = initial holdings + everything taken - everything given, after ANY sequence of operations *)
Theorem lock_custody_history ops : forall t l self tok, lockish t self tok -> ops_ok self ops ->
  let '(t', l') := trun t l ops in
  lockish t' self tok /\ bal l' self tok + total_given self t l ops = bal l self tok + total_taken t l ops.
Proof.
  induction ops as [|o r IH]; intros t l self tok L F; cbn [trun total_taken total_given].
  - split; [exact L | lia].
  - inversion F as [|? ? [Hc Hs] Fr]; subst.
    pose proof (lock_custody_step t l o self tok L Hc Hs) as S.
    destruct (tstep t l o) as [[t1 l1] out]. destruct S as [L1 E1].
    specialize (IH t1 l1 self tok L1 Fr). destruct (trun t1 l1 r) as [t2 l2]. destruct IH as [L2 E2].
    split; [exact L2 | lia].
Qed.
