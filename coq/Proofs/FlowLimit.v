(* C09: flow-limit accounting of the token manager model. *)
From Coq Require Import String Ascii.
From Coq Require Import List Arith NArith Lia Bool.
From Coq Require Import Init.Byte Strings.Byte.
From Ax Require Import Lib.Bytes Lib.Mvx Model.Check Model.Env Model.TokenManager Proofs.AListFacts.
Import ListNotations.
Open Scope N_scope.

Lemma add_flow_spec limit a c x v :
  add_flow limit a c x = Some v <-> (a + x <= c + limit /\ x <= limit /\ v = a + x).
Proof.
  unfold add_flow.
  destruct (N.leb_spec (a + x) (c + limit)); destruct (N.leb_spec x limit); cbn [andb]; split; intro E;
    try discriminate; try (inversion E; subst; auto); try lia.
  destruct E as (_ & _ & ->). reflexivity.
Qed.

Lemma add_flow_none limit a c x : add_flow limit a c x = None <-> (c + limit < a + x \/ limit < x).
Proof.
  unfold add_flow.
  destruct (N.leb_spec (a + x) (c + limit)); destruct (N.leb_spec x limit); cbn [andb]; split; intro E;
    try discriminate; try lia; reflexivity.
Qed.

Definition fin (t : tm) (e : N) : N := flow_get (tm_in t) e.
Definition fout (t : tm) (e : N) : N := flow_get (tm_out t) e.

(* net flow in either direction within epoch e is at most L *)
Definition Bounded (L : N) (t : tm) (e : N) : Prop := fin t e <= fout t e + L /\ fout t e <= fin t e + L.

Lemma flow_get_aset m e v e' : flow_get (aset N.eqb e v m) e' = if N.eqb e' e then v else flow_get m e'.
Proof. unfold flow_get. rewrite (alookup_aset N.eqb Neqb_spec). destruct (N.eqb e' e); reflexivity. Qed.

(* accepted inbound transfer *)
Theorem add_flow_in_spec t now x t' :
  add_flow_in t now x = Some t' ->
  tm_limit t' = tm_limit t /\
  (tm_limit t = 0 -> t' = t) /\
  (tm_limit t <> 0 ->
     let e := epoch_of_time now in
     x <= tm_limit t /\ fin t' e = fin t e + x /\ fin t' e <= fout t' e + tm_limit t /\
     fout t' = fout t /\ (forall e', e' <> e -> fin t' e' = fin t e')).
Proof.
  unfold add_flow_in. destruct (N.eqb_spec (tm_limit t) 0) as [Z|NZ].
  - intro E; inversion E; subst. split; [reflexivity|]. split; [reflexivity|]. intro; contradiction.
  - destruct (add_flow _ _ _ _) as [v|] eqn:A; [|discriminate]. intro E; inversion E; subst; clear E.
    apply add_flow_spec in A as (A1 & A2 & ->). cbn [tm_limit with_flows].
    split; [reflexivity|]. split; [intro; contradiction|]. intros _. cbv zeta.
    unfold fin, fout. cbn [tm_in tm_out with_flows]. rewrite flow_get_aset, N.eqb_refl.
    split; [exact A2|]. split; [reflexivity|]. split; [exact A1|]. split; [reflexivity|].
    intros e' Hne. rewrite flow_get_aset. destruct (N.eqb_spec e' (epoch_of_time now)); [contradiction | reflexivity].
Qed.

Theorem add_flow_out_spec t now x t' :
  add_flow_out t now x = Some t' ->
  tm_limit t' = tm_limit t /\
  (tm_limit t = 0 -> t' = t) /\
  (tm_limit t <> 0 ->
     let e := epoch_of_time now in
     x <= tm_limit t /\ fout t' e = fout t e + x /\ fout t' e <= fin t' e + tm_limit t /\
     fin t' = fin t /\ (forall e', e' <> e -> fout t' e' = fout t e')).
Proof.
  unfold add_flow_out. destruct (N.eqb_spec (tm_limit t) 0) as [Z|NZ].
  - intro E; inversion E; subst. split; [reflexivity|]. split; [reflexivity|]. intro; contradiction.
  - destruct (add_flow _ _ _ _) as [v|] eqn:A; [|discriminate]. intro E; inversion E; subst; clear E.
    apply add_flow_spec in A as (A1 & A2 & ->). cbn [tm_limit with_flows].
    split; [reflexivity|]. split; [intro; contradiction|]. intros _. cbv zeta.
    unfold fin, fout. cbn [tm_in tm_out with_flows]. rewrite flow_get_aset, N.eqb_refl.
    split; [exact A2|]. split; [reflexivity|]. split; [exact A1|]. split; [reflexivity|].
    intros e' Hne. rewrite flow_get_aset. destruct (N.eqb_spec e' (epoch_of_time now)); [contradiction | reflexivity].
Qed.

Lemma add_flow_in_bounded t now x t' e : add_flow_in t now x = Some t' -> Bounded (tm_limit t) t e -> Bounded (tm_limit t) t' e.
Proof.
  intros A [B1 B2]. apply add_flow_in_spec in A as (_ & Z & NZ).
  destruct (N.eq_dec (tm_limit t) 0) as [z|nz]; [rewrite (Z z); split; assumption|].
  destruct (NZ nz) as (Hx & Hin & Hb & Hout & Hoth). unfold Bounded. rewrite Hout.
  destruct (N.eq_dec e (epoch_of_time now)) as [->|ne].
  - rewrite Hout in Hb. split; [exact Hb | lia].
  - rewrite (Hoth e ne). split; assumption.
Qed.

Lemma add_flow_out_bounded t now x t' e : add_flow_out t now x = Some t' -> Bounded (tm_limit t) t e -> Bounded (tm_limit t) t' e.
Proof.
  intros A [B1 B2]. apply add_flow_out_spec in A as (_ & Z & NZ).
  destruct (N.eq_dec (tm_limit t) 0) as [z|nz]; [rewrite (Z z); split; assumption|].
  destruct (NZ nz) as (Hx & Hin & Hb & Hout & Hoth). unfold Bounded. rewrite Hout.
  destruct (N.eq_dec e (epoch_of_time now)) as [->|ne].
  - rewrite Hout in Hb. split; [lia | exact Hb].
  - rewrite (Hoth e ne). split; assumption.
Qed.

(* limit zero: never rejected for flow reasons, counters untouched *)
Theorem flow_unlimited t now x : tm_limit t = 0 -> add_flow_in t now x = Some t /\ add_flow_out t now x = Some t.
Proof. intro Z. unfold add_flow_in, add_flow_out. rewrite Z. cbn. auto. Qed.

(* rejected: exactly when the amount exceeds L or would push the net flow above L *)
Theorem add_flow_in_rejects t now x :
  add_flow_in t now x = None <->
  tm_limit t <> 0 /\ (let e := epoch_of_time now in fout t e + tm_limit t < fin t e + x \/ tm_limit t < x).
Proof.
  unfold add_flow_in. destruct (N.eqb_spec (tm_limit t) 0) as [Z|NZ].
  - split; [discriminate | intros [A _]; contradiction].
  - destruct (add_flow _ _ _ _) as [v|] eqn:A.
    + split; [discriminate|]. intros [_ Hc]. cbv zeta in Hc. apply add_flow_none in Hc. unfold fin, fout in Hc. congruence.
    + apply add_flow_none in A. split; [intros _; split; [exact NZ | exact A] | reflexivity].
Qed.

(* ---------- every endpoint: which touch the counters / the limit ---------- *)
Definition flows_eq (t t' : tm) : Prop := tm_in t' = tm_in t /\ tm_out t' = tm_out t.

Lemma with_roles_flows t rs : flows_eq t (with_roles t rs) /\ tm_limit (with_roles t rs) = tm_limit t.
Proof. split; [split|]; reflexivity. Qed.

Lemma add_role_frame self t a r : flows_eq t (fst (add_role self t a r)) /\ tm_limit (fst (add_role self t a r)) = tm_limit t.
Proof. split; [split|]; reflexivity. Qed.
Lemma remove_role_frame self t a r : flows_eq t (fst (remove_role self t a r)) /\ tm_limit (fst (remove_role self t a r)) = tm_limit t.
Proof. split; [split|]; reflexivity. Qed.

Lemma transfer_role_frame self t f to r t' e : transfer_role self t f to r = Some (t', e) -> flows_eq t t' /\ tm_limit t' = tm_limit t.
Proof. unfold transfer_role. destruct (contains _ _); [|discriminate]. cbn. intro E; inversion E; subst. split; [split|]; reflexivity. Qed.
Lemma propose_role_frame self t f to r t' e : propose_role self t f to r = Some (t', e) -> flows_eq t t' /\ tm_limit t' = tm_limit t.
Proof. unfold propose_role. destruct (contains _ _); [|discriminate]. intro E; inversion E; subst. split; [split|]; reflexivity. Qed.
Lemma accept_role_frame self t f to r t' e : accept_role self t f to r = Some (t', e) -> flows_eq t t' /\ tm_limit t' = tm_limit t.
Proof.
  unfold accept_role. destruct (_ && _); [|discriminate]. intro E. apply transfer_role_frame in E as [[A B] C].
  cbn in *. split; [split|]; assumption.
Qed.

Ltac frame_tac :=
  repeat match goal with
  | |- context [if ?b then _ else _] => destruct b; try discriminate
  | |- context [match ?x with Some _ => _ | None => _ end] => destruct x eqn:?; try discriminate
  end.

(* one transaction preserves the bound for an unchanged limit *)
Theorem tstep_bounded t l o e :
  let '(t', l', out) := tstep t l o in
  tm_limit t' = tm_limit t -> Bounded (tm_limit t) t e -> Bounded (tm_limit t) t' e.
Proof.
  destruct (tstep t l o) as [[t' l'] out] eqn:S. intros HL B.
  unfold tstep in S.
  destruct o as [c d a|c|c v|c a|c a|c f to|c a|c a|c f|c a|c a|c f|c a v|c|c m n s|self result]; cbn [top_ctx run_endpoint] in S.
  16:{ destruct (tm_pending t =? 0); [inversion S; subst; exact B|].
       unfold deploy_token_callback in S.
       destruct result as [tok|]; [destruct (bytes_eqb (tm_token t) [])|]; cbn in S; inversion S; subst; exact B. }
  all: destruct (pay_in l (t_caller c) (t_self c) (t_value c)) as [l1|]; [|inversion S; subst; exact B].
  - (* give *) unfold give_token in S.
    destruct (negb _ || negb _); [inversion S; subst; exact B|].
    destruct (negb (only_service t c)); [inversion S; subst; exact B|].
    destruct (add_flow_in t (t_now c) a) as [t1|] eqn:A; [|inversion S; subst; exact B].
    pose proof (add_flow_in_bounded _ _ _ _ e A B) as B1.
    destruct (is_mint_type (tm_type t)).
    + destruct (_ || _); [inversion S; subst; exact B|].
      destruct (transfer _ _ _ _ _); inversion S; subst; [exact B1 | exact B].
    + destruct (bytes_eqb (tm_token t) []); [inversion S; subst; exact B|].
      destruct (transfer _ _ _ _ _); inversion S; subst; [exact B1 | exact B].
  - (* take *) unfold take_token in S.
    destruct (negb (only_service t c)); [inversion S; subst; exact B|].
    destruct (egld_or_single_fungible (t_value c)) as [[tok amt]|]; [|inversion S; subst; exact B].
    destruct (negb (bytes_eqb tok (tm_token t))); [inversion S; subst; exact B|].
    destruct (add_flow_out t (t_now c) amt) as [t1|] eqn:A; [|inversion S; subst; exact B].
    pose proof (add_flow_out_bounded _ _ _ _ e A B) as B1.
    destruct (is_mint_type (tm_type t)).
    + destruct (bytes_eqb tok EGLD); [inversion S; subst; exact B|].
      destruct (debit _ _ _ _); inversion S; subst; [exact B1 | exact B].
    + inversion S; subst. exact B1.
  - (* set limit *) unfold set_flow_limit in S. destruct (negb _); [inversion S; subst; exact B|].
    destruct (only_role t c FLOW_LIMITER); inversion S; subst; [|exact B]. exact B.
  - unfold add_flow_limiter, nonpay, wrap in S. destruct (has_no_value _); [|inversion S; subst; exact B].
    destruct (_ && _); inversion S; subst; exact B.
  - unfold remove_flow_limiter, nonpay, wrap in S. destruct (has_no_value _); [|inversion S; subst; exact B].
    destruct (_ && _); inversion S; subst; exact B.
  - unfold transfer_flow_limiter, nonpay, wrap in S. destruct (has_no_value _); [|inversion S; subst; exact B].
    destruct (_ && _); [|inversion S; subst; exact B].
    destruct (transfer_role _ _ _ _ _) as [[t1 e1]|] eqn:R; inversion S; subst; [|exact B].
    apply transfer_role_frame in R as [[R1 R2] _]. unfold Bounded, fin, fout in *. rewrite R1, R2. exact B.
  - unfold transfer_operatorship, nonpay, wrap in S. destruct (has_no_value _); [|inversion S; subst; exact B].
    destruct (_ && _); [|inversion S; subst; exact B].
    destruct (transfer_role _ _ _ _ _) as [[t1 e1]|] eqn:R; inversion S; subst; [|exact B].
    apply transfer_role_frame in R as [[R1 R2] _]. unfold Bounded, fin, fout in *. rewrite R1, R2. exact B.
  - unfold propose_operatorship, nonpay, wrap in S. destruct (has_no_value _); [|inversion S; subst; exact B].
    destruct (_ && _); [|inversion S; subst; exact B].
    destruct (propose_role _ _ _ _ _) as [[t1 e1]|] eqn:R; inversion S; subst; [|exact B].
    apply propose_role_frame in R as [[R1 R2] _]. unfold Bounded, fin, fout in *. rewrite R1, R2. exact B.
  - unfold accept_operatorship, nonpay, wrap in S. destruct (has_no_value _); [|inversion S; subst; exact B].
    destruct (addr_ok _); [|inversion S; subst; exact B].
    destruct (accept_role _ _ _ _ _) as [[t1 e1]|] eqn:R; inversion S; subst; [|exact B].
    apply accept_role_frame in R as [[R1 R2] _]. unfold Bounded, fin, fout in *. rewrite R1, R2. exact B.
  - unfold transfer_mintership, nonpay, wrap in S. destruct (has_no_value _); [|inversion S; subst; exact B].
    destruct (_ && _); [|inversion S; subst; exact B].
    destruct (transfer_role _ _ _ _ _) as [[t1 e1]|] eqn:R; inversion S; subst; [|exact B].
    apply transfer_role_frame in R as [[R1 R2] _]. unfold Bounded, fin, fout in *. rewrite R1, R2. exact B.
  - unfold propose_mintership, nonpay, wrap in S. destruct (has_no_value _); [|inversion S; subst; exact B].
    destruct (_ && _); [|inversion S; subst; exact B].
    destruct (propose_role _ _ _ _ _) as [[t1 e1]|] eqn:R; inversion S; subst; [|exact B].
    apply propose_role_frame in R as [[R1 R2] _]. unfold Bounded, fin, fout in *. rewrite R1, R2. exact B.
  - unfold accept_mintership, nonpay, wrap in S. destruct (has_no_value _); [|inversion S; subst; exact B].
    destruct (addr_ok _); [|inversion S; subst; exact B].
    destruct (accept_role _ _ _ _ _) as [[t1 e1]|] eqn:R; inversion S; subst; [|exact B].
    apply accept_role_frame in R as [[R1 R2] _]. unfold Bounded, fin, fout in *. rewrite R1, R2. exact B.
  - unfold tm_mint, nonpay in S. destruct (has_no_value _); [|inversion S; subst; exact B].
    destruct (_ || _); [inversion S; subst; exact B|].
    destruct (transfer _ _ _ _ _); inversion S; subst; exact B.
  - unfold tm_burn in S. destruct (_ || _); [inversion S; subst; exact B|].
    destruct (egld_or_single_fungible _) as [[tok amt]|]; [|inversion S; subst; exact B].
    destruct (negb _); [inversion S; subst; exact B|].
    destruct (debit _ _ _ _); inversion S; subst; exact B.
  - unfold deploy_interchain_token in S. destruct (negb (has_no_esdt _)); [inversion S; subst; exact B|].
    destruct (_ || _); [inversion S; subst; exact B|].
    destruct (negb _); [inversion S; subst; exact B|].
    destruct (_ || _); [inversion S; subst; exact B|].
    cbn in S. inversion S; subst. exact B.
Qed.

(* the limit changes only through setFlowLimit called by a holder of the flow-limiter role *)
Theorem limit_changes_only_by_flow_limiter t l o :
  tm_limit (fst (fst (tstep t l o))) <> tm_limit t ->
  exists c v, o = TSetLimit c v /\ intersects (roles_of t (t_caller c)) FLOW_LIMITER = true /\ tm_limit (fst (fst (tstep t l o))) = v.
Proof.
  intro Hne.
  destruct (tstep t l o) as [[t' l'] out] eqn:S. cbn [fst] in *.
  assert (Hb := tstep_bounded t l o 0). rewrite S in Hb. clear Hb.
  unfold tstep in S.
  destruct o as [c d a|c|c v|c a|c a|c f to|c a|c a|c f|c a|c a|c f|c a v|c|c m n s|self result]; cbn [top_ctx run_endpoint] in S.
  16:{ exfalso. apply Hne. destruct (tm_pending t =? 0); [inversion S; subst; reflexivity|].
       unfold deploy_token_callback in S.
       destruct result as [tok|]; [destruct (bytes_eqb (tm_token t) [])|]; cbn in S; inversion S; subst; reflexivity. }
  all: destruct (pay_in l (t_caller c) (t_self c) (t_value c)) as [l1|]; [|exfalso; apply Hne; inversion S; subst; reflexivity].
  3:{ unfold set_flow_limit in S. destruct (negb _); [exfalso; apply Hne; inversion S; subst; reflexivity|].
      destruct (only_role t c FLOW_LIMITER) eqn:R; [|exfalso; apply Hne; inversion S; subst; reflexivity].
      inversion S; subst. exists c, v. repeat split; auto. }
  all: exfalso; apply Hne.
  - unfold give_token in S.
    destruct (negb _ || negb _); [inversion S; subst; reflexivity|].
    destruct (negb (only_service t c)); [inversion S; subst; reflexivity|].
    destruct (add_flow_in t (t_now c) a) as [t1|] eqn:A; [|inversion S; subst; reflexivity].
    apply add_flow_in_spec in A as [A _].
    destruct (is_mint_type (tm_type t)).
    + destruct (_ || _); [inversion S; subst; reflexivity|].
      destruct (transfer _ _ _ _ _); inversion S; subst; auto.
    + destruct (bytes_eqb (tm_token t) []); [inversion S; subst; reflexivity|].
      destruct (transfer _ _ _ _ _); inversion S; subst; auto.
  - unfold take_token in S.
    destruct (negb (only_service t c)); [inversion S; subst; reflexivity|].
    destruct (egld_or_single_fungible (t_value c)) as [[tok amt]|]; [|inversion S; subst; reflexivity].
    destruct (negb (bytes_eqb tok (tm_token t))); [inversion S; subst; reflexivity|].
    destruct (add_flow_out t (t_now c) amt) as [t1|] eqn:A; [|inversion S; subst; reflexivity].
    apply add_flow_out_spec in A as [A _].
    destruct (is_mint_type (tm_type t)).
    + destruct (bytes_eqb tok EGLD); [inversion S; subst; reflexivity|].
      destruct (debit _ _ _ _); inversion S; subst; auto.
    + inversion S; subst. auto.
  - unfold add_flow_limiter, nonpay, wrap in S. destruct (has_no_value _); [|inversion S; subst; reflexivity].
    destruct (_ && _); inversion S; subst; reflexivity.
  - unfold remove_flow_limiter, nonpay, wrap in S. destruct (has_no_value _); [|inversion S; subst; reflexivity].
    destruct (_ && _); inversion S; subst; reflexivity.
  - unfold transfer_flow_limiter, nonpay, wrap in S. destruct (has_no_value _); [|inversion S; subst; reflexivity].
    destruct (_ && _); [|inversion S; subst; reflexivity].
    destruct (transfer_role _ _ _ _ _) as [[t1 e1]|] eqn:R; inversion S; subst; [|reflexivity].
    apply transfer_role_frame in R as [_ R]. exact R.
  - unfold transfer_operatorship, nonpay, wrap in S. destruct (has_no_value _); [|inversion S; subst; reflexivity].
    destruct (_ && _); [|inversion S; subst; reflexivity].
    destruct (transfer_role _ _ _ _ _) as [[t1 e1]|] eqn:R; inversion S; subst; [|reflexivity].
    apply transfer_role_frame in R as [_ R]. exact R.
  - unfold propose_operatorship, nonpay, wrap in S. destruct (has_no_value _); [|inversion S; subst; reflexivity].
    destruct (_ && _); [|inversion S; subst; reflexivity].
    destruct (propose_role _ _ _ _ _) as [[t1 e1]|] eqn:R; inversion S; subst; [|reflexivity].
    apply propose_role_frame in R as [_ R]. exact R.
  - unfold accept_operatorship, nonpay, wrap in S. destruct (has_no_value _); [|inversion S; subst; reflexivity].
    destruct (addr_ok _); [|inversion S; subst; reflexivity].
    destruct (accept_role _ _ _ _ _) as [[t1 e1]|] eqn:R; inversion S; subst; [|reflexivity].
    apply accept_role_frame in R as [_ R]. exact R.
  - unfold transfer_mintership, nonpay, wrap in S. destruct (has_no_value _); [|inversion S; subst; reflexivity].
    destruct (_ && _); [|inversion S; subst; reflexivity].
    destruct (transfer_role _ _ _ _ _) as [[t1 e1]|] eqn:R; inversion S; subst; [|reflexivity].
    apply transfer_role_frame in R as [_ R]. exact R.
  - unfold propose_mintership, nonpay, wrap in S. destruct (has_no_value _); [|inversion S; subst; reflexivity].
    destruct (_ && _); [|inversion S; subst; reflexivity].
    destruct (propose_role _ _ _ _ _) as [[t1 e1]|] eqn:R; inversion S; subst; [|reflexivity].
    apply propose_role_frame in R as [_ R]. exact R.
  - unfold accept_mintership, nonpay, wrap in S. destruct (has_no_value _); [|inversion S; subst; reflexivity].
    destruct (addr_ok _); [|inversion S; subst; reflexivity].
    destruct (accept_role _ _ _ _ _) as [[t1 e1]|] eqn:R; inversion S; subst; [|reflexivity].
    apply accept_role_frame in R as [_ R]. exact R.
  - unfold tm_mint, nonpay in S. destruct (has_no_value _); [|inversion S; subst; reflexivity].
    destruct (_ || _); [inversion S; subst; reflexivity|].
    destruct (transfer _ _ _ _ _); inversion S; subst; reflexivity.
  - unfold tm_burn in S. destruct (_ || _); [inversion S; subst; reflexivity|].
    destruct (egld_or_single_fungible _) as [[tok amt]|]; [|inversion S; subst; reflexivity].
    destruct (negb _); [inversion S; subst; reflexivity|].
    destruct (debit _ _ _ _); inversion S; subst; reflexivity.
  - unfold deploy_interchain_token in S. destruct (negb (has_no_esdt _)); [inversion S; subst; reflexivity|].
    destruct (_ || _); [inversion S; subst; reflexivity|].
    destruct (negb _); [inversion S; subst; reflexivity|].
    destruct (_ || _); [inversion S; subst; reflexivity|].
    cbn in S. inversion S; subst. reflexivity.
Qed.

(* histories under an unchanged limit: the bound holds after every operation *)
Fixpoint trun (t : tm) (l : ledger) (ops : list top) : tm * ledger :=
  match ops with
  | [] => (t, l)
  | o :: r => let '(t', l', _) := tstep t l o in trun t' l' r
  end.

Fixpoint limit_constant (L : N) (t : tm) (l : ledger) (ops : list top) : Prop :=
  match ops with
  | [] => True
  | o :: r => let '(t', l', _) := tstep t l o in tm_limit t' = L /\ limit_constant L t' l' r
  end.

Theorem bounded_history ops : forall t l e,
  limit_constant (tm_limit t) t l ops -> Bounded (tm_limit t) t e -> Bounded (tm_limit t) (fst (trun t l ops)) e.
Proof.
  induction ops as [|o r IH]; intros t l e HC B; [exact B|].
  cbn [trun limit_constant] in *. pose proof (tstep_bounded t l o e) as S.
  destruct (tstep t l o) as [[t' l'] out]. destruct HC as [HL HC].
  specialize (S HL B). rewrite <- HL in *. apply IH; assumption.
Qed.

(* counters of an epoch never touched are zero: the bound holds trivially at the start of an epoch *)
Theorem fresh_epoch_bounded L t e : fin t e = 0 -> fout t e = 0 -> Bounded L t e.
Proof. intros A B. unfold Bounded. rewrite A, B. lia. Qed.
