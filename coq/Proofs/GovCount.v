(* C11, counting over whole histories: each accepted scheduling of a proposal authorises at most one
   SUCCESSFUL dispatch.  For every history of the governance world (all nine operation kinds, every
   placement of target calls and callbacks):

       #successful time-lock dispatches of h  <=  #accepted schedule commands for h
                                                  + [h had an eta at the start] + #dispatches of h in flight at the start.

   Two potentials: the stored eta (consumed by an accepted executeProposal, produced only by an accepted
   schedule command or given back by a failed callback) and the number of pending time-lock dispatches
   of h (produced only by an accepted executeProposal, consumed by each callback). *)
From Coq Require Import String List NArith Lia Bool.
From Ax Require Import Lib.Bytes Lib.Mvx Model.Check Model.Env Model.Gateway Model.Governance
     Proofs.GovFacts Proofs.GovWorld.
Import ListNotations.
Open Scope N_scope.

Section GovCount.
  Variable H : bytes -> bytes.
  Variable verify : bytes -> bytes -> bytes -> bool.
  Notation phash := (proposal_hash H).
  Notation step := (vstep H verify true).

  Definition bnz (n : N) : N := if n =? 0 then 0 else 1.
  Definition tl_for (p : gpending) (h : bytes) : bool :=
    match gp_kind p with PTimeLock => bytes_eqb (gp_hash p) h | POperator => false end.
  Definition b2n (b : bool) : N := if b then 1 else 0.
  Fixpoint npend (h : bytes) (ps : list gpending) : N :=
    match ps with [] => 0 | p :: r => b2n (tl_for p h) + npend h r end.

  (* events of one step, read off the operation and its outcome *)
  Definition sched_of (w : gworld) (o : vop) (h : bytes) : N :=
    match o with
    | VExecute c chain id src payload =>
        match dec_exec_payload payload with
        | Some p => b2n ((xp_cmd p =? 0) && bytes_eqb (phash (xp_target p) (xp_call_data p) (xp_value p)) h && vo_ok (snd (step w o)))
        | None => 0
        end
    | _ => 0
    end.
  Definition accept_of (w : gworld) (o : vop) (h : bytes) : N :=
    match o with
    | VExecProposal c t cd v => b2n (bytes_eqb (phash t cd v) h && vo_ok (snd (step w o)))
    | _ => 0
    end.
  (* the callback of a time-lock dispatch of h reporting outcome `want` *)
  Definition cb_of (want : bool) (w : gworld) (o : vop) (h : bytes) : N :=
    match o with
    | VCallback _ id =>
        match find_pending id (w_pend w) with
        | Some p => match gp_stage p with
                    | AwaitCallback ok _ => b2n (tl_for p h && Bool.eqb ok want)
                    | _ => 0
                    end
        | None => 0
        end
    | _ => 0
    end.

  Notation eta w h := (getN (gv_eta (w_gov w)) h).

  Lemma bnz_le1 n : bnz n <= 1.  Proof. unfold bnz. destruct (n =? 0); lia. Qed.
  Lemma bnz_0 : bnz 0 = 0.  Proof. reflexivity. Qed.
  Lemma bnz_nz n : n <> 0 -> bnz n = 1.  Proof. unfold bnz. intro. destruct (N.eqb_spec n 0); [contradiction|reflexivity]. Qed.

  Lemma tables_eta w w' h : tables w' = tables w -> eta w' h = eta w h.
  Proof. unfold tables. intro E. inversion E as [[A B C D]]. rewrite A. reflexivity. Qed.

  (* ---------- potential 1: the stored eta ---------- *)
  Theorem eta_potential w o h :
    accept_of w o h + bnz (eta (fst (step w o)) h) <= sched_of w o h + cb_of false w o h + bnz (eta w h).
  Proof.
    pose proof (tables_frame H verify w o) as TF.
    destruct o as [go|c chain id src payload|c t cd v|c t cd v|c r a|c a|c tok nonce|self id ok rets|self id];
      try (cbn [accept_of sched_of cb_of]; rewrite (tables_eta _ _ h TF); lia).
    - (* execute *)
      cbn [accept_of sched_of cb_of]. cbn [vstep].
      destruct (run_tx w c (fun w1 => gov_execute H true w1 c chain id src payload)) as [w' out] eqn:R. cbn [fst snd].
      destruct (vo_ok out) eqn:O.
      2:{ apply run_tx_fail in R; [|exact O]. subst. destruct (dec_exec_payload payload); [rewrite andb_false_r|]; cbn [b2n]; lia. }
      apply run_tx_some in R as (l1 & ev & _ & F & _); [|exact O].
      apply gov_execute_spec in F as (_ & _ & _ & _ & _ & _ & _ & p & g' & ev' & D & _ & PC & Eg). cbn [w_gov] in PC.
      rewrite D, Eg. apply process_command_spec in PC. cbv zeta in PC. destruct PC as (_ & _ & Oth & K).
      rewrite andb_true_r.
      destruct (bytes_eqb (phash (xp_target p) (xp_call_data p) (xp_value p)) h) eqn:E.
      + apply bytes_eqb_eq in E. subst h. rewrite andb_true_r.
        destruct (xp_cmd p =? 0) eqn:C0.
        * destruct K as (_ & _ & _ & _ & _). cbn [b2n]. pose proof (bnz_le1 (getN (gv_eta g') (phash (xp_target p) (xp_call_data p) (xp_value p)))). lia.
        * cbn [b2n]. destruct (xp_cmd p =? 1).
          { destruct K as (K & _). rewrite K, bnz_0. lia. }
          destruct (xp_cmd p =? 2).
          { destruct K as (_ & K & _). rewrite K. lia. }
          destruct K as (_ & _ & K & _). rewrite K. lia.
      + apply bytes_eqb_neq in E. rewrite andb_false_r. cbn [b2n].
        destruct (Oth h) as (A & _); [congruence|]. rewrite A. lia.
    - (* executeProposal *)
      cbn [accept_of sched_of cb_of]. cbn [vstep].
      destruct (run_tx w c (fun w1 => execute_proposal H true w1 c t cd v)) as [w' out] eqn:R. cbn [fst snd].
      destruct (vo_ok out) eqn:O.
      2:{ apply run_tx_fail in R; [|exact O]. subst. rewrite andb_false_r. cbn [b2n]. lia. }
      apply run_tx_some in R as (l1 & ev & _ & F & _); [|exact O].
      apply (execute_proposal_spec H) in F. cbv zeta in F. cbn [w_gov] in F.
      destruct F as (NZ & _ & Z & _ & _ & _ & _ & _ & Oth & _). rewrite andb_true_r.
      destruct (bytes_eqb (phash t cd v) h) eqn:E.
      + apply bytes_eqb_eq in E. subst h. cbn [b2n]. rewrite Z, bnz_0, (bnz_nz _ NZ). lia.
      + apply bytes_eqb_neq in E. cbn [b2n]. destruct (Oth h) as (A & _); [congruence|]. rewrite A. lia.
    - (* executeOperatorProposal *)
      cbn [accept_of sched_of cb_of]. cbn [vstep].
      destruct (run_tx w c (fun w1 => execute_operator_proposal H true w1 c t cd v)) as [w' out] eqn:R. cbn [fst snd].
      destruct (vo_ok out) eqn:O.
      2:{ apply run_tx_fail in R; [|exact O]. subst. lia. }
      apply run_tx_some in R as (l1 & ev & _ & F & _); [|exact O].
      apply (execute_operator_proposal_spec H) in F. cbv zeta in F. cbn [w_gov] in F.
      destruct F as (_ & _ & _ & _ & E & _). rewrite E. lia.
    - (* callback *)
      cbn [accept_of sched_of cb_of]. cbn [vstep].
      destruct (find_pending id (w_pend w)) as [p|] eqn:F; [|cbn [fst]; lia].
      destruct (gp_stage p) as [|ok rets] eqn:S; [cbn [fst]; lia|].
      destruct (callback true self (w_gov w) p ok rets) as [g' ev] eqn:CB. cbn [fst w_gov].
      apply callback_spec in CB. cbv zeta in CB. destruct CB as (_ & _ & M).
      unfold tl_for. destruct (gp_kind p).
      + destruct M as (_ & _ & _ & Oth & Eh).
        destruct (bytes_eqb (gp_hash p) h) eqn:E.
        * apply bytes_eqb_eq in E. subst h. rewrite Eh. destruct ok; cbn [Bool.eqb andb b2n]; [lia|].
          pose proof (bnz_le1 (if getN (gv_tl_flight (w_gov w)) (gp_hash p) =? 0 then getN (gv_eta (w_gov w)) (gp_hash p) else gp_eta p)). lia.
        * apply bytes_eqb_neq in E. destruct (Oth h) as (A & _); [congruence|]. rewrite A. cbn [andb b2n]. lia.
      + destruct M as (E & _). rewrite E. cbn [andb b2n]. lia.
  Qed.

  (* ---------- potential 2: pending time-lock dispatches ---------- *)
  Lemma npend_app h a b : npend h (a ++ b) = npend h a + npend h b.
  Proof. induction a as [|p r IH]; cbn [app npend]; [reflexivity|]. rewrite IH. lia. Qed.

  Lemma tl_for_with_stage p s h : tl_for (with_stage p s) h = tl_for p h.
  Proof. reflexivity. Qed.

  Lemma npend_replace h ps : forall id p s, find_pending id ps = Some p ->
    npend h (replace_pending (with_stage p s) ps) = npend h ps.
  Proof.
    induction ps as [|q r IH]; intros id p s F; cbn [find_pending] in F; [discriminate|].
    cbn [replace_pending]. replace (gp_id (with_stage p s)) with (gp_id p) by reflexivity.
    destruct (gp_id q =? id) eqn:E.
    - inversion F; subst q. rewrite N.eqb_refl. cbn [npend]. rewrite tl_for_with_stage. reflexivity.
    - assert (Ep : gp_id p = id).
      { clear IH. induction r as [|x r IHr]; cbn [find_pending] in F; [discriminate|].
        destruct (gp_id x =? id) eqn:Ex; [inversion F; subst; apply N.eqb_eq; exact Ex | apply IHr; exact F]. }
      rewrite Ep, E. cbn [npend]. rewrite (IH id p s F). reflexivity.
  Qed.

  Lemma npend_remove_le h id ps : npend h (remove_pending id ps) <= npend h ps.
  Proof. induction ps as [|q r IH]; cbn [remove_pending npend]; [lia|]. destruct (gp_id q =? id); cbn [npend]; lia. Qed.

  Lemma npend_remove h ps : forall id p, find_pending id ps = Some p ->
    npend h (remove_pending id ps) + b2n (tl_for p h) <= npend h ps.
  Proof.
    induction ps as [|q r IH]; intros id p F; cbn [find_pending] in F; [discriminate|].
    cbn [remove_pending npend]. destruct (gp_id q =? id) eqn:E.
    - inversion F; subst q. pose proof (npend_remove_le h id r). lia.
    - cbn [npend]. pose proof (IH id p F). lia.
  Qed.

  Theorem pending_potential w o h :
    cb_of true w o h + cb_of false w o h + npend h (w_pend (fst (step w o))) <= accept_of w o h + npend h (w_pend w).
  Proof.
    destruct o as [go|c chain id src payload|c t cd v|c t cd v|c r a|c a|c tok nonce|self id ok rets|self id];
      cbn [accept_of cb_of].
    - cbn [vstep]. destruct (gstep H verify (w_gw w) go) as [g' r]. cbn [fst w_pend]. lia.
    - cbn [vstep]. destruct (run_tx w c _) as [w' out] eqn:R. cbn [fst]. destruct (vo_ok out) eqn:O.
      + apply run_tx_some in R as (l1 & ev & _ & F & _); [|exact O].
        apply gov_execute_spec in F as (_ & _ & _ & _ & _ & P & _). rewrite P. cbn [w_pend]. lia.
      + apply run_tx_fail in R; [|exact O]. subst. lia.
    - cbn [vstep]. destruct (run_tx w c (fun w1 => execute_proposal H true w1 c t cd v)) as [w' out] eqn:R. cbn [fst snd].
      destruct (vo_ok out) eqn:O.
      + apply run_tx_some in R as (l1 & ev & _ & F & _); [|exact O].
        apply (execute_proposal_spec H) in F. cbv zeta in F. cbn [w_gov w_pend w_next] in F.
        destruct F as (_ & _ & _ & _ & _ & _ & _ & _ & _ & d & _ & _ & _ & P). rewrite P, npend_app. cbn [npend tl_for gp_kind gp_hash].
        rewrite andb_true_r. lia.
      + apply run_tx_fail in R; [|exact O]. subst. rewrite andb_false_r. cbn [b2n]. lia.
    - cbn [vstep]. destruct (run_tx w c (fun w1 => execute_operator_proposal H true w1 c t cd v)) as [w' out] eqn:R. cbn [fst snd].
      destruct (vo_ok out) eqn:O.
      + apply run_tx_some in R as (l1 & ev & _ & F & _); [|exact O].
        apply (execute_operator_proposal_spec H) in F. cbv zeta in F. cbn [w_gov w_pend w_next] in F.
        destruct F as (_ & _ & _ & _ & _ & _ & _ & _ & _ & d & _ & _ & _ & P). rewrite P, npend_app. cbn [npend tl_for gp_kind b2n]. lia.
      + apply run_tx_fail in R; [|exact O]. subst. lia.
    - cbn [vstep]. destruct (run_tx w c _) as [w' out] eqn:R. cbn [fst]. destruct (vo_ok out) eqn:O.
      + apply run_tx_some in R as (l1 & ev & _ & F & _); [|exact O]. unfold gov_withdraw in F.
        destruct (negb _ || negb _); [discriminate|]. destruct (negb _); [discriminate|].
        destruct (transfer _ _ _ _ _); inversion F; subst. cbn [w_pend]. lia.
      + apply run_tx_fail in R; [|exact O]. subst. lia.
    - cbn [vstep]. destruct (run_tx w c _) as [w' out] eqn:R. cbn [fst]. destruct (vo_ok out) eqn:O.
      + apply run_tx_some in R as (l1 & ev & _ & F & _); [|exact O]. unfold gov_transfer_operatorship in F.
        destruct (negb _ || negb _); [discriminate|]. destruct (negb _); [discriminate|].
        destruct (bytes_eqb a zero32); inversion F; subst. cbn [w_pend]. lia.
      + apply run_tx_fail in R; [|exact O]. subst. lia.
    - cbn [vstep]. destruct (run_tx w c _) as [w' out] eqn:R. cbn [fst]. destruct (vo_ok out) eqn:O.
      + apply run_tx_some in R as (l1 & ev & _ & F & _); [|exact O]. unfold gov_withdraw_refund in F.
        destruct (negb _); [discriminate|]. cbn [w_gov] in F.
        destruct (refund_of _ _ _ _ =? 0); [inversion F; subst; cbn [w_pend]; lia|].
        destruct (transfer _ _ _ _ _); inversion F; subst. cbn [w_pend]. lia.
      + apply run_tx_fail in R; [|exact O]. subst. lia.
    - cbn [vstep]. destruct (find_pending id (w_pend w)) as [p|] eqn:F; [|cbn [fst]; lia].
      destruct (gp_stage p); [|cbn [fst]; lia].
      destruct (if ok then _ else _); cbn [fst w_pend]; [|lia].
      rewrite (npend_replace h _ _ _ _ F). lia.
    - cbn [vstep]. destruct (find_pending id (w_pend w)) as [p|] eqn:F; [|cbn [fst]; lia].
      destruct (gp_stage p) as [|ok rets]; [cbn [fst]; lia|].
      destruct (callback true self (w_gov w) p ok rets) as [g' ev]. cbn [fst w_pend].
      pose proof (npend_remove h _ _ _ F).
      destruct (tl_for p h); destruct ok; cbn [Bool.eqb andb b2n] in *; lia.
  Qed.

  (* ---------- histories ---------- *)
  Fixpoint total (f : gworld -> vop -> bytes -> N) (w : gworld) (os : list vop) (h : bytes) : N :=
    match os with [] => 0 | o :: r => f w o h + total f (fst (step w o)) r h end.

  Lemma vrun_cons w o r : vrun H verify true w (o :: r) = vrun H verify true (fst (step w o)) r.
  Proof. reflexivity. Qed.

  Theorem eta_potential_history os : forall w h,
    total accept_of w os h + bnz (eta (vrun H verify true w os) h) <= total sched_of w os h + total (cb_of false) w os h + bnz (eta w h).
  Proof.
    induction os as [|o r IH]; intros w h; [cbn; lia|]. rewrite vrun_cons. cbn [total].
    pose proof (eta_potential w o h). pose proof (IH (fst (step w o)) h). lia.
  Qed.
  Theorem pending_potential_history os : forall w h,
    total (cb_of true) w os h + total (cb_of false) w os h + npend h (w_pend (vrun H verify true w os)) <= total accept_of w os h + npend h (w_pend w).
  Proof.
    induction os as [|o r IH]; intros w h; [cbn; lia|]. rewrite vrun_cons. cbn [total].
    pose proof (pending_potential w o h). pose proof (IH (fst (step w o)) h). lia.
  Qed.

  (* each scheduling authorises at most one successful dispatch *)
  Theorem successes_bounded_by_schedulings os w h :
    total (cb_of true) w os h <= total sched_of w os h + bnz (eta w h) + npend h (w_pend w).
  Proof.
    pose proof (eta_potential_history os w h). pose proof (pending_potential_history os w h). lia.
  Qed.
  (* and no more dispatches are accepted than schedulings plus failed calls given back *)
  Theorem accepts_bounded os w h :
    total accept_of w os h <= total sched_of w os h + total (cb_of false) w os h + bnz (eta w h).
  Proof. pose proof (eta_potential_history os w h). lia. Qed.
End GovCount.
