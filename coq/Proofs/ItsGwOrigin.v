(* The gateway inside the ITS world is driven by gateway operations only: over every operation of the ITS world (all 25 kinds, every
   asynchronous step) the gateway component of the new world is the gateway component of the old one after a list of GATEWAY operations,
   each of which is either the gateway transaction of that step (IGateway) or a validateMessage call made by the service.  Hence every
   theorem about gateway histories (C01 / C02: origin of approvals, at-most-once validation, ...) holds of the gateway inside the ITS
   world, and a released transfer traces back to a batch that was submitted to -- and accepted by -- the gateway in this history. *)
From Coq Require Import String List Arith NArith Lia Bool.
From Ax Require Import Lib.Bytes Lib.Mvx Lib.SolAbi Lib.Keccak Model.Check Model.Env Model.Gateway Model.TokenManager Model.Its
     Proofs.AListFacts Proofs.GatewayMsgs Proofs.TMFacts Proofs.ItsFacts Proofs.ItsWorld.
Import ListNotations.
Open Scope N_scope.

Definition is_val (o : gop) : Prop := match o with GValidate _ _ _ _ _ => True | _ => False end.

Section P.
  Variable H : bytes -> bytes.
  Variable verify : bytes -> bytes -> bytes -> bool.
  Variable al : list gop.       (* the gateway transactions of the history *)

  Lemma grun_app a : forall g b, grun H verify g (a ++ b) = grun H verify (grun H verify g a) b.
  Proof. induction a as [|o r IH]; intros g b; [reflexivity|]. cbn [app]. rewrite !grun_cons. apply IH. Qed.

  Definition gr (w w' : iworld) : Prop :=
    exists os, iw_gw w' = grun H verify (iw_gw w) os /\ Forall (fun o => In o al \/ is_val o) os.

  Lemma gr_refl w : gr w w.
  Proof. exists []. split; [reflexivity | constructor]. Qed.
  Lemma gr_trans a b c : gr a b -> gr b c -> gr a c.
  Proof. intros (o1 & E1 & F1) (o2 & E2 & F2). exists (o1 ++ o2). split; [rewrite grun_app, <- E1; exact E2 | apply Forall_app; split; assumption]. Qed.
  Lemma gr_same w w' : iw_gw w' = iw_gw w -> gr w w'.
  Proof. intro E. exists []. split; [exact E | constructor]. Qed.
  Lemma gr_gstep w o : In o al \/ is_val o -> gr w (w_gw_ w (fst (gstep H verify (iw_gw w) o))).
  Proof. intro A. exists [o]. split; [reflexivity | constructor; [exact A | constructor]]. Qed.

  Lemma call_contract_gr w c dc da p gt g w' ev : call_contract H w c dc da p gt g = Some (w', ev) -> gr w w'.
  Proof. intro R. apply call_contract_spec in R as (_ & _ & E & _). apply gr_same; assumption. Qed.
  Lemma route_message_gr w c d p gt g w' ev : route_message H w c d p gt g = Some (w', ev) -> gr w w'.
  Proof. intro R. apply route_message_spec in R as (dc & da & p' & _ & R). eapply call_contract_gr; eauto. Qed.
  Lemma tm_call_gr w c tma f w' : tm_call w c tma f = Some w' -> gr w w'.
  Proof. unfold tm_call. intro R. inv_some R. destruct p as [[[t' l'] rets] logs]. inversion R; subst. apply gr_same; reflexivity. Qed.
  Lemma call_tm_deploy_token_gr w c id m n s w' : call_tm_deploy_token w c id m n s = Some w' -> gr w w'.
  Proof. unfold call_tm_deploy_token. intro R. inv_some R. destruct p as [[[t' l'] rets] logs]. inversion R; subst. apply gr_same; reflexivity. Qed.
  Lemma gw_validate_gr w c chain id src ph w' b ev : gw_validate H w c chain id src ph = Some (w', b, ev) -> gr w w'.
  Proof.
    unfold gw_validate. intro V.
    destruct (validate_message H (iw_gw w) _ chain id src ph) as [[[g' b'] ev']|] eqn:E; [|discriminate]. inversion V; subst.
    pose proof (gr_gstep w (GValidate {| c_caller := ic_self c; c_owner := []; c_now := ic_now c |} chain id src ph) (or_intror I)) as G.
    cbn [gstep] in G. rewrite E in G. exact G.
  Qed.
  Lemma call_tm_give_gr w c token_id dest amount w' tok : call_tm_give w c token_id dest amount = Some (w', tok) -> gr w w'.
  Proof. intro G. apply call_tm_give_its in G as (_ & E & _). apply gr_same; assumption. Qed.
  Lemma call_tm_take_gr w c token_id tok amount w' : call_tm_take w c token_id tok amount = Some w' -> gr w w'.
  Proof. intro G. apply call_tm_take_its in G as (_ & E & _). apply gr_same; assumption. Qed.
  Lemma set_limits_gr items : forall w c w', set_limits w c items = Some w' -> gr w w'.
  Proof.
    induction items as [|[id l] r IH]; intros w c w' R; cbn [set_limits] in R; [inversion R; apply gr_refl|].
    inv_some R. apply IH in R. eapply gr_trans; [eapply tm_call_gr; eauto | exact R].
  Qed.
  Lemma deploy_tm_gr w c token_id ty token operator w' : deploy_tm w c token_id ty token operator = Some w' -> gr w w'.
  Proof. intro D. apply deploy_tm_spec in D as (_ & _ & t & ev & _ & ->). apply gr_same; reflexivity. Qed.

  Ltac grs :=
    repeat match goal with
    | Hx : call_contract _ _ _ _ _ _ _ _ = Some _ |- _ => apply call_contract_gr in Hx
    | Hx : route_message _ _ _ _ _ _ _ = Some _ |- _ => apply route_message_gr in Hx
    | Hx : tm_call _ _ _ _ = Some _ |- _ => apply tm_call_gr in Hx
    | Hx : call_tm_deploy_token _ _ _ _ _ _ = Some _ |- _ => apply call_tm_deploy_token_gr in Hx
    | Hx : gw_validate _ _ _ _ _ _ _ = Some _ |- _ => apply gw_validate_gr in Hx
    | Hx : call_tm_give _ _ _ _ _ = Some _ |- _ => apply call_tm_give_gr in Hx
    | Hx : call_tm_take _ _ _ _ _ = Some _ |- _ => apply call_tm_take_gr in Hx
    | Hx : set_limits _ _ _ = Some _ |- _ => apply set_limits_gr in Hx
    | Hx : deploy_tm _ _ _ _ _ _ = Some _ |- _ => apply deploy_tm_gr in Hx
    end.
  Ltac grstep := first
    [ apply gr_refl
    | eassumption
    | match goal with |- gr _ (w_push ?x _) => eapply (gr_trans _ x); [|apply gr_same; reflexivity] end
    | match goal with |- gr _ (w_its ?x _) => eapply (gr_trans _ x); [|apply gr_same; reflexivity] end
    | match goal with |- gr _ (w_led_ ?x _) => eapply (gr_trans _ x); [|apply gr_same; reflexivity] end
    | match goal with |- gr _ (w_tm ?x _ _) => eapply (gr_trans _ x); [|apply gr_same; reflexivity] end
    | match goal with |- gr _ (w_pend_ ?x _) => eapply (gr_trans _ x); [|apply gr_same; reflexivity] end
    | match goal with Hx : gr ?a ?b |- gr _ ?b => eapply gr_trans; [|exact Hx] end ].
  Ltac grgo := grs; repeat grstep.

  Lemma transmit_gr w c t dc da a gt g d w' ev : transmit H w c t dc da a gt g d = Some (w', ev) -> gr w w'.
  Proof. unfold transmit. intro R. inv_some R. grgo. Qed.
  Lemma deploy_token_raw_gr w c ds dest n sy d m e w' ev : deploy_token_raw H w c ds dest n sy d m e = Some (w', ev) -> gr w w'.
  Proof. unfold deploy_token_raw, remote_base. intro R. inv_some R; inversion R; subst; grgo. Qed.
  Lemma process_transfer_gr w c orig chain id src ph payload w' ev : process_transfer H w c orig chain id src ph payload = Some (w', ev) -> gr w w'.
  Proof. unfold process_transfer. intro R. inv_some R; inversion R; subst; grgo. Qed.
  Lemma process_deploy_gr w c chain id src ph payload w' ev : process_deploy H w c chain id src ph payload = Some (w', ev) -> gr w w'.
  Proof. unfold process_deploy. intro R. inv_some R; inversion R; subst; grgo. Qed.
  Lemma process_link_gr w c payload w' : process_link w c payload = Some w' -> gr w w'.
  Proof. unfold process_link. intro R. inv_some R. grgo. Qed.
  Lemma its_execute_gr w c chain id src payload w' ev : its_execute H w c chain id src payload = Some (w', ev) -> gr w w'.
  Proof.
    unfold its_execute. intro R. inv_some R.
    - eapply process_transfer_gr; eauto.
    - eapply process_deploy_gr; eauto.
    - inversion R; subst. match goal with L : process_link _ _ _ = Some _ |- _ => apply process_link_gr in L end. grgo.
  Qed.
  Lemma remote_raw_gr w c ds dc dm w' rets ev : remote_raw H w c ds dc dm = Some (w', rets, ev) -> gr w w'.
  Proof.
    unfold remote_raw. intro R. inv_some R; inversion R; subst.
    - match goal with D : deploy_token_raw _ _ _ _ _ _ _ _ _ _ = Some _ |- _ => apply deploy_token_raw_gr in D; exact D end.
    - grgo.
  Qed.
  Lemma register_custom_raw_gr w c ds tok ty lp w' rets ev : register_custom_raw H w c ds tok ty lp = Some (w', rets, ev) -> gr w w'.
  Proof. unfold register_custom_raw. intro R. inv_some R. inversion R; subst. grgo. Qed.
  Lemma metadata_callback_gr w c tok gas caller res w' ev : metadata_callback H w c tok gas caller res = Some (w', ev) -> gr w w'.
  Proof. unfold metadata_callback. intro T. inv_some T; try (inversion T; subst); grgo. Qed.
  Lemma remote_callback_gr w c ds dc sym m gas caller res w' ev : remote_callback H w c ds dc sym m gas caller res = Some (w', ev) -> gr w w'.
  Proof.
    unfold remote_callback. intro T. inv_some T; try (inversion T; subst; grgo).
    all: try (apply deploy_token_raw_gr in T; grgo).
  Qed.

  (* every operation of every caller, and every asynchronous step *)
  Theorem istep_gr w o : (forall g, o = IGateway g -> In g al) -> gr w (fst (istep H verify w o)).
  Proof.
    intro HA.
    assert (ITX : forall c f, (forall w1 w2 rets ev, f w1 = Some (w2, rets, ev) -> gr w1 w2) -> gr w (fst (itx w c f))).
    { intros c f Hf. unfold itx. destruct (pay_in _ _ _ _) as [l1|]; [|apply gr_refl].
      destruct (f (w_led_ w l1)) as [[[w2 rets] ev]|] eqn:F; [|apply gr_refl]. cbn [fst].
      eapply gr_trans; [|eapply Hf; exact F]. apply gr_same; reflexivity. }
    destruct o; cbn [istep]; try (apply ITX; intros w1 w2 rets ev F; unfold norets in F).
    - destruct (gstep H verify (iw_gw w) o) as [g' r] eqn:G. cbn [fst].
      pose proof (gr_gstep w o (or_introl (HA o eq_refl))) as M. rewrite G in M. exact M.
    - destruct (its_execute H w1 c chain id src payload) as [[w3 ev3]|] eqn:X; inversion F; subst. eapply its_execute_gr; eauto.
    - destruct (interchain_transfer H w1 c token_id dest_chain dest_addr metadata gas) as [[w3 ev3]|] eqn:X; inversion F; subst.
      unfold interchain_transfer in X. inv_some X. apply transmit_gr in X. grgo.
    - destruct (call_contract_with_token H w1 c token_id dest_chain dest_addr data gas) as [[w3 ev3]|] eqn:X; inversion F; subst.
      unfold call_contract_with_token in X. inv_some X. apply transmit_gr in X. grgo.
    - destruct (register_token_metadata w1 c token) as [[w3 ev3]|] eqn:X; inversion F; subst.
      unfold register_token_metadata in X. inv_some X. inversion X; subst. grgo.
    - unfold deploy_interchain_token_ep in F. inv_some F; inversion F; subst.
      all: try (match goal with D : deploy_token_raw _ _ _ _ _ _ _ _ _ _ = Some _ |- _ => apply deploy_token_raw_gr in D end).
      all: grgo.
    - destruct (approve_remote H w1 c deployer salt dest_chain dest_minter) as [[w3 ev3]|] eqn:X; inversion F; subst.
      apply approve_remote_spec in X as (_ & _ & ->). grgo.
    - destruct (revoke_remote H w1 c deployer salt dest_chain) as [[w3 ev3]|] eqn:X; inversion F; subst.
      apply revoke_remote_spec in X. subst. grgo.
    - unfold deploy_remote_with_minter in F. inv_some F; apply remote_raw_gr in F; grgo.
    - unfold register_canonical in F. inv_some F. apply register_custom_raw_gr in F. exact F.
    - unfold deploy_remote_canonical in F. inv_some F. apply remote_raw_gr in F. exact F.
    - unfold register_custom_token in F. inv_some F. apply register_custom_raw_gr in F. exact F.
    - unfold link_token in F. inv_some F. inversion F; subst. grgo.
    - destruct (set_flow_limits w1 c ids limits) as [[w3 ev3]|] eqn:X; inversion F; subst.
      unfold set_flow_limits in X. inv_some X. inversion X; subst. grgo.
    - destruct (set_trusted_address w1 c chain a) as [[w3 ev3]|] eqn:X; inversion F; subst.
      unfold set_trusted_address in X. inv_some X. inversion X; subst. grgo.
    - destruct (remove_trusted_address w1 c chain) as [[w3 ev3]|] eqn:X; inversion F; subst.
      unfold remove_trusted_address in X. inv_some X. inversion X; subst. grgo.
    - destruct (pause_ep w1 c b) as [[w3 ev3]|] eqn:X; inversion F; subst.
      apply pause_spec in X as (_ & -> & _). grgo.
    - destruct (its_transfer_operatorship w1 c a) as [[w3 ev3]|] eqn:X; inversion F; subst.
      unfold its_transfer_operatorship in X. inv_some X. inversion X; subst. grgo.
    - destruct (its_propose_operatorship w1 c a) as [[w3 ev3]|] eqn:X; inversion F; subst.
      unfold its_propose_operatorship in X. inv_some X. inversion X; subst. grgo.
    - destruct (its_accept_operatorship w1 c from) as [[w3 ev3]|] eqn:X; inversion F; subst.
      unfold its_accept_operatorship in X. inv_some X. inversion X; subst. grgo.
    - destruct (get_tm w tma) as [t|]; [|apply gr_refl].
      destruct o; try apply gr_refl; destruct (tstep t (iw_led w) _) as [[t' l'] out]; cbn [fst]; try solve [grgo].
      destruct (to_ok out); grgo.
    - destruct (find_ip id (iw_pend w)) as [p|]; [|apply gr_refl].
      destruct (ip_kind p); try apply gr_refl. destruct (ip_stage p); try apply gr_refl.
      destruct (if ok then _ else _); [|apply gr_refl]. cbn [fst]. grgo.
    - destruct (find_ip id (iw_pend w)) as [p|]; [|apply gr_refl].
      destruct (ip_kind p); try apply gr_refl. destruct (ip_stage p) as [|ok]; try apply gr_refl.
      destruct (transfer_callback H _ c chain id0 src ph token_id tok amount ok) as [[w1 ev1]|] eqn:T; cbn [fst]; [|grgo].
      unfold transfer_callback in T. destruct ok; inv_some T; inversion T; subst; grgo.
    - destruct (find_ip id (iw_pend w)) as [p|]; [|apply gr_refl].
      destruct (ip_kind p); try apply gr_refl.
      + destruct (metadata_callback H _ c tok gas caller res) as [[w1 ev1]|] eqn:T; cbn [fst]; [|grgo].
        apply metadata_callback_gr in T. grgo.
      + destruct (remote_callback H _ c deploy_salt dest_chain symbol minter gas caller res) as [[w1 ev1]|] eqn:T; cbn [fst]; [|grgo].
        apply remote_callback_gr in T. grgo.
    - destruct (find_ip id (iw_pend w)) as [p|]; [|apply gr_refl].
      destruct (ip_kind p); try apply gr_refl. destruct (get_tm w tm) as [t|]; [|apply gr_refl].
      destruct (tstep t (iw_led w) _) as [[t' l'] out]. cbn [fst]. grgo.
  Qed.

  Theorem irun_gr ops : forall w, (forall g, In (IGateway g) ops -> In g al) -> gr w (irun H verify w ops).
  Proof.
    induction ops as [|o r IH]; intros w HA; [apply gr_refl|].
    change (irun H verify w (o :: r)) with (irun H verify (fst (istep H verify w o)) r).
    eapply gr_trans; [apply (istep_gr w o); intros g Eo; apply HA; left; exact Eo | apply IH; intros g Hg; apply HA; right; exact Hg].
  Qed.

End P.

Section Origin.
  Variable H : bytes -> bytes.
  Variable verify : bytes -> bytes -> bytes -> bool.

  (* the gateway transactions of an ITS-world history *)
  Definition gops (ops : list iop) : list gop := flat_map (fun o => match o with IGateway g => [g] | _ => [] end) ops.
  Lemma gops_in g ops : In g (gops ops) <-> In (IGateway g) ops.
  Proof.
    unfold gops. rewrite in_flat_map. split.
    - intros (o & Hin & Hg). destruct o; cbn in Hg; try contradiction. destruct Hg as [->|[]]. exact Hin.
    - intro Hin. exists (IGateway g). split; [exact Hin | left; reflexivity].
  Qed.

  (* the gateway of the world after ANY history is the initial gateway after a list of gateway operations, each of them a gateway
     transaction of that history or a validateMessage call *)
  Theorem its_gateway_projection ops w :
    exists os, iw_gw (irun H verify w ops) = grun H verify (iw_gw w) os /\ Forall (fun o => In (IGateway o) ops \/ is_val o) os.
  Proof.
    destruct (irun_gr H verify (gops ops) ops w) as (os & E & F); [intros g Hg; apply gops_in; exact Hg|].
    exists os. split; [exact E|]. eapply Forall_impl; [|exact F]. intros o [A|A]; [left; apply gops_in; exact A | right; exact A].
  Qed.

  (* a message collected by batch_msgs was in a batch submitted by an approveMessages operation of the list and accepted by the
     gateway in the state it had at that point *)
  Lemma batch_msgs_source os : forall g m, In m (batch_msgs H verify g os) ->
    exists pre c raw p post ms, os = pre ++ GApprove c raw p :: post /\
      approve_messages H verify (grun H verify g pre) raw p <> None /\ dec_messages_top raw = Some ms /\ In m ms.
  Proof.
    induction os as [|o r IH]; intros g m Hin; [destruct Hin|].
    cbn [batch_msgs] in Hin. apply in_app_or in Hin as [Hin|Hin].
    - destruct o as [c raw p|c s p|c chain id src ph|c a|c chain addr payload|c chain id src contract ph|c chain id]; try destruct Hin.
      destruct (approve_messages H verify g raw p) as [x|] eqn:A; [|destruct Hin].
      destruct (dec_messages_top raw) as [ms|] eqn:D; [|destruct Hin].
      exists [], c, raw, p, r, ms. repeat split; auto. cbn [grun fold_left]. rewrite A. discriminate.
    - apply IH in Hin as (pre & c & raw & p & post & ms & -> & A & D & M).
      exists (o :: pre), c, raw, p, post, ms. repeat split; auto.
  Qed.

  (* END TO END, approvals: an approval held by the gateway inside the ITS world after any history that started without it was put
     there by an approveMessages transaction OF THIS HISTORY whose batch contained a message with that id and exactly that hash, and
     which the gateway accepted (hence, by c01_sound, with a weighted-threshold proof of a registered signer set inside the window) *)
  Theorem its_approval_from_history ops w k h :
    mst (iw_gw w) k = None ->
    mst (iw_gw (irun H verify w ops)) k = Some (MApproved h) ->
    exists c raw p ms m pre,
      In (IGateway (GApprove c raw p)) ops /\ dec_messages_top raw = Some ms /\ In m ms /\ mkey m = k /\ h = mhash H m /\
      Forall (fun o => In (IGateway o) ops \/ is_val o) pre /\
      approve_messages H verify (grun H verify (iw_gw w) pre) raw p <> None.
  Proof.
    intros E0 E1. destruct (its_gateway_projection ops w) as (os & Eg & F). rewrite Eg in E1.
    apply approval_origin in E1 as [E1|(m & Hin & Hk & Hh)]; [congruence|].
    apply batch_msgs_source in Hin as (pre & c & raw & p & post & ms & -> & A & D & M).
    apply Forall_app in F as [Fpre Fr]. inversion Fr as [|x l Hx Hl]; subst.
    exists c, raw, p, ms, m, pre. repeat split; auto.
    destruct Hx as [Hx|Hx]; [exact Hx | destruct Hx].
  Qed.

  (* END TO END, release: tokens released for an inbound transfer (no data) in the world reached by any history from a world that did
     not know the message trace back to such a transaction, whose batch named exactly this (chain, id) and hashed exactly this source
     address, the service as destination contract and this payload hash *)
  Theorem release_traces_to_batch ops w0 c orig chain id src ph payload w' ev token_id osrc dest amount ty :
    mst (iw_gw w0) (chain, id) = None ->
    dec_impl [PUint; PBytes32; PBytes; PBytes; PUint; PBytes] payload = Some [TUint ty; TBytes32 token_id; TBytes osrc; TBytes dest; TUint amount; TBytes []] ->
    process_transfer H (irun H verify w0 ops) c orig chain id src ph payload = Some (w', ev) ->
    exists cg raw p ms m pre,
      In (IGateway (GApprove cg raw p)) ops /\ dec_messages_top raw = Some ms /\ In m ms /\ mkey m = (chain, id) /\
      mhash H m = message_hash H chain id src (ic_self c) ph /\
      Forall (fun o => In (IGateway o) ops \/ is_val o) pre /\
      approve_messages H verify (grun H verify (iw_gw w0) pre) raw p <> None.
  Proof.
    intros E0 D R. apply (process_transfer_nodata_spec H) with (1 := D) in R as (_ & A & _).
    apply is_approved_with_spec in A.
    destruct (its_approval_from_history ops w0 _ _ E0 A) as (cg & raw & p & ms & m & pre & I1 & I2 & I3 & I4 & I5 & I6 & I7).
    exists cg, raw, p, ms, m, pre. repeat split; auto.
  Qed.
  (* the same for an inbound token deployment (either of its two steps) *)
  Theorem deploy_traces_to_batch ops w0 c chain id src ph payload w' ev token_id name symbol dec minter ty :
    mst (iw_gw w0) (chain, id) = None ->
    dec_impl [PUint; PBytes32; PString; PString; PUint8; PBytes] payload = Some [TUint ty; TBytes32 token_id; TString name; TString symbol; TUint8 dec; TBytes minter] ->
    process_deploy H (irun H verify w0 ops) c chain id src ph payload = Some (w', ev) ->
    exists cg raw p ms m pre,
      In (IGateway (GApprove cg raw p)) ops /\ dec_messages_top raw = Some ms /\ In m ms /\ mkey m = (chain, id) /\
      mhash H m = message_hash H chain id src (ic_self c) ph /\
      Forall (fun o => In (IGateway o) ops \/ is_val o) pre /\
      approve_messages H verify (grun H verify (iw_gw w0) pre) raw p <> None.
  Proof.
    intros E0 D R. apply (process_deploy_spec H) with (1 := D) in R as (A & _).
    apply is_approved_with_spec in A.
    destruct (its_approval_from_history ops w0 _ _ E0 A) as (cg & raw & p & ms & m & pre & I1 & I2 & I3 & I4 & I5 & I6 & I7).
    exists cg, raw, p, ms, m, pre. repeat split; auto.
  Qed.
End Origin.
