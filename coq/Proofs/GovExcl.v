(* C11 / C12: a time lock is never scheduled and in flight at once.  In every world reachable from one where it holds (in particular from a
   freshly deployed contract), for every proposal hash: the stored eta is zero or the in-flight marker is clear -- over all nine operation kinds
   and every placement of target calls and callbacks.  Consequence: the write of an error callback (which gives a failed dispatch its eta
   back) never lands on an eta that a governance command has set in the meantime: when a callback changes the eta of h, the eta of h was zero,
   the dispatch of h was still marked in flight and the call had failed.  "Time locks change only through a governance command" -- the
   callback only undoes the consumption made by the dispatch it belongs to. *)
From Coq Require Import String List NArith Lia Bool.
From Ax Require Import Lib.Bytes Lib.Mvx Model.Check Model.Env Model.Gateway Model.Governance
     Proofs.GovFacts Proofs.GovWorld.
Import ListNotations.
Open Scope N_scope.

Section GovExcl.
  Variable H : bytes -> bytes.
  Variable verify : bytes -> bytes -> bytes -> bool.
  Notation phash := (proposal_hash H).
  Notation step := (vstep H verify true).
  Notation eta w h := (getN (gv_eta (w_gov w)) h).
  Notation flight w h := (getN (gv_tl_flight (w_gov w)) h).

  Definition Excl (w : gworld) : Prop := forall h, eta w h = 0 \/ flight w h = 0.

  Lemma tables_excl w w' : tables w' = tables w -> Excl w -> Excl w'.
  Proof. unfold tables, Excl. intros E X h. inversion E as [[A B C D]]. rewrite A, B. apply X. Qed.

  Theorem excl_step w o : Excl w -> Excl (fst (step w o)).
  Proof.
    intro X. pose proof (tables_frame H verify w o) as TF.
    destruct o as [go|c chain id src payload|c t cd v|c t cd v|c r a|c a|c tok nonce|self id ok rets|self id];
      try (eapply tables_excl; [exact TF | exact X]).
    - (* execute: a governance command *)
      cbn [vstep]. destruct (run_tx w c (fun w1 => gov_execute H true w1 c chain id src payload)) as [w' out] eqn:R. cbn [fst].
      destruct (vo_ok out) eqn:O.
      2:{ apply run_tx_fail in R; [|exact O]. subst. exact X. }
      apply run_tx_some in R as (l1 & ev & _ & F & _); [|exact O].
      apply gov_execute_spec in F as (_ & _ & _ & _ & _ & _ & _ & p & g' & ev' & D & _ & PC & Eg). cbn [w_gov] in PC.
      apply process_command_spec in PC. cbv zeta in PC. destruct PC as (_ & _ & Oth & K).
      intro h. rewrite Eg.
      destruct (bytes_eqb h (phash (xp_target p) (xp_call_data p) (xp_value p))) eqn:E.
      + apply bytes_eqb_eq in E. subst h.
        destruct (xp_cmd p =? 0).
        * destruct K as (_ & _ & _ & _ & K & _). right. exact K.
        * destruct (xp_cmd p =? 1).
          { destruct K as (K & _). left. exact K. }
          destruct (xp_cmd p =? 2).
          { destruct K as (_ & A & B & _). rewrite A, B. apply X. }
          destruct K as (_ & _ & A & B). rewrite A, B. apply X.
      + apply bytes_eqb_neq in E. destruct (Oth h E) as (A & B & _). rewrite A, B. apply X.
    - (* executeProposal: consumes the eta, marks the dispatch *)
      cbn [vstep]. destruct (run_tx w c (fun w1 => execute_proposal H true w1 c t cd v)) as [w' out] eqn:R. cbn [fst].
      destruct (vo_ok out) eqn:O.
      2:{ apply run_tx_fail in R; [|exact O]. subst. exact X. }
      apply run_tx_some in R as (l1 & ev & _ & F & _); [|exact O].
      apply (execute_proposal_spec H) in F. cbv zeta in F. cbn [w_gov] in F.
      destruct F as (_ & _ & Z & _ & _ & _ & _ & _ & Oth & _).
      intro h. destruct (bytes_eqb h (phash t cd v)) eqn:E.
      + apply bytes_eqb_eq in E. subst h. left. exact Z.
      + apply bytes_eqb_neq in E. destruct (Oth h E) as (A & B). rewrite A, B. apply X.
    - (* executeOperatorProposal: the time-lock tables are untouched *)
      cbn [vstep]. destruct (run_tx w c (fun w1 => execute_operator_proposal H true w1 c t cd v)) as [w' out] eqn:R. cbn [fst].
      destruct (vo_ok out) eqn:O.
      2:{ apply run_tx_fail in R; [|exact O]. subst. exact X. }
      apply run_tx_some in R as (l1 & ev & _ & F & _); [|exact O].
      apply (execute_operator_proposal_spec H) in F. cbv zeta in F. cbn [w_gov] in F.
      destruct F as (_ & _ & _ & _ & A & B & _). intro h. rewrite A, B. apply X.
    - (* callback: clears the marker *)
      cbn [vstep]. destruct (find_pending id (w_pend w)) as [p|] eqn:F; [|exact X].
      destruct (gp_stage p) as [|ok rets] eqn:S; [exact X|].
      destruct (callback true self (w_gov w) p ok rets) as [g' ev] eqn:CB. cbn [fst w_gov].
      apply callback_spec in CB. cbv zeta in CB. destruct CB as (_ & _ & M).
      intro h. cbn [w_gov]. destruct (gp_kind p).
      + destruct M as (_ & _ & Z & Oth & _).
        destruct (bytes_eqb h (gp_hash p)) eqn:E.
        * apply bytes_eqb_eq in E. subst h. right. exact Z.
        * apply bytes_eqb_neq in E. destruct (Oth h E) as (A & B). rewrite A, B. apply X.
      + destruct M as (A & B & _). rewrite A, B. apply X.
  Qed.

  Theorem excl_reachable ops : forall w, Excl w -> Excl (vrun H verify true w ops).
  Proof. induction ops as [|o r IH]; intros w X; [exact X|]. cbn [vrun fold_left]. apply IH. apply excl_step. exact X. Qed.

  (* a world whose time-lock tables are empty (a freshly deployed contract) satisfies the invariant *)
  Lemma excl_fresh w : gv_eta (w_gov w) = [] -> Excl w.
  Proof. intros E h. left. rewrite E. reflexivity. Qed.

  (* what a callback can do to an eta: only give a failed, still-marked dispatch its eta back -- onto a slot that holds nothing *)
  Theorem callback_restores_only_onto_empty w self id h :
    Excl w ->
    eta (fst (step w (VCallback self id))) h <> eta w h ->
    exists p rets, find_pending id (w_pend w) = Some p /\ gp_stage p = AwaitCallback false rets /\ gp_kind p = PTimeLock /\ gp_hash p = h /\
                   eta w h = 0 /\ flight w h <> 0 /\ eta (fst (step w (VCallback self id))) h = gp_eta p.
  Proof.
    intros X. cbn [vstep]. destruct (find_pending id (w_pend w)) as [p|] eqn:F; [|cbn [fst]; congruence].
    destruct (gp_stage p) as [|ok rets] eqn:S; [cbn [fst]; congruence|].
    destruct (callback true self (w_gov w) p ok rets) as [g' ev] eqn:CB. cbn [fst w_gov].
    apply callback_spec in CB. cbv zeta in CB. destruct CB as (_ & _ & M).
    destruct (gp_kind p) eqn:K.
    - destruct M as (_ & _ & _ & Oth & Et).
      destruct (bytes_eqb h (gp_hash p)) eqn:E.
      + apply bytes_eqb_eq in E. subst h. rewrite Et. destruct ok; [congruence|].
        destruct (N.eqb_spec (flight w (gp_hash p)) 0) as [Z|NZ]; [congruence|].
        intros _. exists p, rets. destruct (X (gp_hash p)) as [E0|E0]; [|contradiction].
        repeat (split; try reflexivity; try assumption).
      + apply bytes_eqb_neq in E. destruct (Oth h E) as (A & _). congruence.
    - destruct M as (A & _). rewrite A. congruence.
  Qed.

  (* an eta changes only through a governance command (execute), its consumption by executeProposal, or the restoring callback above *)
  Theorem eta_changes_only_by w o h :
    eta (fst (step w o)) h <> eta w h ->
    match o with VExecute _ _ _ _ _ | VExecProposal _ _ _ _ | VCallback _ _ => True | _ => False end.
  Proof.
    pose proof (tables_frame H verify w o) as TF.
    destruct o as [go|c chain id src payload|c t cd v|c t cd v|c r a|c a|c tok nonce|self id ok rets|self id]; try (intros _; exact I);
      try (unfold tables in TF; inversion TF as [[A B C D]]; rewrite A; congruence).
    cbn [vstep]. destruct (run_tx w c (fun w1 => execute_operator_proposal H true w1 c t cd v)) as [w' out] eqn:R. cbn [fst].
    destruct (vo_ok out) eqn:O.
    2:{ apply run_tx_fail in R; [|exact O]. subst. congruence. }
    apply run_tx_some in R as (l1 & ev & _ & F & _); [|exact O].
    apply (execute_operator_proposal_spec H) in F. cbv zeta in F. cbn [w_gov] in F.
    destruct F as (_ & _ & _ & _ & A & _). rewrite A. congruence.
  Qed.
  (* ---------- operator approvals (C12) ---------- *)
  Notation appr w h := (getN (gv_approvals (w_gov w)) h).
  Notation opflight w h := (getN (gv_op_flight (w_gov w)) h).

  (* an approval changes only through a governance command (execute), its consumption by executeOperatorProposal, or the callback of a failed operator dispatch *)
  Theorem approval_changes_only_by w o h :
    appr (fst (step w o)) h <> appr w h ->
    match o with VExecute _ _ _ _ _ | VExecOperator _ _ _ _ | VCallback _ _ => True | _ => False end.
  Proof.
    pose proof (tables_frame H verify w o) as TF.
    destruct o as [go|c chain id src payload|c t cd v|c t cd v|c r a|c a|c tok nonce|self id ok rets|self id]; try (intros _; exact I);
      try (unfold tables in TF; inversion TF as [[A B C D]]; rewrite C; congruence).
    cbn [vstep]. destruct (run_tx w c (fun w1 => execute_proposal H true w1 c t cd v)) as [w' out] eqn:R. cbn [fst].
    destruct (vo_ok out) eqn:O.
    2:{ apply run_tx_fail in R; [|exact O]. subst. congruence. }
    apply run_tx_some in R as (l1 & ev & _ & F & _); [|exact O].
    apply (execute_proposal_spec H) in F. cbv zeta in F. cbn [w_gov] in F.
    destruct F as (_ & _ & _ & _ & A & _). rewrite A. congruence.
  Qed.

  (* what a callback can do to an approval: only give the approval back to a failed operator dispatch that is still marked in flight
     (a cancel-approval command in between clears the marker, and then nothing comes back) *)
  Theorem callback_restores_approval_only_in_flight w self id h :
    appr (fst (step w (VCallback self id))) h <> appr w h ->
    exists p rets, find_pending id (w_pend w) = Some p /\ gp_stage p = AwaitCallback false rets /\ gp_kind p = POperator /\ gp_hash p = h /\
                   opflight w h <> 0 /\ appr (fst (step w (VCallback self id))) h = 1.
  Proof.
    cbn [vstep]. destruct (find_pending id (w_pend w)) as [p|] eqn:F; [|cbn [fst]; congruence].
    destruct (gp_stage p) as [|ok rets] eqn:S; [cbn [fst]; congruence|].
    destruct (callback true self (w_gov w) p ok rets) as [g' ev] eqn:CB. cbn [fst w_gov].
    apply callback_spec in CB. cbv zeta in CB. destruct CB as (_ & _ & M).
    destruct (gp_kind p) eqn:K.
    - destruct M as (A & _). rewrite A. congruence.
    - destruct M as (_ & _ & _ & Oth & Et).
      destruct (bytes_eqb h (gp_hash p)) eqn:E.
      + apply bytes_eqb_eq in E. subst h. rewrite Et. destruct ok; [congruence|].
        destruct (N.eqb_spec (opflight w (gp_hash p)) 0) as [Z|NZ]; [congruence|].
        intros _. exists p, rets. repeat (split; try reflexivity; try assumption).
      + apply bytes_eqb_neq in E. destruct (Oth h E) as (A & _). congruence.
  Qed.
End GovExcl.
